(* The judge is sound: an observation that agrees with the model satisfies the property. *)
From SC Require Import Base.Prelude Pages.Pager Pages.C15Judge Pages.PagerProofs Pages.WasteProofs.
From Coq Require Import Sorted.

Local Open Scope Z_scope.

Lemma option_eqb_eq {A} (eqb : A -> A -> bool) (Hs : forall x y, eqb x y = true -> x = y) :
  forall a b : option A, option_eqb eqb a b = true -> a = b.
Proof. intros [x|] [y|] H; simpl in H; try discriminate; auto. f_equal. auto. Qed.

Lemma outcome_eqb_eq {T} (teqb : T -> T -> bool) (Hs : forall x y, teqb x y = true -> x = y) :
  forall a b : outcome T, outcome_eqb teqb a b = true -> a = b.
Proof.
  intros [k1 n1 t1|c1|] [k2 n2 t2|c2|] H; simpl in H; try discriminate; auto.
  - apply andb_true_iff in H. destruct H as [H Ht]. apply andb_true_iff in H. destruct H as [Hk Hn].
    apply (list_eqb_eq String.eqb (fun x y => proj1 (String.eqb_eq x y))) in Hk.
    apply (option_eqb_eq teqb Hs) in Hn. apply Z.eqb_eq in Ht. subst. reflexivity.
  - apply Z.eqb_eq in H. subst. reflexivity.
Qed.

Lemma agrees_keys s keys size tok obs :
  agrees (KKeys s keys size tok obs) = true ->
  obs = key_chain (variant_of s) keys size (harness_fuel keys) tok.
Proof.
  simpl. apply list_eqb_eq. apply outcome_eqb_eq. intros x y. apply String.eqb_eq.
Qed.

Lemma agrees_waste ids size tok obs :
  agrees (KWaste ids size tok obs) = true ->
  obs = waste_chain ids size (harness_fuel ids) tok.
Proof.
  simpl. apply list_eqb_eq. apply outcome_eqb_eq. intros x y. apply Z.eqb_eq.
Qed.

Theorem judge_sound c : C15_guard c = true -> agrees c = true -> C15_ok c = true.
Proof.
  destruct c as [s keys size tok obs|ids size tok obs]; intros Hg Ha.
  - rewrite (agrees_keys _ _ _ _ _ Ha). apply key_model_ok. exact Hg.
  - rewrite (agrees_waste _ _ _ _ Ha). apply waste_model_ok.
Qed.

Corollary judge_zero c : C15_guard c = true -> agrees c = true -> judge c = 0.
Proof.
  intros Hg Ha. unfold judge. rewrite Ha, Hg, (judge_sound c Hg Ha). reflexivity.
Qed.

(* ------------------------------------------------------------------ *)
(* Statements in Prop form (used by Props/C15.v)                       *)
(* ------------------------------------------------------------------ *)

(* every answer is a page of at most c items reporting total n *)
Definition pages_within {T} (c n : Z) (obs : list (outcome T)) : Prop :=
  Forall (fun o => exists k nx, o = OPage k nx n /\ zlen k <= c) obs.

Lemma page_fits_within {T} c n (obs : list (outcome T)) :
  forallb (page_fits c n) obs = true -> pages_within c n obs.
Proof.
  intros H. apply Forall_forall. intros o Ho.
  rewrite forallb_forall in H. specialize (H o Ho). destruct o as [k nx t| |]; simpl in H; try discriminate.
  apply andb_true_iff in H. destruct H as [Hk Ht]. apply Z.eqb_eq in Ht. apply Z.leb_le in Hk.
  subst. exists k, nx. auto.
Qed.

(* key-token servers, any well-formed first token, any number of allowed calls >= the bound *)
Theorem key_pages_enumerate s keys size tok fuel :
  keys_wf keys = true -> 0 <= size -> tok <> TokMalformed ->
  let rest := expected_after keys tok in
  let c := cap_page_size size in
  zlen rest / c + 1 <= Z.of_nat fuel ->
  let obs := key_chain (variant_of s) keys size fuel tok in
  zlen obs = zlen rest / c + 1
  /\ chain_shape_ok obs = true
  /\ concat_keys obs = rest
  /\ NoDup (concat_keys obs)
  /\ pages_within c (zlen keys) obs.
Proof.
  intros Hwf Hsize Htok rest c Hfuel obs.
  destruct (keys_wf_spec keys Hwf) as [Hs Hne].
  destruct (token_split (variant_of s) keys tok Hs Htok) as [pre [Hk Hni]].
  assert (Hg : chain_good rest c (zlen keys) obs).
  { apply (key_chain_from (variant_of s) keys size Hs Hne Hsize fuel pre rest tok Hk Htok Hni). fold c. lia. }
  destruct Hg as [Hsh [Hcat [Hfit Hlen]]].
  repeat split; auto.
  - rewrite Hcat. apply SS_NoDup. rewrite Hk in Hs. destruct (SS_app_inv _ _ _ Hs) as [_ [Hr _]]. exact Hr.
  - apply page_fits_within. exact Hfit.
Qed.

Lemma cap_page_size_spec size : 0 <= size ->
  cap_page_size size = (if size =? 0 then 50 else Z.min size 1000).
Proof. intros H. symmetry. apply (cap_is_spec size H). Qed.

(* the parent handler's search-then-skip is the same function as the others' search *)
Theorem next_index_variants_agree keys k :
  strictly_sorted keys = true -> next_index VGeSkip keys k = next_index VGreater keys k.
Proof.
  intros Hs. apply strictly_sorted_SS in Hs.
  assert (Ht : TokKey k <> TokMalformed) by discriminate.
  destruct (token_split VGeSkip keys (TokKey k) Hs Ht) as [p1 [H1 N1]].
  destruct (token_split VGreater keys (TokKey k) Hs Ht) as [p2 [H2 N2]].
  simpl last_key in *. rewrite N1, N2.
  assert (zlen keys = zlen p1 + zlen (expected_after keys (TokKey k))) by (rewrite <- zlen_app; f_equal; exact H1).
  assert (zlen keys = zlen p2 + zlen (expected_after keys (TokKey k))) by (rewrite <- zlen_app; f_equal; exact H2).
  lia.
Qed.

Theorem key_page_variants_agree keys tok size :
  strictly_sorted keys = true -> key_page VGeSkip keys tok size = key_page VGreater keys tok size.
Proof.
  intros Hs. unfold key_page, key_page_core.
  rewrite (next_index_variants_agree keys (last_key tok) Hs). reflexivity.
Qed.

(* bad inputs: one InvalidArgument answer, whatever the collection (no hypotheses on keys) *)
Theorem key_bad_input_rejected v keys size tok fuel :
  tok = TokMalformed \/ size < 0 ->
  key_chain v keys size (S fuel) tok = [OErr InvalidArgument].
Proof. intros H. apply key_chain_rejects; auto. lia. Qed.

Theorem waste_bad_input_rejected ids size tok fuel :
  tok = WMalformed \/ (exists z, tok = WNum z /\ (z < 0 \/ zlen ids < z)) \/ size < 0 ->
  waste_chain ids size (S fuel) tok = [OErr InvalidArgument].
Proof.
  intros H. apply waste_chain_rejects; [|lia].
  destruct H as [->|[[z [-> Hz]]|H]]; [left; reflexivity|left|right; exact H].
  simpl. apply orb_true_iff. destruct Hz; [left; apply Z.ltb_lt|right; apply Z.ltb_lt]; assumption.
Qed.

(* a panic is never an outcome of the current handler on a sorted listing, however many calls
   the client makes and whatever it sends *)
Lemma key_chain_no_panic_from v keys size :
  StronglySorted slt keys -> ~ In EmptyString keys -> 0 <= size ->
  forall fuel pre rest tok, keys = pre ++ rest -> tok <> TokMalformed ->
    next_index v keys (last_key tok) = zlen pre ->
    ~ In OPanic (key_chain v keys size fuel tok).
Proof.
  intros Hs Hne Hpos.
  induction fuel as [|f' IH]; intros pre rest tok Hk Htok Hni Hin; [exact Hin|].
  unfold key_chain in Hin. cbn [chain_with] in Hin.
  rewrite (key_page_ok_tok _ keys tok size Htok Hpos) in Hin.
  rewrite (key_page_core_split _ keys pre rest (last_key tok) size Hk Hni Hpos) in Hin.
  destruct (zlen rest <? cap_page_size size) eqn:Hlt.
  - destruct Hin as [H|[]]. discriminate.
  - destruct Hin as [H|Hin]; [discriminate|].
    pose proof (cap_bounds size Hpos) as Hc. apply Z.ltb_ge in Hlt.
    set (cn := Z.to_nat (cap_page_size size)) in *.
    assert (Hcn : (1 <= cn <= List.length rest)%nat) by (unfold cn, zlen in *; lia).
    set (k' := nth (cn - 1) rest EmptyString) in *.
    assert (HF : firstn cn rest = firstn (cn - 1) rest ++ [k']).
    { unfold k'. replace cn with (S (cn - 1)) at 1 by lia. apply firstn_succ_nth. lia. }
    assert (Hkeys : keys = (pre ++ firstn (cn - 1) rest) ++ k' :: skipn cn rest).
    { rewrite Hk. rewrite <- app_assoc. f_equal.
      transitivity (firstn cn rest ++ skipn cn rest); [symmetry; apply firstn_skipn|].
      rewrite HF, <- app_assoc. reflexivity. }
    assert (Hk'in : In k' keys) by (rewrite Hkeys; apply in_elt).
    assert (Hk'ne : k' <> EmptyString) by (intros Heq; apply Hne; rewrite <- Heq; exact Hk'in).
    pose proof Hs as Hs'. rewrite Hkeys in Hs'.
    destruct (sorted_split_at _ _ _ Hs') as [Hle Hgt].
    assert (Hkeys' : keys = (pre ++ firstn cn rest) ++ skipn cn rest).
    { rewrite Hk. rewrite <- app_assoc. f_equal. symmetry. apply firstn_skipn. }
    apply (IH (pre ++ firstn cn rest) (skipn cn rest) (TokKey k') Hkeys'); [discriminate| |exact Hin].
    simpl. apply (next_index_split _ keys _ _ k' Hs Hkeys' Hk'ne); auto.
    rewrite HF, app_assoc. exact Hle.
Qed.

Theorem key_never_panics s keys size tok fuel :
  keys_wf keys = true -> ~ In OPanic (key_chain (variant_of s) keys size fuel tok).
Proof.
  intros Hwf Hin. destruct (keys_wf_spec keys Hwf) as [Hs Hne].
  assert (Hbad : tok = TokMalformed \/ size < 0 -> False).
  { intros Hb. destruct fuel as [|f]; [exact Hin|].
    rewrite key_bad_input_rejected in Hin by exact Hb. destruct Hin as [H|[]]. discriminate. }
  destruct (Z.ltb_spec size 0) as [Hneg|Hpos]; [apply Hbad; right; exact Hneg|].
  assert (Ht : tok <> TokMalformed) by (intros ->; apply Hbad; left; reflexivity).
  destruct (token_split (variant_of s) keys tok Hs Ht) as [pre [Hk Hni]].
  exact (key_chain_no_panic_from _ keys size Hs Hne Hpos fuel pre _ tok Hk Ht Hni Hin).
Qed.

(* waste, from the first page: newest first, no empty page unless the log is empty *)
Theorem waste_pages_enumerate ids size fuel :
  0 <= size ->
  let c := waste_count size in
  let calls := (Z.max (zlen ids) 1 - 1) / c + 1 in
  calls <= Z.of_nat fuel ->
  let obs := waste_chain ids size fuel WEmpty in
  zlen obs = calls
  /\ chain_shape_ok obs = true
  /\ concat_keys obs = rev ids
  /\ pages_within c (zlen ids) obs
  /\ (ids <> [] -> Forall (fun o => page_keys o <> []) obs).
Proof.
  intros Hsize c calls Hfuel obs. unfold obs. rewrite waste_chain_empty_tok.
  pose proof (zlen_nonneg ids) as Hn0.
  assert (Hr : 0 <= zlen ids <= zlen ids) by lia.
  destruct (waste_chain_from ids size Hsize fuel (zlen ids) Hr Hfuel) as [Hsh [Hcat [Hfit [Hlen Hne]]]].
  repeat split; auto.
  - rewrite Hcat. unfold newest_first. rewrite to_nat_zlen, firstn_all. reflexivity.
  - apply page_fits_within. exact Hfit.
  - intros Hids. assert (Hpos : 0 < zlen ids) by (destruct ids as [|x l]; [contradiction|rewrite zlen_cons; pose proof (zlen_nonneg l); lia]).
    specialize (Hne Hpos). apply Forall_forall. intros o Ho Hnil.
    rewrite forallb_forall in Hne. specialize (Hne o Ho). rewrite Hnil in Hne. discriminate.
Qed.

(* what was wrong before the fixes, for every collection *)
Theorem key_page_v0_negative_panics v keys size : size < 0 -> key_page_v0 v keys TokEmpty size = OPanic.
Proof.
  intros Hneg. unfold key_page_v0, key_page_core, next_index. simpl last_key. cbn [key_eqb String.eqb].
  assert (Hc : cap_page_size size = size).
  { unfold cap_page_size, max_page_size. destruct (Z.eqb_spec size 0); [lia|]. destruct (Z.ltb_spec 1000 size); lia. }
  rewrite Hc. pose proof (zlen_nonneg keys).
  destruct (Z.ltb_spec (zlen keys) (0 + size)); [lia|].
  destruct (Z.ltb_spec (0 + size - 1) 0); [reflexivity|lia].
Qed.
