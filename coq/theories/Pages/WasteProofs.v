(* Proofs about the waste pager (index tokens counting down from the newest record). *)
From SC Require Import Base.Prelude Pages.Pager Pages.C15Judge Pages.PagerProofs.

Local Open Scope Z_scope.
Local Arguments Z.add : simpl never.
Local Arguments Z.sub : simpl never.
Local Arguments Z.div : simpl never.
Local Arguments Z.ltb : simpl never.
Local Arguments Z.leb : simpl never.
Local Arguments Z.eqb : simpl never.
Local Arguments Z.of_nat : simpl never.
Local Arguments Z.to_nat : simpl never.

(* records start-1, start-2, ..., 0 *)
Definition newest_first (ids : list string) (start : Z) : list string := rev (firstn (Z.to_nat start) ids).

Lemma newest_first_len ids start : 0 <= start <= zlen ids -> zlen (newest_first ids start) = start.
Proof.
  intros H. unfold newest_first, zlen in *. rewrite rev_length, firstn_length_le by lia. lia.
Qed.

(* Model.ListWasteRecords: the loop returns the first (count - have) of the records below i+1 *)
Lemma waste_loop_spec ids count : forall fuel i have,
  -1 <= i < zlen ids -> i + 1 <= Z.of_nat fuel -> 1 <= count - have ->
  waste_loop fuel ids i have count
  = Some (firstn (Z.to_nat (count - have)) (newest_first ids (i + 1))).
Proof.
  induction fuel as [|f IH]; intros i have Hi Hf Hc; cbn [waste_loop].
  - assert (i = -1) by lia. subst i. unfold newest_first. simpl. rewrite firstn_nil. reflexivity.
  - destruct (Z.ltb_spec i 0) as [Hneg|Hpos].
    + assert (i = -1) by lia. subst i. unfold newest_first. simpl. rewrite firstn_nil. reflexivity.
    + destruct (Z.leb_spec (zlen ids) i); [lia|].
      assert (Hn : (Z.to_nat i < List.length ids)%nat) by (unfold zlen in *; lia).
      rewrite (nth_error_nth' ids EmptyString Hn).
      assert (Hnf : newest_first ids (i + 1)
                    = nth (Z.to_nat i) ids EmptyString :: newest_first ids (i - 1 + 1)).
      { unfold newest_first. replace (Z.to_nat (i + 1)) with (S (Z.to_nat i)) by lia.
        rewrite (firstn_succ_nth EmptyString) by exact Hn. rewrite rev_app_distr. simpl.
        replace (i - 1 + 1) with i by lia. reflexivity. }
      rewrite Hnf.
      destruct (Z.leb_spec count (have + 1)) as [Hlast|Hmore].
      * replace (Z.to_nat (count - have)) with 1%nat by lia. reflexivity.
      * rewrite IH by lia. simpl.
        replace (Z.to_nat (count - have)) with (S (Z.to_nat (count - (have + 1)))) by lia.
        reflexivity.
Qed.

Lemma waste_list_spec ids start count :
  0 <= start <= zlen ids -> 1 <= count ->
  waste_list ids start count = Some (firstn (Z.to_nat count) (newest_first ids start)).
Proof.
  intros Hs Hc. unfold waste_list.
  rewrite (waste_loop_spec ids count) by lia.
  replace (count - 0) with count by lia. replace (start - 1 + 1) with start by lia. reflexivity.
Qed.

Lemma waste_count_bounds size : 0 <= size -> 1 <= waste_count size <= 1000.
Proof.
  intros H. unfold waste_count.
  destruct (Z.eqb_spec size 0); [lia|]. destruct (Z.ltb_spec 1000 size); lia.
Qed.

Lemma waste_count_is_spec size : 0 <= size -> spec_cap size = waste_count size.
Proof.
  intros H. unfold spec_cap, waste_count.
  destruct (Z.eqb_spec size 0); [reflexivity|]. destruct (Z.ltb_spec 1000 size); lia.
Qed.

(* one answer: a full page and the index to go on from, or the remainder and no token *)
Lemma waste_respond_spec ids start count :
  0 <= start <= zlen ids -> 1 <= count ->
  waste_respond ids start count =
    if count <? start
    then OPage (firstn (Z.to_nat count) (newest_first ids start)) (Some (start - count)) (zlen ids)
    else OPage (newest_first ids start) None (zlen ids).
Proof.
  intros Hs Hc. unfold waste_respond. rewrite waste_list_spec by lia.
  pose proof (newest_first_len ids start Hs) as Hlen.
  destruct (Z.ltb_spec count start) as [Hlt|Hge].
  - assert (Hl : zlen (firstn (Z.to_nat count) (newest_first ids start)) = count).
    { unfold zlen in *. rewrite firstn_length_le by lia. lia. }
    rewrite Hl, Z.eqb_refl. destruct (Z.ltb_spec 0 (start - count)); [reflexivity|lia].
  - rewrite firstn_all2 by (unfold zlen in *; lia). rewrite Hlen.
    destruct (Z.eqb_spec count start) as [->|]; [|reflexivity].
    destruct (Z.ltb_spec 0 (start - start)); [lia|reflexivity].
Qed.

Lemma waste_page_in_range ids z size :
  0 <= z <= zlen ids -> 0 <= size ->
  waste_page ids (WNum z) size = waste_respond ids z (waste_count size).
Proof.
  intros Hz Hs. unfold waste_page.
  destruct (Z.ltb_spec z 0); [lia|]. destruct (Z.ltb_spec (zlen ids) z); [lia|]. simpl.
  destruct (Z.ltb_spec size 0); [lia|]. reflexivity.
Qed.

(* number of calls for [start] remaining records: one for an empty remainder, else ceil(start/c) *)
Definition waste_calls (start c : Z) : Z := (Z.max start 1 - 1) / c + 1.

Definition wchain_good (rest : list string) (c n start : Z) (obs : list (outcome Z)) : Prop :=
  chain_shape_ok obs = true /\ concat_keys obs = rest
  /\ forallb (page_fits c n) obs = true /\ zlen obs = waste_calls start c
  /\ (0 < start -> forallb (fun o => negb (match page_keys o with [] => true | _ => false end)) obs = true).

Lemma newest_first_step ids start c :
  0 < c < start -> start <= zlen ids ->
  newest_first ids start = firstn (Z.to_nat c) (newest_first ids start) ++ newest_first ids (start - c).
Proof.
  intros Hc Hs. rewrite <- (firstn_skipn (Z.to_nat c) (newest_first ids start)) at 1. f_equal.
  unfold newest_first. rewrite skipn_rev, firstn_firstn. f_equal. f_equal.
  rewrite firstn_length_le by (unfold zlen in *; lia). lia.
Qed.

Lemma waste_chain_from ids size :
  0 <= size ->
  forall fuel start,
    0 <= start <= zlen ids ->
    waste_calls start (waste_count size) <= Z.of_nat fuel ->
    wchain_good (newest_first ids start) (waste_count size) (zlen ids) start
      (waste_chain ids size fuel (WNum start)).
Proof.
  intros Hsize. pose proof (waste_count_bounds size Hsize) as Hc. set (c := waste_count size) in *.
  induction fuel as [|f IH]; intros start Hs Hfuel.
  - unfold waste_calls in Hfuel.
    assert (0 <= (Z.max start 1 - 1) / c) by (apply Z.div_pos; lia). lia.
  - unfold waste_chain. cbn [chain_with].
    rewrite (waste_page_in_range ids start size Hs Hsize). fold c.
    rewrite (waste_respond_spec ids start c Hs) by lia.
    pose proof (newest_first_len ids start Hs) as Hlen.
    destruct (Z.ltb_spec c start) as [Hlt|Hge].
    + (* full page, go on from start - c >= 1 *)
      assert (Hs' : 0 <= start - c <= zlen ids) by lia.
      assert (Hcalls : waste_calls start c = waste_calls (start - c) c + 1).
      { unfold waste_calls. rewrite !Z.max_l by lia.
        replace (start - 1) with (start - c - 1 + 1 * c) by lia. rewrite Z.div_add by lia. lia. }
      specialize (IH (start - c) Hs' ltac:(lia)).
      destruct IH as [Hsh [Hcat [Hfit [Hn Hne]]]].
      change (wchain_good (newest_first ids start) c (zlen ids) start
                (OPage (firstn (Z.to_nat c) (newest_first ids start)) (Some (start - c)) (zlen ids)
                   :: waste_chain ids size f (WNum (start - c)))).
      assert (Hl : zlen (firstn (Z.to_nat c) (newest_first ids start)) = c).
      { unfold zlen in *. rewrite firstn_length_le by lia. lia. }
      repeat split.
      * exact Hsh.
      * simpl. rewrite Hcat. symmetry. apply newest_first_step; lia.
      * simpl. rewrite Hfit, Hl, Z.eqb_refl. destruct (Z.leb_spec c c); [reflexivity|lia].
      * rewrite zlen_cons, Hn, Hcalls. lia.
      * intros _. simpl. rewrite Hne by lia.
        destruct (firstn (Z.to_nat c) (newest_first ids start)) eqn:Hf0; [|reflexivity].
        unfold zlen in Hl. simpl in Hl. lia.
    + (* the remainder fits: last page *)
      repeat split.
      * simpl. apply app_nil_r.
      * simpl. rewrite Hlen, Z.eqb_refl. destruct (Z.leb_spec start c); [reflexivity|lia].
      * unfold waste_calls. rewrite Z.div_small by lia. reflexivity.
      * intros Hpos. simpl. destruct (newest_first ids start) eqn:Hf0; [|reflexivity].
        unfold zlen in Hlen. simpl in Hlen. lia.
Qed.

Lemma waste_calls_le start c : 0 <= start -> 1 <= c -> waste_calls start c <= start + 1.
Proof.
  intros Hs Hc. unfold waste_calls.
  pose proof (div_le_self (Z.max start 1 - 1) c). lia.
Qed.

Lemma waste_page_empty_tok ids size : waste_page ids WEmpty size = waste_page ids (WNum (zlen ids)) size.
Proof. reflexivity. Qed.

Lemma waste_chain_empty_tok ids size fuel :
  waste_chain ids size fuel WEmpty = waste_chain ids size fuel (WNum (zlen ids)).
Proof. destruct fuel; [reflexivity|]. unfold waste_chain. cbn [chain_with]. rewrite waste_page_empty_tok. reflexivity. Qed.

Lemma waste_chain_rejects ids size tok fuel :
  waste_token_bad (zlen ids) tok = true \/ size < 0 -> (1 <= fuel)%nat ->
  waste_chain ids size fuel tok = [OErr InvalidArgument].
Proof.
  intros H Hf. destruct fuel as [|f]; [lia|]. unfold waste_chain. cbn [chain_with]. unfold waste_page.
  destruct tok as [|z|]; [| |reflexivity].
  - destruct H as [H|H]; [discriminate|].
    destruct (Z.ltb_spec (zlen ids) 0); [pose proof (zlen_nonneg ids); lia|].
    destruct (Z.ltb_spec (zlen ids) (zlen ids)); [lia|]. simpl.
    destruct (Z.ltb_spec size 0); [reflexivity|lia].
  - destruct ((z <? 0) || (zlen ids <? z)) eqn:Hr; [reflexivity|].
    destruct H as [H|H]; [simpl in H; congruence|].
    destruct (Z.ltb_spec size 0); [reflexivity|lia].
Qed.

Lemma wchain_good_enumerates rest n size start obs :
  0 <= size -> 0 <= start <= n ->
  wchain_good rest (waste_count size) n start obs -> enumerates rest n size obs = true.
Proof.
  intros Hsize Hn [Hs [Hcat [Hfit [Hlen _]]]]. unfold enumerates.
  rewrite Hs, Hcat, (waste_count_is_spec size Hsize), Hfit.
  rewrite (list_eqb_refl String.eqb String.eqb_refl). simpl.
  pose proof (waste_count_bounds size Hsize).
  pose proof (waste_calls_le start (waste_count size)).
  destruct (Z.leb_spec (zlen obs) (n + 2)); [reflexivity|lia].
Qed.

Theorem waste_model_ok ids size tok :
  C15_ok (KWaste ids size tok (waste_chain ids size (harness_fuel ids) tok)) = true.
Proof.
  unfold C15_ok, harness_fuel. pose proof (zlen_nonneg ids) as Hn0.
  destruct (waste_token_bad (zlen ids) tok || (size <? 0)) eqn:Hbad.
  - rewrite waste_chain_rejects; [reflexivity| |lia].
    apply orb_true_iff in Hbad. destruct Hbad as [H|H]; [left; exact H|right].
    destruct (Z.ltb_spec size 0); [assumption|discriminate].
  - apply orb_false_iff in Hbad. destruct Hbad as [Htok Hsz].
    assert (Hsize : 0 <= size) by (destruct (Z.ltb_spec size 0); [discriminate|lia]).
    pose proof (waste_count_bounds size Hsize) as Hc.
    destruct tok as [|z|]; [| |discriminate].
    + rewrite waste_chain_empty_tok.
      replace (waste_expected ids WEmpty) with (newest_first ids (zlen ids)).
      2:{ unfold newest_first. rewrite to_nat_zlen, firstn_all. reflexivity. }
      apply (wchain_good_enumerates _ _ _ (zlen ids)); auto; [lia|].
      apply waste_chain_from; auto; [lia|].
      pose proof (waste_calls_le (zlen ids) (waste_count size)). unfold zlen in *. lia.
    + simpl in Htok. apply orb_false_iff in Htok. destruct Htok as [Hz0 Hzn].
      assert (Hz : 0 <= z <= zlen ids).
      { destruct (Z.ltb_spec z 0); [discriminate|]. destruct (Z.ltb_spec (zlen ids) z); [discriminate|]. lia. }
      change (waste_expected ids (WNum z)) with (newest_first ids z).
      apply (wchain_good_enumerates _ _ _ z); auto.
      apply waste_chain_from; auto.
      pose proof (waste_calls_le z (waste_count size)). unfold zlen in *. lia.
Qed.
