(* Proofs about the waste pager (index tokens counting down from the newest record). *)
From SC Require Import Base.Prelude Pages.Codec Pages.PagerCfg Pages.Pager Pages.C15Judge Pages.PagerProofs.

Local Open Scope Z_scope.
Local Arguments Z.add : simpl never.
Local Arguments Z.sub : simpl never.
Local Arguments Z.div : simpl never.
Local Arguments Z.ltb : simpl never.
Local Arguments Z.leb : simpl never.
Local Arguments Z.eqb : simpl never.
Local Arguments Z.of_nat : simpl never.
Local Arguments Z.to_nat : simpl never.

(* records start-1, start-2, ..., 0 *)
Definition newest_first (ids : list string) (start : Z) : list string := rev (firstn (Z.to_nat start) ids).

Lemma newest_first_len ids start : 0 <= start <= zlen ids -> zlen (newest_first ids start) = start.
Proof.
  intros H. unfold newest_first, zlen in *. rewrite rev_length, firstn_length_le by lia. lia.
Qed.

(* Model.ListWasteRecords: the loop returns the first (count - have) of the records below i+1 *)
Lemma waste_loop_spec ids count : forall fuel i have,
  -1 <= i < zlen ids -> i + 1 <= Z.of_nat fuel -> 1 <= count - have ->
  waste_loop fuel ids i have count
  = Some (firstn (Z.to_nat (count - have)) (newest_first ids (i + 1))).
Proof.
  induction fuel as [|f IH]; intros i have Hi Hf Hc; cbn [waste_loop].
  - assert (i = -1) by lia. subst i. unfold newest_first. simpl. rewrite firstn_nil. reflexivity.
  - destruct (Z.ltb_spec i 0) as [Hneg|Hpos].
    + assert (i = -1) by lia. subst i. unfold newest_first. simpl. rewrite firstn_nil. reflexivity.
    + destruct (Z.leb_spec (zlen ids) i); [lia|].
      assert (Hn : (Z.to_nat i < List.length ids)%nat) by (unfold zlen in *; lia).
      rewrite (nth_error_nth' ids EmptyString Hn).
      assert (Hnf : newest_first ids (i + 1)
                    = nth (Z.to_nat i) ids EmptyString :: newest_first ids (i - 1 + 1)).
      { unfold newest_first. replace (Z.to_nat (i + 1)) with (S (Z.to_nat i)) by lia.
        rewrite (firstn_succ_nth EmptyString) by exact Hn. rewrite rev_app_distr. simpl.
        replace (i - 1 + 1) with i by lia. reflexivity. }
      rewrite Hnf.
      destruct (Z.leb_spec count (have + 1)) as [Hlast|Hmore].
      * replace (Z.to_nat (count - have)) with 1%nat by lia. reflexivity.
      * rewrite IH by lia. simpl.
        replace (Z.to_nat (count - have)) with (S (Z.to_nat (count - (have + 1)))) by lia.
        reflexivity.
Qed.

Lemma waste_list_spec ids start count :
  0 <= start <= zlen ids -> 1 <= count ->
  waste_list ids start count = Some (firstn (Z.to_nat count) (newest_first ids start)).
Proof.
  intros Hs Hc. unfold waste_list.
  rewrite (waste_loop_spec ids count) by lia.
  replace (count - 0) with count by lia. replace (start - 1 + 1) with start by lia. reflexivity.
Qed.

Lemma waste_count_bounds size : 0 <= size -> 1 <= waste_count size <= 1000.
Proof.
  intros H. unfold waste_count.
  destruct (Z.eqb_spec size 0); [lia|]. destruct (Z.ltb_spec 1000 size); lia.
Qed.

Lemma waste_count_is_spec size : 0 <= size -> spec_cap size = waste_count size.
Proof.
  intros H. unfold spec_cap, waste_count.
  destruct (Z.eqb_spec size 0); [reflexivity|]. destruct (Z.ltb_spec 1000 size); lia.
Qed.

(* one answer: a full page and the index to go on from, or the remainder and no token *)
Lemma waste_respond_spec ids start count :
  0 <= start <= zlen ids -> 1 <= count ->
  waste_respond ids start count =
    if count <? start
    then OPage (firstn (Z.to_nat count) (newest_first ids start)) (Some (start - count)) (wrap32 (zlen ids))
    else OPage (newest_first ids start) None (wrap32 (zlen ids)).
Proof.
  intros Hs Hc. unfold waste_respond. rewrite waste_list_spec by lia.
  pose proof (newest_first_len ids start Hs) as Hlen.
  destruct (Z.ltb_spec count start) as [Hlt|Hge].
  - assert (Hl : zlen (firstn (Z.to_nat count) (newest_first ids start)) = count).
    { unfold zlen in *. rewrite firstn_length_le by lia. lia. }
    rewrite Hl, Z.eqb_refl. destruct (Z.ltb_spec 0 (start - count)); [reflexivity|lia].
  - rewrite firstn_all2 by (unfold zlen in *; lia). rewrite Hlen.
    destruct (Z.eqb_spec count start) as [->|]; [|reflexivity].
    destruct (Z.ltb_spec 0 (start - start)); [lia|reflexivity].
Qed.

Lemma waste_page_in_range ids z size :
  0 <= z <= zlen ids -> 0 <= size ->
  waste_page ids (WNum z) size = waste_respond ids z (waste_count size).
Proof.
  intros Hz Hs. unfold waste_page.
  destruct (Z.ltb_spec z 0); [lia|]. destruct (Z.ltb_spec (zlen ids) z); [lia|]. simpl.
  destruct (Z.ltb_spec size 0); [lia|]. reflexivity.
Qed.

(* number of calls to list [start] remaining records when request i asks for sizes[i]: no call
   is wasted on an empty page (the token is dropped when nothing remains) *)
Fixpoint calls_waste (start : Z) (sizes : list Z) : Z :=
  match sizes with
  | [] => 0
  | s :: ss =>
      if s <? 0 then 1
      else if start <=? waste_count s then 1
      else 1 + calls_waste (start - waste_count s) ss
  end.

(* the same page size on every request: one call for an empty remainder, else ceil(start/c) *)
Definition waste_calls (start c : Z) : Z := (Z.max start 1 - 1) / c + 1.

Lemma calls_waste_le : forall sizes start, 0 <= start -> calls_waste start sizes <= Z.max start 1.
Proof.
  induction sizes as [|s ss IH]; intros start Hs; cbn [calls_waste]; [lia|].
  destruct (Z.ltb_spec s 0); [lia|].
  pose proof (waste_count_bounds s ltac:(lia)).
  destruct (Z.leb_spec start (waste_count s)); [lia|].
  specialize (IH (start - waste_count s) ltac:(lia)). lia.
Qed.

Lemma calls_waste_const size : 0 <= size -> forall fuel start, 0 <= start ->
  waste_calls start (waste_count size) <= Z.of_nat fuel ->
  calls_waste start (const_sizes size fuel) = waste_calls start (waste_count size).
Proof.
  intros Hs. pose proof (waste_count_bounds size Hs) as Hc. set (c := waste_count size) in *.
  induction fuel as [|f IH]; intros start Hst Hf.
  - unfold waste_calls in Hf. assert (0 <= (Z.max start 1 - 1) / c) by (apply Z.div_pos; lia). lia.
  - unfold const_sizes. cbn [repeat calls_waste]. fold (const_sizes size f). fold c.
    destruct (Z.ltb_spec size 0); [lia|].
    destruct (Z.leb_spec start c) as [Hle|Hgt].
    + unfold waste_calls. rewrite Z.div_small by lia. reflexivity.
    + assert (Hcalls : waste_calls start c = waste_calls (start - c) c + 1).
      { unfold waste_calls. rewrite !Z.max_l by lia.
        replace (start - 1) with (start - c - 1 + 1 * c) by lia. rewrite Z.div_add by lia. lia. }
      rewrite IH by lia. lia.
Qed.

Definition not_empty_page {T} (o : outcome T) : bool :=
  match o with OPage [] _ _ => false | _ => true end.

Lemma newest_first_skip ids start c :
  0 < c < start -> start <= zlen ids ->
  skipn (Z.to_nat c) (newest_first ids start) = newest_first ids (start - c).
Proof.
  intros Hc Hs. unfold newest_first. rewrite skipn_rev, firstn_firstn. f_equal. f_equal.
  rewrite firstn_length_le by (unfold zlen in *; lia). lia.
Qed.

(* THE induction for waste: any log, any page sizes (also negative ones), from any valid index *)
Lemma waste_chain_from ids :
  forall sizes start,
    0 <= start <= zlen ids -> Z.max start 1 <= zlen sizes ->
    let obs := waste_chain ids sizes (WNum start) in
    enumerates (newest_first ids start) (wrap32 (zlen ids)) sizes obs = true
    /\ zlen obs = calls_waste start sizes
    /\ (0 < start -> forallb not_empty_page obs = true).
Proof.
  induction sizes as [|s ss IH]; intros start Hs Hfuel obs.
  - unfold zlen in Hfuel at 1. simpl in Hfuel. lia.
  - unfold obs, waste_chain. cbn [chain_req]. fold (waste_chain ids).
    destruct (Z.ltb_spec s 0) as [Hneg|Hpos].
    + assert (Hp : waste_page ids (WNum start) s = OErr InvalidArgument).
      { unfold waste_page. destruct (Z.ltb_spec start 0); [lia|]. destruct (Z.ltb_spec (zlen ids) start); [lia|].
        simpl. destruct (Z.ltb_spec s 0); [reflexivity|lia]. }
      rewrite Hp. cbn [enumerates calls_waste]. destruct (Z.ltb_spec s 0); [|lia].
      repeat split; reflexivity.
    + rewrite (waste_page_in_range ids start s Hs Hpos).
      pose proof (waste_count_bounds s Hpos) as Hc. set (c := waste_count s) in *.
      rewrite (waste_respond_spec ids start c Hs) by lia.
      pose proof (newest_first_len ids start Hs) as Hlen.
      cbn [calls_waste]. destruct (Z.ltb_spec s 0) as [|_]; [lia|]. fold c.
      destruct (Z.ltb_spec c start) as [Hlt|Hge].
      * destruct (Z.leb_spec start c); [lia|].
        assert (Hs' : 0 <= start - c <= zlen ids) by lia.
        assert (Hfuel' : Z.max (start - c) 1 <= zlen ss) by (rewrite zlen_cons in Hfuel; lia).
        destruct (IH (start - c) Hs' Hfuel') as [IHe [IHn IHp]].
        assert (Hssne : ss <> []).
        { intros ->. unfold zlen in Hfuel' at 1. simpl in Hfuel'. lia. }
        set (F := firstn (Z.to_nat c) (newest_first ids start)).
        assert (HlenFn : List.length F = Z.to_nat c).
        { unfold F. apply firstn_length_le. unfold zlen in *. lia. }
        assert (Hl : zlen F = c) by (unfold zlen; rewrite HlenFn; lia).
        assert (Hnn : is_nil (waste_chain ids ss (WNum (start - c))) = false)
          by (apply chain_req_nonempty; exact Hssne).
        cbn [enumerates]. destruct (Z.ltb_spec s 0) as [|_]; [lia|].
        rewrite (waste_count_is_spec s Hpos). fold c. rewrite Hl.
        destruct (Z.leb_spec c c); [|lia]. rewrite Z.eqb_refl.
        replace (is_prefix F (newest_first ids start)) with true by (symmetry; apply is_prefix_firstn).
        fold (waste_chain ids ss (WNum (start - c))).
        rewrite Hnn, HlenFn. rewrite newest_first_skip by lia. cbn [andb negb].
        repeat split.
        -- exact IHe.
        -- rewrite zlen_cons, IHn. reflexivity.
        -- intros _. cbn [forallb]. rewrite IHp by lia.
           destruct F eqn:HF0; [|reflexivity]. unfold zlen in Hl. simpl in Hl. lia.
      * destruct (Z.leb_spec start c); [|lia].
        cbn [enumerates]. destruct (Z.ltb_spec s 0) as [|_]; [lia|].
        rewrite (waste_count_is_spec s Hpos). fold c. rewrite Hlen.
        destruct (Z.leb_spec start c); [|lia]. rewrite !Z.eqb_refl, is_prefix_refl.
        repeat split.
        intros Hp0. cbn [forallb]. destruct (newest_first ids start) eqn:Hf0; [|reflexivity].
        unfold zlen in Hlen. simpl in Hlen. lia.
Qed.

Lemma waste_page_empty_tok ids size : waste_page ids WEmpty size = waste_page ids (WNum (zlen ids)) size.
Proof. reflexivity. Qed.

Lemma waste_chain_empty_tok ids sizes :
  waste_chain ids sizes WEmpty = waste_chain ids sizes (WNum (zlen ids)).
Proof. destruct sizes; [reflexivity|]. unfold waste_chain. cbn [chain_req]. rewrite waste_page_empty_tok. reflexivity. Qed.

Lemma waste_chain_rejects ids sizes tok :
  waste_token_bad (zlen ids) tok = true -> sizes <> [] ->
  waste_chain ids sizes tok = [OErr InvalidArgument].
Proof.
  intros H Hf. destruct sizes as [|s ss]; [congruence|]. unfold waste_chain. cbn [chain_req]. unfold waste_page.
  destruct tok as [|z|]; [discriminate| |reflexivity].
  simpl in H. rewrite H. reflexivity.
Qed.

Theorem waste_model_ok ids sizes tok :
  in32 (zlen ids) = true -> zlen ids < zlen sizes ->
  C15_ok (KWaste ids sizes tok (waste_chain ids sizes tok)) = true.
Proof.
  intros H32 Hfuel. unfold C15_ok. pose proof (zlen_nonneg ids) as Hn0.
  assert (Hsz : sizes <> []).
  { intros ->. unfold zlen in Hfuel at 2. simpl in Hfuel. lia. }
  destruct (waste_token_bad (zlen ids) tok) eqn:Hbad.
  - rewrite waste_chain_rejects by auto. reflexivity.
  - assert (Hgo : forall z, 0 <= z <= zlen ids ->
      enumerates (newest_first ids z) (zlen ids) sizes (waste_chain ids sizes (WNum z))
      && (zlen (waste_chain ids sizes (WNum z)) <=? zlen ids + 2) = true).
    { intros z Hz. destruct (waste_chain_from ids sizes z Hz ltac:(lia)) as [He [Hn _]].
      rewrite (in32_wrap _ H32) in He. rewrite He, Hn.
      pose proof (calls_waste_le sizes z ltac:(lia)).
      destruct (Z.leb_spec (calls_waste z sizes) (zlen ids + 2)); [reflexivity|lia]. }
    destruct tok as [|z|]; [| |discriminate].
    + rewrite waste_chain_empty_tok.
      replace (waste_expected ids WEmpty) with (newest_first ids (zlen ids)).
      2:{ unfold newest_first. rewrite to_nat_zlen, firstn_all. reflexivity. }
      apply Hgo. lia.
    + simpl in Hbad. apply orb_false_iff in Hbad. destruct Hbad as [Hz0 Hzn].
      change (waste_expected ids (WNum z)) with (newest_first ids z).
      apply Hgo.
      destruct (Z.ltb_spec z 0); [discriminate|]. destruct (Z.ltb_spec (zlen ids) z); [discriminate|]. lia.
Qed.
