(* Model of WHAT the key-token List handlers page over (C15).  No proofs here.

   The items of a resource.Collection are stored under a KEY: the id given to Add/Update after the
   collection's id interceptor (resource.WithIDInterceptor, a constructor option every trait model
   hands to its collection) has mapped it; Collection.List returns the bodies sorted by that KEY.
   The handlers never see the key: they read the ID field of the bodies (ElectricMode.Id, Hail.Id,
   Publication.Id, Consumable.Name, Stock.Consumable, Child.Name), make the page token of it and
   binary-search it.  Without an interceptor key = id; with one (strings.ToLower is the documented
   use) the order of the keys need not be the order of the ids.

   [coll_listing f ids]  the ids of the bodies in the order Collection.List returns them when the
                         interceptor is [f] (sorted by [f id]);
   [paged_listing ...]   the slice a handler pages over: the model-level listing, re-sorted by the id
                         field when the handler does so (sort.Slice(items, items[i].K < items[j].K):
                         parentpb always did; the other five since the fix of this round; read from
                         the source: [h_resort] in Gen/Pagers.v);
   [list_page/list_chain] the handler = re-sort, then the generic pager of Pages/Pager.v.

   The sorts are modelled as insertion sort.  On keys that are pairwise different (they are: map
   keys; ids whose keys differ) an ascending sort has exactly one possible result, so the
   algorithm of sort.Slice (pdqsort, not stable) does not matter; with a read mask applied BEFORE
   paging and leaving the id out (an earlier version of the code, [pc_mask_before]) all ids the
   handler sees are blank and the re-sort is modelled as leaving the order alone. *)
From SC Require Import Base.Prelude Pages.Codec Pages.PagerCfg Gen.Pagers Pages.Pager.

Fixpoint insert_by (lt : string -> string -> bool) (x : string) (l : list string) : list string :=
  match l with
  | [] => [x]
  | y :: r => if lt y x then y :: insert_by lt x r else x :: l
  end.

Definition isort (lt : string -> string -> bool) (l : list string) : list string :=
  fold_right (insert_by lt) [] l.

(* ascending by the Go string order *)
Definition sort_keys (l : list string) : list string := isort String.ltb l.

(* Collection.List under the id interceptor [f]: ascending by the key each body is stored under *)
Definition coll_listing (f : string -> string) (ids : list string) : list string :=
  isort (fun a b => String.ltb (f a) (f b)) ids.

(* the interceptor as tabulated by the harness for the ids of one collection: (id, key) pairs *)
Fixpoint assoc_key (kv : list (string * string)) (id : string) : string :=
  match kv with
  | [] => EmptyString
  | (i, k) :: r => if String.eqb i id then k else assoc_key r id
  end.

(* does the handler of [s] re-sort the listing by the field its token is made of (read from the tree) *)
Definition resorts_of_table (ht : list handler_row) (s : server) : bool :=
  match find (fun h => server_eqb (h_server h) s) ht with
  | Some h => h_resort h
  | None => false
  end.
Definition resorts_of (s : server) : bool := resorts_of_table handler_table s.

Definition paged_listing (resort : bool) (c : pager_cfg) (dropkey : bool) (listing : list string) : list string :=
  if resort && negb (pc_mask_before c && dropkey) then sort_keys listing else listing.

(* [listing]: the id fields of the bodies in the order the model-level listing returns them *)
Definition list_page (resort : bool) (c : pager_cfg) (listing : list string) (dropkey : bool) (w : wiretok) (size : Z) : outcome string :=
  key_page c (paged_listing resort c dropkey listing) dropkey w size.

Definition list_chain (resort : bool) (c : pager_cfg) (listing : list string) (dropkey : bool) (sizes : list Z) (w : wiretok) : list (outcome string) :=
  chain_req (list_page resort c listing dropkey) WRaw sizes w.

(* hypotheses on the ids of a collection, whatever order they come in: pairwise different, none
   empty, valid UTF-8 *)
Fixpoint nodupb (l : list string) : bool :=
  match l with
  | [] => true
  | a :: r => negb (existsb (String.eqb a) r) && nodupb r
  end.
Definition ids_wf (ids : list string) : bool :=
  nodupb ids && negb (existsb (String.eqb EmptyString) ids) && forallb key_utf8 ids.

(* strings.ToLower on ASCII (enough for the witnesses) *)
Definition lower_byte (z : Z) : Z := if (65 <=? z) && (z <=? 90) then z + 32 else z.
Definition ascii_lower (s : string) : string := string_of_bytes (map lower_byte (bytes_of s)).
