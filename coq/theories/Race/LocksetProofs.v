(* C11 - proofs about the abstract lock machine: mutual exclusion, lock_orders, lockset_sound. *)
From SC Require Import Base.Prelude Race.Lockset.
Local Open Scope nat_scope.

Definition is_acq (a : act) (t0 t : tid) (l : lockn) (m : mode) : bool :=
  match a, m with
  | Acq l0, MX => (t0 =? t)%Z && String.eqb l0 l
  | RAcq l0, MR => (t0 =? t)%Z && String.eqb l0 l
  | _, _ => false
  end.
Definition is_rel (a : act) (t0 t : tid) (l : lockn) (m : mode) : bool :=
  match a, m with
  | Rel l0, MX => (t0 =? t)%Z && String.eqb l0 l
  | RRel l0, MR => (t0 =? t)%Z && String.eqb l0 l
  | _, _ => false
  end.

Lemma upd_cases : forall a t0 t l m n,
  upd a t0 t l m n = if is_acq a t0 t l m then S n else if is_rel a t0 t l m then pred n else n.
Proof.
  intros a t0 t l m n. destruct a, m; simpl; try reflexivity;
  destruct ((t0 =? t)%Z && String.eqb l0 l); reflexivity.
Qed.

Lemma cnt_snoc : forall p e t l m,
  cnt (p ++ [e]) t l m = upd (snd e) (fst e) t l m (cnt p t l m).
Proof. intros. unfold cnt. rewrite fold_left_app. reflexivity. Qed.

Lemma cnt_nil : forall t l m, cnt [] t l m = 0.
Proof. reflexivity. Qed.

Lemma snoc_app : forall (A : Type) (p : list A) e q, p ++ e :: q = (p ++ [e]) ++ q.
Proof. intros. rewrite <- app_assoc. reflexivity. Qed.

(* a hold that disappears was released by its thread *)
Lemma release_between : forall q p t l m,
  cnt (p ++ q) t l m < cnt p t l m ->
  exists q1 t0 a q2, q = q1 ++ (t0, a) :: q2 /\ is_rel a t0 t l m = true.
Proof.
  induction q as [|e q IH]; intros p t l m H.
  - rewrite app_nil_r in H. lia.
  - destruct e as [t0 a]. destruct (is_rel a t0 t l m) eqn:R.
    + exists [], t0, a, q. split; [reflexivity|assumption].
    + rewrite snoc_app in H.
      assert (G : cnt p t l m <= cnt (p ++ [(t0, a)]) t l m).
      { rewrite cnt_snoc. cbn [fst snd]. rewrite upd_cases, R. destruct (is_acq a t0 t l m). all: lia. }
      destruct (IH (p ++ [(t0, a)]) t l m) as (q1 & t1 & a1 & q2 & E & R1); [exact (Nat.lt_le_trans _ _ _ H G)|].
      exists ((t0, a) :: q1), t1, a1, q2. split; [rewrite E; reflexivity|assumption].
Qed.

(* a hold in force was acquired, and has been in force ever since *)
Lemma acquire_in_force : forall p t l m,
  cnt p t l m > 0 ->
  exists p1 t0 a p2, p = p1 ++ (t0, a) :: p2 /\ is_acq a t0 t l m = true /\
    forall d d', p2 = d ++ d' -> cnt (p1 ++ (t0, a) :: d) t l m > 0.
Proof.
  induction p as [|e p IH] using rev_ind; intros t l m H.
  - rewrite cnt_nil in H. lia.
  - destruct e as [t0 a]. pose proof H as H0. rewrite cnt_snoc in H. simpl in H. rewrite upd_cases in H.
    destruct (is_acq a t0 t l m) eqn:A.
    + exists p, t0, a, []. split; [reflexivity|]. split; [assumption|].
      intros d d' E. symmetry in E. apply app_eq_nil in E. destruct E as [-> _]. exact H0.
    + assert (P : cnt p t l m > 0) by (destruct (is_rel a t0 t l m); lia).
      destruct (IH t l m P) as (p1 & t1 & a1 & p2 & E & A1 & C).
      exists p1, t1, a1, (p2 ++ [(t0, a)]). split; [rewrite E, <- app_assoc; reflexivity|].
      split; [assumption|].
      intros d d' E2. destruct d' as [|y d'' _] using rev_ind.
      * rewrite app_nil_r in E2. subst d.
        replace (p1 ++ (t1, a1) :: p2 ++ [(t0, a)]) with (p ++ [(t0, a)]); [exact H0|].
        rewrite E, <- app_assoc. reflexivity.
      * rewrite app_assoc in E2. apply app_inj_tail in E2. destruct E2 as [E2 _].
        apply (C d d''). exact E2.
Qed.

Lemma wf_prefix : forall p q, wf (p ++ q) -> wf p.
Proof.
  intros p q W p0 e q0 E. apply (W p0 e (q0 ++ q)). rewrite E, <- app_assoc. reflexivity.
Qed.

Lemma wf_last : forall p e, wf (p ++ [e]) -> enabled p e.
Proof. intros p e W. apply (W p e []). reflexivity. Qed.

(* ---- mutual exclusion: an exclusive holder is the only holder ---- *)

Lemma upd_other_lock : forall a t0 t l m n,
  (forall l0, a = Acq l0 \/ a = Rel l0 \/ a = RAcq l0 \/ a = RRel l0 -> l0 <> l) ->
  upd a t0 t l m n = n.
Proof.
  intros a t0 t l m n H. destruct a, m; simpl; try reflexivity;
  (destruct (String.eqb_spec l0 l) as [E|E];
   [exfalso; apply (H l0); [tauto|exact E] | rewrite andb_false_r; reflexivity]).
Qed.

Definition excl (p : trace) : Prop :=
  forall l t, cnt p t l MX > 0 -> forall u m, (u <> t \/ m = MR) -> cnt p u l m = 0.

Lemma exclusion : forall p, wf p -> excl p.
Proof.
  induction p as [|e p IH] using rev_ind; intros W.
  - intros l t H. rewrite cnt_nil in H. lia.
  - pose proof (wf_last _ _ W) as En. specialize (IH (wf_prefix _ _ W)).
    destruct e as [t0 a]. intros l t H u m Hum.
    rewrite cnt_snoc in *. cbn [fst snd] in *.
    destruct a as [l0|l0|l0|l0|s|c|c]; cbn [enabled] in En.
    + (* Acq *) destruct (String.eqb_spec l0 l) as [->|NE].
      * assert (T : t0 = t).
        { cbn [upd] in H. rewrite (En t MX) in H. rewrite String.eqb_refl, andb_true_r in H.
          destruct (Z.eqb_spec t0 t); [assumption|lia]. }
        subst t0. rewrite (En u m). destruct m; cbn [upd]; [reflexivity|].
        destruct Hum as [Hu|Hm]; [|discriminate].
        destruct (Z.eqb_spec t u) as [E|_]; [congruence|reflexivity].
      * rewrite upd_other_lock in H |- *; try (intros l1 [E|[E|[E|E]]]; inversion E; subst; assumption).
        apply (IH l t H u m Hum).
    + (* Rel *) assert (P : cnt p t l MX > 0).
      { cbn [upd] in H. destruct ((t0 =? t)%Z && String.eqb l0 l); lia. }
      pose proof (IH l t P u m Hum) as Z0. rewrite Z0.
      destruct m; cbn [upd]; try reflexivity. destruct ((t0 =? u)%Z && String.eqb l0 l); reflexivity.
    + (* RAcq *) cbn [upd] in H. destruct (String.eqb_spec l0 l) as [->|NE].
      * rewrite (En t) in H. lia.
      * rewrite upd_other_lock; try (intros l1 [E|[E|[E|E]]]; inversion E; subst; assumption).
        apply (IH l t H u m Hum).
    + (* RRel *) cbn [upd] in H. pose proof (IH l t H u m Hum) as Z0. rewrite Z0.
      destruct m; cbn [upd]; try reflexivity. destruct ((t0 =? u)%Z && String.eqb l0 l); reflexivity.
    + cbn [upd] in *. apply (IH l t H u m Hum).
    + cbn [upd] in *. apply (IH l t H u m Hum).
    + cbn [upd] in *. apply (IH l t H u m Hum).
Qed.

(* ---- positions ---- *)

Lemma nth_mid : forall (A : Type) (p : list A) x q, nth_error (p ++ x :: q) (List.length p) = Some x.
Proof. intros. rewrite nth_error_app2; [|lia]. rewrite Nat.sub_diag. reflexivity. Qed.

Lemma split_cmp : forall (A : Type) (p : list A) x q p1 y p2,
  p ++ x :: q = p1 ++ y :: p2 ->
  (exists d, p = p1 ++ y :: d /\ p2 = d ++ x :: q) \/
  (p = p1 /\ x = y /\ q = p2) \/
  (exists d, p1 = p ++ x :: d /\ q = d ++ y :: p2).
Proof.
  induction p as [|a p IH]; intros x q p1 y p2 E.
  - destruct p1 as [|b p1]; simpl in E.
    + inversion E. right. left. auto.
    + inversion E. right. right. exists p1. auto.
  - destruct p1 as [|b p1]; simpl in E.
    + inversion E. left. exists p. auto.
    + inversion E. subst b. destruct (IH _ _ _ _ _ H1) as [(d & E1 & E2)|[(E1 & E2 & E3)|(d & E1 & E2)]].
      * left. exists d. subst. auto.
      * right. left. subst. auto.
      * right. right. exists d. subst. auto.
Qed.

Lemma is_rel_sw_acq : forall a t0 t l m1 m2 t2 a2 u,
  is_rel a t0 t l m1 = true -> is_acq a2 t2 u l m2 = true -> (m1 = MX \/ m2 = MX) -> sw a a2 = true.
Proof.
  intros a t0 t l m1 m2 t2 a2 u R A M.
  destruct a, m1; simpl in R; try discriminate R; destruct a2, m2; simpl in A; try discriminate A;
  apply andb_prop in R; apply andb_prop in A; destruct R as [_ R], A as [_ A];
  apply String.eqb_eq in R; apply String.eqb_eq in A; subst; simpl;
  try apply String.eqb_refl.
  destruct M as [M|M]; discriminate M.
Qed.

Lemma is_rel_tid : forall a t0 t l m, is_rel a t0 t l m = true -> t0 = t.
Proof.
  intros a t0 t l m R. destruct a, m; simpl in R; try discriminate;
  apply andb_prop in R; destruct R as [R _]; apply Z.eqb_eq in R; exact R.
Qed.
Lemma is_acq_tid : forall a t0 t l m, is_acq a t0 t l m = true -> t0 = t.
Proof.
  intros a t0 t l m R. destruct a, m; simpl in R; try discriminate;
  apply andb_prop in R; destruct R as [R _]; apply Z.eqb_eq in R; exact R.
Qed.

Lemma is_acq_enabled_clear : forall p a t0 t l m u m',
  is_acq a t0 t l m = true -> enabled p (t0, a) -> (m = MX \/ m' = MX) -> cnt p u l m' = 0.
Proof.
  intros p a t0 t l m u m' A En M.
  destruct a, m; simpl in A; try discriminate; apply andb_prop in A; destruct A as [_ A];
  apply String.eqb_eq in A; subst; cbn [enabled] in En.
  - apply En.
  - destruct M as [M|M]; [discriminate M|subst]. apply En.
Qed.

(* lock_orders: two accesses by different threads made while holding a common lock, at least one of
   them exclusively, are ordered by happens-before *)
Theorem lock_orders : forall tr p t1 a1 q t2 a2 r l m1 m2,
  wf tr -> tr = p ++ (t1, a1) :: q ++ (t2, a2) :: r -> t1 <> t2 ->
  cnt p t1 l m1 > 0 -> cnt (p ++ (t1, a1) :: q) t2 l m2 > 0 -> (m1 = MX \/ m2 = MX) ->
  hb tr (List.length p) (List.length p + 1 + List.length q).
Proof.
  intros tr p t1 a1 q t2 a2 r l m1 m2 W E NE H1 H2 M.
  set (P2 := p ++ (t1, a1) :: q) in *.
  assert (E' : tr = P2 ++ (t2, a2) :: r).
  { unfold P2. rewrite E, <- app_assoc. reflexivity. }
  assert (LP2 : List.length P2 = List.length p + 1 + List.length q).
  { unfold P2. rewrite app_length. simpl. lia. }
  assert (Ni : nth_error tr (List.length p) = Some (t1, a1)) by (rewrite E; apply nth_mid).
  assert (Nj : nth_error tr (List.length P2) = Some (t2, a2)) by (rewrite E'; apply nth_mid).
  destruct (acquire_in_force P2 t2 l m2 H2) as (p1 & t0 & a & p2 & EP & A & C).
  pose proof (is_acq_tid _ _ _ _ _ A) as T0. subst t0.
  unfold P2 in EP. destruct (split_cmp _ _ _ _ _ _ _ EP) as [(d & Ep & Ep2)|[(Ep & Ex & Eq)|(d & Ep1 & Eq)]].
  - (* the acquire precedes the first access: both hold the lock there *)
    exfalso. assert (H3 : cnt p t2 l m2 > 0) by (rewrite Ep; apply (C d ((t1, a1) :: q) Ep2)).
    assert (Wp : wf p) by (apply (wf_prefix p ((t1, a1) :: q ++ (t2, a2) :: r)); rewrite E in W; exact W).
    pose proof (exclusion p Wp) as X. destruct M as [->| ->].
    + assert (Z0 : cnt p t2 l m2 = 0) by (apply (X l t1 H1 t2 m2); left; congruence). lia.
    + assert (Z0 : cnt p t1 l m1 = 0) by (apply (X l t2 H3 t1 m1); left; congruence). lia.
  - inversion Ex. congruence.
  - (* the acquire lies between: the first thread released before it *)
    assert (Wa : enabled p1 (t2, a)).
    { apply (W p1 (t2, a) (p2 ++ (t2, a2) :: r)). rewrite E'. unfold P2. rewrite EP, <- app_assoc. reflexivity. }
    assert (Z0 : cnt p1 t1 l m1 = 0).
    { apply (is_acq_enabled_clear p1 a t2 t2 l m2 t1 m1 A Wa). tauto. }
    assert (Lt : cnt (p ++ (t1, a1) :: d) t1 l m1 < cnt p t1 l m1) by (rewrite <- Ep1; lia).
    destruct (release_between _ _ _ _ _ Lt) as (q1 & t0 & ar & q2 & Ed & R).
    pose proof (is_rel_tid _ _ _ _ _ R) as T0. subst t0.
    (* positions *)
    assert (Ea : tr = p1 ++ (t2, a) :: p2 ++ (t2, a2) :: r).
    { rewrite E'. unfold P2. rewrite EP, <- app_assoc. reflexivity. }
    assert (Ek : tr = (p ++ q1) ++ (t1, ar) :: q2 ++ (t2, a) :: p2 ++ (t2, a2) :: r).
    { rewrite Ea, Ep1. change (p ++ (t1, a1) :: d) with (p ++ ((t1, a1) :: d)). rewrite Ed.
      rewrite <- !app_assoc. simpl. reflexivity. }
    assert (Nk : nth_error tr (List.length (p ++ q1)) = Some (t1, ar)) by (rewrite Ek; apply nth_mid).
    assert (Na : nth_error tr (List.length p1) = Some (t2, a)) by (rewrite Ea; apply nth_mid).
    assert (Lk : List.length (p ++ q1) < List.length p1).
    { rewrite Ep1. rewrite !app_length. simpl.
      assert (List.length ((t1, a1) :: d) = List.length (q1 ++ (t1, ar) :: q2)) by (rewrite Ed; reflexivity).
      simpl in H. rewrite app_length in H. simpl in H. lia. }
    assert (La : List.length p1 <= List.length P2).
    { unfold P2. rewrite EP. rewrite app_length. lia. }
    rewrite <- LP2.
    apply hb_trans with (j := List.length (p ++ q1)).
    { apply (hb_po tr _ _ t1 a1 ar); [rewrite app_length; lia|assumption|assumption]. }
    apply hb_trans with (j := List.length p1).
    { apply (hb_sw tr _ _ t1 ar t2 a); [assumption|assumption|assumption|].
      apply (is_rel_sw_acq ar t1 t1 l m1 m2 t2 a t2 R A M). }
    apply (hb_po tr _ _ t2 a a2); assumption.
Qed.

(* ---- soundness of the table check ---- *)

Lemma has_lock_in : forall ls l m, has_lock ls l m = true -> In (l, m) ls.
Proof.
  intros ls l m H. unfold has_lock in H. apply existsb_exists in H. destruct H as ([l0 m0] & I & E).
  simpl in E. apply andb_prop in E. destruct E as [E1 E2]. apply String.eqb_eq in E1. subst l0.
  destruct m0, m; simpl in E2; try discriminate E2; exact I.
Qed.

Lemma common_lock_spec : forall a b, common_lock a b = true ->
  exists l m1 m2, In (l, m1) (s_locks a) /\ In (l, m2) (s_locks b) /\ (m1 = MX \/ m2 = MX).
Proof.
  intros a b H. unfold common_lock in H. apply existsb_exists in H. destruct H as ([l m] & I & E).
  simpl in E. destruct m.
  - exists l, MR, MX. split; [exact I|]. split; [apply has_lock_in; exact E|right; reflexivity].
  - apply orb_prop in E. destruct E as [E|E].
    + exists l, MX, MX. split; [exact I|]. split; [apply has_lock_in; exact E|left; reflexivity].
    + exists l, MX, MR. split; [exact I|]. split; [apply has_lock_in; exact E|left; reflexivity].
Qed.

Lemma holds_orders : forall tr p t1 a1 q t2 a2 r l m1 m2,
  wf tr -> tr = p ++ (t1, a1) :: q ++ (t2, a2) :: r -> t1 <> t2 ->
  holds p t1 l m1 -> holds (p ++ (t1, a1) :: q) t2 l m2 -> (m1 = MX \/ m2 = MX) ->
  hb tr (List.length p) (List.length p + 1 + List.length q).
Proof.
  intros tr p t1 a1 q t2 a2 r l m1 m2 W E NE H1 H2 M.
  destruct m1, m2; simpl in H1, H2.
  - destruct M as [M|M]; discriminate M.
  - destruct H1 as [H1|H1].
    + apply (lock_orders tr p t1 a1 q t2 a2 r l MR MX W E NE H1 H2). right; reflexivity.
    + apply (lock_orders tr p t1 a1 q t2 a2 r l MX MX W E NE H1 H2). right; reflexivity.
  - destruct H2 as [H2|H2].
    + apply (lock_orders tr p t1 a1 q t2 a2 r l MX MR W E NE H1 H2). left; reflexivity.
    + apply (lock_orders tr p t1 a1 q t2 a2 r l MX MX W E NE H1 H2). left; reflexivity.
  - apply (lock_orders tr p t1 a1 q t2 a2 r l MX MX W E NE H1 H2). left; reflexivity.
Qed.

Lemma ordered_by_spec : forall tb a b, ordered_by tb a b = true ->
  exists x, In x (eff_before a) /\ before_valid tb a x = true /\ In (before_chan x) (eff_after b).
Proof.
  intros tb a b H. unfold ordered_by in H. apply existsb_exists in H. destruct H as (x & I & E).
  apply andb_prop in E. destruct E as [V E]. apply existsb_exists in E. destruct E as (c & Ic & Ec).
  apply String.eqb_eq in Ec. subst c. exists x. auto.
Qed.

(* a receive that observed c closed comes after a close of c *)
Lemma recv_after_close : forall tr P t c R,
  wf tr -> tr = P ++ R -> In (t, RecvC c) P ->
  exists A u B C, P = A ++ (u, Close c) :: B ++ (t, RecvC c) :: C.
Proof.
  intros tr P t c R W E I. apply in_split in I. destruct I as (Pa & Pb & EP).
  assert (En : enabled Pa (t, RecvC c)).
  { apply (W Pa (t, RecvC c) (Pb ++ R)). rewrite E, EP, <- app_assoc. reflexivity. }
  cbn [enabled] in En. destruct En as (u & Iu). apply in_split in Iu. destruct Iu as (A & B & EA).
  exists A, u, B, Pb. rewrite EP, EA, <- app_assoc. reflexivity.
Qed.

(* close -> receive -> later event of the receiving thread *)
Lemma close_recv_chain : forall tr A u c B t C a2 r i,
  tr = (A ++ (u, Close c) :: B ++ (t, RecvC c) :: C) ++ (t, a2) :: r ->
  hb tr i (List.length A) ->
  hb tr i (List.length (A ++ (u, Close c) :: B ++ (t, RecvC c) :: C)).
Proof.
  intros tr A u c B t C a2 r i E H.
  assert (Nk : nth_error tr (List.length A) = Some (u, Close c)).
  { rewrite E, <- app_assoc. apply nth_mid. }
  assert (E2 : tr = (A ++ (u, Close c) :: B) ++ (t, RecvC c) :: C ++ (t, a2) :: r).
  { rewrite E. rewrite <- !app_assoc. simpl. rewrite <- !app_assoc. reflexivity. }
  assert (Nr : nth_error tr (List.length (A ++ (u, Close c) :: B)) = Some (t, RecvC c)).
  { rewrite E2. apply nth_mid. }
  assert (Nj : nth_error tr (List.length (A ++ (u, Close c) :: B ++ (t, RecvC c) :: C)) = Some (t, a2)).
  { rewrite E. apply nth_mid. }
  apply hb_trans with (j := List.length A); [exact H|].
  apply hb_trans with (j := List.length (A ++ (u, Close c) :: B)).
  - apply (hb_sw tr _ _ u (Close c) t (RecvC c)); [rewrite app_length; simpl; lia|exact Nk|exact Nr|].
    simpl. apply String.eqb_refl.
  - apply (hb_po tr _ _ t (RecvC c) a2); [|exact Nr|exact Nj].
    rewrite !app_length. simpl. rewrite !app_length. simpl. lia.
Qed.

Theorem lockset_sound : forall K tb tr p t1 s1 q t2 s2 r,
  check_except K tb = true -> wf tr -> conform tb tr ->
  tr = p ++ (t1, Acc s1) :: q ++ (t2, Acc s2) :: r ->
  conflict s1 s2 = true ->
  hb tr (List.length p) (List.length p + 1 + List.length q) \/ is_known K s1 s2 = true.
Proof.
  intros K tb tr p t1 s1 q t2 s2 r Ck W [Cf Cc] E Cn.
  set (P2 := p ++ (t1, Acc s1) :: q).
  assert (E' : tr = P2 ++ (t2, Acc s2) :: r).
  { unfold P2. rewrite E, <- app_assoc. reflexivity. }
  assert (LP2 : List.length P2 = List.length p + 1 + List.length q).
  { unfold P2. rewrite app_length. simpl. lia. }
  destruct (Cf p t1 s1 (q ++ (t2, Acc s2) :: r) E) as (I1 & L1 & A1 & B1).
  destruct (Cf P2 t2 s2 r E') as (I2 & L2 & A2 & B2).
  destruct (Z.eq_dec t1 t2) as [->|NE].
  { left. rewrite <- LP2. apply (hb_po tr _ _ t2 (Acc s1) (Acc s2)); [lia| |].
    - rewrite E. apply nth_mid.
    - rewrite E'. apply nth_mid. }
  unfold check_except in Ck. rewrite forallb_forall in Ck. specialize (Ck s1 I1).
  rewrite forallb_forall in Ck. specialize (Ck s2 I2). unfold pair_ok in Ck. rewrite Cn in Ck.
  destruct (compatible tb s1 s2) eqn:Cp; [|right; exact Ck]. left. clear Ck.
  unfold compatible in Cp.
  destruct (common_lock s1 s2) eqn:Ck; [|destruct (ordered_by tb s1 s2) eqn:Ck1; [|destruct (ordered_by tb s2 s1) eqn:Ck2]].
  - (* a common lock *)
    destruct (common_lock_spec _ _ Ck) as (l & m1 & m2 & J1 & J2 & M).
    apply (holds_orders tr p t1 (Acc s1) q t2 (Acc s2) r l m1 m2 W E NE (L1 l m1 J1) (L2 l m2 J2) M).
  - (* s1 precedes the close that s2 has observed *)
    destruct (ordered_by_spec _ _ _ Ck1) as (x & Ix & Vx & Ax).
    pose proof (A2 _ Ax) as Rc.
    destruct (recv_after_close tr P2 t2 _ ((t2, Acc s2) :: r) W E' Rc) as (A & u & B & C & EP).
    rewrite <- LP2. rewrite EP. apply (close_recv_chain tr A u (before_chan x) B t2 C (Acc s2) r).
    { rewrite <- EP. exact E'. }
    pose proof (B1 x Ix) as Bx.
    assert (Ecl : tr = A ++ (u, Close (before_chan x)) :: (B ++ (t2, RecvC (before_chan x)) :: C) ++ (t2, Acc s2) :: r).
    { rewrite E', EP. rewrite <- !app_assoc. simpl. rewrite <- !app_assoc. reflexivity. }
    assert (Ni : nth_error tr (List.length p) = Some (t1, Acc s1)) by (rewrite E; apply nth_mid).
    assert (Nk : nth_error tr (List.length A) = Some (u, Close (before_chan x))) by (rewrite Ecl; apply nth_mid).
    destruct x as [c|c l]; cbn [before_chan before_ok] in *.
    + destruct Bx as [_ Bx]. destruct (Bx A u _ Ecl) as [-> Lt].
      apply (hb_po tr _ _ t1 (Acc s1) (Close c)); [lia|exact Ni|exact Nk].
    + (* guarded by l *)
      cbn [before_valid] in Vx. apply andb_prop in Vx. destruct Vx as [Vx V3].
      apply andb_prop in Vx. destruct Vx as [V1 V2].
      assert (NP : c <> pub).
      { intro Ep. subst c. rewrite String.eqb_refl in V1. discriminate V1. }
      rewrite E in Ecl.
      destruct (split_cmp _ _ _ _ _ _ _ Ecl) as [(d & Ep & _)|[(_ & Ex & _)|(d & EA & Eq)]].
      * exfalso. apply (Bx u). rewrite Ep. apply in_or_app. right. left. reflexivity.
      * discriminate Ex.
      * destruct (Cc A u c _ (eq_trans E Ecl) NP) as (cl & Icl & Ecc & Hcl).
        rewrite forallb_forall in V3. specialize (V3 cl Icl). rewrite Ecc, String.eqb_refl in V3. simpl in V3.
        pose proof (Hcl l MX (has_lock_in _ _ _ V3)) as Hu.
        pose proof (L1 l MX (has_lock_in _ _ _ V2)) as H1.
        destruct (Z.eq_dec t1 u) as [->|NEu].
        { apply (hb_po tr _ _ u (Acc s1) (Close c)); [rewrite EA, app_length; simpl; lia|exact Ni|exact Nk]. }
        assert (LA : List.length A = List.length p + 1 + List.length d) by (rewrite EA, app_length; simpl; lia).
        rewrite LA.
        apply (holds_orders tr p t1 (Acc s1) d u (Close c) ((B ++ (t2, RecvC c) :: C) ++ (t2, Acc s2) :: r) l MX MX W).
        { rewrite E. f_equal. f_equal. exact Eq. }
        { exact NEu. } { exact H1. } { rewrite <- EA. exact Hu. } { left; reflexivity. }
  - (* s2 would precede a close that s1 has already observed: impossible *)
    exfalso. destruct (ordered_by_spec _ _ _ Ck2) as (x & Ix & Vx & Ax).
    pose proof (A1 _ Ax) as Rc.
    destruct (recv_after_close tr p t1 _ ((t1, Acc s1) :: q ++ (t2, Acc s2) :: r) W E Rc) as (A & u & B & C & EP).
    pose proof (B2 x Ix) as Bx.
    destruct x as [c|c l]; cbn [before_chan before_ok] in *.
    + assert (Ecl : tr = A ++ (u, Close c) :: (B ++ (t1, RecvC c) :: C) ++ (t1, Acc s1) :: q ++ (t2, Acc s2) :: r).
      { rewrite E, EP. rewrite <- !app_assoc. simpl. rewrite <- !app_assoc. reflexivity. }
      destruct Bx as [_ Bx]. destruct (Bx A u _ Ecl) as [_ Lt]. rewrite LP2 in Lt.
      assert (List.length A < List.length p) by (rewrite EP, app_length; simpl; lia). lia.
    + apply (Bx u). unfold P2. rewrite EP. apply in_or_app. left. apply in_or_app. right. left. reflexivity.
  - (* both followed by the one close of a channel: the same thread *)
    exfalso. unfold both_po in Cp. apply existsb_exists in Cp. destruct Cp as (x & Ix & Ex).
    destruct x as [c|c l]; [|discriminate Ex].
    apply existsb_exists in Ex. destruct Ex as (y & Iy & Ey).
    destruct y as [c'|c' l']; simpl in Ey; [|discriminate Ey]. apply String.eqb_eq in Ey. subst c'.
    pose proof (B1 _ Ix) as X1. pose proof (B2 _ Iy) as X2. cbn [before_ok] in X1, X2.
    destruct X1 as [(p' & q' & Ec) _]. destruct X2 as [_ X2].
    destruct (X2 p' t1 q' Ec) as [Et _]. apply NE. exact Et.
Qed.

(* ---- the accepting branch: [why] names it, [justified] says what it means ---- *)

Lemma existsb_find : forall (A : Type) (f : A -> bool) l,
  existsb f l = true -> exists x, find f l = Some x /\ In x l /\ f x = true.
Proof.
  intros A f l H. destruct (find f l) as [x|] eqn:F.
  - exists x. destruct (find_some _ _ F) as [I Fx]. auto.
  - exfalso. apply existsb_exists in H. destruct H as (x & I & Fx).
    pose proof (find_none _ _ F x I) as N. congruence.
Qed.

Lemma find_existsb : forall (A : Type) (f : A -> bool) l x,
  find f l = Some x -> existsb f l = true.
Proof.
  intros A f l x F. destruct (find_some _ _ F) as [I Fx]. apply existsb_exists. exists x. auto.
Qed.

Lemma common_lock_covers : forall a b, common_lock a b = existsb (lock_covers b) (s_locks a).
Proof. reflexivity. Qed.
Lemma ordered_by_orders : forall tb a b, ordered_by tb a b = existsb (orders tb a b) (eff_before a).
Proof. reflexivity. Qed.
Lemma both_po_same_closer : forall a b, both_po a b = existsb (same_closer b) (eff_before a).
Proof. reflexivity. Qed.

(* [why] answers exactly when [compatible] accepts *)
Theorem compatible_iff_why : forall tb a b,
  compatible tb a b = true <-> exists r, why tb a b = Some r.
Proof.
  intros tb a b. unfold compatible, why.
  rewrite common_lock_covers, !ordered_by_orders, both_po_same_closer. split.
  - intros H.
    destruct (existsb (lock_covers b) (s_locks a)) eqn:E1.
    { destruct (existsb_find _ _ _ E1) as (x & -> & _). eexists. reflexivity. }
    destruct (find (lock_covers b) (s_locks a)) as [p|] eqn:F1; [eexists; reflexivity|].
    destruct (existsb (orders tb a b) (eff_before a)) eqn:E2.
    { destruct (existsb_find _ _ _ E2) as (x & -> & _). eexists. reflexivity. }
    destruct (find (orders tb a b) (eff_before a)) as [p|] eqn:F2; [eexists; reflexivity|].
    destruct (existsb (orders tb b a) (eff_before b)) eqn:E3.
    { destruct (existsb_find _ _ _ E3) as (x & -> & _). eexists. reflexivity. }
    destruct (find (orders tb b a) (eff_before b)) as [p|] eqn:F3; [eexists; reflexivity|].
    destruct (existsb_find _ _ _ H) as (x & -> & _). eexists. reflexivity.
  - intros (r & H).
    destruct (find (lock_covers b) (s_locks a)) as [p|] eqn:F1.
    { rewrite (find_existsb _ _ _ _ F1). reflexivity. }
    destruct (existsb (lock_covers b) (s_locks a)); [reflexivity|].
    destruct (find (orders tb a b) (eff_before a)) as [p|] eqn:F2.
    { rewrite (find_existsb _ _ _ _ F2). reflexivity. }
    destruct (existsb (orders tb a b) (eff_before a)); [reflexivity|].
    destruct (find (orders tb b a) (eff_before b)) as [p|] eqn:F3.
    { rewrite (find_existsb _ _ _ _ F3). reflexivity. }
    destruct (existsb (orders tb b a) (eff_before b)); [reflexivity|].
    destruct (find (same_closer b) (eff_before a)) as [p|] eqn:F4; [|discriminate H].
    exact (find_existsb _ _ _ _ F4).
Qed.

Theorem compatible_justified : forall tb a b, compatible tb a b = true -> justified tb a b.
Proof.
  intros tb a b Cp. unfold compatible in Cp.
  destruct (common_lock a b) eqn:Ck; [|destruct (ordered_by tb a b) eqn:Ck1; [|destruct (ordered_by tb b a) eqn:Ck2]].
  - left. exact (common_lock_spec _ _ Ck).
  - right. left. exact (ordered_by_spec _ _ _ Ck1).
  - right. right. left. exact (ordered_by_spec _ _ _ Ck2).
  - right. right. right. unfold both_po in Cp. apply existsb_exists in Cp. destruct Cp as (x & Ix & Ex).
    destruct x as [c|c l]; [|discriminate Ex].
    apply existsb_exists in Ex. destruct Ex as (y & Iy & Ey).
    destruct y as [c'|c' l']; simpl in Ey; [|discriminate Ey]. apply String.eqb_eq in Ey. subst c'.
    exists c. split; assumption.
Qed.

(* the table-level statement: under the check, every conflicting pair of rows of the table is ordered by a
   common lock, or by a close / go statement / WaitGroup / publication edge one side precedes and the
   other has observed, or both rows belong to one thread *)
Theorem check_justifies : forall tb, check tb = true ->
  forall a b, In a (t_sites tb) -> In b (t_sites tb) -> conflict a b = true ->
  justified tb a b /\ exists r, why tb a b = Some r.
Proof.
  intros tb Ck a b Ia Ib Cn. unfold check, check_except in Ck.
  rewrite forallb_forall in Ck. specialize (Ck a Ia). rewrite forallb_forall in Ck. specialize (Ck b Ib).
  unfold pair_ok in Ck. rewrite Cn in Ck.
  destruct (compatible tb a b) eqn:Cp; [|discriminate Ck].
  split; [exact (compatible_justified _ _ _ Cp)|exact (proj1 (compatible_iff_why _ _ _) Cp)].
Qed.
