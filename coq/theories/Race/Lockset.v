(* C11 - the abstract lock machine and the lock-discipline check.  Definitions only.

   One machine describes ONE instance of each struct (one Value, one Collection, one stream ...):
   locks, channels and locations are named by "pkg.Type.field".  Threads issue
     Acq/Rel l    sync.(RW)Mutex Lock / Unlock
     RAcq/RRel l  RWMutex RLock / RUnlock
     Acc s        a read or write of location (s_loc s) at access site s of the generated table
     Close c      close(c) of a channel, cancellation of a context (closing its Done channel), or
                  the publication of a freshly constructed object (virtual channel [pub])
     RecvC c      a receive that observes c closed / <-ctx.Done() / the first use of a published object
   Happens-before is the Go memory model's: program order, and the synchronised-before edges
     n-th Unlock of l  ->  m-th Lock of l (n < m)         [Rel l  -> later Acq l]
     RUnlock of l      ->  later Lock of l                [RRel l -> later Acq l]
     Unlock of l       ->  later RLock of l               [Rel l  -> later RAcq l]
     close(c)          ->  a receive that returns because c is closed   [Close c -> later RecvC c]
   (the model takes the edges to *every* later operation; for RWMutex the memory model gives the
   edge to the next Lock/RLock and the rest follows through the intervening critical sections). *)
From SC Require Import Base.Prelude.

Definition tid := Z.
Definition lockn := string.
Definition chann := string.
Definition locn := string.

Inductive mode := MR | MX.
Inductive kind := KR | KW.

Definition mode_eqb (a b : mode) : bool :=
  match a, b with MR, MR => true | MX, MX => true | _, _ => false end.

(* how an access site is known to precede the closing of channel c:
   BPO c       the site is followed, in the same function body, by the only close(c)
   BGuard c l  the site runs while holding l exclusively, after checking under l that c is not
               closed, and every close(c) is made while holding l exclusively *)
Inductive before := BPO (c : chann) | BGuard (c : chann) (l : lockn).

Record site := mkSite {
  s_loc : locn;                      (* "pkg.Type.field", or "pkg.Type.field.*" for the object a field points to *)
  s_kind : kind;
  s_locks : list (lockn * mode);     (* locks held at the site (MR: at least a read lock) *)
  s_before : list before;
  s_after : list chann;              (* the site runs after a receive that observed c closed *)
  s_init : bool;                     (* construction phase: before the object is published *)
  s_fn : string;                     (* "pkg/path/file.go:Recv.Func" *)
  s_pos : string                     (* "pkg/path/file.go:line" *)
}.

Record closer := mkCloser {
  c_chan : chann;
  c_locks : list (lockn * mode);
  c_fn : string;
  c_pos : string
}.

Record table := mkTable { t_sites : list site; t_closers : list closer }.

(* the virtual channel closed when the constructor hands the object out *)
Definition pub : chann := "pub"%string.

Definition eff_before (s : site) : list before :=
  if s_init s then BPO pub :: s_before s else s_before s.
Definition eff_after (s : site) : list chann :=
  if s_init s then s_after s else pub :: s_after s.

(* ---- the machine ---- *)

Inductive act :=
| Acq (l : lockn) | Rel (l : lockn) | RAcq (l : lockn) | RRel (l : lockn)
| Acc (s : site)
| Close (c : chann) | RecvC (c : chann).

Notation event := (tid * act)%type (only parsing).
Notation trace := (list (tid * act)%type) (only parsing).

Definition sw (a b : act) : bool :=
  match a, b with
  | Rel l, Acq l' => String.eqb l l'
  | RRel l, Acq l' => String.eqb l l'
  | Rel l, RAcq l' => String.eqb l l'
  | Close c, RecvC c' => String.eqb c c'
  | _, _ => false
  end.

(* happens-before between trace positions (reflexive) *)
Inductive hb (tr : trace) : nat -> nat -> Prop :=
| hb_po : forall i j t a b, (i <= j)%nat ->
    nth_error tr i = Some (t, a) -> nth_error tr j = Some (t, b) -> hb tr i j
| hb_sw : forall i j t a u b, (i < j)%nat ->
    nth_error tr i = Some (t, a) -> nth_error tr j = Some (u, b) -> sw a b = true -> hb tr i j
| hb_trans : forall i j k, hb tr i j -> hb tr j k -> hb tr i k.

(* number of holds of lock l in mode m by thread t after executing p *)
Definition upd (a : act) (t0 t : tid) (l : lockn) (m : mode) (n : nat) : nat :=
  match a, m with
  | Acq l0, MX => if (t0 =? t) && String.eqb l0 l then S n else n
  | Rel l0, MX => if (t0 =? t) && String.eqb l0 l then pred n else n
  | RAcq l0, MR => if (t0 =? t) && String.eqb l0 l then S n else n
  | RRel l0, MR => if (t0 =? t) && String.eqb l0 l then pred n else n
  | _, _ => n
  end.

Definition cnt (p : trace) (t : tid) (l : lockn) (m : mode) : nat :=
  fold_left (fun n e => upd (snd e) (fst e) t l m n) p 0%nat.

(* semantics of sync.RWMutex and of closed channels: when an event can happen after prefix p *)
Definition enabled (p : trace) (e : event) : Prop :=
  match e with
  | (_, Acq l) => forall u m, cnt p u l m = 0%nat
  | (_, RAcq l) => forall u, cnt p u l MX = 0%nat
  | (t, Rel l) => (cnt p t l MX > 0)%nat
  | (t, RRel l) => (cnt p t l MR > 0)%nat
  | (_, RecvC c) => exists u, In (u, Close c) p
  | _ => True
  end.

Definition wf (tr : trace) : Prop := forall p e q, tr = p ++ e :: q -> enabled p e.

(* thread t holds l at least in mode m after p *)
Definition holds (p : trace) (t : tid) (l : lockn) (m : mode) : Prop :=
  match m with
  | MX => (cnt p t l MX > 0)%nat
  | MR => (cnt p t l MR > 0)%nat \/ (cnt p t l MX > 0)%nat
  end.

(* what the annotations of a table mean for an execution.  BPO c: this thread goes on to close c
   (executions are followed up to the close that ends the function the site is in; for the
   construction phase: up to the publication of the object) and nobody else ever closes c, which
   in Go would panic.  BGuard c l: c has not been closed yet. *)
Definition before_ok (tr p : trace) (t : tid) (b : before) : Prop :=
  match b with
  | BPO c => (exists p' q', tr = p' ++ (t, Close c) :: q') /\
      forall p' u q', tr = p' ++ (u, Close c) :: q' -> u = t /\ (List.length p < List.length p')%nat
  | BGuard c l => forall u, ~ In (u, Close c) p
  end.

Definition conform (tb : table) (tr : trace) : Prop :=
  (forall p t s q, tr = p ++ (t, Acc s) :: q ->
      In s (t_sites tb) /\
      (forall l m, In (l, m) (s_locks s) -> holds p t l m) /\
      (forall c, In c (eff_after s) -> In (t, RecvC c) p) /\
      (forall b, In b (eff_before s) -> before_ok tr p t b)) /\
  (forall p u c q, tr = p ++ (u, Close c) :: q -> c <> pub ->
      exists cl, In cl (t_closers tb) /\ c_chan cl = c /\
                 forall l m, In (l, m) (c_locks cl) -> holds p u l m).

(* ---- the discipline check over a table ---- *)

Definition has_lock (ls : list (lockn * mode)) (l : lockn) (m : mode) : bool :=
  existsb (fun p => String.eqb (fst p) l && mode_eqb (snd p) m) ls.

(* a lock both sites hold, at least one of them exclusively *)
Definition common_lock (a b : site) : bool :=
  existsb (fun p => let l := fst p in
     match snd p with
     | MX => has_lock (s_locks b) l MX || has_lock (s_locks b) l MR
     | MR => has_lock (s_locks b) l MX
     end) (s_locks a).

Definition before_valid (tb : table) (s : site) (b : before) : bool :=
  match b with
  | BPO c => String.eqb c pub ||
      forallb (fun cl => negb (String.eqb (c_chan cl) c) || String.eqb (c_fn cl) (s_fn s)) (t_closers tb)
  | BGuard c l => negb (String.eqb c pub) && has_lock (s_locks s) l MX &&
      forallb (fun cl => negb (String.eqb (c_chan cl) c) || has_lock (c_locks cl) l MX) (t_closers tb)
  end.

Definition before_chan (b : before) : chann := match b with BPO c => c | BGuard c _ => c end.

(* a is known to precede the close of a channel whose closedness b has observed *)
Definition ordered_by (tb : table) (a b : site) : bool :=
  existsb (fun x => before_valid tb a x && existsb (String.eqb (before_chan x)) (eff_after b)) (eff_before a).

(* both sites are followed by the one close of the same channel: they run in the one thread that closes it
   (in particular: both belong to the construction phase) *)
Definition is_bpo (c : chann) (x : before) : bool :=
  match x with BPO c' => String.eqb c c' | BGuard _ _ => false end.
Definition both_po (a b : site) : bool :=
  existsb (fun x => match x with BPO c => existsb (is_bpo c) (eff_before b) | BGuard _ _ => false end) (eff_before a).

(* written with [if] so that evaluation is lazy under vm_compute *)
Definition compatible (tb : table) (a b : site) : bool :=
  if common_lock a b then true else if ordered_by tb a b then true
  else if ordered_by tb b a then true else both_po a b.

Definition is_write (s : site) : bool := match s_kind s with KW => true | KR => false end.
Definition conflict (a b : site) : bool :=
  if String.eqb (s_loc a) (s_loc b) then (if is_write a then true else is_write b) else false.

(* recorded findings: (location, function, function) *)
Definition known := list (locn * string * string).
Definition is_known (K : known) (a b : site) : bool :=
  existsb (fun k => match k with (x, f, g) =>
     String.eqb x (s_loc a) && String.eqb x (s_loc b) &&
     ((String.eqb f (s_fn a) && String.eqb g (s_fn b)) || (String.eqb f (s_fn b) && String.eqb g (s_fn a)))
   end) K.

Definition pair_ok (tb : table) (K : known) (a b : site) : bool :=
  if conflict a b then (if compatible tb a b then true else is_known K a b) else true.

Definition check_except (K : known) (tb : table) : bool :=
  forallb (fun a => forallb (fun b => pair_ok tb K a b) (t_sites tb)) (t_sites tb).

Definition check (tb : table) : bool := check_except [] tb.

(* the site pairs that break the discipline (used to report and to refute) *)
Definition violations (K : known) (tb : table) : list (string * string * string) :=
  flat_map (fun a => flat_map (fun b =>
     if pair_ok tb K a b then [] else [(s_loc a, s_pos a, s_pos b)]) (t_sites tb)) (t_sites tb).

(* every recorded pair really is a conflicting, incompatible pair of the table *)
Definition known_is_violation (tb : table) (K : known) : bool :=
  forallb (fun k => existsb (fun a => existsb (fun b =>
     if is_known [k] a b then (if conflict a b then negb (compatible tb a b) else false) else false) (t_sites tb)) (t_sites tb)) K.

(* ---- the happens-before edges of the go statement and of sync.WaitGroup ----
   They are rendered by the close -> receive edge on virtual channels, one per go statement G of the
   source ("go:G": the go statement closes it, the first action of the new goroutine receives from it:
   "the go statement that starts a new goroutine is synchronized before the start of the goroutine's
   execution") and one per goroutine G that calls W.Done() ("wg:W@G": Done closes it, the return of
   W.Wait() receives from it: "a call to Done synchronizes before the return of any Wait call that it
   unblocks"; the translator requires W.Add before the go statement, so a Wait cannot return before G's
   Done).  "end:G" / "ret:F" are closed by the last action of goroutine G / of the function's own thread:
   sites that are all followed by that one close run in that one thread. *)
Definition go_chan (g : string) : chann := ("go:" ++ g)%string.
Definition wg_chan (w g : string) : chann := ("wg:" ++ w ++ "@" ++ g)%string.
Definition Go (g : string) : act := Close (go_chan g).
Definition Start (g : string) : act := RecvC (go_chan g).
Definition WgDone (w g : string) : act := Close (wg_chan w g).
Definition WgWait (w g : string) : act := RecvC (wg_chan w g).

(* ---- why a pair of sites is compatible (the branch of [compatible] that accepts it) ---- *)
Definition lock_covers (b : site) (p : lockn * mode) : bool :=
  let l := fst p in
  match snd p with
  | MX => has_lock (s_locks b) l MX || has_lock (s_locks b) l MR
  | MR => has_lock (s_locks b) l MX
  end.
Definition orders (tb : table) (a b : site) (x : before) : bool :=
  before_valid tb a x && existsb (String.eqb (before_chan x)) (eff_after b).
Definition same_closer (b : site) (x : before) : bool :=
  match x with BPO c => existsb (is_bpo c) (eff_before b) | BGuard _ _ => false end.

Inductive reason :=
| RLock (l : lockn)              (* a common lock, one side exclusive *)
| RPublish                       (* construction, then publication of the object, then the other site *)
| RGo (c : chann)                (* one site precedes the go statement that started the other's goroutine *)
| RWaitGroup (c : chann)         (* one site precedes a Done, the other follows the Wait *)
| RClose (c : chann)             (* one site precedes close(c), the other has observed c closed *)
| RCtor                          (* both belong to the construction phase (one thread) *)
| RSameThread (c : chann)        (* both belong to the one goroutine / function thread that ends with c *)
| RBothBeforeClose (c : chann).  (* both are followed by the one close(c): the closing thread *)

Definition chan_reason (c : chann) : reason :=
  if String.eqb c pub then RPublish
  else if prefix "go:" c then RGo c
  else if prefix "wg:" c then RWaitGroup c
  else RClose c.
Definition po_reason (c : chann) : reason :=
  if String.eqb c pub then RCtor
  else if prefix "end:" c || prefix "ret:" c then RSameThread c
  else RBothBeforeClose c.

Definition why (tb : table) (a b : site) : option reason :=
  match find (lock_covers b) (s_locks a) with
  | Some p => Some (RLock (fst p))
  | None =>
  match find (orders tb a b) (eff_before a) with
  | Some x => Some (chan_reason (before_chan x))
  | None =>
  match find (orders tb b a) (eff_before b) with
  | Some x => Some (chan_reason (before_chan x))
  | None =>
  match find (same_closer b) (eff_before a) with
  | Some x => Some (po_reason (before_chan x))
  | None => None
  end end end end.

(* what the table says about a compatible pair, in words of the table itself *)
Definition justified (tb : table) (a b : site) : Prop :=
  (exists l m1 m2, In (l, m1) (s_locks a) /\ In (l, m2) (s_locks b) /\ (m1 = MX \/ m2 = MX)) \/
  (exists x, In x (eff_before a) /\ before_valid tb a x = true /\ In (before_chan x) (eff_after b)) \/
  (exists x, In x (eff_before b) /\ before_valid tb b x = true /\ In (before_chan x) (eff_after a)) \/
  (exists c, In (BPO c) (eff_before a) /\ In (BPO c) (eff_before b)).

Definition reason_tag (r : option reason) : string :=
  match r with
  | None => "none"
  | Some (RLock _) => "lock"
  | Some RPublish => "publication"
  | Some (RGo _) => "go-statement"
  | Some (RWaitGroup _) => "waitgroup"
  | Some (RClose _) => "channel-close"
  | Some RCtor => "construction"
  | Some (RSameThread _) => "same-thread"
  | Some (RBothBeforeClose _) => "closing-thread"
  end.

Definition bump (k : string) (h : list (string * Z)) : list (string * Z) :=
  (fix go (h : list (string * Z)) : list (string * Z) :=
     match h with
     | [] => [(k, 1)]
     | (k', n) :: r => if String.eqb k k' then (k', n + 1) :: r else (k', n) :: go r
     end) h.

(* histogram of the accepting branch over all ordered conflicting pairs of the table *)
Definition reason_histogram (tb : table) : list (string * Z) :=
  fold_left (fun h a => fold_left (fun h b =>
     if conflict a b then bump (reason_tag (why tb a b)) h else h) (t_sites tb) h) (t_sites tb) [].

(* the fields that are written after construction, each with the tags of the reasons that order its
   post-construction writes against the other sites *)
Definition late_write (s : site) : bool := is_write s && negb (s_init s).
