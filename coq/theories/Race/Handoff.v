(* C11 - message OBJECTS handed across a goroutine boundary.  Definitions only.

   A value sent on a channel field whose element type can hold a reference (pkg/wrap's clientSend /
   serverSend carry the messages of a call; minibus's listener.ch the events) is an object that another
   goroutine goes on to read: a location of its own, "<channel field>.msg".  The translator emits
   three kinds of rows for it (harness/c11/translate.go, "handovers"):

     copy row   W, construction phase    the value sent is a FRESH copy (snapshot(m) = proto.Clone,
                                         a composite literal, a local nobody mentions after the send):
                                         it is written while it is built, the send publishes it;
     keep row   W, not construction,     the value sent is something the sender's side can still reach
                BPO ret:owner(loc)       (a parameter, a field, a received value): its OWNER - the caller
                                         that passed it in - may write it at any later time; all these
                                         later accesses are the one owner's (one thread);
     receive row R, not construction     a use of the value received from the channel.

   The send -> receive edge of the memory model is the publication edge of the machine (virtual
   channel [pub]: the sender closes it, the receiver's first use has received from it).  It orders what
   the sender did BEFORE the send; nothing orders what the sender's side does AFTER it.  So the rule
   "a pointer sent on a channel is either a fresh copy or never touched again by the sender" is the
   discipline check itself on these rows: copy/receive passes by publication, keep/receive fails. *)
From SC Require Import Base.Prelude Race.Lockset.
Local Open Scope string_scope.

Definition msg_loc (ch : chann) : locn := ch ++ ".msg".
Definition owner_chan (loc : locn) : chann := "ret:owner(" ++ loc ++ ")".

Definition copy_site (ch : chann) (fn pos : string) : site :=
  mkSite (msg_loc ch) KW [] [] [] true fn pos.
Definition keep_site (ch : chann) (fn pos : string) : site :=
  mkSite (msg_loc ch) KW [] [BPO (owner_chan (msg_loc ch))] [] false fn pos.
Definition recv_site (ch : chann) (fn pos : string) : site :=
  mkSite (msg_loc ch) KR [] [] [] false fn pos.
Definition owner_closer (ch : chann) (fn pos : string) : closer :=
  mkCloser (owner_chan (msg_loc ch)) [] fn pos.

(* a row that relies on nothing but having received the object: no lock, follows no close *)
Definition plain_use (r : site) : Prop := s_init r = false /\ s_locks r = [] /\ s_before r = [].

(* the receiver has observed the closing of one of the channels the row precedes *)
Definition observed_by (r k : site) : Prop :=
  exists x, In x (s_before k) /\ In (before_chan x) (pub :: s_after r).

Definition plain_useb (r : site) : bool :=
  negb (s_init r) && match s_locks r with [] => true | _ => false end && match s_before r with [] => true | _ => false end.
(* number of (copy row, plain receive row) pairs of one location in a table *)
Definition handover_pairs (tb : table) : Z :=
  zlen (flat_map (fun k => filter (fun r =>
     String.eqb (s_loc k) (s_loc r) && is_write k && s_init k && negb (is_write r) && plain_useb r) (t_sites tb)) (t_sites tb)).

(* ---- the two shapes as machines: one channel S.c, sender thread 1, receiver thread 2 ---- *)
Definition hch : chann := "S.c".
Definition h_copy : site := copy_site hch "f.go:S.Send" "f.go:10".
Definition h_keep : site := keep_site hch "f.go:S.Send" "f.go:10".
Definition h_recv : site := recv_site hch "f.go:S.Recv" "f.go:20".
Definition h_owner : chann := owner_chan (msg_loc hch).

Definition tbCopy : table := mkTable [h_copy; h_recv] [].
Definition tbKeep : table := mkTable [h_keep; h_recv] [owner_closer hch "f.go:S.Send" "f.go:10"].

(* the sender builds the copy, sends it (publication), the receiver reads it *)
Definition trCopy : list (tid * act) :=
  [(1, Acc h_copy); (1, Close pub); (2, RecvC pub); (2, Acc h_recv)].
(* the sender sends its caller's object; the receiver reads it; the caller, back from the call that
   was abandoned, writes it; the caller is done with it *)
Definition trKeep : list (tid * act) :=
  [(1, Close pub); (1, RecvC pub); (2, RecvC pub); (2, Acc h_recv); (1, Acc h_keep); (1, Close h_owner)].

(* The rows of wrap.ClientServerStream.clientSend.msg as the translator extracts them from the tree of
   seeded change C11-r4-3 (unary Invoke sends args itself through a new sendRequest) and from the
   unchanged tree. *)
Definition seed_handoff_table : table := mkTable [
  mkSite "wrap.ClientServerStream.clientSend.msg" KW [] [] [] true "pkg/wrap/stream.go:clientStream.SendMsg" "pkg/wrap/stream.go:123";
  mkSite "wrap.ClientServerStream.clientSend.msg" KW [] [BPO "ret:owner(wrap.ClientServerStream.clientSend.msg)"] [] false "pkg/wrap/stream.go:ClientServerStream.sendRequest" "pkg/wrap/stream.go:134";
  mkSite "wrap.ClientServerStream.clientSend.msg" KR [] [] [] false "pkg/wrap/stream.go:serverStream.RecvMsg" "pkg/wrap/stream.go:229"
] [
  mkCloser "ret:owner(wrap.ClientServerStream.clientSend.msg)" [] "pkg/wrap/stream.go:ClientServerStream.sendRequest" "pkg/wrap/stream.go:134"
].
Definition fixed_handoff_table : table := mkTable [
  mkSite "wrap.ClientServerStream.clientSend.msg" KW [] [] [] true "pkg/wrap/stream.go:clientStream.SendMsg" "pkg/wrap/stream.go:123";
  mkSite "wrap.ClientServerStream.clientSend.msg" KR [] [] [] false "pkg/wrap/stream.go:serverStream.RecvMsg" "pkg/wrap/stream.go:218";
  mkSite "wrap.ClientServerStream.serverSend.msg" KR [] [] [] false "pkg/wrap/stream.go:clientStream.RecvMsg" "pkg/wrap/stream.go:146";
  mkSite "wrap.ClientServerStream.serverSend.msg" KW [] [] [] true "pkg/wrap/stream.go:serverStream.SendMsg" "pkg/wrap/stream.go:205";
  mkSite "minibus.listener.ch.msg" KW [] [BPO "ret:owner(minibus.listener.ch.msg)"] [] false "internal/minibus/bus.go:listener.send" "internal/minibus/bus.go:105"
] [
  mkCloser "ret:owner(minibus.listener.ch.msg)" [] "internal/minibus/bus.go:listener.send" "internal/minibus/bus.go:105"
].

(* ---- borrowed parameters captured by a goroutine ----
   A parameter through which the caller lends a message (any / proto.Message / *pkg.Msg) and which a
   goroutine started by the function captures: location "<pkg>.<Func>.<param>.*".  Every use inside the
   goroutine is a row (W: what is done with the object there is not followed), and the closing brace of
   the function is the owner's next write.  They are ordered only if the function waits for the goroutine.
   lend_table: the rows of a unary Invoke whose handler goroutine reads args directly (self-mutation M4);
   lend_waited_table: the same with `var wg sync.WaitGroup; wg.Add(1); go func(){ defer wg.Done() ...}(); wg.Wait()`. *)
Definition lend_table : table := mkTable [
  mkSite "wrap.wrapper.Invoke.args.*" KW [] [BPO "end:wrap.wrapper.Invoke@62"] ["go:wrap.wrapper.Invoke@62"] false "pkg/wrap/wrap.go:wrapper.Invoke" "pkg/wrap/wrap.go:65";
  mkSite "wrap.wrapper.Invoke.args.*" KW [] [BPO "ret:wrap.wrapper.Invoke"] [] false "pkg/wrap/wrap.go:wrapper.Invoke" "pkg/wrap/wrap.go:86"
] [
  mkCloser "go:wrap.wrapper.Invoke@62" [] "pkg/wrap/wrap.go:wrapper.Invoke" "pkg/wrap/wrap.go:62";
  mkCloser "end:wrap.wrapper.Invoke@62" [] "pkg/wrap/wrap.go:wrapper.Invoke" "pkg/wrap/wrap.go:72";
  mkCloser "ret:wrap.wrapper.Invoke" [] "pkg/wrap/wrap.go:wrapper.Invoke" "pkg/wrap/wrap.go:86"
].
Definition lend_waited_table : table := mkTable [
  mkSite "wrap.wrapper.Invoke.args.*" KW [] [BPO "end:wrap.wrapper.Invoke@62"; BPO "wg:wg@wrap.wrapper.Invoke@62"] ["go:wrap.wrapper.Invoke@62"] false "pkg/wrap/wrap.go:wrapper.Invoke" "pkg/wrap/wrap.go:65";
  mkSite "wrap.wrapper.Invoke.args.*" KW [] [BPO "ret:wrap.wrapper.Invoke"] ["wg:wg@wrap.wrapper.Invoke@62"] false "pkg/wrap/wrap.go:wrapper.Invoke" "pkg/wrap/wrap.go:88"
] [
  mkCloser "go:wrap.wrapper.Invoke@62" [] "pkg/wrap/wrap.go:wrapper.Invoke" "pkg/wrap/wrap.go:62";
  mkCloser "end:wrap.wrapper.Invoke@62" [] "pkg/wrap/wrap.go:wrapper.Invoke" "pkg/wrap/wrap.go:72";
  mkCloser "wg:wg@wrap.wrapper.Invoke@62" [] "pkg/wrap/wrap.go:wrapper.Invoke" "pkg/wrap/wrap.go:63";
  mkCloser "ret:wrap.wrapper.Invoke" [] "pkg/wrap/wrap.go:wrapper.Invoke" "pkg/wrap/wrap.go:88"
].
