(* C11 - concrete executions of the lock machine: the hypotheses of lockset_sound are satisfiable
   (two threads writing under a common exclusive lock), and a write made under a READ lock only
   (the shape of the rng finding) has a well-formed, conforming execution with a data race. *)
From SC Require Import Base.Prelude Race.Lockset Race.LocksetProofs.
Local Open Scope string_scope.

Definition wsite (m : mode) : site :=
  mkSite "x" KW [("mu", m)] [] ["pub"] false "f.go:F" "f.go:1".
(* s_after mentions pub only to document it: eff_after adds it for every non-init site *)

Definition tbX : table := mkTable [wsite MX] [].
Definition tbR : table := mkTable [wsite MR] [].

(* thread 0 constructs and publishes; threads 1 and 2 observe the publication and write under the lock *)
Definition trX : list (tid * act) :=
  [(0, Close pub); (1, RecvC pub); (2, RecvC pub);
   (1, Acq "mu"); (1, Acc (wsite MX)); (1, Rel "mu");
   (2, Acq "mu"); (2, Acc (wsite MX)); (2, Rel "mu")]%Z.

Definition trR : list (tid * act) :=
  [(0, Close pub); (1, RecvC pub); (2, RecvC pub);
   (1, RAcq "mu"); (2, RAcq "mu"); (1, Acc (wsite MR)); (2, Acc (wsite MR));
   (1, RRel "mu"); (2, RRel "mu")]%Z.

Lemma wf_trX : wf trX.
Proof.
  intros p e q E. unfold trX in E.
  destruct p as [|e0 p]; simpl in E; [inversion E; subst; exact I|inversion E as [[E0 E1]]; clear E].
  destruct p as [|e1 p]; simpl in E1; [inversion E1; subst; exists 0%Z; left; reflexivity|inversion E1 as [[E1' E2]]; clear E1].
  destruct p as [|e2 p]; simpl in E2; [inversion E2; subst; exists 0%Z; left; reflexivity|inversion E2 as [[E2' E3]]; clear E2].
  destruct p as [|e3 p]; simpl in E3; [inversion E3; subst; intros u m; unfold cnt; simpl; destruct m; reflexivity|inversion E3 as [[E3' E4]]; clear E3].
  destruct p as [|e4 p]; simpl in E4; [inversion E4; subst; exact I|inversion E4 as [[E4' E5]]; clear E4].
  destruct p as [|e5 p]; simpl in E5; [inversion E5; subst; cbn [enabled]; unfold cnt; simpl; lia|inversion E5 as [[E5' E6]]; clear E5].
  destruct p as [|e6 p]; simpl in E6.
  { inversion E6; subst. intros u m. unfold cnt. simpl. destruct m; [reflexivity|].
    destruct u as [|u|u]; simpl; try reflexivity. destruct (1 =? u)%positive; reflexivity. }
  inversion E6 as [[E6' E7]]; clear E6.
  destruct p as [|e7 p]; simpl in E7; [inversion E7; subst; exact I|inversion E7 as [[E7' E8]]; clear E7].
  destruct p as [|e8 p]; simpl in E8; [inversion E8; subst; cbn [enabled]; unfold cnt; simpl; lia|inversion E8 as [[E8' E9]]; clear E8].
  destruct p; discriminate E9.
Qed.

Lemma conform_trX : conform tbX trX.
Proof.
  split.
  - intros p t s q E. unfold trX in E.
    do 4 (destruct p as [|? p]; simpl in E; [discriminate E|inversion E as [[E0 E']]; clear E; rename E' into E; clear E0]).
    destruct p as [|? p]; simpl in E.
    { inversion E; subst. split; [left; reflexivity|]. split.
      - intros l m [H|[]]. inversion H; subst. unfold holds, cnt. simpl. lia.
      - split.
        + intros c [H|[H|[]]]; subst; right; left; reflexivity.
        + intros b []. }
    inversion E as [[E0 E']]; clear E; rename E' into E; clear E0.
    do 2 (destruct p as [|? p]; simpl in E; [discriminate E|inversion E as [[E0 E']]; clear E; rename E' into E; clear E0]).
    destruct p as [|? p]; simpl in E.
    { inversion E; subst. split; [left; reflexivity|]. split.
      - intros l m [H|[]]. inversion H; subst. unfold holds, cnt. simpl. lia.
      - split.
        + intros c [H|[H|[]]]; subst; right; right; left; reflexivity.
        + intros b []. }
    inversion E as [[E0 E']]; clear E; rename E' into E; clear E0.
    destruct p as [|? p]; simpl in E; [discriminate E|inversion E as [[E0 E']]; clear E; rename E' into E; clear E0].
    destruct p; discriminate E.
  - intros p u c q E NP. unfold trX in E.
    destruct p as [|? p]; simpl in E; [inversion E; subst; exfalso; apply NP; reflexivity|inversion E as [[E0 E']]; clear E; rename E' into E; clear E0].
    do 8 (destruct p as [|? p]; simpl in E; [discriminate E|inversion E as [[E0 E']]; clear E; rename E' into E; clear E0]).
    destruct p; discriminate E.
Qed.

Lemma check_tbX : check tbX = true.
Proof. vm_compute. reflexivity. Qed.

(* the two writes of trX (positions 4 and 7) are ordered, as lockset_sound says *)
Lemma trX_ordered : hb trX 4 7.
Proof.
  pose proof (lockset_sound [] tbX trX
    [(0, Close pub); (1, RecvC pub); (2, RecvC pub); (1, Acq "mu")]%Z 1%Z (wsite MX)
    [(1, Rel "mu"); (2, Acq "mu")]%Z 2%Z (wsite MX) [(2, Rel "mu")]%Z check_tbX wf_trX conform_trX eq_refl eq_refl) as H.
  destruct H as [H|H]; [exact H|discriminate H].
Qed.

(* ---- the read-lock write ---- *)

Lemma check_tbR : check tbR = false.
Proof. vm_compute. reflexivity. Qed.

Lemma wf_trR : wf trR.
Proof.
  intros p e q E. unfold trR in E.
  destruct p as [|e0 p]; simpl in E; [inversion E; subst; exact I|inversion E as [[E0 E1]]; clear E].
  destruct p as [|e1 p]; simpl in E1; [inversion E1; subst; exists 0%Z; left; reflexivity|inversion E1 as [[E1' E2]]; clear E1].
  destruct p as [|e2 p]; simpl in E2; [inversion E2; subst; exists 0%Z; left; reflexivity|inversion E2 as [[E2' E3]]; clear E2].
  destruct p as [|e3 p]; simpl in E3; [inversion E3; subst; intros u; unfold cnt; simpl; reflexivity|inversion E3 as [[E3' E4]]; clear E3].
  destruct p as [|e4 p]; simpl in E4; [inversion E4; subst; intros u; unfold cnt; simpl; reflexivity|inversion E4 as [[E4' E5]]; clear E4].
  destruct p as [|e5 p]; simpl in E5; [inversion E5; subst; exact I|inversion E5 as [[E5' E6]]; clear E5].
  destruct p as [|e6 p]; simpl in E6; [inversion E6; subst; exact I|inversion E6 as [[E6' E7]]; clear E6].
  destruct p as [|e7 p]; simpl in E7; [inversion E7; subst; cbn [enabled]; unfold cnt; simpl; lia|inversion E7 as [[E7' E8]]; clear E7].
  destruct p as [|e8 p]; simpl in E8; [inversion E8; subst; cbn [enabled]; unfold cnt; simpl; lia|inversion E8 as [[E8' E9]]; clear E8].
  destruct p; discriminate E9.
Qed.

Lemma conform_trR : conform tbR trR.
Proof.
  split.
  - intros p t s q E. unfold trR in E.
    do 5 (destruct p as [|? p]; simpl in E; [discriminate E|inversion E as [[E0 E']]; clear E; rename E' into E; clear E0]).
    destruct p as [|? p]; simpl in E.
    { inversion E; subst. split; [left; reflexivity|]. split.
      - intros l m [H|[]]. inversion H; subst. left. unfold cnt. simpl. lia.
      - split.
        + intros c [H|[H|[]]]; subst; right; left; reflexivity.
        + intros b []. }
    inversion E as [[E0 E']]; clear E; rename E' into E; clear E0.
    destruct p as [|? p]; simpl in E.
    { inversion E; subst. split; [left; reflexivity|]. split.
      - intros l m [H|[]]. inversion H; subst. left. unfold cnt. simpl. lia.
      - split.
        + intros c [H|[H|[]]]; subst; right; right; left; reflexivity.
        + intros b []. }
    inversion E as [[E0 E']]; clear E; rename E' into E; clear E0.
    do 2 (destruct p as [|? p]; simpl in E; [discriminate E|inversion E as [[E0 E']]; clear E; rename E' into E; clear E0]).
    destruct p; discriminate E.
  - intros p u c q E NP. unfold trR in E.
    destruct p as [|? p]; simpl in E; [inversion E; subst; exfalso; apply NP; reflexivity|inversion E as [[E0 E']]; clear E; rename E' into E; clear E0].
    do 8 (destruct p as [|? p]; simpl in E; [discriminate E|inversion E as [[E0 E']]; clear E; rename E' into E; clear E0]).
    destruct p; discriminate E.
Qed.

(* everything happens-before relates in trR *)
Definition hbR (i j : nat) : Prop :=
  (i <= j)%nat /\ (i = j \/ (i = 0%nat /\ (1 <= j)%nat) \/
     (Nat.odd i = Nat.odd j /\ (1 <= i)%nat) ).

Lemma hb_trR : forall i j, hb trR i j -> hbR i j.
Proof.
  intros i j H. induction H as [i j t a b L Ni Nj|i j t a u b L Ni Nj S|i j k _ IH1 _ IH2].
  - unfold trR in *. split; [exact L|].
    do 9 (destruct i as [|i]; [
      do 9 (destruct j as [|j]; [simpl in *; inversion Ni; inversion Nj; subst; try discriminate; try lia; auto; try (right; right; split; [reflexivity|lia])|]);
      simpl in Nj; destruct j; discriminate Nj |]).
    simpl in Ni. destruct i; discriminate Ni.
  - unfold trR in *. split; [lia|].
    do 9 (destruct i as [|i]; [
      do 9 (destruct j as [|j]; [simpl in *; inversion Ni; inversion Nj; subst; simpl in S; try discriminate S; try lia; auto|]);
      simpl in Nj; destruct j; discriminate Nj |]).
    simpl in Ni. destruct i; discriminate Ni.
  - destruct IH1 as [L1 C1], IH2 as [L2 C2]. split; [lia|].
    destruct C1 as [->|[[-> G1]|[O1 G1]]]; [exact C2| |].
    + right. left. split; [reflexivity|]. destruct C2 as [->|[[-> G2]|[O2 G2]]]; lia.
    + destruct C2 as [->|[[-> G2]|[O2 G2]]]; [right; right; auto|lia|].
      right. right. split; [congruence|exact G1].
Qed.

(* the writes of threads 1 and 2 at positions 5 and 6 are not ordered: a data race *)
Lemma trR_race : ~ hb trR 5 6.
Proof.
  intros H. apply hb_trR in H. destruct H as [_ [H|[[H _]|[H _]]]]; try discriminate H.
Qed.
