(* C11 - concrete executions of the lock machine: the hypotheses of lockset_sound are satisfiable
   (two threads writing under a common exclusive lock), and a write made under a READ lock only
   (the shape of the rng finding) has a well-formed, conforming execution with a data race. *)
From SC Require Import Base.Prelude Race.Lockset Race.LocksetProofs.
Local Open Scope string_scope.

Definition wsite (m : mode) : site :=
  mkSite "x" KW [("mu", m)] [] ["pub"] false "f.go:F" "f.go:1".
(* s_after mentions pub only to document it: eff_after adds it for every non-init site *)

Definition tbX : table := mkTable [wsite MX] [].
Definition tbR : table := mkTable [wsite MR] [].

(* thread 0 constructs and publishes; threads 1 and 2 observe the publication and write under the lock *)
Definition trX : list (tid * act) :=
  [(0, Close pub); (1, RecvC pub); (2, RecvC pub);
   (1, Acq "mu"); (1, Acc (wsite MX)); (1, Rel "mu");
   (2, Acq "mu"); (2, Acc (wsite MX)); (2, Rel "mu")]%Z.

Definition trR : list (tid * act) :=
  [(0, Close pub); (1, RecvC pub); (2, RecvC pub);
   (1, RAcq "mu"); (2, RAcq "mu"); (1, Acc (wsite MR)); (2, Acc (wsite MR));
   (1, RRel "mu"); (2, RRel "mu")]%Z.

Lemma wf_trX : wf trX.
Proof.
  intros p e q E. unfold trX in E.
  destruct p as [|e0 p]; simpl in E; [inversion E; subst; exact I|inversion E as [[E0 E1]]; clear E].
  destruct p as [|e1 p]; simpl in E1; [inversion E1; subst; exists 0%Z; left; reflexivity|inversion E1 as [[E1' E2]]; clear E1].
  destruct p as [|e2 p]; simpl in E2; [inversion E2; subst; exists 0%Z; left; reflexivity|inversion E2 as [[E2' E3]]; clear E2].
  destruct p as [|e3 p]; simpl in E3; [inversion E3; subst; intros u m; unfold cnt; simpl; destruct m; reflexivity|inversion E3 as [[E3' E4]]; clear E3].
  destruct p as [|e4 p]; simpl in E4; [inversion E4; subst; exact I|inversion E4 as [[E4' E5]]; clear E4].
  destruct p as [|e5 p]; simpl in E5; [inversion E5; subst; cbn [enabled]; unfold cnt; simpl; lia|inversion E5 as [[E5' E6]]; clear E5].
  destruct p as [|e6 p]; simpl in E6.
  { inversion E6; subst. intros u m. unfold cnt. simpl. destruct m; [reflexivity|].
    destruct u as [|u|u]; simpl; try reflexivity. destruct (1 =? u)%positive; reflexivity. }
  inversion E6 as [[E6' E7]]; clear E6.
  destruct p as [|e7 p]; simpl in E7; [inversion E7; subst; exact I|inversion E7 as [[E7' E8]]; clear E7].
  destruct p as [|e8 p]; simpl in E8; [inversion E8; subst; cbn [enabled]; unfold cnt; simpl; lia|inversion E8 as [[E8' E9]]; clear E8].
  destruct p; discriminate E9.
Qed.

Lemma conform_trX : conform tbX trX.
Proof.
  split.
  - intros p t s q E. unfold trX in E.
    do 4 (destruct p as [|? p]; simpl in E; [discriminate E|inversion E as [[E0 E']]; clear E; rename E' into E; clear E0]).
    destruct p as [|? p]; simpl in E.
    { inversion E; subst. split; [left; reflexivity|]. split.
      - intros l m [H|[]]. inversion H; subst. unfold holds, cnt. simpl. lia.
      - split.
        + intros c [H|[H|[]]]; subst; right; left; reflexivity.
        + intros b []. }
    inversion E as [[E0 E']]; clear E; rename E' into E; clear E0.
    do 2 (destruct p as [|? p]; simpl in E; [discriminate E|inversion E as [[E0 E']]; clear E; rename E' into E; clear E0]).
    destruct p as [|? p]; simpl in E.
    { inversion E; subst. split; [left; reflexivity|]. split.
      - intros l m [H|[]]. inversion H; subst. unfold holds, cnt. simpl. lia.
      - split.
        + intros c [H|[H|[]]]; subst; right; right; left; reflexivity.
        + intros b []. }
    inversion E as [[E0 E']]; clear E; rename E' into E; clear E0.
    destruct p as [|? p]; simpl in E; [discriminate E|inversion E as [[E0 E']]; clear E; rename E' into E; clear E0].
    destruct p; discriminate E.
  - intros p u c q E NP. unfold trX in E.
    destruct p as [|? p]; simpl in E; [inversion E; subst; exfalso; apply NP; reflexivity|inversion E as [[E0 E']]; clear E; rename E' into E; clear E0].
    do 8 (destruct p as [|? p]; simpl in E; [discriminate E|inversion E as [[E0 E']]; clear E; rename E' into E; clear E0]).
    destruct p; discriminate E.
Qed.

Lemma check_tbX : check tbX = true.
Proof. vm_compute. reflexivity. Qed.

(* the two writes of trX (positions 4 and 7) are ordered, as lockset_sound says *)
Lemma trX_ordered : hb trX 4 7.
Proof.
  pose proof (lockset_sound [] tbX trX
    [(0, Close pub); (1, RecvC pub); (2, RecvC pub); (1, Acq "mu")]%Z 1%Z (wsite MX)
    [(1, Rel "mu"); (2, Acq "mu")]%Z 2%Z (wsite MX) [(2, Rel "mu")]%Z check_tbX wf_trX conform_trX eq_refl eq_refl) as H.
  destruct H as [H|H]; [exact H|discriminate H].
Qed.

(* ---- the read-lock write ---- *)

Lemma check_tbR : check tbR = false.
Proof. vm_compute. reflexivity. Qed.

Lemma wf_trR : wf trR.
Proof.
  intros p e q E. unfold trR in E.
  destruct p as [|e0 p]; simpl in E; [inversion E; subst; exact I|inversion E as [[E0 E1]]; clear E].
  destruct p as [|e1 p]; simpl in E1; [inversion E1; subst; exists 0%Z; left; reflexivity|inversion E1 as [[E1' E2]]; clear E1].
  destruct p as [|e2 p]; simpl in E2; [inversion E2; subst; exists 0%Z; left; reflexivity|inversion E2 as [[E2' E3]]; clear E2].
  destruct p as [|e3 p]; simpl in E3; [inversion E3; subst; intros u; unfold cnt; simpl; reflexivity|inversion E3 as [[E3' E4]]; clear E3].
  destruct p as [|e4 p]; simpl in E4; [inversion E4; subst; intros u; unfold cnt; simpl; reflexivity|inversion E4 as [[E4' E5]]; clear E4].
  destruct p as [|e5 p]; simpl in E5; [inversion E5; subst; exact I|inversion E5 as [[E5' E6]]; clear E5].
  destruct p as [|e6 p]; simpl in E6; [inversion E6; subst; exact I|inversion E6 as [[E6' E7]]; clear E6].
  destruct p as [|e7 p]; simpl in E7; [inversion E7; subst; cbn [enabled]; unfold cnt; simpl; lia|inversion E7 as [[E7' E8]]; clear E7].
  destruct p as [|e8 p]; simpl in E8; [inversion E8; subst; cbn [enabled]; unfold cnt; simpl; lia|inversion E8 as [[E8' E9]]; clear E8].
  destruct p; discriminate E9.
Qed.

Lemma conform_trR : conform tbR trR.
Proof.
  split.
  - intros p t s q E. unfold trR in E.
    do 5 (destruct p as [|? p]; simpl in E; [discriminate E|inversion E as [[E0 E']]; clear E; rename E' into E; clear E0]).
    destruct p as [|? p]; simpl in E.
    { inversion E; subst. split; [left; reflexivity|]. split.
      - intros l m [H|[]]. inversion H; subst. left. unfold cnt. simpl. lia.
      - split.
        + intros c [H|[H|[]]]; subst; right; left; reflexivity.
        + intros b []. }
    inversion E as [[E0 E']]; clear E; rename E' into E; clear E0.
    destruct p as [|? p]; simpl in E.
    { inversion E; subst. split; [left; reflexivity|]. split.
      - intros l m [H|[]]. inversion H; subst. left. unfold cnt. simpl. lia.
      - split.
        + intros c [H|[H|[]]]; subst; right; right; left; reflexivity.
        + intros b []. }
    inversion E as [[E0 E']]; clear E; rename E' into E; clear E0.
    do 2 (destruct p as [|? p]; simpl in E; [discriminate E|inversion E as [[E0 E']]; clear E; rename E' into E; clear E0]).
    destruct p; discriminate E.
  - intros p u c q E NP. unfold trR in E.
    destruct p as [|? p]; simpl in E; [inversion E; subst; exfalso; apply NP; reflexivity|inversion E as [[E0 E']]; clear E; rename E' into E; clear E0].
    do 8 (destruct p as [|? p]; simpl in E; [discriminate E|inversion E as [[E0 E']]; clear E; rename E' into E; clear E0]).
    destruct p; discriminate E.
Qed.

(* everything happens-before relates in trR *)
Definition hbR (i j : nat) : Prop :=
  (i <= j)%nat /\ (i = j \/ (i = 0%nat /\ (1 <= j)%nat) \/
     (Nat.odd i = Nat.odd j /\ (1 <= i)%nat) ).

Lemma hb_trR : forall i j, hb trR i j -> hbR i j.
Proof.
  intros i j H. induction H as [i j t a b L Ni Nj|i j t a u b L Ni Nj S|i j k _ IH1 _ IH2].
  - unfold trR in *. split; [exact L|].
    do 9 (destruct i as [|i]; [
      do 9 (destruct j as [|j]; [simpl in *; inversion Ni; inversion Nj; subst; try discriminate; try lia; auto; try (right; right; split; [reflexivity|lia])|]);
      simpl in Nj; destruct j; discriminate Nj |]).
    simpl in Ni. destruct i; discriminate Ni.
  - unfold trR in *. split; [lia|].
    do 9 (destruct i as [|i]; [
      do 9 (destruct j as [|j]; [simpl in *; inversion Ni; inversion Nj; subst; simpl in S; try discriminate S; try lia; auto|]);
      simpl in Nj; destruct j; discriminate Nj |]).
    simpl in Ni. destruct i; discriminate Ni.
  - destruct IH1 as [L1 C1], IH2 as [L2 C2]. split; [lia|].
    destruct C1 as [->|[[-> G1]|[O1 G1]]]; [exact C2| |].
    + right. left. split; [reflexivity|]. destruct C2 as [->|[[-> G2]|[O2 G2]]]; lia.
    + destruct C2 as [->|[[-> G2]|[O2 G2]]]; [right; right; auto|lia|].
      right. right. split; [congruence|exact G1].
Qed.

(* the writes of threads 1 and 2 at positions 5 and 6 are not ordered: a data race *)
Lemma trR_race : ~ hb trR 5 6.
Proof.
  intros H. apply hb_trR in H. destruct H as [_ [H|[[H _]|[H _]]]]; try discriminate H.
Qed.

(* ---- go statement and WaitGroup edges: the shape of pkg/group's executeEach ----
   thread 1 starts the member goroutine G (thread 2) and the closer goroutine H (thread 3); G sends its
   result and calls all.Done(); H returns from all.Wait() and closes the result channel. *)
Definition wg_send : site :=
  mkSite "responses.chan" KR [] [BPO (wg_chan "all" "G")] [go_chan "G"] false "exec.go:executeEach" "exec.go:188".
Definition wg_close : site :=
  mkSite "responses.chan" KW [] [BPO "end:H"] [go_chan "H"; wg_chan "all" "G"] false "exec.go:executeEach" "exec.go:194".
Definition tbW : table := mkTable [wg_send; wg_close]
  [mkCloser (go_chan "G") [] "exec.go:executeEach" "exec.go:185";
   mkCloser (go_chan "H") [] "exec.go:executeEach" "exec.go:192";
   mkCloser (wg_chan "all" "G") [] "exec.go:executeEach" "exec.go:186";
   mkCloser "end:H" [] "exec.go:executeEach" "exec.go:195"].

Definition trW : list (tid * act) :=
  [(1, Close pub); (1, Go "G"); (1, Go "H");
   (2, RecvC pub); (2, Start "G"); (2, Acc wg_send); (2, WgDone "all" "G");
   (3, RecvC pub); (3, Start "H"); (3, WgWait "all" "G"); (3, Acc wg_close); (3, Close "end:H")]%Z.

Lemma check_tbW : check tbW = true.
Proof. vm_compute. reflexivity. Qed.

Lemma why_tbW : why tbW wg_send wg_close = Some (RWaitGroup (wg_chan "all" "G")).
Proof. vm_compute. reflexivity. Qed.

Ltac in_list := simpl; repeat (first [left; reflexivity | right]).

Ltac peel E p :=
  destruct p as [|? p]; simpl in E;
  [inversion E; subst; clear E | inversion E as [[E0 E']]; clear E; rename E' into E; clear E0].

Ltac skipe E p :=
  destruct p as [|? p]; simpl in E;
  [solve [inversion E] | inversion E as [[E0 E']]; clear E; rename E' into E; clear E0].

Lemma wf_trW : wf trW.
Proof.
  intros p e q E. unfold trW, Go, Start, WgDone, WgWait in E.
  peel E p; [exact I|]. peel E p; [exact I|]. peel E p; [exact I|].
  peel E p; [eexists; in_list|]. peel E p; [eexists; in_list|]. peel E p; [exact I|]. peel E p; [exact I|].
  peel E p; [eexists; in_list|]. peel E p; [eexists; in_list|]. peel E p; [eexists; in_list|]. peel E p; [exact I|]. peel E p; [exact I|].
  destruct p; discriminate E.
Qed.

Lemma conform_trW : conform tbW trW.
Proof.
  split.
  - intros p t s q E. unfold trW, Go, Start, WgDone, WgWait in E.
    do 5 (skipe E p).
    peel E p.
    { split; [left; reflexivity|]. split; [intros l m []|]. split.
      - intros c [H|[H|[]]]; subst; in_list.
      - intros b [H|[]]; subst. cbn [before_ok]. split.
        + exists [(1, Close pub); (1, Go "G"); (1, Go "H"); (2, RecvC pub); (2, Start "G"); (2, Acc wg_send)]%Z, 
                 [(3, RecvC pub); (3, Start "H"); (3, WgWait "all" "G"); (3, Acc wg_close); (3, Close "end:H")]%Z. reflexivity.
        + intros p' u q' E. unfold Go, Start, WgDone, WgWait in E.
          do 6 (destruct p' as [|? p']; simpl in E; [discriminate E|inversion E as [[E0 E']]; clear E; rename E' into E; clear E0]).
          destruct p' as [|? p']; simpl in E.
          { inversion E; subst. split; [reflexivity|simpl; lia]. }
          inversion E as [[E0 E']]; clear E; rename E' into E; clear E0.
          do 5 (destruct p' as [|? p']; simpl in E; [discriminate E|inversion E as [[E0 E']]; clear E; rename E' into E; clear E0]).
          destruct p'; discriminate E. }
    do 4 (skipe E p).
    peel E p.
    { split; [right; left; reflexivity|]. split; [intros l m []|]. split.
      - intros c [H|[H|[H|[]]]]; subst; in_list.
      - intros b [H|[]]; subst. cbn [before_ok]. split.
        + exists [(1, Close pub); (1, Go "G"); (1, Go "H"); (2, RecvC pub); (2, Start "G"); (2, Acc wg_send); (2, WgDone "all" "G");
                  (3, RecvC pub); (3, Start "H"); (3, WgWait "all" "G"); (3, Acc wg_close)]%Z, []. reflexivity.
        + intros p' u q' E. unfold Go, Start, WgDone, WgWait in E.
          do 11 (destruct p' as [|? p']; simpl in E; [discriminate E|inversion E as [[E0 E']]; clear E; rename E' into E; clear E0]).
          destruct p' as [|? p']; simpl in E.
          { inversion E; subst. split; [reflexivity|simpl; lia]. }
          inversion E as [[E0 E']]; clear E; rename E' into E; clear E0.
          destruct p'; discriminate E. }
    skipe E p.
    destruct p; discriminate E.
  - intros p u c q E NP. unfold trW, Go, Start, WgDone, WgWait in E.
    peel E p; [congruence|].
    peel E p; [eexists; split; [left; reflexivity|split; [reflexivity|intros l m []]]|].
    peel E p; [eexists; split; [right; left; reflexivity|split; [reflexivity|intros l m []]]|].
    do 3 (skipe E p).
    peel E p; [eexists; split; [right; right; left; reflexivity|split; [reflexivity|intros l m []]]|].
    do 4 (skipe E p).
    peel E p; [eexists; split; [right; right; right; left; reflexivity|split; [reflexivity|intros l m []]]|].
    destruct p; discriminate E.
Qed.

(* send (5) -po-> Done (6) -sw-> return of Wait (9) -po-> close (10) *)
Lemma trW_ordered : hb trW 5 10.
Proof.
  apply hb_trans with (j := 6%nat).
  { apply (hb_po trW 5 6 2%Z (Acc wg_send) (WgDone "all" "G")); [lia|reflexivity|reflexivity]. }
  apply hb_trans with (j := 9%nat).
  { apply (hb_sw trW 6 9 2%Z (WgDone "all" "G") 3%Z (WgWait "all" "G")); [lia|reflexivity|reflexivity|reflexivity]. }
  apply (hb_po trW 9 10 3%Z (WgWait "all" "G") (Acc wg_close)); [lia|reflexivity|reflexivity].
Qed.
