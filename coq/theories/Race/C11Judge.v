(* C11 - judge of the race-detector observations against the lock table.
   One case per (location, function, function) with conflicting access sites in the table; the
   observation is whether the race detector reported a race whose two innermost sc-golang frames
   are these two functions. *)
From SC Require Import Base.Prelude Race.Lockset Race.Known Gen.Locks.

Inductive c11case := KPair (loc fa fb : string) (raced : bool).

Definition in_fn (loc f : string) (s : site) : bool :=
  if String.eqb (s_loc s) loc then String.eqb (s_fn s) f else false.

(* the model's verdict on the pair: every conflicting site pair of the two functions is compatible *)
Definition pair_disciplined (tb : table) (loc fa fb : string) : bool :=
  forallb (fun a => if in_fn loc fa a then
     forallb (fun b => if in_fn loc fb b then (if pair_ok tb [] a b then pair_ok tb [] b a else false) else true) (t_sites tb)
     else true) (t_sites tb).

Definition pair_known (K : known) (loc fa fb : string) : bool :=
  existsb (fun k => match k with (x, f, g) =>
     String.eqb x loc && ((String.eqb f fa && String.eqb g fb) || (String.eqb f fb && String.eqb g fa)) end) K.

(* model = observation: the detector is silent on a pair the table marks disciplined *)
Definition agrees (c : c11case) : bool :=
  match c with KPair loc fa fb raced => if raced then negb (pair_disciplined lock_table loc fa fb) else true end.

(* the property on the observation: no race on this pair *)
Definition C11_ok (c : c11case) : bool := match c with KPair _ _ _ raced => negb raced end.

(* recorded pairs are outside the guard (they are reported through their race report) *)
Definition C11_guard (c : c11case) : bool :=
  match c with KPair loc fa fb _ => negb (pair_known known_pairs loc fa fb) end.

Definition judge (c : c11case) : Z :=
  verdict (agrees c) (if C11_guard c then C11_ok c else true) None.
