(* C11 - judge of the race-detector observations against the lock table.
   KPair: one case per (location, function, function) with conflicting access sites in the table; the
     observation is whether the race detector reported a race whose two innermost sc-golang frames
     are these two functions.
   KReasons: the harness's own count, per accepting branch of [compatible] (reason_tag), of the ordered
     conflicting site pairs of the table it extracted - must equal the model's count on Gen/Locks.v
     (the table the theorems are about is the table the harness judged), and no pair may be unjustified.
   KMutable: one case per location that is written after construction: the reasons that order those
     writes against every conflicting site - recomputed here - and none may be missing. *)
From SC Require Import Base.Prelude Race.Lockset Race.Known Gen.Locks.

Inductive c11case :=
| KPair (loc fa fb : string) (raced : bool)
| KReasons (h : list (string * Z))
| KMutable (loc : string) (late_writes : Z) (tags : list string).

Definition in_fn (loc f : string) (s : site) : bool :=
  if String.eqb (s_loc s) loc then String.eqb (s_fn s) f else false.

(* the model's verdict on the pair: every conflicting site pair of the two functions is compatible *)
Definition pair_disciplined (tb : table) (loc fa fb : string) : bool :=
  let sa := filter (in_fn loc fa) (t_sites tb) in
  let sb := filter (in_fn loc fb) (t_sites tb) in
  forallb (fun a => forallb (fun b => if pair_ok tb [] a b then pair_ok tb [] b a else false) sb) sa.

Definition pair_known (K : known) (loc fa fb : string) : bool :=
  existsb (fun k => match k with (x, f, g) =>
     String.eqb x loc && ((String.eqb f fa && String.eqb g fb) || (String.eqb f fb && String.eqb g fa)) end) K.

(* histograms are compared as sorted association lists *)
Fixpoint hist_get (k : string) (h : list (string * Z)) : Z :=
  match h with [] => 0 | (k', n) :: r => if String.eqb k k' then n else hist_get k r end.
Definition hist_le (a b : list (string * Z)) : bool :=
  forallb (fun p => hist_get (fst p) b =? snd p) a.
Definition hist_eqb (a b : list (string * Z)) : bool := hist_le a b && hist_le b a.

(* the reasons that order the post-construction writes of a location *)
Definition insert_tag (k : string) (l : list string) : list string :=
  if existsb (String.eqb k) l then l else k :: l.
Definition late_reasons (tb : table) (loc : string) : Z * list string :=
  let ss := filter (fun s => String.eqb (s_loc s) loc) (t_sites tb) in
  let ws := filter late_write ss in
  (Z.of_nat (List.length ws),
   fold_left (fun acc a => fold_left (fun acc b =>
      if conflict a b then insert_tag (reason_tag (why tb a b)) acc else acc) ss acc) ws []).
Definition same_tags (a b : list string) : bool :=
  forallb (fun x => existsb (String.eqb x) b) a && forallb (fun x => existsb (String.eqb x) a) b.

(* model = observation *)
Definition agrees_tb (tb : table) (c : c11case) : bool :=
  match c with
  | KPair loc fa fb raced => if raced then negb (pair_disciplined tb loc fa fb) else true
  | KReasons h => hist_eqb h (reason_histogram tb)
  | KMutable loc n tags =>
      let r := late_reasons tb loc in (fst r =? n) && same_tags (snd r) tags
  end.
Definition agrees (c : c11case) : bool := agrees_tb lock_table c.

(* the property on the observation: no race on this pair / no unjustified pair *)
Definition C11_ok (c : c11case) : bool :=
  match c with
  | KPair _ _ _ raced => negb raced
  | KReasons h => hist_get "none" h =? 0
  | KMutable _ _ tags => negb (existsb (String.eqb "none") tags)
  end.

(* recorded pairs are outside the guard (they are reported through their race report) *)
Definition C11_guard (c : c11case) : bool :=
  match c with
  | KPair loc fa fb _ => negb (pair_known known_pairs loc fa fb)
  | _ => true
  end.

Definition judge (c : c11case) : Z :=
  verdict (agrees c) (if C11_guard c then C11_ok c else true) None.
