(* C11 - recorded findings.
   [known_pairs]: pairs of functions whose access sites on a location break the lock discipline AND
   were demonstrated with the race detector on the real code and are NOT yet repaired; the discipline
   theorem is stated for the generated table minus exactly these pairs.  It is empty today: the two
   defects found (rng advanced under the read lock; unguarded stream trailer) were repaired in /repo
   by 07396f3 (Collection.rngMu) and 5a77f27 (ClientServerStream.trailerM), so C11_discipline_holds
   is about the whole regenerated table.
   [known_pairs_v0] / [sites_v0]: the pairs and their sites as they were before the repairs, kept for
   the refutation theorem C11_discipline_v0_refuted. *)
From SC Require Import Base.Prelude Race.Lockset.
Local Open Scope string_scope.

Definition known_pairs : known := [].

Definition known_pairs_v0 : known := [
  (* two concurrent Adds with a generated id both advanced the collection's rng under the READ lock *)
  ("resource.config.rng.*", "pkg/resource/id.go:GenerateUniqueId", "pkg/resource/id.go:GenerateUniqueId");
  (* the stream's trailer was written by the handler and read by the client with nothing in between
     when the client's call ended because its own context ended *)
  ("wrap.ClientServerStream.trailer", "pkg/wrap/stream.go:serverStream.SetTrailer", "pkg/wrap/stream.go:clientStream.Trailer");
  ("wrap.ClientServerStream.trailer", "pkg/wrap/stream.go:serverStream.SetTrailer", "pkg/wrap/stream.go:serverStream.SetTrailer")
].

(* The sites of the recorded pairs as the translator extracted them before the repairs (v0), and
   the same sites as it extracts them after (v1: the new mutexes are held). *)
Definition sites_v0 : list site := [
  mkSite "resource.config.rng.*" KW [("resource.Collection.mu", MR)] [] [] false "pkg/resource/id.go:GenerateUniqueId" "pkg/resource/id.go:18";
  mkSite "wrap.ClientServerStream.trailer" KR [] [] [] false "pkg/wrap/stream.go:clientStream.Trailer" "pkg/wrap/stream.go:103";
  mkSite "wrap.ClientServerStream.trailer" KR [] [] [] false "pkg/wrap/stream.go:serverStream.SetTrailer" "pkg/wrap/stream.go:182";
  mkSite "wrap.ClientServerStream.trailer" KW [] [] [] false "pkg/wrap/stream.go:serverStream.SetTrailer" "pkg/wrap/stream.go:182"
].
Definition table_v0 : table := mkTable sites_v0 [].

Definition sites_v1 : list site := [
  mkSite "resource.config.rng.*" KW [("resource.Collection.mu", MR); ("resource.Collection.rngMu", MX)] [] [] false "pkg/resource/id.go:GenerateUniqueId" "pkg/resource/id.go:18";
  mkSite "wrap.ClientServerStream.trailer" KR [("wrap.ClientServerStream.trailerM", MX)] [] [] false "pkg/wrap/stream.go:clientStream.Trailer" "pkg/wrap/stream.go:106";
  mkSite "wrap.ClientServerStream.trailer" KR [("wrap.ClientServerStream.trailerM", MX)] [] [] false "pkg/wrap/stream.go:serverStream.SetTrailer" "pkg/wrap/stream.go:187";
  mkSite "wrap.ClientServerStream.trailer" KW [("wrap.ClientServerStream.trailerM", MX)] [] [] false "pkg/wrap/stream.go:serverStream.SetTrailer" "pkg/wrap/stream.go:187"
].
Definition table_v1 : table := mkTable sites_v1 [].
