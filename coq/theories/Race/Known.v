(* C11 - the recorded findings: pairs of functions whose access sites on a location break the lock
   discipline AND were demonstrated with the race detector on the real code (known_findings.d/C11.json).
   The discipline theorem is stated for the generated table minus exactly these pairs; every entry
   is shown to be a genuine violation of the discipline (C11_known_refuted), so an entry that stops
   being one (the code was repaired) has to be removed here. *)
From SC Require Import Base.Prelude Race.Lockset.
Local Open Scope string_scope.

Definition known_pairs : known := [
  (* two concurrent Adds with a generated id both advance the collection's rng under the READ lock *)
  ("resource.config.rng.*", "pkg/resource/id.go:GenerateUniqueId", "pkg/resource/id.go:GenerateUniqueId");
  (* the stream's trailer is written by the handler and read by the client with nothing in between
     when the client's call ends because its own context ended *)
  ("wrap.ClientServerStream.trailer", "pkg/wrap/stream.go:serverStream.SetTrailer", "pkg/wrap/stream.go:clientStream.Trailer");
  ("wrap.ClientServerStream.trailer", "pkg/wrap/stream.go:serverStream.SetTrailer", "pkg/wrap/stream.go:serverStream.SetTrailer")
].
