(* C11 - recorded findings.
   [known_pairs]: pairs of functions whose access sites on a location break the lock discipline AND
   were demonstrated with the race detector on the real code and are NOT yet repaired; the discipline
   theorem is stated for the generated table minus exactly these pairs.  It is empty today: the two
   defects found (rng advanced under the read lock; unguarded stream trailer) were repaired in /repo
   by 07396f3 (Collection.rngMu) and 5a77f27 (ClientServerStream.trailerM), so C11_discipline_holds
   is about the whole regenerated table.
   [known_pairs_v0] / [sites_v0]: the pairs and their sites as they were before the repairs, kept for
   the refutation theorem C11_discipline_v0_refuted. *)
From SC Require Import Base.Prelude Race.Lockset.
Local Open Scope string_scope.

Definition known_pairs : known := [].

Definition known_pairs_v0 : known := [
  (* two concurrent Adds with a generated id both advanced the collection's rng under the READ lock *)
  ("resource.config.rng.*", "pkg/resource/id.go:GenerateUniqueId", "pkg/resource/id.go:GenerateUniqueId");
  (* the stream's trailer was written by the handler and read by the client with nothing in between
     when the client's call ended because its own context ended *)
  ("wrap.ClientServerStream.trailer", "pkg/wrap/stream.go:serverStream.SetTrailer", "pkg/wrap/stream.go:clientStream.Trailer");
  ("wrap.ClientServerStream.trailer", "pkg/wrap/stream.go:serverStream.SetTrailer", "pkg/wrap/stream.go:serverStream.SetTrailer")
].

(* The sites of the recorded pairs as the translator extracted them before the repairs (v0), and
   the same sites as it extracts them after (v1: the new mutexes are held). *)
Definition sites_v0 : list site := [
  mkSite "resource.config.rng.*" KW [("resource.Collection.mu", MR)] [] [] false "pkg/resource/id.go:GenerateUniqueId" "pkg/resource/id.go:18";
  mkSite "wrap.ClientServerStream.trailer" KR [] [] [] false "pkg/wrap/stream.go:clientStream.Trailer" "pkg/wrap/stream.go:103";
  mkSite "wrap.ClientServerStream.trailer" KR [] [] [] false "pkg/wrap/stream.go:serverStream.SetTrailer" "pkg/wrap/stream.go:182";
  mkSite "wrap.ClientServerStream.trailer" KW [] [] [] false "pkg/wrap/stream.go:serverStream.SetTrailer" "pkg/wrap/stream.go:182"
].
Definition table_v0 : table := mkTable sites_v0 [].

Definition sites_v1 : list site := [
  mkSite "resource.config.rng.*" KW [("resource.Collection.mu", MR); ("resource.Collection.rngMu", MX)] [] [] false "pkg/resource/id.go:GenerateUniqueId" "pkg/resource/id.go:18";
  mkSite "wrap.ClientServerStream.trailer" KR [("wrap.ClientServerStream.trailerM", MX)] [] [] false "pkg/wrap/stream.go:clientStream.Trailer" "pkg/wrap/stream.go:106";
  mkSite "wrap.ClientServerStream.trailer" KR [("wrap.ClientServerStream.trailerM", MX)] [] [] false "pkg/wrap/stream.go:serverStream.SetTrailer" "pkg/wrap/stream.go:187";
  mkSite "wrap.ClientServerStream.trailer" KW [("wrap.ClientServerStream.trailerM", MX)] [] [] false "pkg/wrap/stream.go:serverStream.SetTrailer" "pkg/wrap/stream.go:187"
].
Definition table_v1 : table := mkTable sites_v1 [].

(* The rows of three locations as the translator extracts them from the trees of the seeded changes C11-r3-3
   (c.commits read without the lock on the updates-only path), C11-r3-2 (Send iterates the shared backing array
   after RUnlock while collect compacts it in place) and C11-r3-1 (header stored after close(headerC)), and from
   the unchanged tree (seed_fixed_table): kept for C11_seed_classes_refuted. *)
Definition seed_commits_table : table := mkTable [
  mkSite "resource.Collection.commits" KW [("resource.Collection.mu", MX)] [] [] false "pkg/resource/collection.go:Collection.Update" "pkg/resource/collection.go:166";
  mkSite "resource.Collection.commits" KR [("resource.Collection.mu", MX)] [] [] false "pkg/resource/collection.go:Collection.Update" "pkg/resource/collection.go:167";
  mkSite "resource.Collection.commits" KW [("resource.Collection.mu", MX)] [] [] false "pkg/resource/collection.go:Collection.Delete" "pkg/resource/collection.go:236";
  mkSite "resource.Collection.commits" KR [("resource.Collection.mu", MX)] [] [] false "pkg/resource/collection.go:Collection.Delete" "pkg/resource/collection.go:237";
  mkSite "resource.Collection.commits" KR [] [] [] false "pkg/resource/collection.go:Collection.onUpdate" "pkg/resource/collection.go:386";
  mkSite "resource.Collection.commits" KR [("resource.Collection.mu", MR)] [] [] false "pkg/resource/collection.go:Collection.onUpdate" "pkg/resource/collection.go:391"
] [
  
].
Definition seed_slice_table : table := mkTable [
  mkSite "minibus.Bus.listeners[]" KR [] [] [] false "internal/minibus/bus.go:Bus.Send" "internal/minibus/bus.go:26";
  mkSite "minibus.Bus.listeners[]" KR [("minibus.Bus.listenerM", MX)] [] [] false "internal/minibus/bus.go:Bus.collect" "internal/minibus/bus.go:52";
  mkSite "minibus.Bus.listeners[]" KW [("minibus.Bus.listenerM", MX)] [] [] false "internal/minibus/bus.go:Bus.collect" "internal/minibus/bus.go:54";
  mkSite "minibus.Bus.listeners[]" KW [("minibus.Bus.listenerM", MX)] [] [] false "internal/minibus/bus.go:Bus.Listen" "internal/minibus/bus.go:78"
] [
  
].
Definition seed_header_table : table := mkTable [
  mkSite "wrap.ClientServerStream.header" KR [] [] ["wrap.ClientServerStream.headerC"] false "pkg/wrap/stream.go:clientStream.Header" "pkg/wrap/stream.go:100";
  mkSite "wrap.ClientServerStream.header" KR [("wrap.ClientServerStream.headerM", MX)] [BGuard "wrap.ClientServerStream.headerC" "wrap.ClientServerStream.headerM"] [] false "pkg/wrap/stream.go:serverStream.SetHeader" "pkg/wrap/stream.go:167";
  mkSite "wrap.ClientServerStream.header" KW [("wrap.ClientServerStream.headerM", MX)] [BGuard "wrap.ClientServerStream.headerC" "wrap.ClientServerStream.headerM"] [] false "pkg/wrap/stream.go:serverStream.SetHeader" "pkg/wrap/stream.go:167";
  mkSite "wrap.ClientServerStream.header" KR [("wrap.ClientServerStream.headerM", MX)] [] [] false "pkg/wrap/stream.go:serverStream.SendHeader" "pkg/wrap/stream.go:186";
  mkSite "wrap.ClientServerStream.header" KR [("wrap.ClientServerStream.headerM", MX)] [BPO "wrap.ClientServerStream.closedC"; BPO "wrap.ClientServerStream.serverSend"] [] false "pkg/wrap/stream.go:serverStream.SendHeader" "pkg/wrap/stream.go:186";
  mkSite "wrap.ClientServerStream.header" KW [("wrap.ClientServerStream.headerM", MX)] [] [] false "pkg/wrap/stream.go:serverStream.SendHeader" "pkg/wrap/stream.go:186";
  mkSite "wrap.ClientServerStream.header" KW [("wrap.ClientServerStream.headerM", MX)] [BPO "wrap.ClientServerStream.closedC"; BPO "wrap.ClientServerStream.serverSend"] [] false "pkg/wrap/stream.go:serverStream.SendHeader" "pkg/wrap/stream.go:186";
  mkSite "wrap.ClientServerStream.header" KR [] [] ["wrap.ClientServerStream.headerC"] false "pkg/wrap/stream.go:clientStream.Header" "pkg/wrap/stream.go:93"
] [
  mkCloser "wrap.ClientServerStream.headerC" [("wrap.ClientServerStream.headerM", MX)] "pkg/wrap/stream.go:serverStream.SendHeader" "pkg/wrap/stream.go:180"
].
Definition seed_fixed_table : table := mkTable [
  mkSite "resource.Collection.commits" KW [("resource.Collection.mu", MX)] [] [] false "pkg/resource/collection.go:Collection.Update" "pkg/resource/collection.go:166";
  mkSite "resource.Collection.commits" KR [("resource.Collection.mu", MX)] [] [] false "pkg/resource/collection.go:Collection.Update" "pkg/resource/collection.go:167";
  mkSite "resource.Collection.commits" KW [("resource.Collection.mu", MX)] [] [] false "pkg/resource/collection.go:Collection.Delete" "pkg/resource/collection.go:236";
  mkSite "resource.Collection.commits" KR [("resource.Collection.mu", MX)] [] [] false "pkg/resource/collection.go:Collection.Delete" "pkg/resource/collection.go:237";
  mkSite "resource.Collection.commits" KR [("resource.Collection.mu", MR)] [] [] false "pkg/resource/collection.go:Collection.onUpdate" "pkg/resource/collection.go:387";
  mkSite "minibus.Bus.listeners[]" KR [("minibus.Bus.listenerM", MR)] [] [] false "internal/minibus/bus.go:Bus.Send" "internal/minibus/bus.go:19";
  mkSite "minibus.Bus.listeners[]" KR [("minibus.Bus.listenerM", MX)] [] [] false "internal/minibus/bus.go:Bus.collect" "internal/minibus/bus.go:53";
  mkSite "minibus.Bus.listeners[]" KW [("minibus.Bus.listenerM", MX)] [] [] false "internal/minibus/bus.go:Bus.Listen" "internal/minibus/bus.go:79";
  mkSite "wrap.ClientServerStream.header" KR [] [] ["wrap.ClientServerStream.headerC"] false "pkg/wrap/stream.go:clientStream.Header" "pkg/wrap/stream.go:100";
  mkSite "wrap.ClientServerStream.header" KR [("wrap.ClientServerStream.headerM", MX)] [BGuard "wrap.ClientServerStream.headerC" "wrap.ClientServerStream.headerM"] [] false "pkg/wrap/stream.go:serverStream.SetHeader" "pkg/wrap/stream.go:167";
  mkSite "wrap.ClientServerStream.header" KW [("wrap.ClientServerStream.headerM", MX)] [BGuard "wrap.ClientServerStream.headerC" "wrap.ClientServerStream.headerM"] [] false "pkg/wrap/stream.go:serverStream.SetHeader" "pkg/wrap/stream.go:167";
  mkSite "wrap.ClientServerStream.header" KR [("wrap.ClientServerStream.headerM", MX)] [BGuard "wrap.ClientServerStream.headerC" "wrap.ClientServerStream.headerM"; BPO "wrap.ClientServerStream.closedC"; BPO "wrap.ClientServerStream.headerC"; BPO "wrap.ClientServerStream.serverSend"] [] false "pkg/wrap/stream.go:serverStream.SendHeader" "pkg/wrap/stream.go:180";
  mkSite "wrap.ClientServerStream.header" KR [("wrap.ClientServerStream.headerM", MX)] [BGuard "wrap.ClientServerStream.headerC" "wrap.ClientServerStream.headerM"; BPO "wrap.ClientServerStream.headerC"] [] false "pkg/wrap/stream.go:serverStream.SendHeader" "pkg/wrap/stream.go:180";
  mkSite "wrap.ClientServerStream.header" KW [("wrap.ClientServerStream.headerM", MX)] [BGuard "wrap.ClientServerStream.headerC" "wrap.ClientServerStream.headerM"; BPO "wrap.ClientServerStream.closedC"; BPO "wrap.ClientServerStream.headerC"; BPO "wrap.ClientServerStream.serverSend"] [] false "pkg/wrap/stream.go:serverStream.SendHeader" "pkg/wrap/stream.go:180";
  mkSite "wrap.ClientServerStream.header" KW [("wrap.ClientServerStream.headerM", MX)] [BGuard "wrap.ClientServerStream.headerC" "wrap.ClientServerStream.headerM"; BPO "wrap.ClientServerStream.headerC"] [] false "pkg/wrap/stream.go:serverStream.SendHeader" "pkg/wrap/stream.go:180";
  mkSite "wrap.ClientServerStream.header" KR [] [] ["wrap.ClientServerStream.headerC"] false "pkg/wrap/stream.go:clientStream.Header" "pkg/wrap/stream.go:93"
] [
  mkCloser "wrap.ClientServerStream.headerC" [("wrap.ClientServerStream.headerM", MX)] "pkg/wrap/stream.go:serverStream.SendHeader" "pkg/wrap/stream.go:181"
].
