(* C11 - the judge is sound and complete with respect to the table check. *)
From SC Require Import Base.Prelude Race.Lockset Race.LocksetProofs Race.Known Race.C11Judge Gen.Locks.

Lemma check_pair_ok : forall tb, check tb = true ->
  forall a b, In a (t_sites tb) -> In b (t_sites tb) -> pair_ok tb [] a b = true.
Proof.
  intros tb Ck a b Ia Ib. unfold check, check_except in Ck.
  rewrite forallb_forall in Ck. specialize (Ck a Ia). rewrite forallb_forall in Ck. exact (Ck b Ib).
Qed.

(* under the check every pair of functions is disciplined on every location *)
Theorem check_pair_disciplined : forall tb, check tb = true ->
  forall loc fa fb, pair_disciplined tb loc fa fb = true.
Proof.
  intros tb Ck loc fa fb. unfold pair_disciplined.
  apply forallb_forall. intros a Ia. apply forallb_forall. intros b Ib.
  apply filter_In in Ia. apply filter_In in Ib. destruct Ia as [Ia _], Ib as [Ib _].
  rewrite (check_pair_ok tb Ck a b Ia Ib). exact (check_pair_ok tb Ck b a Ib Ia).
Qed.

Lemma fold_left_inv : forall (A B : Type) (P : A -> Prop) (Q : B -> Prop) (f : A -> B -> A) (l : list B),
  (forall x, In x l -> Q x) -> (forall a x, P a -> Q x -> P (f a x)) -> forall a, P a -> P (fold_left f l a).
Proof.
  intros A B P Q f l. induction l as [|x l IH]; intros HQ Hf a Pa; simpl; [exact Pa|].
  apply IH.
  - intros y Iy. apply HQ. right. exact Iy.
  - exact Hf.
  - apply Hf; [exact Pa|apply HQ; left; reflexivity].
Qed.

Lemma hist_get_bump_other : forall k k' h, k <> k' -> hist_get k' (bump k h) = hist_get k' h.
Proof.
  intros k k' h NE. unfold bump. induction h as [|[k0 n] h IH]; simpl.
  - destruct (String.eqb_spec k' k); [congruence|reflexivity].
  - destruct (String.eqb_spec k k0) as [->|N0]; simpl.
    + destruct (String.eqb_spec k' k0); [congruence|reflexivity].
    + destruct (String.eqb_spec k' k0); [reflexivity|exact IH].
Qed.

Lemma tag_of_some : forall r, reason_tag (Some r) <> "none"%string.
Proof. intros r. destruct r; simpl; discriminate. Qed.

Lemma conflict_tag : forall tb, check tb = true ->
  forall a b, In a (t_sites tb) -> In b (t_sites tb) -> conflict a b = true ->
  reason_tag (why tb a b) <> "none"%string.
Proof.
  intros tb Ck a b Ia Ib Cn. destruct (check_justifies tb Ck a b Ia Ib Cn) as [_ (r & ->)]. apply tag_of_some.
Qed.

(* under the check no conflicting pair of the table falls through every branch *)
Theorem check_histogram_none : forall tb, check tb = true -> hist_get "none" (reason_histogram tb) = 0.
Proof.
  intros tb Ck. unfold reason_histogram.
  apply (fold_left_inv _ _ (fun h => hist_get "none" h = 0) (fun a => In a (t_sites tb))); [auto| |reflexivity].
  intros h a Ph Ia.
  apply (fold_left_inv _ _ (fun h => hist_get "none" h = 0) (fun b => In b (t_sites tb))); [auto| |exact Ph].
  intros h' b Ph' Ib. destruct (conflict a b) eqn:Cn; [|exact Ph'].
  rewrite hist_get_bump_other; [exact Ph'|]. exact (conflict_tag tb Ck a b Ia Ib Cn).
Qed.

Lemma insert_tag_none : forall k l, k <> "none"%string ->
  existsb (String.eqb "none") l = false -> existsb (String.eqb "none") (insert_tag k l) = false.
Proof.
  intros k l NE H. unfold insert_tag. destruct (existsb (String.eqb k) l); [exact H|].
  cbn [existsb]. rewrite H. destruct (String.eqb_spec "none" k); [congruence|reflexivity].
Qed.

Theorem check_late_reasons_none : forall tb, check tb = true ->
  forall loc, existsb (String.eqb "none") (snd (late_reasons tb loc)) = false.
Proof.
  intros tb Ck loc. unfold late_reasons. cbn [snd].
  set (ss := filter (fun s => String.eqb (s_loc s) loc) (t_sites tb)).
  assert (Hss : forall x, In x ss -> In x (t_sites tb)) by (intros x I; apply filter_In in I; tauto).
  apply (fold_left_inv _ _ (fun acc => existsb (String.eqb "none") acc = false) (fun a => In a (t_sites tb))).
  - intros x I. apply filter_In in I. apply Hss. tauto.
  - intros acc a Pa Ia.
    apply (fold_left_inv _ _ (fun acc => existsb (String.eqb "none") acc = false) (fun b => In b (t_sites tb))); [exact Hss| |exact Pa].
    intros acc' b Pa' Ib. destruct (conflict a b) eqn:Cn; [|exact Pa'].
    apply insert_tag_none; [|exact Pa']. exact (conflict_tag tb Ck a b Ia Ib Cn).
  - reflexivity.
Qed.

Lemma hist_le_get : forall a b k, hist_le a b = true -> hist_get k a <> 0 -> hist_get k b <> 0.
Proof.
  intros a b k H. unfold hist_le in H. rewrite forallb_forall in H.
  induction a as [|[k0 n] a IH]; simpl; intros N; [congruence|].
  destruct (String.eqb_spec k k0) as [->|NE].
  - specialize (H (k0, n) (or_introl eq_refl)). simpl in H. apply Z.eqb_eq in H. congruence.
  - apply IH; [|exact N]. intros x Ix. apply H. right. exact Ix.
Qed.

(* sound: verdict 0 on a pair means no race was seen on it, or it is a recorded undisciplined pair *)
Lemma judge_pair_eq : forall loc fa fb raced, judge (KPair loc fa fb raced) =
  verdict (if raced then negb (pair_disciplined lock_table loc fa fb) else true)
          (if negb (pair_known known_pairs loc fa fb) then negb raced else true) None.
Proof. reflexivity. Qed.

Lemma verdict_gen : forall (raced d k : bool),
  verdict (if raced then negb d else true) (if negb k then negb raced else true) None = 0 ->
  raced = false \/ (k = true /\ d = false).
Proof. intros [] [] []; cbn; intro H; try discriminate H; auto. Qed.

Theorem judge_pair_sound : forall loc fa fb raced,
  judge (KPair loc fa fb raced) = 0 ->
  raced = false \/ (pair_known known_pairs loc fa fb = true /\ pair_disciplined lock_table loc fa fb = false).
Proof.
  intros loc fa fb raced H. rewrite judge_pair_eq in H.
  exact (verdict_gen raced (pair_disciplined lock_table loc fa fb) (pair_known known_pairs loc fa fb) H).
Qed.

(* complete: when the table passes the check, an observation that agrees with the model satisfies
   the predicate - for every kind of case (stated for an arbitrary table, then for the generated one) *)
Theorem judge_complete_tb : forall tb, check tb = true ->
  forall c, agrees_tb tb c = true -> C11_ok c = true.
Proof.
  intros tb Ck c A. destruct c as [loc fa fb raced|h|loc n tags]; cbn [agrees_tb C11_ok] in *.
  - destruct raced; [|reflexivity]. rewrite (check_pair_disciplined _ Ck) in A. discriminate A.
  - apply Z.eqb_eq. unfold hist_eqb in A. apply andb_prop in A. destruct A as [A _].
    destruct (Z.eq_dec (hist_get "none" h) 0) as [E|NE]; [exact E|exfalso].
    apply (hist_le_get _ _ _ A NE). exact (check_histogram_none _ Ck).
  - apply andb_prop in A. destruct A as [_ A]. unfold same_tags in A. apply andb_prop in A. destruct A as [_ A].
    rewrite forallb_forall in A.
    destruct (existsb (String.eqb "none") tags) eqn:E; [exfalso|reflexivity].
    apply existsb_exists in E. destruct E as (x & Ix & Ex). apply String.eqb_eq in Ex. subst x.
    specialize (A _ Ix). rewrite (check_late_reasons_none _ Ck) in A. discriminate A.
Qed.

Theorem judge_complete : check lock_table = true ->
  forall c, agrees c = true -> C11_guard c = true -> C11_ok c = true.
Proof. intros Ck c A _. exact (judge_complete_tb lock_table Ck c A). Qed.
