(* C11 - hand-over of message objects: the rule "a pointer sent on a channel is either a fresh copy or
   never touched again by the sender" as theorems about the discipline check, for ANY table, and the two
   shapes as executions of the machine. *)
From SC Require Import Base.Prelude Race.Lockset Race.LocksetProofs Race.WitnessProofs Race.JudgeProofs Race.Handoff.

(* ---- for any table ---- *)

(* a row of the construction phase (the making of the copy) and a row that uses the published object
   are always compatible: the construction precedes the publication the user has observed *)
Lemma init_then_use_compatible : forall tb a b,
  s_init a = true -> s_init b = false -> compatible tb a b = true.
Proof.
  intros tb a b Ha Hb. unfold compatible.
  destruct (common_lock a b); [reflexivity|].
  assert (O : ordered_by tb a b = true).
  { unfold ordered_by, eff_before, eff_after. rewrite Ha, Hb.
    cbn [existsb before_valid before_chan]. rewrite String.eqb_refl. reflexivity. }
  rewrite O. reflexivity.
Qed.

Lemma init_then_use_why : forall tb a b,
  s_init a = true -> s_init b = false -> s_locks a = [] -> why tb a b = Some RPublish.
Proof.
  intros tb a b Ha Hb Hl. unfold why. rewrite Hl. cbn [find].
  unfold eff_before, eff_after. rewrite Ha. cbn [find].
  assert (O : orders tb a b (BPO pub) = true).
  { unfold orders, eff_after. rewrite Hb. cbn [existsb before_valid before_chan]. rewrite String.eqb_refl. reflexivity. }
  unfold eff_after in O. rewrite O. reflexivity.
Qed.

Lemma no_po_with_nothing : forall l,
  existsb (fun x => match x with BPO c => existsb (is_bpo c) [] | BGuard _ _ => false end) l = false.
Proof. induction l as [|x l IH]; [reflexivity|]. destruct x; simpl; exact IH. Qed.

(* a lock-free row is compatible with a plain use of the object only if the user has observed the close
   of a channel the row precedes *)
Lemma keep_compatible_observed : forall tb k r,
  s_locks k = [] -> s_init k = false -> plain_use r ->
  compatible tb k r = true -> observed_by r k.
Proof.
  intros tb k r Lk Ik (Ir & Lr & Br) C. unfold compatible in C.
  assert (CL : common_lock k r = false). { unfold common_lock. rewrite Lk. reflexivity. }
  rewrite CL in C.
  destruct (ordered_by tb k r) eqn:O1.
  - apply ordered_by_spec in O1. destruct O1 as (x & Ix & _ & Io).
    unfold eff_before in Ix. rewrite Ik in Ix. unfold eff_after in Io. rewrite Ir in Io.
    exists x. split; assumption.
  - assert (O2 : ordered_by tb r k = false). { unfold ordered_by, eff_before. rewrite Ir, Br. reflexivity. }
    rewrite O2 in C. unfold both_po, eff_before in C. rewrite Ir, Br, Ik in C.
    rewrite no_po_with_nothing in C. discriminate C.
Qed.

Theorem keep_recv_incompatible : forall tb k r,
  s_locks k = [] -> s_init k = false -> plain_use r -> ~ observed_by r k ->
  compatible tb k r = false.
Proof.
  intros tb k r Lk Ik Pr N. destruct (compatible tb k r) eqn:C; [|reflexivity].
  exfalso. apply N. exact (keep_compatible_observed tb k r Lk Ik Pr C).
Qed.

(* the rule: under the check, every write row that meets a plain use of the same object is the making of
   a fresh copy (construction phase), or holds a lock, or precedes a close the user has observed *)
Theorem handover_rule : forall tb, check tb = true ->
  forall k r, In k (t_sites tb) -> In r (t_sites tb) ->
  s_loc k = s_loc r -> is_write k = true -> plain_use r ->
  s_init k = true \/ s_locks k <> [] \/ observed_by r k.
Proof.
  intros tb Ck k r Ik Ir El Wk Pr.
  destruct (s_init k) eqn:Ii; [left; reflexivity|right].
  destruct (s_locks k) as [|l ls] eqn:Ll; [right|left; discriminate].
  pose proof (check_pair_ok tb Ck k r Ik Ir) as P. unfold pair_ok in P.
  assert (Cf : conflict k r = true). { unfold conflict. rewrite El, String.eqb_refl, Wk. reflexivity. }
  rewrite Cf in P. destruct (compatible tb k r) eqn:C; [|discriminate P].
  exact (keep_compatible_observed tb k r Ll Ii Pr C).
Qed.

(* the keeper's row as the translator writes it is never observed by a plain receive row *)
Lemma owner_not_pub : forall loc, owner_chan loc <> pub.
Proof. intros loc H. unfold owner_chan, pub in H. simpl in H. discriminate H. Qed.

Theorem keep_site_breaks_check : forall tb ch fk pk fr pr,
  In (keep_site ch fk pk) (t_sites tb) -> In (recv_site ch fr pr) (t_sites tb) -> check tb = false.
Proof.
  intros tb ch fk pk fr pr Ik Ir. destruct (check tb) eqn:Ck; [|reflexivity]. exfalso.
  assert (Pr : plain_use (recv_site ch fr pr)). { repeat split. }
  destruct (handover_rule tb Ck _ _ Ik Ir eq_refl eq_refl Pr) as [H|[H|H]].
  - discriminate H.
  - apply H. reflexivity.
  - destruct H as (x & Ix & Io). simpl in Ix. destruct Ix as [<-|[]].
    simpl in Io. destruct Io as [Io|[]]. exact (owner_not_pub _ (eq_sym Io)).
Qed.

Theorem copy_site_passes : forall tb ch fc pc fr pr,
  compatible tb (copy_site ch fc pc) (recv_site ch fr pr) = true /\
  why tb (copy_site ch fc pc) (recv_site ch fr pr) = Some RPublish /\
  compatible tb (copy_site ch fc pc) (copy_site ch fc pc) = true.
Proof.
  intros. split; [apply init_then_use_compatible; reflexivity|].
  split; [apply init_then_use_why; reflexivity|].
  unfold compatible. cbn. try rewrite String.eqb_refl. reflexivity.
Qed.

(* ---- the copy: checked, and ordered in a conforming execution ---- *)

Lemma check_tbCopy : check tbCopy = true.
Proof. vm_compute. reflexivity. Qed.

Lemma wf_trCopy : wf trCopy.
Proof.
  intros p e q E. unfold trCopy in E.
  peel E p; [exact I|]. peel E p; [exact I|]. peel E p; [eexists; in_list|]. peel E p; [exact I|].
  destruct p; discriminate E.
Qed.

Lemma conform_trCopy : conform tbCopy trCopy.
Proof.
  split.
  - intros p t s q E. unfold trCopy in E.
    peel E p.
    { split; [left; reflexivity|]. split; [intros l m []|]. split; [intros c []|].
      intros b [H|[]]; subst. cbn [before_ok]. split.
      - exists [(1, Acc h_copy)]%Z, [(2, RecvC pub); (2, Acc h_recv)]%Z. reflexivity.
      - intros p' u q' E.
        skipe E p'. peel E p'; [split; [reflexivity|simpl; lia]|].
        skipe E p'. skipe E p'. destruct p'; discriminate E. }
    skipe E p. skipe E p.
    peel E p.
    { split; [right; left; reflexivity|]. split; [intros l m []|]. split.
      - intros c [H|[]]; subst; in_list.
      - intros b []. }
    destruct p; discriminate E.
  - intros p u c q E NP. unfold trCopy in E.
    skipe E p. peel E p; [congruence|]. skipe E p. skipe E p. destruct p; discriminate E.
Qed.

Lemma trCopy_ordered : hb trCopy 0 3.
Proof.
  destruct (lockset_sound [] tbCopy trCopy [] 1%Z h_copy [(1, Close pub); (2, RecvC pub)]%Z 2%Z h_recv []
           check_tbCopy wf_trCopy conform_trCopy eq_refl eq_refl) as [H|H]; [exact H|discriminate H].
Qed.

(* ---- the kept reference: the check fails, and a conforming execution has a data race ---- *)

Lemma check_tbKeep : check tbKeep = false.
Proof. vm_compute. reflexivity. Qed.

Lemma wf_trKeep : wf trKeep.
Proof.
  intros p e q E. unfold trKeep in E.
  peel E p; [exact I|]. peel E p; [eexists; in_list|]. peel E p; [eexists; in_list|].
  peel E p; [exact I|]. peel E p; [exact I|]. peel E p; [exact I|].
  destruct p; discriminate E.
Qed.

Lemma conform_trKeep : conform tbKeep trKeep.
Proof.
  split.
  - intros p t s q E. unfold trKeep in E.
    skipe E p. skipe E p. skipe E p.
    peel E p.
    { split; [right; left; reflexivity|]. split; [intros l m []|]. split.
      - intros c [H|[]]; subst; in_list.
      - intros b []. }
    peel E p.
    { split; [left; reflexivity|]. split; [intros l m []|]. split.
      - intros c [H|[]]; subst; in_list.
      - intros b [H|[]]; subst. cbn [before_ok]. split.
        + exists [(1, Close pub); (1, RecvC pub); (2, RecvC pub); (2, Acc h_recv); (1, Acc h_keep)]%Z, []. reflexivity.
        + intros p' u q' E.
          skipe E p'. skipe E p'. skipe E p'. skipe E p'. skipe E p'.
          peel E p'; [split; [reflexivity|simpl; lia]|].
          destruct p'; discriminate E. }
    skipe E p. destruct p; discriminate E.
  - intros p u c q E NP. unfold trKeep in E.
    peel E p; [congruence|].
    skipe E p. skipe E p. skipe E p. skipe E p.
    peel E p; [eexists; split; [left; reflexivity|split; [reflexivity|intros l m []]]|].
    destruct p; discriminate E.
Qed.

(* threads of the positions of trKeep *)
Definition thK (i : nat) : Z := match i with 2%nat | 3%nat => 2 | _ => 1 end.
Definition hbK (i j : nat) : Prop := (i <= j)%nat /\ (i = 0%nat \/ thK i = thK j).

Lemma hb_trKeep : forall i j, hb trKeep i j -> hbK i j.
Proof.
  intros i j H. induction H as [i j t a b L Ni Nj|i j t a u b L Ni Nj S|i j k _ IH1 _ IH2].
  - split; [exact L|]. unfold trKeep in *.
    do 6 (destruct i as [|i]; [
      do 6 (destruct j as [|j]; [simpl in *; inversion Ni; inversion Nj; subst; try discriminate; auto|]);
      simpl in Nj; destruct j; discriminate Nj |]).
    simpl in Ni. destruct i; discriminate Ni.
  - split; [lia|]. unfold trKeep in *.
    do 6 (destruct i as [|i]; [
      do 6 (destruct j as [|j]; [simpl in *; inversion Ni; inversion Nj; subst; simpl in S; try discriminate S; auto|]);
      simpl in Nj; destruct j; discriminate Nj |]).
    simpl in Ni. destruct i; discriminate Ni.
  - destruct IH1 as [L1 C1], IH2 as [L2 C2]. split; [lia|].
    destruct C1 as [->|C1]; [left; reflexivity|].
    destruct C2 as [->|C2]; [left; lia|right; congruence].
Qed.

(* the receiver's read (3) and the owner's later write (4) are not ordered *)
Lemma trKeep_race : ~ hb trKeep 3 4.
Proof.
  intros H. apply hb_trKeep in H. destruct H as [_ [H|H]]; discriminate H.
Qed.

(* ---- the rows of seed C11-r4-3 ---- *)
Lemma seed_handoff_refuted : check seed_handoff_table = false /\ check fixed_handoff_table = true.
Proof. split; vm_compute; reflexivity. Qed.

(* ---- a borrowed parameter read by a goroutine the function does not wait for ---- *)
Lemma lend_refuted : check lend_table = false /\ check lend_waited_table = true /\
  why lend_waited_table (nth 0 (t_sites lend_waited_table) h_recv) (nth 1 (t_sites lend_waited_table) h_recv)
    = Some (RWaitGroup "wg:wg@wrap.wrapper.Invoke@62"%string).
Proof. repeat split; vm_compute; reflexivity. Qed.
