(* Obligations over the generated tables (re-proved on every run, over the whole table). *)
From SC Require Import Base.Prelude Wrap.Stream Wrap.Sites Gen.WrapSites.

(* every boundary site of stream.go goes through the copying function of its kind *)
Theorem every_site_copies : forallb ws_copies wrap_sites = true.
Proof. vm_compute. reflexivity. Qed.

(* ... and the sites the model speaks about are there (so that the translator finding nothing, e.g.
   after a renaming, does not pass): a channel send, the three metadata setters, the hand-outs of
   Header and Trailer, both RecvMsg *)
Theorem sites_present :
  (1 <=? count_kind KChanSend wrap_sites) && (3 <=? count_kind KMdStore wrap_sites)
  && (2 <=? count_kind KMdHandout wrap_sites) && (2 <=? count_kind KRecvCopy wrap_sites) = true.
Proof. vm_compute. reflexivity. Qed.

(* the model's method table is the table of the service description *)
Theorem method_table_generated : method_table = wrap_methods.
Proof. reflexivity. Qed.

(* the model of the code as it is now ([fx_now]: all six repairs present) is what the source says:
   the order of checks in Close, SetHeader, doneErr, the server's SendMsg and SendHeader, and the
   client's CloseSend / SendMsg (closed-once flag), read off stream.go *)
Theorem fixes_generated :
  fx_now = wrap_fixes /\ wrap_close_err_first = true /\ wrap_order_problems = [].
Proof. repeat split; reflexivity. Qed.
