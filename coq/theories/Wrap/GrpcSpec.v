(* Reference behaviour of a real gRPC connection (grpc-go client and server over HTTP/2) for the
   same call scenarios: what the client program and the handler observe.  This file is a
   specification, not a model of grpc-go's code: it is written in terms of what travels on the wire
   (one header block, messages, one trailer block with the status) and is validated on every run
   against a real grpc.Server behind a bufconn listener (modelled, not verified).

   - the server accumulates header metadata until the header block leaves (SendHeader, the first
     message, or the final status if there is pending header metadata); later SetHeader/SendHeader
     calls fail and change nothing (SetHeader with empty metadata always succeeds);
   - the client sees exactly the header block that left, and the trailer block only when the final
     status arrives; after it cancels, nothing more arrives;
   - a handler error that is not a status travels as Unknown with the error text;
   - a call that is not server-streaming has a single RecvMsg which completes only when the status
     arrives and reports a non-OK status instead of the response.
   No proofs in this file. *)
From SC Require Import Base.Prelude Wrap.Stream.

Record gst := mkG {
  g_hdr : md;            (* server: header metadata accumulated so far *)
  g_sent : bool;         (* server: header block has left *)
  g_trl : md;            (* server: trailer metadata accumulated so far *)
  g_chdr : md;           (* client: header block received *)
  g_half : bool;         (* client has half-closed *)
  g_resp : option Z;     (* client: response of a non-server-streaming call, held until the status arrives *)
  g_over : bool
}.
Definition g_init (half : bool) := mkG [] false [] [] half None false.

(* the status as it appears on the wire: code and message; None is OK *)
Definition wire_status (r : ret) : option (Z * Z) :=
  match r with RetOk _ => None | RetStatus c m => Some (c, m) | RetPlain m => Some (2, m) end.

Definition status_outcome (st : option (Z * Z)) : outcome :=
  match st with
  | None => OOk
  | Some (c, m) => if c =? 1 then OCancelled else if c =? 4 then ODeadline else OErr c m
  end.

Definition g_send_headers (extra : md) (g : gst) : gst :=
  if g_sent g then g
  else mkG (g_hdr g ++ extra) true (g_trl g) (g_hdr g ++ extra) (g_half g) (g_resp g) (g_over g).

Definition g_step (sh : shape) (g : gst) (st : step) : gst * (list cobs * list sobs) :=
  if g_over g then
    (* the call is over for the client; whatever the handler still does reaches nobody *)
    match st with
    | SetH _ | SetT _ => (g, ([], []))
    (* the stream is done: nothing can be written to it any more *)
    | SendH _ => (g, ([], [SSendH false]))
    | S2C _ => (g, ([], [SSent false]))
    (* a RecvMsg with nothing buffered and the client not half-closed can only report the stream's end *)
    | RecvEOF => (g, ([], if g_half g then [] else [SRecvErr]))
    | Ret _ => (g, ((if is_invoke sh then [] else [CHdr (canon_md (if g_sent g then g_chdr g else [])); CTrl []]), []))
    | _ => (g, stuck)
    end
  else
  match st with
  | C2S m => if g_half g then (g, stuck) else (g, ([CSent true], [SGot m]))
  | S2C m =>
      let g1 := g_send_headers [] g in
      if ss sh then (g1, ([CGot m], [SSent true]))
      else (mkG (g_hdr g1) (g_sent g1) (g_trl g1) (g_chdr g1) (g_half g1) (Some m) false, ([], [SSent true]))
  | SetH h =>
      if md_empty h then (g, ([], [SSetH true]))
      else if g_sent g then (g, ([], [SSetH false]))
      else (mkG (g_hdr g ++ h) false (g_trl g) (g_chdr g) (g_half g) (g_resp g) false, ([], [SSetH true]))
  | SendH h =>
      if g_sent g then (g, ([], [SSendH false])) else (g_send_headers h g, ([], [SSendH true]))
  | SetT t => (mkG (g_hdr g) (g_sent g) (g_trl g ++ t) (g_chdr g) (g_half g) (g_resp g) false, ([], []))
  | CloseSend => (mkG (g_hdr g) (g_sent g) (g_trl g) (g_chdr g) true (g_resp g) false, ([CClosed], []))
  | RecvEOF => if g_half g then (g, ([], [SEof])) else (g, stuck)
  | CHeader => if g_sent g then (g, ([CHdr (canon_md (g_chdr g))], [])) else (g, stuck)
  | Ret rt =>
      (* pending header metadata leaves with the status; without any it is a trailers-only response *)
      let g1 := g_send_headers [] g in
      let st := wire_status rt in
      let response := match rt with
                      | RetOk resp => if srv_has_stream sh then g_resp g else Some resp
                      | _ => g_resp g
                      end in
      let c := if ss sh then [CEnd (status_outcome st)]
               else match st with
                    | None => match response with Some m => [CGot m] | None => [CEnd OEofNoMsg] end
                    | Some _ => [CEnd (status_outcome st)]
                    end in
      (mkG (g_hdr g1) true (g_trl g1) (g_chdr g1) (g_half g1) None true,
       (c ++ [CHdr (canon_md (g_chdr g1)); CTrl (canon_md (g_trl g))], []))
  | CtxEnd dl =>
      (mkG (g_hdr g) (g_sent g) (g_trl g) (g_chdr g) (g_half g) None true,
       ([CEnd (if dl then ODeadline else OCancelled)]
        ++ (if is_invoke sh then [CHdr (canon_md (if g_sent g then g_chdr g else [])); CTrl []] else []),
        [SDone true]))
  | Cancel dl =>
      (* a deadline that expires on the client ends the call there with DeadlineExceeded; the server
         learns of either through a stream reset *)
      (mkG (g_hdr g) (g_sent g) (g_trl g) (g_chdr g) (g_half g) None true,
       ([CEnd (if dl then ODeadline else OCancelled); CHdr (canon_md (if g_sent g then g_chdr g else [])); CTrl []],
        [SDone true] ++ (if srv_has_stream sh && negb (g_half g) then [SRecvErr] else [])))
  end.

Fixpoint g_steps (sh : shape) (g : gst) (l : list step) : list cobs * list sobs :=
  match l with
  | [] => ([], [])
  | st :: rest =>
      let '(g1, (c, sv)) := g_step sh g st in
      let '(c2, sv2) := g_steps sh g1 rest in
      (c ++ c2, sv ++ sv2)
  end.

Definition grpc_run (sc : scenario) : transcript :=
  if precancel sc
  then ([CEnd (match pre sc with CtxExpired => ODeadline | _ => OCancelled end); CHdr []; CTrl []], [])
  else
    let sh := shp sc in
    let c0 := if cs sh then [] else if is_invoke sh then [] else [CSent true; CClosed] in
    let '(c, sv) := g_steps sh (g_init (negb (cs sh))) (steps sc) in
    (* request metadata travels as header fields of the request: the handler sees what was attached *)
    (c0 ++ c, [SEntered (if cs sh then -1 else req sc); SIncoming (canon_md (omd sc))] ++ sv).

(* unknown method: the server answers Unimplemented *)
Definition grpc_unknown_method_code : Z := 12.

(* client misuse on a real connection (grpc-go clientStream): SendMsg after CloseSend is refused with
   an Internal error, a second CloseSend does nothing *)
Definition g_misuse (k : misuse) : mres := match k with SendAfterCloseSend => MErr 13 | CloseSendTwice => MNil end.
