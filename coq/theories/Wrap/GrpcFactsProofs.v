(* The named assumptions of GrpcSpec (GrpcFacts.v): their general form, proved of the reference model for
   every state / metadata / shape, and the obligations over the generated table of directed scenarios
   (Gen/GrpcFacts.v), re-proved on every run. *)
From SC Require Import Base.Prelude Wrap.Stream Wrap.GrpcSpec Wrap.C13Judge Wrap.GrpcFacts Gen.GrpcFacts.

(* ---- the table ---- *)

(* GrpcSpec gives exactly the hand-written transcript for every directed scenario *)
Theorem fact_table_matches_spec :
  forallb (fun f => transcript_eqb (grpc_run (gf_scn f)) (gf_expect f)) grpc_fact_table = true.
Proof. vm_compute. reflexivity. Qed.

(* every directed scenario lies in the fragment the theorems speak about *)
Theorem fact_table_in_fragment : forallb (fun f => wf (gf_scn f)) grpc_fact_table = true.
Proof. vm_compute. reflexivity. Qed.

(* every assumed behaviour has a directed scenario; ids are 1..n in order (the harness numbers its cases so) *)
Theorem fact_table_complete :
  forallb (has_fact grpc_fact_table) grpc_assumed = true /\
  map gf_id grpc_fact_table = map Z.of_nat (seq 1 (List.length grpc_fact_table)).
Proof. split; vm_compute; reflexivity. Qed.

(* ---- general forms ---- *)

Definition live (g : gst) : Prop := g_over g = false.

(* the header block leaves with the first message, carrying everything set so far, and is what the client sees *)
Lemma header_block_leaves_with_first_message : forall sh g m,
  live g -> g_sent g = false ->
  let g1 := fst (g_step sh g (S2C m)) in
  g_sent g1 = true /\ g_chdr g1 = g_hdr g /\ g_step sh g1 CHeader = (g1, ([CHdr (canon_md (g_hdr g))], [])).
Proof.
  intros sh g m Hl Hs. unfold live in Hl. destruct g as [gh gs gt gc ghf gr go]. cbn in *. subst.
  destruct sh; cbn; rewrite ?app_nil_r; auto.
Qed.

Lemma setheader_after_block_fails_and_is_dropped : forall sh g h,
  live g -> g_sent g = true -> md_empty h = false -> g_step sh g (SetH h) = (g, ([], [SSetH false])).
Proof. intros sh g h Hl Hs He. unfold live in Hl. unfold g_step. rewrite Hl, He, Hs. reflexivity. Qed.

Lemma sendheader_sends_once : forall sh g h,
  live g ->
  (g_sent g = true -> g_step sh g (SendH h) = (g, ([], [SSendH false]))) /\
  (g_sent g = false ->
     let g1 := fst (g_step sh g (SendH h)) in
     snd (g_step sh g (SendH h)) = ([], [SSendH true]) /\ g_sent g1 = true /\ g_chdr g1 = g_hdr g ++ h).
Proof.
  intros sh g h Hl. unfold live in Hl. split; intro Hs; unfold g_step, g_send_headers; rewrite Hl, Hs; cbn; auto.
Qed.

Lemma empty_setheader_always_succeeds : forall sh g,
  live g -> g_step sh g (SetH []) = (g, ([], [SSetH true])).
Proof. intros sh g Hl. unfold live in Hl. unfold g_step. rewrite Hl. reflexivity. Qed.

(* at the handler's return the client's final Header() shows the block that left earlier or, if none had,
   everything that was set; the trailer shows everything set, in order *)
Lemma pending_headers_leave_with_the_status : forall sh g rt,
  live g ->
  exists c, fst (snd (g_step sh g (Ret rt))) =
            c ++ [CHdr (canon_md (if g_sent g then g_chdr g else g_hdr g)); CTrl (canon_md (g_trl g))].
Proof.
  intros sh g rt Hl. unfold live in Hl. unfold g_step, g_send_headers. rewrite Hl.
  destruct (g_sent g); cbn; rewrite ?app_nil_r; eexists; reflexivity.
Qed.

Lemma trailers_accumulate_and_arrive_with_the_status : forall sh g t,
  live g -> g_trl (fst (g_step sh g (SetT t))) = g_trl g ++ t /\ snd (g_step sh g (SetT t)) = ([], []).
Proof. intros sh g t Hl. unfold live in Hl. unfold g_step. rewrite Hl. auto. Qed.

Lemma plain_error_travels_as_unknown_with_its_text : forall m,
  status_outcome (wire_status (RetPlain m)) = OErr 2 m.
Proof. reflexivity. Qed.

(* a call that is not server-streaming: the response is not handed out by the send ... *)
Lemma single_response_is_held_until_the_status : forall sh g m,
  live g -> ss sh = false ->
  fst (snd (g_step sh g (S2C m))) = [] /\ g_resp (fst (g_step sh g (S2C m))) = Some m.
Proof. intros sh g m Hl Hs. unfold live in Hl. unfold g_step. rewrite Hl, Hs. auto. Qed.

(* ... and a status that is not OK replaces it *)
Lemma error_status_is_preferred_over_the_response : forall sh g c m,
  live g -> ss sh = false ->
  exists rest, fst (snd (g_step sh g (Ret (RetStatus c m)))) = CEnd (status_outcome (Some (c, m))) :: rest.
Proof.
  intros sh g c m Hl Hs. unfold live in Hl. unfold g_step. rewrite Hl, Hs. cbn. eexists. reflexivity.
Qed.

Lemma ok_without_a_response_is_an_end_without_message : forall sh g r,
  live g -> ss sh = false -> srv_has_stream sh = true -> g_resp g = None ->
  exists rest, fst (snd (g_step sh g (Ret (RetOk r)))) = CEnd OEofNoMsg :: rest.
Proof.
  intros sh g r Hl Hs Hh Hr. unfold live in Hl. unfold g_step. rewrite Hl, Hs, Hh, Hr. cbn. eexists. reflexivity.
Qed.

Lemma half_close_gives_the_handler_eof_and_messages_keep_their_order : forall sh g m,
  live g ->
  (g_half g = true -> g_step sh g RecvEOF = (g, ([], [SEof]))) /\
  (g_half g = false -> g_step sh g (C2S m) = (g, ([CSent true], [SGot m]))).
Proof. intros sh g m Hl. unfold live in Hl. split; intro Hh; unfold g_step; rewrite Hl, Hh; reflexivity. Qed.

(* the client's context ends: the outcome is the way it ended; no trailer; headers only if the block had left *)
Lemma nothing_arrives_after_a_client_cancel : forall sh g dl,
  live g ->
  fst (snd (g_step sh g (Cancel dl))) =
    [CEnd (if dl then ODeadline else OCancelled); CHdr (canon_md (if g_sent g then g_chdr g else [])); CTrl []]
  /\ g_over (fst (g_step sh g (Cancel dl))) = true.
Proof. intros sh g dl Hl. unfold live in Hl. unfold g_step. rewrite Hl. auto. Qed.

Lemma deadline_expiry_is_deadline_exceeded : forall sh g,
  live g -> hd_error (fst (snd (g_step sh g (Cancel true)))) = Some (CEnd ODeadline)
            /\ hd_error (fst (snd (g_step sh g (CtxEnd true)))) = Some (CEnd ODeadline).
Proof. intros sh g Hl. unfold live in Hl. unfold g_step. rewrite Hl. auto. Qed.

(* once the call is over for the client, no handler action changes the state or shows on the client side *)
Lemma handler_actions_after_the_end_reach_nobody : forall sh g st,
  g_over g = true ->
  match st with SetH _ | SendH _ | SetT _ | S2C _ | RecvEOF => True | _ => False end ->
  fst (g_step sh g st) = g /\ fst (snd (g_step sh g st)) = [].
Proof. intros sh g st Ho Hst. unfold g_step. rewrite Ho. destruct st; try contradiction; auto. Qed.

Lemma headers_received_before_the_end_stay_visible : forall sh g rt,
  g_over g = true -> is_invoke sh = false ->
  fst (snd (g_step sh g (Ret rt))) = [CHdr (canon_md (if g_sent g then g_chdr g else [])); CTrl []].
Proof. intros sh g rt Ho Hi. unfold g_step. rewrite Ho, Hi. reflexivity. Qed.

Lemma call_on_a_cancelled_context_is_cancelled : forall sh rq o,
  grpc_run (mkScn sh rq o CtxCanceled []) = ([CEnd OCancelled; CHdr []; CTrl []], []).
Proof. reflexivity. Qed.

Lemma call_on_an_expired_context_is_deadline_exceeded : forall sh rq o,
  grpc_run (mkScn sh rq o CtxExpired []) = ([CEnd ODeadline; CHdr []; CTrl []], []).
Proof. reflexivity. Qed.

Lemma request_metadata_reaches_the_handler : forall sh rq o l,
  server_incoming (snd (grpc_run (mkScn sh rq o CtxLive l))) =
  canon_md o :: server_incoming (snd (g_steps sh (g_init (negb (cs sh))) l)).
Proof.
  intros. unfold grpc_run. cbn [precancel pre shp steps req omd].
  destruct (g_steps sh (g_init (negb (cs sh))) l) as [c sv]. reflexivity.
Qed.
