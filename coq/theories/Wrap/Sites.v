(* Boundary sites of pkg/wrap/stream.go (the table itself is generated: Gen/WrapSites.v).  A site is
   a place where something crosses from one side of the stream to the other or is stored in / handed
   out of the stream; [ws_copies] is the syntactic fact, read off the source by the translator, that
   the value goes through the copying function of its kind:
     KChanSend   a channel send                         -- the value sent is snapshot(m)
     KMdStore    an assignment to s.header / s.trailer  -- the value stored is metadata.Join(...)
     KMdHandout  a return of Header() / Trailer()       -- the value returned is <field>.Copy()
     KRecvCopy   RecvMsg returning after a channel receive -- through permissiveProtoMerge
   These are the places where Copy.v's "the reference does not cross" ([alias] = false, [snap] = true)
   is assumed.  No proofs in this file. *)
From SC Require Import Base.Prelude.

Inductive skind := KChanSend | KMdStore | KMdHandout | KRecvCopy.
Record wsite := mkWSite { ws_kind : skind; ws_where : string; ws_what : string; ws_copies : bool }.

Definition skind_eqb (a b : skind) : bool :=
  match a, b with
  | KChanSend, KChanSend | KMdStore, KMdStore | KMdHandout, KMdHandout | KRecvCopy, KRecvCopy => true
  | _, _ => false
  end.

Definition count_kind (k : skind) (l : list wsite) : Z :=
  zlen (filter (fun s => skind_eqb (ws_kind s) k) l).
