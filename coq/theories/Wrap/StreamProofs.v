(* Proofs about the model of pkg/wrap (Stream.v) against the gRPC reference (GrpcSpec.v). *)
From SC Require Import Base.Prelude Wrap.Stream Wrap.GrpcSpec Wrap.C13Judge Wrap.Copy.

(* ---- method lookup ---- *)

Lemma unknown_method_unimplemented :
  forall m, lookup m method_table = None ->
    invoke_lookup m = Some 12 /\ forall a b, newstream_lookup m a b = Some 12.
Proof.
  intros m H. unfold invoke_lookup, newstream_lookup. rewrite H. auto.
Qed.

Definition kind_shape (k : mkind) : bool * bool :=
  match k with MUnary => (false, false) | MStream a b => (a, b) end.

Lemma shape_mismatch_internal :
  forall m k a b, lookup m method_table = Some k ->
    newstream_lookup m a b =
    (if Bool.eqb (fst (kind_shape k)) a && Bool.eqb (snd (kind_shape k)) b then None else Some 13).
Proof.
  intros m k a b H. unfold newstream_lookup. rewrite H. destruct k; reflexivity.
Qed.

Lemma streaming_method_not_invocable :
  forall m a b, lookup m method_table = Some (MStream a b) -> invoke_lookup m = Some 12.
Proof. intros m a b H. unfold invoke_lookup. rewrite H. reflexivity. Qed.

(* ---- SendHeader's own test of the context makes the outer tests redundant ---- *)

(* with [fx_sendh_done], latching "if needed" on a finished call does nothing: the tests of the context in
   Close (fx_hdr_on_close's "unless the client is gone") and in the server's SendMsg (fx_send_done) no
   longer matter -- a source tree that drops them behaves the same (used by the generated order facts) *)
Lemma sendh_done_subsumes : forall fx s,
  fx_sendh_done fx = true -> w_done s = true -> w_sendHeaderIfNeeded fx s = s.
Proof. intros fx s Hf Hd. unfold w_sendHeaderIfNeeded, w_SendHeader. rewrite Hf, Hd. reflexivity. Qed.

Lemma send_done_subsumed : forall a b c d f s,
  w_done s = true ->
  w_server_send_done (mkFx a b c d true f) s = w_server_send_done (mkFx a b c true true f) s.
Proof.
  intros a b c d f s Hd. unfold w_server_send_done. cbn [fx_send_done].
  destruct d; [reflexivity | apply sendh_done_subsumes; [reflexivity | exact Hd]].
Qed.

Lemma close_guard_subsumed : forall fx e s,
  fx_sendh_done fx = true -> w_cancelled s = true ->
  w_Close fx e s = mkW (w_header (w_sendHeaderIfNeeded fx s)) (w_sent (w_sendHeaderIfNeeded fx s))
                       (w_trailer (w_sendHeaderIfNeeded fx s)) true e (w_ctx (w_sendHeaderIfNeeded fx s))
                       (w_half (w_sendHeaderIfNeeded fx s)).
Proof.
  intros fx e s Hf Hc. unfold w_Close. rewrite Hc, andb_false_r. cbn [negb].
  rewrite sendh_done_subsumes; [reflexivity | exact Hf | unfold w_done; rewrite Hc; apply orb_true_r].
Qed.

(* ---- wrapper = gRPC on the rendezvous fragment ---- *)

Definition w_obs fx sh r l := snd (w_steps fx sh r l).

Lemma w_obs_cons : forall fx sh r st rest,
  w_obs fx sh r (st :: rest) =
  (fst (snd (w_step fx sh r st)) ++ fst (w_obs fx sh (fst (w_step fx sh r st)) rest),
   snd (snd (w_step fx sh r st)) ++ snd (w_obs fx sh (fst (w_step fx sh r st)) rest)).
Proof.
  intros. unfold w_obs. simpl.
  destruct (w_step fx sh r st) as [r1 [c sv]]. simpl.
  destruct (w_steps fx sh r1 rest) as [r2 [c2 sv2]]. reflexivity.
Qed.

Lemma g_steps_cons : forall sh g st rest,
  g_steps sh g (st :: rest) =
  (fst (snd (g_step sh g st)) ++ fst (g_steps sh (fst (g_step sh g st)) rest),
   snd (snd (g_step sh g st)) ++ snd (g_steps sh (fst (g_step sh g st)) rest)).
Proof.
  intros. simpl. destruct (g_step sh g st) as [g1 [c sv]]. simpl.
  destruct (g_steps sh g1 rest) as [c2 sv2]. reflexivity.
Qed.

Lemma md_empty_app : forall a b, md_empty (a ++ b) = md_empty a && md_empty b.
Proof. intros [|x a] b; reflexivity. Qed.

Definition inv (s : wst) (g : gst) (half sent : bool) : Prop :=
  w_closed s = false /\ w_ctx s = CtxLive /\ w_half s = half /\ g_half g = half /\
  w_sent s = sent /\ g_sent g = sent /\ w_trailer s = g_trl g /\
  w_header s = (if sent then g_chdr g else g_hdr g) /\ g_resp g = None /\ g_over g = false.

Ltac split_and :=
  repeat match goal with
         | H : _ && _ = true |- _ => apply andb_prop in H; destruct H
         | H : negb _ = true |- _ => apply negb_true_iff in H
         end.

(* after the client's context has ended: whatever the handler still does, the client's final
   Header() / Trailer() show what a real connection shows, unless the handler sets a trailer or
   sends headers it had not sent before (recorded classes 1 and 4) *)
Definition pinv (s : wst) (g : gst) : Prop :=
  w_closed s = false /\ w_cancelled s = true /\ g_over g = true /\ w_sent s = g_sent g /\
  (g_sent g = true -> w_header s = g_chdr g) /\ w_trailer s = [].

Lemma post_equal : forall sh l s g half,
  pinv s g -> w_half s = half -> g_half g = half ->
  wf_post sh half l = true -> post_sets_trailer l = false ->
  w_obs fx_now sh (mkWR s false false) l = g_steps sh g l.
Proof.
  intros sh l. induction l as [|st rest IH]; intros s g half Hinv Hhalf Hghalf Hwf Hpt.
  - discriminate.
  - destruct s as [wh ws wt wc we wx whf], g as [gh gs gt gc ghf gr go].
    unfold pinv in Hinv. cbn in Hinv. destruct Hinv as (? & Hx & ? & ? & Hh & ?). cbn in Hhalf, Hghalf. subst.
    assert (Hgone : forall h s' t, w_gone (mkW h s' t false we wx half) = true).
    { intros. unfold w_gone, w_cancelled. cbn. destruct wx; [discriminate | reflexivity | reflexivity]. }
    assert (Hdone : forall h s' t, w_done (mkW h s' t false we wx half) = true).
    { intros. unfold w_done, w_cancelled. cbn. destruct wx; [discriminate | reflexivity | reflexivity]. }
    rewrite w_obs_cons, g_steps_cons.
    destruct st; try discriminate.
    + (* S2C: SendMsg on the finished call *)
      cbn in Hwf. split_and. cbn in Hpt.
      cbn [w_step wr_over wr_s]. rewrite Hgone. cbn.
      erewrite IH; [reflexivity | | reflexivity | reflexivity | eassumption | exact Hpt].
      unfold pinv; cbn; repeat split; auto.
    + (* SetH *)
      cbn in Hwf. cbn in Hpt.
      cbn [w_step wr_over wr_s]. rewrite Hgone.
      destruct (md_empty h) eqn:Hh0; [|destruct gs]; cbn; rewrite ?Hh0; cbn;
        (erewrite IH; [reflexivity | | reflexivity | reflexivity | exact Hwf | exact Hpt]);
        unfold pinv; cbn; repeat split; auto; discriminate.
    + (* SendH: the context is looked at first, nothing is published *)
      cbn in Hwf. cbn in Hpt.
      cbn [w_step wr_over wr_s].
      unfold w_SendHeader. cbn [fx_sendh_done fx_now andb]. rewrite Hdone. cbn.
      erewrite IH; [reflexivity | | reflexivity | reflexivity | exact Hwf | exact Hpt].
      unfold pinv; cbn; repeat split; auto.
    + (* SetT: only empty metadata *)
      cbn in Hwf. cbn in Hpt. apply orb_false_iff in Hpt. destruct Hpt as [Ht Hpt].
      apply negb_false_iff in Ht. destruct t; [|discriminate].
      cbn. erewrite IH; [reflexivity | | reflexivity | reflexivity | exact Hwf | exact Hpt].
      unfold pinv; cbn; repeat split; auto.
    + (* RecvEOF: a RecvMsg that fails, with the context's error *)
      cbn in Hwf. split_and. subst. cbn in Hpt.
      cbn [w_step wr_over wr_s]. rewrite Hgone. cbn.
      erewrite IH; [destruct wx; [discriminate | reflexivity | reflexivity] | | reflexivity | reflexivity | eassumption | exact Hpt].
      unfold pinv; cbn; repeat split; auto.
    + (* Ret *)
      cbn in Hwf. split_and. destruct rest; try discriminate.
      cbn [w_step wr_over wr_s]. rewrite Hgone.
      destruct gs; [rewrite (Hh eq_refl)|]; destruct wx; try discriminate; destruct sh, r; cbn; reflexivity.
Qed.

Lemma steps_equal : forall sh l s g half sent infl,
  inv s g half sent ->
  wf_steps sh half sent infl l = true ->
  k1_steps (negb (md_empty (g_trl g))) l = false ->
  k2_steps sh l = false ->
  w_obs fx_now sh (mkWR s false false) l = g_steps sh g l.
Proof.
  intros sh l. induction l as [|st rest IH]; intros s g half sent infl Hinv Hwf Hk1 Hk2.
  - discriminate.
  - destruct s as [wh ws wt wc we wx whf], g as [gh gs gt gc ghf gr go].
    unfold inv in Hinv. cbn in Hinv.
    destruct Hinv as (? & ? & ? & ? & ? & ? & ? & Hh & ? & ?). subst.
    rewrite w_obs_cons, g_steps_cons.
    destruct st.
    + (* C2S *)
      cbn in Hwf. split_and. subst. cbn in Hk1, Hk2.
      cbn. erewrite IH; [reflexivity | | eassumption | exact Hk1 | exact Hk2].
      unfold inv; cbn; repeat split; auto.
    + (* S2C *)
      cbn in Hwf. cbn in Hk2. cbn in Hk1.
      destruct (ss sh) eqn:Hss.
      * cbn. rewrite Hss. destruct sent; cbn;
          (erewrite IH; [reflexivity | | exact Hwf | exact Hk1 | exact Hk2]);
          unfold inv; cbn; repeat split; auto.
      * split_and. destruct rest as [|[| | | | | | | |rt| |] [|? ?]]; try discriminate.
        destruct rt; try discriminate.
        rewrite w_obs_cons, g_steps_cons.
        destruct sh; try discriminate; destruct sent; cbn; reflexivity.
    + (* SetH *)
      cbn in Hwf. cbn in Hk1, Hk2.
      cbn. destruct (md_empty h) eqn:Hh0; [|destruct sent]; cbn;
        (erewrite IH; [reflexivity | | exact Hwf | exact Hk1 | exact Hk2]);
        unfold inv; cbn; repeat split; auto.
    + (* SendH *)
      cbn in Hwf. cbn in Hk1, Hk2.
      cbn. destruct sent; cbn;
        (erewrite IH; [reflexivity | | exact Hwf | exact Hk1 | exact Hk2]);
        unfold inv; cbn; repeat split; auto.
    + (* SetT *)
      cbn in Hwf. cbn in Hk1, Hk2.
      cbn. erewrite IH; [reflexivity | | exact Hwf | | exact Hk2].
      * unfold inv; cbn; repeat split; auto.
      * cbn. rewrite md_empty_app, negb_andb. exact Hk1.
    + (* CloseSend *)
      cbn in Hwf. split_and. subst. cbn in Hk1, Hk2.
      cbn. erewrite IH; [reflexivity | | eassumption | exact Hk1 | exact Hk2].
      unfold inv; cbn; repeat split; auto.
    + (* RecvEOF *)
      cbn in Hwf. split_and. subst. cbn in Hk1, Hk2.
      cbn. erewrite IH; [reflexivity | | eassumption | exact Hk1 | exact Hk2].
      unfold inv; cbn; repeat split; auto.
    + (* CHeader *)
      cbn in Hwf. split_and. subst. cbn in Hk1, Hk2.
      cbn. erewrite IH; [reflexivity | | eassumption | exact Hk1 | exact Hk2].
      unfold inv; cbn; repeat split; auto.
    + (* Ret *)
      cbn in Hwf. split_and. destruct rest; try discriminate.
      destruct sh, r, sent; cbn; reflexivity.
    + (* CtxEnd *)
      cbn in Hwf. split_and. cbn in Hk1.
      apply orb_false_iff in Hk1. destruct Hk1 as [Hk1 Hpt].
      destruct gt; try discriminate.
      assert (Hpost : w_obs fx_now sh (mkWR (set_ctx (ctx_of dl) (mkW (if sent then gc else gh) sent [] false we CtxLive half)) false false) rest
                      = g_steps sh (mkG gh sent [] gc half None true) rest).
      { eapply post_equal; [ | reflexivity | reflexivity | eassumption | exact Hpt].
        unfold pinv. destruct dl, sent; cbn; repeat split; auto; discriminate. }
      destruct dl, sh, sent; cbn in *; rewrite Hpost; reflexivity.
    + (* Cancel *)
      cbn in Hwf. split_and. destruct rest; try discriminate.
      cbn in Hk1. destruct gt; try discriminate.
      destruct dl, sh, sent, half; cbn; reflexivity.
Qed.

Lemma known_none : forall sc, precancel sc = false -> no_known sc = true ->
  k1_steps false (steps sc) = false /\ k2_steps (shp sc) (steps sc) = false.
Proof.
  intros sc Hp H. unfold no_known, known_class in H. rewrite Hp in H.
  destruct (k1_steps false (steps sc)); [discriminate|].
  destruct (k2_steps (shp sc) (steps sc)); [discriminate|]. auto.
Qed.

Theorem wrapper_equals_grpc : forall sc,
  wf sc = true -> no_known sc = true -> wrap_run fx_now sc = grpc_run sc.
Proof.
  intros [sh rq om pc l] Hwf Hnk. unfold wrap_run, wrap_exec, grpc_run, wf, precancel in *. cbn [pre shp steps req omd] in *.
  destruct pc; [ | destruct l; [destruct sh; reflexivity | discriminate] .. ].
  - destruct (known_none (mkScn sh rq om CtxLive l) eq_refl Hnk) as [Hk1 Hk2]. cbn [steps shp] in Hk1, Hk2.
    assert (Hs : forall s0, inv s0 (g_init (negb (cs sh))) (negb (cs sh)) false ->
                 snd (w_steps fx_now sh (mkWR s0 false false) l) = g_steps sh (g_init (negb (cs sh))) l).
    { intros s0 Hi. apply (steps_equal sh l s0 _ _ _ _ Hi Hwf); [exact Hk1 | exact Hk2]. }
    destruct sh; cbn [w_start cs is_invoke negb];
      match goal with |- context [w_steps fx_now ?sh (mkWR ?s0 false false) l] =>
        specialize (Hs s0); destruct (w_steps fx_now sh (mkWR s0 false false) l) as [r [c sv]] end;
      cbn [snd] in Hs; cbn [cs negb] in Hs; rewrite <- Hs by (unfold inv; cbn; repeat split; auto);
      reflexivity.
Qed.

(* ---- every call of the fragment runs to completion: nothing blocks, the handler goroutine ends ---- *)

Definition not_stuck (o : cobs) : bool := match o with CEnd OStuck => false | _ => true end.

Definition winv (s : wst) (half sent : bool) : Prop :=
  w_closed s = false /\ w_ctx s = CtxLive /\ w_half s = half /\ w_sent s = sent.

Definition w_fin fx sh r l := fst (w_steps fx sh r l).

Lemma w_fin_cons : forall fx sh r st rest,
  w_fin fx sh r (st :: rest) = w_fin fx sh (fst (w_step fx sh r st)) rest.
Proof.
  intros. unfold w_fin. simpl. destruct (w_step fx sh r st) as [r1 [c sv]]. simpl.
  destruct (w_steps fx sh r1 rest) as [r2 [c2 sv2]]. reflexivity.
Qed.

Lemma post_finish : forall sh l s half,
  w_closed s = false -> w_cancelled s = true -> w_half s = half ->
  wf_post sh half l = true ->
  w_closed (wr_s (w_fin fx_now sh (mkWR s false false) l)) = true /\
  forallb not_stuck (fst (w_obs fx_now sh (mkWR s false false) l)) = true.
Proof.
  intros sh l. induction l as [|st rest IH]; intros s half Hc Hx Hhalf Hwf.
  - discriminate.
  - destruct s as [wh ws wt wc we wx whf]. cbn in Hc, Hhalf. subst.
    assert (Hx' : forall h s' t, w_cancelled (mkW h s' t false we wx half) = true) by (intros; exact Hx).
    assert (Hgone : forall h s' t, w_gone (mkW h s' t false we wx half) = true).
    { intros. unfold w_gone. rewrite Hx'. reflexivity. }
    assert (Hdone : forall h s' t, w_done (mkW h s' t false we wx half) = true).
    { intros. unfold w_done. rewrite Hx'. reflexivity. }
    rewrite w_fin_cons, w_obs_cons. cbn [fst]. rewrite forallb_app.
    destruct st; try discriminate.
    + cbn in Hwf. split_and. cbn [w_step wr_over wr_s]. rewrite Hgone. cbn.
      eapply IH; [reflexivity | apply Hx' | reflexivity | eassumption].
    + cbn in Hwf. cbn [w_step wr_over wr_s]. rewrite Hgone.
      destruct (md_empty h) eqn:Hh0; [|destruct ws]; cbn; rewrite ?Hh0; cbn;
        (eapply IH; [reflexivity | apply Hx' | reflexivity | exact Hwf]).
    + cbn in Hwf. cbn [w_step wr_over wr_s].
      unfold w_SendHeader. cbn [fx_sendh_done fx_now andb]. rewrite Hdone. cbn.
      eapply IH; [reflexivity | apply Hx' | reflexivity | exact Hwf].
    + cbn in Hwf. cbn. eapply IH; [reflexivity | apply Hx' | reflexivity | exact Hwf].
    + cbn in Hwf. split_and. subst. cbn [w_step wr_over wr_s]. rewrite Hgone. cbn.
      eapply IH; [reflexivity | apply Hx' | reflexivity | eassumption].
    + cbn in Hwf. split_and. destruct rest; try discriminate.
      cbn [w_step wr_over wr_s]. rewrite Hgone.
      destruct sh, r, ws; cbn; auto.
Qed.

Lemma steps_finish : forall sh l s half sent infl,
  winv s half sent ->
  wf_steps sh half sent infl l = true ->
  w_closed (wr_s (w_fin fx_now sh (mkWR s false false) l)) = true /\
  forallb not_stuck (fst (w_obs fx_now sh (mkWR s false false) l)) = true.
Proof.
  intros sh l. induction l as [|st rest IH]; intros s half sent infl Hinv Hwf.
  - discriminate.
  - destruct s as [wh ws wt wc we wx whf]. unfold winv in Hinv. cbn in Hinv.
    destruct Hinv as (? & ? & ? & ?). subst.
    rewrite w_fin_cons, w_obs_cons. cbn [fst]. rewrite forallb_app.
    destruct st.
    + cbn in Hwf. split_and. subst. cbn.
      eapply IH; [|eassumption]. unfold winv; cbn; repeat split; auto.
    + cbn in Hwf. destruct (ss sh) eqn:Hss.
      * cbn. rewrite Hss. destruct sent; cbn; (eapply IH; [|exact Hwf]); unfold winv; cbn; repeat split; auto.
      * split_and. destruct rest as [|[| | | | | | | |rt| |] [|? ?]]; try discriminate.
        rewrite w_fin_cons, w_obs_cons.
        destruct sh; try discriminate; destruct sent, rt; cbn; auto;
          repeat match goal with |- context [if ?b then _ else _] => destruct b end; auto.
    + cbn in Hwf. cbn. destruct (md_empty h); [|destruct sent]; cbn;
        (eapply IH; [|exact Hwf]); unfold winv; cbn; repeat split; auto.
    + cbn in Hwf. cbn. destruct sent; cbn; (eapply IH; [|exact Hwf]); unfold winv; cbn; repeat split; auto.
    + cbn in Hwf. cbn. eapply IH; [|exact Hwf]. unfold winv; cbn; repeat split; auto.
    + cbn in Hwf. split_and. subst. cbn. eapply IH; [|eassumption]. unfold winv; cbn; repeat split; auto.
    + cbn in Hwf. split_and. subst. cbn. eapply IH; [|eassumption]. unfold winv; cbn; repeat split; auto.
    + cbn in Hwf. split_and. subst. cbn. eapply IH; [|eassumption]. unfold winv; cbn; repeat split; auto.
    + cbn in Hwf. split_and. destruct rest; try discriminate.
      destruct sh, r, sent; cbn; auto;
        repeat match goal with |- context [if ?b then _ else _] => destruct b end; auto.
    + (* CtxEnd *)
      cbn in Hwf. split_and.
      assert (Hp := post_finish sh rest (set_ctx (ctx_of dl) (mkW wh sent wt false we CtxLive half)) half
                      eq_refl (ltac:(destruct dl; reflexivity)) eq_refl ltac:(eassumption)).
      destruct Hp as [Hp1 Hp2].
      destruct dl, sh; cbn in *; rewrite ?Hp1, ?Hp2; auto.
    + cbn in Hwf. split_and. destruct rest; try discriminate.
      destruct dl, sh, sent, half; cbn; auto.
Qed.

Theorem no_goroutine_left : forall sc,
  wf sc = true ->
  handler_finished (fst (wrap_exec fx_now sc)) = true /\ never_blocked (wrap_run fx_now sc) = true.
Proof.
  intros [sh rq om pc l] Hwf. unfold wrap_run, wrap_exec, wf, never_blocked, precancel in *. cbn [pre shp steps req omd] in *.
  destruct pc; [ | destruct sh; split; reflexivity .. ].
  - assert (Hs : forall s0, winv s0 (negb (cs sh)) false ->
       w_closed (wr_s (w_fin fx_now sh (mkWR s0 false false) l)) = true /\
       forallb not_stuck (fst (w_obs fx_now sh (mkWR s0 false false) l)) = true).
    { intros s0 Hi. eapply steps_finish; eauto. }
    unfold w_fin, w_obs in Hs.
    destruct sh; cbn [w_start cs is_invoke negb];
      match goal with |- context [w_steps fx_now ?sh (mkWR ?s0 false false) l] =>
        assert (Hi : winv s0 (negb (cs sh)) false) by (unfold winv; cbn; repeat split; auto);
        specialize (Hs s0 Hi); destruct (w_steps fx_now sh (mkWR s0 false false) l) as [r [c sv]] end;
      cbn [fst snd cs negb] in *; destruct Hs as [Hc Hn];
      (split; [exact Hc | cbn; exact Hn]).
Qed.

(* ---- messages are copied across the boundary ---- *)

Lemma hread_apply_writes : forall ws h a,
  (forall p, In p ws -> fst p <> a) -> hread a (apply_writes ws h) = hread a h.
Proof.
  unfold apply_writes. induction ws as [|[b v] ws IH]; intros h a Hn; cbn.
  - reflexivity.
  - rewrite IH by (intros p Hp; apply Hn; right; exact Hp).
    cbn. specialize (Hn (b, v) (or_introl eq_refl)). cbn in Hn.
    destruct (Z.eqb_spec b a); [contradiction | reflexivity].
Qed.

(* whatever either side writes afterwards to objects other than the receiver's copy leaves that
   copy equal to what was sent; whatever is written to objects other than the sender's leaves the
   sender's object as it was *)
Theorem copies_isolated : forall h src dst ws,
  src <> dst ->
  let '(h1, r) := transfer false src dst h in
  ((forall p, In p ws -> fst p <> r) -> hread r (apply_writes ws h1) = hread src h) /\
  ((forall p, In p ws -> fst p <> src) -> hread src (apply_writes ws h1) = hread src h).
Proof.
  intros h src dst ws Hne. cbn. split; intro Hw.
  - rewrite hread_apply_writes by exact Hw. cbn. rewrite Z.eqb_refl. reflexivity.
  - rewrite hread_apply_writes by exact Hw. cbn.
    destruct (Z.eqb_spec dst src); [congruence | reflexivity].
Qed.

(* handing over the reference instead would not be isolated *)
Lemma alias_not_isolated : exists h src dst ws,
  src <> dst /\ (forall p, In p ws -> fst p <> dst) /\
  let '(h1, r) := transfer true src dst h in hread r (apply_writes ws h1) <> hread src h.
Proof.
  exists [(1, 5)], 1, 2, [(1, 777)]. split; [discriminate|]. split.
  - intros p [<-|[]]. discriminate.
  - cbn. discriminate.
Qed.

(* metadata is copied when it is set: whatever the handler writes to its maps afterwards, the
   stream's header / trailer stays what it was given at that moment *)
Theorem md_copied_at_set_time : forall cur a h ws,
  (cur = None \/ exists v, cur = Some (MVal v)) ->
  mget (md_set false cur a h) (apply_mwrites ws h) =
  (match cur with None => [] | Some t => mget t h end) ++ mread a h.
Proof.
  intros cur a h ws [-> | [v ->]]; reflexivity.
Qed.

Lemma md_alias_not_copied : exists a h ws,
  mget (md_set true None a h) (apply_mwrites ws h) <> mread a h.
Proof. exists 1, [(1, [(1, 2)])], [(1, [(1, 90)])]. cbn. discriminate. Qed.

(* ---- the judge accepts what the models produce ---- *)

Lemma list_eqb_refl : forall A (e : A -> A -> bool), (forall x, e x x = true) -> forall l, list_eqb e l l = true.
Proof. intros A e He. induction l as [|x l IH]; cbn; [reflexivity | rewrite He, IH; reflexivity]. Qed.

Lemma md_eqb_refl : forall h, md_eqb h h = true.
Proof. apply list_eqb_refl. intros [a b]. cbn. rewrite !Z.eqb_refl. reflexivity. Qed.

Lemma cobs_eqb_refl : forall o, cobs_eqb o o = true.
Proof.
  destruct o as [b| |m|o|h|h]; cbn; auto using Z.eqb_refl, md_eqb_refl, Bool.eqb_reflx.
  destruct o; cbn; auto. rewrite !Z.eqb_refl. reflexivity.
Qed.

Lemma sobs_eqb_refl : forall o, sobs_eqb o o = true.
Proof. destruct o; cbn; auto using Z.eqb_refl, Bool.eqb_reflx, md_eqb_refl. Qed.

Lemma transcript_eqb_refl : forall t, transcript_eqb t t = true.
Proof.
  intros [c s]. unfold transcript_eqb. cbn.
  rewrite (list_eqb_refl _ _ cobs_eqb_refl), (list_eqb_refl _ _ sobs_eqb_refl). reflexivity.
Qed.

Lemma same_view_refl : forall t, same_view t t = true.
Proof.
  intros [c s]. unfold same_view. cbn.
  rewrite (list_eqb_refl _ _ cobs_eqb_refl), (list_eqb_refl _ _ Z.eqb_refl), (list_eqb_refl _ _ md_eqb_refl).
  reflexivity.
Qed.

Theorem judge_sound : forall sc,
  wf sc = true -> no_known sc = true ->
  judge (KCall sc (wrap_run fx_now sc) (grpc_run sc)) = 0.
Proof.
  intros sc Hwf Hnk. unfold judge. cbn [agrees C13_guard C13_ok].
  rewrite Hwf, !transcript_eqb_refl.
  rewrite <- (wrapper_equals_grpc sc Hwf Hnk), same_view_refl.
  destruct (no_goroutine_left sc Hwf) as [_ Hb]. rewrite Hb. reflexivity.
Qed.

(* ---- the judge is complete: an observation that agrees with the models satisfies the predicate ---- *)

Lemma list_eqb_eq : forall A (e : A -> A -> bool), (forall x y, e x y = true -> x = y) ->
  forall a b, list_eqb e a b = true -> a = b.
Proof.
  intros A e He. induction a as [|x a IH]; intros [|y b] H; cbn in H; try discriminate; [reflexivity|].
  apply andb_prop in H. destruct H as [H1 H2]. rewrite (He _ _ H1), (IH _ H2). reflexivity.
Qed.

Lemma md_eqb_eq : forall a b, md_eqb a b = true -> a = b.
Proof.
  apply list_eqb_eq. intros [a b] [c d] H. cbn in H. apply andb_prop in H. destruct H as [H1 H2].
  apply Z.eqb_eq in H1, H2. subst. reflexivity.
Qed.

Lemma outcome_eqb_eq : forall a b, outcome_eqb a b = true -> a = b.
Proof.
  intros [] [] H; cbn in H; try discriminate; try reflexivity.
  apply andb_prop in H. destruct H as [H1 H2]. apply Z.eqb_eq in H1, H2. subst. reflexivity.
Qed.

Lemma cobs_eqb_eq : forall a b, cobs_eqb a b = true -> a = b.
Proof.
  intros [] [] H; cbn in H; try discriminate; try reflexivity.
  - apply Bool.eqb_prop in H. subst. reflexivity.
  - apply Z.eqb_eq in H. subst. reflexivity.
  - apply outcome_eqb_eq in H. subst. reflexivity.
  - apply md_eqb_eq in H. subst. reflexivity.
  - apply md_eqb_eq in H. subst. reflexivity.
Qed.

Lemma sobs_eqb_eq : forall a b, sobs_eqb a b = true -> a = b.
Proof.
  intros [] [] H; cbn in H; try discriminate; try reflexivity;
    try (apply Z.eqb_eq in H; subst; reflexivity);
    try (apply Bool.eqb_prop in H; subst; reflexivity).
  apply md_eqb_eq in H. subst. reflexivity.
Qed.

Lemma transcript_eqb_eq : forall a b, transcript_eqb a b = true -> a = b.
Proof.
  intros [c s] [c' s'] H. unfold transcript_eqb in H. cbn in H. apply andb_prop in H. destruct H as [H1 H2].
  apply (list_eqb_eq _ _ cobs_eqb_eq) in H1. apply (list_eqb_eq _ _ sobs_eqb_eq) in H2. subst. reflexivity.
Qed.

Lemma shape_none_lookup : forall m, shape_of_method m = None -> lookup m method_table = None.
Proof.
  intros m H. unfold shape_of_method in H. cbn -[Z.eqb].
  rewrite (Z.eqb_sym 0 m), (Z.eqb_sym 1 m), (Z.eqb_sym 2 m), (Z.eqb_sym 3 m).
  destruct (m =? 0); [discriminate|]. destruct (m =? 1); [discriminate|].
  destruct (m =? 2); [discriminate|]. destruct (m =? 3); [discriminate|]. reflexivity.
Qed.

Lemma unwrap_chain : forall ids leaf, unwrap_fully (mk_chain ids leaf) = Plain leaf.
Proof. induction ids as [|i r IH]; intro leaf; cbn; [reflexivity | apply IH]. Qed.

Lemma unwrap_is_plain : forall o, exists i, unwrap_fully o = Plain i.
Proof. induction o as [i | i o IH]; cbn; [exists i; reflexivity | exact IH]. Qed.

Lemma unwrap_idempotent : forall o, unwrap_fully (unwrap_fully o) = unwrap_fully o.
Proof. intro o. destruct (unwrap_is_plain o) as [i ->]. reflexivity. Qed.

(* every observation that agrees with the two models and lies in the fragment, outside the recorded
   classes, satisfies the property predicate: verdict 2 cannot come from the predicate being stricter
   than the models *)
Theorem judge_complete : forall c,
  agrees c = true -> C13_guard c = true -> C13_known c = None -> C13_ok c = true.
Proof.
  intros [sc tw tg | m via cw cg | m a b cw | k rw rg | ids leaf got | id sc ex tg] Ha Hg Hk; cbn in *.
  - apply andb_prop in Ha. destruct Ha as [H1 H2].
    apply transcript_eqb_eq in H1, H2. subst.
    assert (Hnk : no_known sc = true) by (unfold no_known; rewrite Hk; reflexivity).
    rewrite <- (wrapper_equals_grpc sc Hg Hnk), same_view_refl.
    destruct (no_goroutine_left sc Hg) as [_ Hb]. rewrite Hb. reflexivity.
  - apply andb_prop in Ha. destruct Ha as [H1 H2].
    destruct (shape_of_method m) eqn:Hs; [discriminate|].
    destruct (unknown_method_unimplemented m (shape_none_lookup m Hs)) as [Hi Hn].
    rewrite Hi, (Hn false false) in H1. unfold grpc_unknown_method_code in H2.
    apply Z.eqb_eq in H2. subst cg. destruct via; cbn in H1; rewrite H1; reflexivity.
  - apply Z.eqb_eq in Ha. subst cw. unfold shape_of_method, newstream_lookup. cbn -[Z.eqb].
    rewrite (Z.eqb_sym 0 m), (Z.eqb_sym 1 m), (Z.eqb_sym 2 m), (Z.eqb_sym 3 m).
    destruct (m =? 0); [destruct a, b; reflexivity|].
    destruct (m =? 1); [destruct a, b; reflexivity|].
    destruct (m =? 2); [destruct a, b; reflexivity|].
    destruct (m =? 3); [destruct a, b; reflexivity|]. reflexivity.
  - apply andb_prop in Ha. destruct Ha as [H1 H2].
    destruct k, rw, rg; cbn in H1, H2; try discriminate; try reflexivity.
    apply Z.eqb_eq in H1, H2. subst. reflexivity.
  - apply Z.eqb_eq in Ha. subst got. rewrite unwrap_chain. cbn. apply Z.eqb_refl.
  - apply transcript_eqb_eq in Ha. apply transcript_eqb_eq in Hg. subst tg. rewrite Hg. apply transcript_eqb_refl.
Qed.

Corollary judge_zero : forall c,
  agrees c = true -> C13_guard c = true -> C13_known c = None -> judge c = 0.
Proof.
  intros c Ha Hg Hk. unfold judge. rewrite Ha, Hg, (judge_complete c Ha Hg Hk). reflexivity.
Qed.

(* ---- a message is copied before SendMsg returns ---- *)

Lemma hread_merge_same : forall d s h, hread d (merge d s h) = hread s h.
Proof. intros. unfold merge, hwrite. cbn. rewrite Z.eqb_refl. reflexivity. Qed.

Lemma hread_merge_other : forall a d s h, a <> d -> hread a (merge d s h) = hread a h.
Proof. intros a d s h Hn. unfold merge, hwrite. cbn. destruct (Z.eqb_spec d a); [congruence | reflexivity]. Qed.

(* whatever the sender (or anybody else) writes between the moment SendMsg returns and the moment the
   receiver copies, to any object but the private snapshot, the receiver ends up with the content the
   message had when SendMsg was called *)
Theorem send_snapshot_isolated : forall h src tmp dst between,
  (forall p, In p between -> fst p <> tmp) ->
  hread dst (send_recv true src tmp dst between h) = hread src h.
Proof.
  intros h src tmp dst between Hb. unfold send_recv.
  rewrite hread_merge_same, hread_apply_writes by exact Hb. apply hread_merge_same.
Qed.

(* ... and the sender's object is left alone by the transfer itself *)
Theorem send_snapshot_sender_untouched : forall h src tmp dst,
  src <> tmp -> src <> dst -> hread src (send_recv true src tmp dst [] h) = hread src h.
Proof.
  intros h src tmp dst H1 H2. unfold send_recv, apply_writes. cbn [fold_left].
  rewrite hread_merge_other by exact H2. apply hread_merge_other. exact H1.
Qed.

(* the code before 80ea756: a handler that reuses its message right after Send changes what the client gets *)
Lemma send_no_snapshot_refuted : exists h src tmp dst between,
  (forall p, In p between -> fst p <> tmp /\ fst p <> dst) /\
  hread dst (send_recv false src tmp dst between h) <> hread src h.
Proof.
  exists [(1, 5)], 1, 3, 2, [(1, 99)]. split.
  - intros p [<-|[]]. cbn. split; discriminate.
  - cbn. discriminate.
Qed.

(* the handler's incoming metadata is a copy of the client's outgoing map *)
Theorem incoming_md_cloned : forall a h ws,
  mget (clone_md a h) (apply_mwrites ws h) = mread a h.
Proof. reflexivity. Qed.
