(* Correspondence cases for C13.  A call case carries a scenario and the two transcripts the harness
   observed: through wrap.ServerToClient and through a real grpc.Server behind bufconn.
   [agrees]: wrapper transcript = the model of pkg/wrap, gRPC transcript = GrpcSpec.
   [C13_ok]: the two observed transcripts, compared with each other directly (client view and the
   messages the server received) -- no model involved, so a failing scenario is a replay by itself. *)
From SC Require Import Base.Prelude Wrap.Stream Wrap.GrpcSpec.

(* ---- the rendezvous fragment (guard of the theorems) ---- *)

Definition code_ok (c : Z) : bool := (1 <=? c) && (c <=? 16).
Definition ret_wf (rt : ret) : bool := match rt with RetStatus c _ => code_ok c | _ => true end.

(* [half]: the client has half-closed; [sent]: the header block has left the server; [infl]: it
   has left but the client has not yet seen anything that follows it (a message, Header()): whether
   a cancel at that moment overtakes it depends on the transport, so no cancel there *)
(* what a handler may still do after the client's context has ended, up to its return *)
Fixpoint wf_post (sh : shape) (half : bool) (l : list step) : bool :=
  match l with
  | [] => false
  | st :: rest =>
      match st with
      | SetH _ | SendH _ | SetT _ => wf_post sh half rest
      | S2C _ => srv_has_stream sh && wf_post sh half rest
      | RecvEOF => srv_has_stream sh && negb half && wf_post sh half rest
      | Ret rt => ret_wf rt && match rest with [] => true | _ => false end
      | _ => false
      end
  end.

Fixpoint wf_steps (sh : shape) (half sent infl : bool) (l : list step) : bool :=
  match l with
  | [] => false                                  (* a call ends with the handler returning or a cancel *)
  | st :: rest =>
      match st with
      | C2S _ => cs sh && negb half && wf_steps sh half sent infl rest
      | S2C _ =>
          if ss sh then wf_steps sh half true false rest
          else srv_has_stream sh &&              (* the single response, directly followed by the return *)
               match rest with [Ret rt] => ret_wf rt | _ => false end
      | SetH _ | SetT _ => wf_steps sh half sent infl rest
      | SendH _ => wf_steps sh half true (infl || negb sent) rest
      | CloseSend => cs sh && negb half && wf_steps sh true sent infl rest
      | RecvEOF => srv_has_stream sh && half && wf_steps sh half sent infl rest
      | CHeader => negb (is_invoke sh) && sent && wf_steps sh half sent false rest
      | Ret rt => ret_wf rt && match rest with [] => true | _ => false end
      | CtxEnd _ => negb infl && wf_post sh half rest
      | Cancel _ => negb infl && match rest with [] => true | _ => false end
      end
  end.

Definition wf (sc : scenario) : bool :=
  if precancel sc then match steps sc with [] => true | _ => false end
  else wf_steps (shp sc) (negb (cs (shp sc))) false false (steps sc).

(* ---- known-finding classes ---- *)

(* class 1: the client cancels after the handler has set trailer metadata: the wrapper's Trailer()
   reads the handler's map, a real connection never delivers trailers to a cancelled call *)
Fixpoint post_sets_trailer (l : list step) : bool :=
  match l with
  | [] => false
  | SetT t :: rest => negb (md_empty t) || post_sets_trailer rest
  | _ :: rest => post_sets_trailer rest
  end.

Fixpoint k1_steps (trl : bool) (l : list step) : bool :=
  match l with
  | [] => false
  | SetT t :: rest => k1_steps (trl || negb (md_empty t)) rest
  | CtxEnd _ :: rest => trl || post_sets_trailer rest
  | Cancel _ :: _ => trl
  | _ :: rest => k1_steps trl rest
  end.

(* class 2: client-streaming method whose handler sends its response and then returns an error:
   the wrapper's RecvMsg hands out the response, a real connection reports the error *)
Fixpoint k2_steps (sh : shape) (l : list step) : bool :=
  match l with
  | [] => false
  | S2C _ :: rest =>
      if ss sh then k2_steps sh rest
      else match rest with [Ret (RetOk _)] => false | _ => true end
  | _ :: rest => k2_steps sh rest
  end.

(* former class 4 (repaired in stream.go, SendHeader now looks at the context first; kept to state the
   _v0 witness): the handler calls SendHeader after the client's context has ended, headers not sent
   before: the wrapper latched them and the client's Header() showed them, a real connection delivers
   nothing any more *)
Fixpoint k4_post (sent : bool) (l : list step) : bool :=
  match l with
  | [] => false
  | SendH _ :: rest => negb sent || k4_post true rest
  | _ :: rest => k4_post sent rest
  end.
Fixpoint k4_steps (sent : bool) (l : list step) : bool :=
  match l with
  | [] => false
  | CtxEnd _ :: rest => k4_post sent rest
  | S2C _ :: rest | SendH _ :: rest => k4_steps true rest
  | _ :: rest => k4_steps sent rest
  end.

Definition known_class (sc : scenario) : option Z :=
  if precancel sc then None
  else if k1_steps false (steps sc) then Some 1
  else if k2_steps (shp sc) (steps sc) then Some 2
  else None.

Definition no_known (sc : scenario) : bool := match known_class sc with None => true | Some _ => false end.

(* ---- equality tests ---- *)

Definition md_eqb (a b : md) : bool := list_eqb (fun p q => (fst p =? fst q) && (snd p =? snd q)) a b.

Definition outcome_eqb (a b : outcome) : bool :=
  match a, b with
  | OOk, OOk | OCancelled, OCancelled | ODeadline, ODeadline | OEofNoMsg, OEofNoMsg | OStuck, OStuck => true
  | OErr c m, OErr c' m' => (c =? c') && (m =? m')
  | _, _ => false
  end.

Definition cobs_eqb (a b : cobs) : bool :=
  match a, b with
  | CSent x, CSent y => Bool.eqb x y
  | CClosed, CClosed => true
  | CGot m, CGot m' => m =? m'
  | CEnd o, CEnd o' => outcome_eqb o o'
  | CHdr h, CHdr h' => md_eqb h h'
  | CTrl h, CTrl h' => md_eqb h h'
  | _, _ => false
  end.

Definition sobs_eqb (a b : sobs) : bool :=
  match a, b with
  | SEntered m, SEntered m' => m =? m'
  | SGot m, SGot m' => m =? m'
  | SIncoming h, SIncoming h' => md_eqb h h'
  | SEof, SEof | SRecvErr, SRecvErr => true
  | SSent x, SSent y | SSetH x, SSetH y | SSendH x, SSendH y | SDone x, SDone y => Bool.eqb x y
  | _, _ => false
  end.

Definition transcript_eqb (a b : transcript) : bool :=
  list_eqb cobs_eqb (fst a) (fst b) && list_eqb sobs_eqb (snd a) (snd b).

(* what the property speaks about: everything the client sees, and the messages the server received *)
Definition server_received (l : list sobs) : list Z :=
  flat_map (fun o => match o with SEntered m => [m] | SGot m => [m] | _ => [] end) l.

(* the request metadata the handler was given *)
Definition server_incoming (l : list sobs) : list md :=
  flat_map (fun o => match o with SIncoming h => [h] | _ => [] end) l.

Definition same_view (a b : transcript) : bool :=
  list_eqb cobs_eqb (fst a) (fst b) && list_eqb Z.eqb (server_received (snd a)) (server_received (snd b))
  && list_eqb md_eqb (server_incoming (snd a)) (server_incoming (snd b)).

(* ---- cases ---- *)

Inductive c13case :=
| KCall (sc : scenario) (tw tg : transcript)
    (* unknown method [m] (not in the service): error code from wrapper and from gRPC; -1 = no error *)
| KUnknown (m : Z) (via_stream : bool) (cw cg : Z)
    (* NewStream on method [m] with a stream description (d_ss, d_cs): error code from the wrapper *)
| KShape (m : Z) (d_ss d_cs : bool) (cw : Z)
    (* client misuse [k] on a fresh bidi stream: what the offending call did on the wrapper and on gRPC *)
| KMisuse (k : misuse) (rw rg : mres)
    (* wrap.UnwrapFully on a chain of wrappers with ids [ids] around a plain object [leaf]: id of the result *)
| KUnwrap (ids : list Z) (leaf got : Z)
    (* a named assumption of GrpcSpec (Wrap/GrpcFacts.v, entry [id] of the generated table): directed scenario
       [sc] run against a real grpc.Server on bufconn, the hand-written transcript a real connection must
       give, and the transcript observed *)
| KFact (id : Z) (sc : scenario) (expect tg : transcript).

Definition mres_eqb (a b : mres) : bool :=
  match a, b with
  | MNil, MNil | MPanic, MPanic => true
  | MErr c, MErr c' => c =? c'
  | _, _ => false
  end.

Definition code_of (o : option Z) : Z := match o with None => -1 | Some c => c end.

Definition agrees (c : c13case) : bool :=
  match c with
  | KCall sc tw tg => transcript_eqb tw (wrap_run fx_now sc) && transcript_eqb tg (grpc_run sc)
  | KUnknown m via cw cg =>
      (cw =? code_of (if via then newstream_lookup m false false else invoke_lookup m))
      && (cg =? grpc_unknown_method_code)
  | KShape m a b cw => cw =? code_of (newstream_lookup m a b)
  | KMisuse k rw rg => mres_eqb rw (w_misuse fx_now k) && mres_eqb rg (g_misuse k)
  | KUnwrap ids leaf got => got =? obj_id (unwrap_fully (mk_chain ids leaf))
  | KFact _ sc _ tg => transcript_eqb tg (grpc_run sc)
  end.

Definition shape_of_method (m : Z) : option (bool * bool) :=
  if m =? 0 then Some (false, false) else if m =? 1 then Some (true, false)
  else if m =? 2 then Some (false, true) else if m =? 3 then Some (true, true) else None.

Definition C13_ok (c : c13case) : bool :=
  match c with
  | KCall sc tw tg => same_view tw tg && never_blocked tw
  | KUnknown m via cw cg => (cw =? 12) && (cg =? 12)
  | KShape m a b cw =>
      match shape_of_method m with
      | Some (x, y) => if Bool.eqb x a && Bool.eqb y b then cw =? -1 else cw =? 13
      | None => cw =? 12
      end
  | KMisuse k rw rg => mres_eqb rw rg
  | KUnwrap ids leaf got => got =? leaf     (* the innermost object, whatever the wrappers *)
  | KFact _ _ expect tg => transcript_eqb tg expect   (* observed = what the fact says; no model involved *)
  end.

Definition C13_guard (c : c13case) : bool :=
  match c with
  | KCall sc _ _ => wf sc
  | KUnknown m _ _ _ => match shape_of_method m with None => true | Some _ => false end
  | KShape _ _ _ _ => true
  | KMisuse _ _ _ => true
  | KUnwrap _ _ _ => true
    (* the entry is one GrpcSpec agrees with (proved for the whole generated table on every run:
       GrpcFactsProofs.fact_table_matches_spec) *)
  | KFact _ sc expect _ => transcript_eqb (grpc_run sc) expect
  end.

(* (former class 3, repaired: the client calls SendMsg after CloseSend, or CloseSend a second time: the
   wrapper panicked on the closed channel, a real connection returns an Internal error / nil) *)
Definition C13_known (c : c13case) : option Z :=
  match c with KCall sc _ _ => known_class sc | _ => None end.

Definition judge (c : c13case) : Z :=
  verdict (agrees c) (if C13_guard c then C13_ok c else true) (C13_known c).
