(* The behaviours of a real gRPC connection that the reference model GrpcSpec.v assumes, by name.
   GrpcSpec is an oracle, not a model of grpc-go's code; what it takes for granted is listed here so that
   it can be checked piece by piece: every name below has
     - a general statement about [g_step] / [grpc_run] (lemma of the same name in GrpcFactsProofs.v), and
     - at least one directed scenario in the generated table Gen/GrpcFacts.v (source: harness/c13/facts.go)
       with the transcript a real connection must give, written down by hand; the table is re-proved
       against GrpcSpec on every run, and every entry is executed against a grpc.Server behind bufconn
       on every run (case [KFact] of the judge: observed = expected, no model involved).
   No proofs in this file. *)
From SC Require Import Base.Prelude Wrap.Stream.

Record gfact := mkGFact { gf_id : Z; gf_name : string; gf_scn : scenario; gf_expect : transcript }.

Definition grpc_assumed : list string := [
  "header_block_leaves_with_first_message";
  "setheader_after_block_fails_and_is_dropped";
  "sendheader_sends_once";
  "empty_setheader_always_succeeds";
  "pending_headers_leave_with_the_status";
  "trailers_accumulate_and_arrive_with_the_status";
  "plain_error_travels_as_unknown_with_its_text";
  "single_response_is_held_until_the_status";
  "error_status_is_preferred_over_the_response";
  "ok_without_a_response_is_an_end_without_message";
  "half_close_gives_the_handler_eof_and_messages_keep_their_order";
  "nothing_arrives_after_a_client_cancel";
  "deadline_expiry_is_deadline_exceeded";
  "handler_actions_after_the_end_reach_nobody";
  "headers_received_before_the_end_stay_visible";
  "call_on_a_cancelled_context_is_cancelled";
  "call_on_an_expired_context_is_deadline_exceeded";
  "request_metadata_reaches_the_handler"
]%string.
(* two more assumptions are constants of GrpcSpec, exercised on bufconn by the KUnknown / KMisuse cases:
   [grpc_unknown_method_code] = Unimplemented, [g_misuse] = Internal / nil *)

Definition has_fact (t : list gfact) (n : string) : bool := existsb (fun f => String.eqb (gf_name f) n) t.
