(* Model of pkg/wrap: ClientServerStream (stream.go) and wrapper.Invoke / NewStream (wrap.go), driven
   by a call scenario.

   A scenario is one global sequence of steps of a client program and a handler running against each
   other in the rendezvous fragment: a step is a joint action (a client SendMsg meeting a server
   RecvMsg on the unbuffered clientSend channel, a server SendMsg meeting a client RecvMsg on
   serverSend) or a local action of one side that completes on its own.  Every concurrent execution
   in which no send is left waiting for a receiver is such a sequence, because each side is
   sequential and every channel operation of stream.go is a single select.

   The stream state below has the fields of the Go struct: header / headerC (latch) / trailer /
   closeErr / closedC, the calling context (cancelled or not) and whether clientSend was closed.
   (Since then stream.go also guards the trailer with a mutex and Header()/Trailer() return copies
   of the maps: neither changes a sequential run; metadata are values here, a step carries the
   contents of the handler's map at call time, and sharing of maps is covered by Copy.v and by the
   harness, which keeps modifying the maps it passed in or was given.)
   The six repairs made to stream.go are switchable ([fixes]) so that the code as it was
   ([fx_v0]) stays available; the current code is [fx_now].  No proofs in this file. *)
From SC Require Import Base.Prelude.

(* ---------- scenarios ---------- *)

Inductive shape := Unary | UnaryAsStream | ServerStream | ClientStream | Bidi.

Definition md := list (Z * Z).          (* metadata: (key index, value) pairs in the order appended *)

Inductive ret :=
| RetOk (resp : Z)                      (* handler returns nil (with response [resp] for unary methods) *)
| RetStatus (code msg : Z)              (* status.Error(code, msg) *)
| RetPlain (msg : Z).                   (* errors.New(msg): not a status error *)

Inductive step :=
| C2S (m : Z)        (* client SendMsg m meets server RecvMsg *)
| S2C (m : Z)        (* server SendMsg m meets client RecvMsg *)
| SetH (h : md)      (* server SetHeader / grpc.SetHeader(ctx) *)
| SendH (h : md)     (* server SendHeader *)
| SetT (t : md)      (* server SetTrailer *)
| CloseSend          (* client CloseSend *)
| RecvEOF            (* server RecvMsg after the client half-closed *)
| CHeader            (* client Header() once headers are available *)
| Ret (r : ret)      (* handler returns; the client learns the outcome *)
| CtxEnd (dl : bool)
| Cancel (dl : bool). (* the client's context ends while the client waits in RecvMsg: it is cancelled
                        ([dl] = false) or its deadline expires ([dl] = true) *)

(* [CtxEnd dl] (constructor below, after [Cancel]) is the non-terminal form of [Cancel dl]: the
   client's context ends in the same way, but the handler then goes on with the actions that follow
   in the list (SetH / SendH / SetT, S2C = a SendMsg that fails, RecvEOF = a RecvMsg that fails) up
   to its return [Ret].  The handler has seen its context end ([SDone]); from then on its SendMsg and
   SendHeader fail and its RecvMsg fails with the context's error (the client not having half-closed,
   nothing can be waiting to be received), on both transports -- on a real server as soon as the
   transport has marked the stream done, an instant after it cancelled the handler's context (the
   harness repeats a call that still succeeds there).  What SetHeader returns is not part of the
   transcript: the wrapper accepts metadata that nobody will see, a real server refuses it. *)

(* the calling context: still live, cancelled, or past its deadline; ctx.Err() tells the last two apart *)
Inductive ctxend := CtxLive | CtxCanceled | CtxExpired.
Definition ctx_of (dl : bool) : ctxend := if dl then CtxExpired else CtxCanceled.

(* [omd]: the user metadata the client attached to its context (metadata.NewOutgoingContext);
   [pre]: the state of the calling context when the call is made *)
Record scenario := mkScn { shp : shape; req : Z; omd : md; pre : ctxend; steps : list step }.
Definition precancel (sc : scenario) : bool := match pre sc with CtxLive => false | _ => true end.

Definition ss (s : shape) : bool := match s with ServerStream | Bidi => true | _ => false end.
Definition cs (s : shape) : bool := match s with ClientStream | Bidi => true | _ => false end.
Definition srv_has_stream (s : shape) : bool := match s with Unary | UnaryAsStream => false | _ => true end.
Definition is_invoke (s : shape) : bool := match s with Unary => true | _ => false end.

(* ---------- observations (what the harness records, canonicalised) ---------- *)

Inductive outcome := OOk | OErr (code msg : Z) | OCancelled | ODeadline | OEofNoMsg | OStuck.

Inductive cobs :=                        (* client side, in client program order *)
| CSent (ok : bool) | CClosed | CGot (m : Z) | CEnd (o : outcome) | CHdr (h : md) | CTrl (t : md).

Inductive sobs :=                        (* server side, in handler program order *)
| SEntered (m : Z) | SIncoming (h : md)   (* request metadata as metadata.FromIncomingContext shows it *)
| SGot (m : Z) | SEof | SRecvErr | SSent (ok : bool)
| SSetH (ok : bool) | SSendH (ok : bool) | SDone (ok : bool).

Definition transcript := (list cobs * list sobs)%type.

(* Go error values that can reach the client or the handler *)
Inductive goerr := EStatus (code msg : Z) | EPlain (msg : Z) | EEOF | ECtxCanceled | ECtxDeadline.

Definition ret_err (r : ret) : option goerr :=
  match r with RetOk _ => None | RetStatus c m => Some (EStatus c m) | RetPlain m => Some (EPlain m) end.

(* the harness canonicaliser: status.Convert, context errors and their status codes as classes;
   io.EOF from a stream RecvMsg is the normal end (of a server-streaming call) *)
Definition canon (stream_recv sstr : bool) (e : option goerr) : outcome :=
  match e with
  | None => OOk
  | Some EEOF => if stream_recv then (if sstr then OOk else OEofNoMsg) else OErr 2 (-1)
  | Some ECtxCanceled => OCancelled
  | Some ECtxDeadline => ODeadline
  | Some (EPlain m) => OErr 2 m
  | Some (EStatus c m) => if c =? 1 then OCancelled else if c =? 4 then ODeadline else OErr c m
  end.

(* user metadata in canonical order: by key, values in the order appended (metadata.Join appends) *)
Definition keys : list Z := [0; 1; 2].
Definition canon_md (h : md) : md := flat_map (fun k => filter (fun p => fst p =? k) h) keys.

Definition md_empty (h : md) : bool := match h with [] => true | _ => false end.

(* ---------- ClientServerStream ---------- *)

Record fixes := mkFx {
  fx_hdr_on_close : bool;   (* Close latches headers that were set but not sent *)
  fx_late_seth : bool;      (* SetHeader fails once the latch is closed *)
  fx_ctx_err : bool;        (* operations abandoned because the parent context ended return ctx.Err() *)
  fx_send_done : bool;      (* server SendMsg looks at the context before latching the headers *)
  fx_sendh_done : bool;     (* server SendHeader looks at the context first and publishes nothing on a finished call *)
  fx_misuse : bool          (* the client side remembers CloseSend: a second one does nothing, a later SendMsg is refused *)
}.
Definition fx_now := mkFx true true true true true true.
Definition fx_v0 := mkFx false false false false false false.

Record wst := mkW {
  w_header : md;            (* s.header *)
  w_sent : bool;            (* headerC closed *)
  w_trailer : md;           (* s.trailer *)
  w_closed : bool;          (* Close was called (closedC / serverSend closed, ctx cancelled by Close) *)
  w_closeErr : option goerr;
  w_ctx : ctxend;           (* the calling context: live, cancelled, deadline exceeded *)
  w_half : bool             (* clientSend closed *)
}.
Definition w_init := mkW [] false [] false None CtxLive false.
Definition w_cancelled (s : wst) : bool := match w_ctx s with CtxLive => false | _ => true end.

(* ctx.Err() of the stream's context (a child of the calling context, cancelled by Close) once it is done *)
Definition ctx_err (c : ctxend) : goerr := match c with CtxExpired => ECtxDeadline | _ => ECtxCanceled end.

Definition w_done (s : wst) : bool := w_closed s || w_cancelled s.       (* <-ctx.Done() ready *)
(* the client's context has ended, the handler is still running *)
Definition w_gone (s : wst) : bool := w_cancelled s && negb (w_closed s).

Definition set_header h s := mkW h (w_sent s) (w_trailer s) (w_closed s) (w_closeErr s) (w_ctx s) (w_half s).
Definition set_sent s := mkW (w_header s) true (w_trailer s) (w_closed s) (w_closeErr s) (w_ctx s) (w_half s).
Definition set_trailer t s := mkW (w_header s) (w_sent s) t (w_closed s) (w_closeErr s) (w_ctx s) (w_half s).
Definition set_ctx (c : ctxend) s := mkW (w_header s) (w_sent s) (w_trailer s) (w_closed s) (w_closeErr s) c (w_half s).
Definition set_half s := mkW (w_header s) (w_sent s) (w_trailer s) (w_closed s) (w_closeErr s) (w_ctx s) true.

(* serverStream.SetHeader *)
Definition w_SetHeader (fx : fixes) (h : md) (s : wst) : wst * bool :=
  if fx_late_seth fx then
    if md_empty h then (s, true)
    else if w_sent s then (s, false)
    else (set_header (w_header s ++ h) s, true)
  else (set_header (w_header s ++ h) s, true).

(* serverStream.SendHeader *)
Definition w_SendHeader (fx : fixes) (h : md) (s : wst) : wst * bool :=
  if fx_sendh_done fx && w_done s then (s, false)     (* ctx.Err() != nil: return doneErr() *)
  else if w_sent s then (s, false) else (set_sent (set_header (w_header s ++ h) s), true).

Definition w_sendHeaderIfNeeded (fx : fixes) (s : wst) : wst := fst (w_SendHeader fx [] s).

Definition w_SetTrailer (t : md) (s : wst) : wst := set_trailer (w_trailer s ++ t) s.

(* closeErrLocked *)
Definition w_closeErrLocked (s : wst) : goerr := match w_closeErr s with None => EEOF | Some e => e end.

(* doneErr (was closeErrLocked everywhere before the repair) *)
Definition w_doneErr (fx : fixes) (s : wst) : goerr :=
  if fx_ctx_err fx then (if w_closed s then w_closeErrLocked s else ctx_err (w_ctx s)) else w_closeErrLocked s.

(* serverStream.SendMsg when the context is already done (no receiver): what it leaves behind *)
Definition w_server_send_done (fx : fixes) (s : wst) : wst :=
  if fx_send_done fx then s else w_sendHeaderIfNeeded fx s.

(* ClientServerStream.Close *)
Definition w_Close (fx : fixes) (e : option goerr) (s : wst) : wst :=
  let s1 := if fx_hdr_on_close fx && negb (w_cancelled s) then w_sendHeaderIfNeeded fx s else s in
  mkW (w_header s1) (w_sent s1) (w_trailer s1) true e (w_ctx s1) (w_half s1).

(* clientStream.Header: blocks until the latch closes or the context is done *)
Definition w_Header (s : wst) : option md :=
  if w_sent s then Some (w_header s) else if w_done s then Some [] else None (* would block *).

(* clientStream.Trailer *)
Definition w_Trailer (s : wst) : md := w_trailer s.

(* clientStream.RecvMsg with no sender waiting on serverSend *)
Definition w_client_recv_idle (s : wst) : option goerr :=
  if w_closed s then Some (w_closeErrLocked s)            (* serverSend closed *)
  else if w_cancelled s then Some (ctx_err (w_ctx s))     (* ctx.Err() *)
  else None (* would block *).

(* serverStream.RecvMsg with no sender waiting on clientSend, context done *)
Definition w_server_recv_done (fx : fixes) (s : wst) : sobs :=
  match w_doneErr fx s with EEOF => SEof | _ => SRecvErr end.

(* ---------- running a scenario ---------- *)

(* control state of the run: the stream, whether the single response of a non-server-streaming
   call has already been handed to the client's RecvMsg, whether the run is over *)
Record wrun := mkWR { wr_s : wst; wr_resp : bool; wr_over : bool }.

Definition epilogue_w (s : wst) : list cobs :=
  [CHdr (canon_md (match w_Header s with Some h => h | None => [] end)); CTrl (canon_md (w_Trailer s))].

(* collectMetadata for Invoke (grpc.Header and grpc.Trailer options are always passed) *)
Definition collect_w := epilogue_w.

Definition stuck : list cobs * list sobs := ([CEnd OStuck], []).

Definition w_step (fx : fixes) (sh : shape) (r : wrun) (st : step) : wrun * (list cobs * list sobs) :=
  let s := wr_s r in
  if wr_over r then (r, stuck) else
  match st with
  | C2S m =>
      if w_done s || w_half s then (r, stuck)
      else (r, ([CSent true], [SGot m]))
  | S2C m =>
      let s1 := w_sendHeaderIfNeeded fx s in
      if w_gone s then (mkWR (w_server_send_done fx s) (wr_resp r) false, ([], [SSent false]))   (* SendMsg fails: doneErr *)
      else if w_done s then (r, stuck)
      else (mkWR s1 (negb (ss sh)) false, ([CGot m], [SSent true]))
  | SetH h => let '(s1, ok) := w_SetHeader fx h s in
              (mkWR s1 (wr_resp r) false, ([], if w_gone s then [] else [SSetH ok]))
  | SendH h => let '(s1, ok) := w_SendHeader fx h s in
               (mkWR s1 (wr_resp r) false, ([], [SSendH ok]))
  | SetT t => (mkWR (w_SetTrailer t s) (wr_resp r) false, ([], []))
  | CloseSend => (mkWR (set_half s) (wr_resp r) false, ([CClosed], []))
  | RecvEOF =>
      if w_gone s then (if w_half s then (r, stuck) (* both select cases ready *)
                        else (r, ([], [w_server_recv_done fx s])))   (* only ctx.Done() is ready: doneErr *)
      else if w_half s && negb (w_done s) then (r, ([], [SEof])) else (r, stuck)
  | CHeader =>
      match w_Header s with
      | Some h => (r, ([CHdr (canon_md h)], []))
      | None => (r, stuck)
      end
  | CtxEnd dl =>
      if w_done s then (r, stuck) else
      let s1 := set_ctx (ctx_of dl) s in
      let c := [CEnd (canon (negb (is_invoke sh)) (ss sh) (w_client_recv_idle s1))] in
      (* Invoke returns at once, with the metadata as it is now; the handler sees its context end *)
      (mkWR s1 false false, (c ++ (if is_invoke sh then collect_w s1 else []), [SDone true]))
  | Ret rt =>
      if w_gone s then
        (* the handler returns after the client has gone: a unary handler's response meets SendMsg on
           the finished call; Close does not latch anything; a stream client then reads Header()/Trailer() *)
        let s0 := if srv_has_stream sh then s
                  else match rt with RetOk _ => w_server_send_done fx s | _ => s end in
        let e := if srv_has_stream sh then ret_err rt
                 else match rt with RetOk _ => Some (w_doneErr fx s0) | _ => ret_err rt end in
        let s1 := w_Close fx e s0 in
        (mkWR s1 false true, ((if is_invoke sh then [] else epilogue_w s1), []))
      else
      if srv_has_stream sh then
        (* NewStream's goroutine: err := Handler(...); Close(err) *)
        let s1 := w_Close fx (ret_err rt) s in
        let c := if wr_resp r then [] (* RecvMsg already returned the response *)
                 else [CEnd (canon true (ss sh) (w_client_recv_idle s1))] in
        (mkWR s1 (wr_resp r) true, (c ++ epilogue_w s1, []))
      else
        (* unary handler (Invoke's goroutine, or adaptUnaryToStream): send the response, then Close *)
        match rt with
        | RetOk resp =>
            let s1 := w_sendHeaderIfNeeded fx s in
            let s2 := w_Close fx None s1 in
            (* Invoke reads headers and trailers right after RecvMsg; Close does not change them *)
            (mkWR s2 true true, ([CGot resp] ++ epilogue_w s2, []))
        | _ =>
            let s1 := w_Close fx (ret_err rt) s in
            (mkWR s1 false true, ([CEnd (canon (negb (is_invoke sh)) false (w_client_recv_idle s1))] ++ epilogue_w s1, []))
        end
  | Cancel dl =>
      let s1 := set_ctx (ctx_of dl) s in
      let c := [CEnd (canon (negb (is_invoke sh)) (ss sh) (w_client_recv_idle s1))] in
      (* the handler: its context is done; a RecvMsg fails; it returns, Close(nil) *)
      let sv := [SDone true] ++ (if srv_has_stream sh && negb (w_half s) then [w_server_recv_done fx s1] else []) in
      (* a unary handler returns its response: SendMsg on the finished call, then Close *)
      let s2 := w_Close fx None (if srv_has_stream sh then s1 else w_server_send_done fx s1) in
      if is_invoke sh
      then (mkWR s2 false true, (c ++ collect_w s1, sv))   (* Invoke returns before the handler does *)
      else (mkWR s2 false true, (c ++ epilogue_w s2, sv))
  end.

Fixpoint w_steps (fx : fixes) (sh : shape) (r : wrun) (l : list step) : wrun * (list cobs * list sobs) :=
  match l with
  | [] => (r, ([], []))
  | st :: rest =>
      let '(r1, (c, sv)) := w_step fx sh r st in
      let '(r2, (c2, sv2)) := w_steps fx sh r1 rest in
      (r2, (c ++ c2, sv ++ sv2))
  end.

(* the start of a call: Invoke / NewStream; for methods whose generated handler reads the request
   itself, SendMsg(req) meets that read, then CloseSend *)
Definition w_start (sh : shape) : wst * list cobs :=
  if cs sh then (w_init, [])
  else (set_half w_init, if is_invoke sh then [] else [CSent true; CClosed]).

(* startStream: the outgoing metadata of the calling context, cloned, is the handler's incoming metadata *)
Definition w_incoming (o : md) : md := o.
Definition w_entered (sh : shape) (rq : Z) (o : md) : list sobs :=
  [SEntered (if cs sh then -1 else rq); SIncoming (canon_md (w_incoming o))].

(* an already cancelled context: the client only learns the outcome *)
Definition w_precancelled (fx : fixes) (sh : shape) (c : ctxend) : list cobs :=
  let s := set_ctx c w_init in
  if is_invoke sh
  then [CEnd (canon false false (Some (w_doneErr fx s))); CHdr []; CTrl []]   (* SendMsg fails, Invoke returns that *)
  else [CEnd (canon true (ss sh) (w_client_recv_idle s)); CHdr []; CTrl []].

(* final stream state and transcript *)
Definition wrap_exec (fx : fixes) (sc : scenario) : wst * transcript :=
  if precancel sc
  then (* the handler, if it is entered at all, returns its context's error at once *)
       (w_Close fx (Some (ctx_err (pre sc))) (set_ctx (pre sc) w_init), (w_precancelled fx (shp sc) (pre sc), []))
  else
    let '(s0, c0) := w_start (shp sc) in
    let '(r, (c, sv)) := w_steps fx (shp sc) (mkWR s0 false false) (steps sc) in
    (wr_s r, (c0 ++ c, w_entered (shp sc) (req sc) (omd sc) ++ sv)).

Definition wrap_run (fx : fixes) (sc : scenario) : transcript := snd (wrap_exec fx sc).

(* the handler goroutine has ended exactly when Close has been called *)
Definition handler_finished (s : wst) : bool := w_closed s.
Definition never_blocked (t : transcript) : bool :=
  forallb (fun o => match o with CEnd OStuck => false | _ => true end) (fst t).

(* ---------- method lookup (ServerToClient / Invoke / NewStream) ---------- *)

Inductive mkind := MUnary | MStream (server_streams client_streams : bool).

(* the four methods of the TestApi service description, by index; anything else is unknown *)
Definition method_table : list (Z * mkind) :=
  [(0, MUnary); (1, MStream true false); (2, MStream false true); (3, MStream true true)].

Fixpoint lookup (m : Z) (t : list (Z * mkind)) : option mkind :=
  match t with [] => None | (k, v) :: r => if k =? m then Some v else lookup m r end.

(* Invoke: only unary methods are found *)
Definition invoke_lookup (m : Z) : option Z (* error code *) :=
  match lookup m method_table with Some MUnary => None | _ => Some 12 end.

(* NewStream: streams, else unary adapted to a (false,false) stream, else not found; then the shape check *)
Definition newstream_lookup (m : Z) (d_ss d_cs : bool) : option Z :=
  match lookup m method_table with
  | None => Some 12
  | Some k =>
      let '(mss, mcs) := match k with MUnary => (false, false) | MStream a b => (a, b) end in
      if Bool.eqb mss d_ss && Bool.eqb mcs d_cs then None else Some 13
  end.

(* ---------- client misuse (outside every scenario: no theorem about calls covers it) ---------- *)

Inductive misuse := SendAfterCloseSend | CloseSendTwice.
Inductive mres := MNil | MErr (code : Z) | MPanic.

(* clientStream.CloseSend closes clientSend, once (sendClosed): a second CloseSend returns nil, a later
   SendMsg finds the flag set and returns an Internal status.
   Before that repair: the later SendMsg selected on a send to the closed channel (the context being live,
   that case is chosen: panic "send on closed channel"), a second CloseSend closed it again (panic "close
   of closed channel") *)
Definition w_misuse (fx : fixes) (k : misuse) : mres :=
  if fx_misuse fx then match k with SendAfterCloseSend => MErr 13 | CloseSendTwice => MNil end
  else MPanic.

(* ---------- unwrap.go ---------- *)

(* an object either implements Unwrapper (and Unwrap gives the next object) or does not *)
Inductive obj := Plain (id : Z) | Wrapping (id : Z) (inner : obj).

(* UnwrapFully: for t, ok := obj.(Unwrapper); ok; ... { obj = t.Unwrap() } *)
Fixpoint unwrap_fully (o : obj) : obj :=
  match o with Plain _ => o | Wrapping _ i => unwrap_fully i end.

Definition obj_id (o : obj) : Z := match o with Plain i => i | Wrapping i _ => i end.
Fixpoint mk_chain (ids : list Z) (leaf : Z) : obj :=
  match ids with [] => Plain leaf | i :: r => Wrapping i (mk_chain r leaf) end.
