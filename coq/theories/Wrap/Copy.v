(* Messages crossing the boundary (stream.go: permissiveProtoMerge).  Messages are objects in a
   heap; the unbuffered channel carries a reference to the sender's object; the receiving RecvMsg
   merges it into an object owned by the receiver (proto.Merge, or marshal + unmarshal when the
   descriptors differ: both copy the content).  [alias] is the variant that would hand the
   sender's reference to the receiver instead.  No proofs in this file. *)
From SC Require Import Base.Prelude.

Definition heap := list (Z * Z).          (* address -> content (scalar fields as one number) *)

Fixpoint hread (a : Z) (h : heap) : Z :=
  match h with [] => 0 | (b, v) :: r => if b =? a then v else hread a r end.

Definition hwrite (a v : Z) (h : heap) : heap := (a, v) :: h.

Definition merge (dst src : Z) (h : heap) : heap := hwrite dst (hread src h) h.

(* RecvMsg(dst) meeting SendMsg(src): the heap afterwards and the object the receiver goes on to use *)
Definition transfer (alias : bool) (src dst : Z) (h : heap) : heap * Z :=
  if alias then (h, src) else (merge dst src h, dst).

(* later writes by one side *)
Definition apply_writes (ws : list (Z * Z)) (h : heap) : heap :=
  fold_left (fun h p => hwrite (fst p) (snd p) h) ws h.
