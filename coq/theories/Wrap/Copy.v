(* Messages crossing the boundary (stream.go: permissiveProtoMerge).  Messages are objects in a
   heap; the unbuffered channel carries a reference to the sender's object; the receiving RecvMsg
   merges it into an object owned by the receiver (proto.Merge, or marshal + unmarshal when the
   descriptors differ: both copy the content).  [alias] is the variant that would hand the
   sender's reference to the receiver instead.  No proofs in this file. *)
From SC Require Import Base.Prelude.

Definition heap := list (Z * Z).          (* address -> content (scalar fields as one number) *)

Fixpoint hread (a : Z) (h : heap) : Z :=
  match h with [] => 0 | (b, v) :: r => if b =? a then v else hread a r end.

Definition hwrite (a v : Z) (h : heap) : heap := (a, v) :: h.

Definition merge (dst src : Z) (h : heap) : heap := hwrite dst (hread src h) h.

(* RecvMsg(dst) meeting SendMsg(src): the heap afterwards and the object the receiver goes on to use *)
Definition transfer (alias : bool) (src dst : Z) (h : heap) : heap * Z :=
  if alias then (h, src) else (merge dst src h, dst).

(* later writes by one side *)
Definition apply_writes (ws : list (Z * Z)) (h : heap) : heap :=
  fold_left (fun h p => hwrite (fst p) (snd p) h) ws h.

(* SendMsg(src) meeting RecvMsg(dst), in time.  The channel operation completes and SendMsg returns
   BEFORE the receiver merges what it was handed into [dst]; in between the sender runs on and may
   write anything ([between]: a handler that reuses one message for every Send, a client that edits
   its request).  [snap] = true is the code now: SendMsg hands over a private copy [tmp] made before
   the channel operation (snapshot / proto.Clone), which nobody but the receiver's RecvMsg ever
   sees; [snap] = false is the code before: the sender's own object crosses. *)
Definition send_recv (snap : bool) (src tmp dst : Z) (between : list (Z * Z)) (h : heap) : heap :=
  if snap
  then merge dst tmp (apply_writes between (merge tmp src h))
  else merge dst src (apply_writes between h).

(* ---- metadata handed to SetHeader / SendHeader / SetTrailer ---- *)
(* The handler's metadata.MD maps live in a heap too; the stream keeps, for its header and for its
   trailer, either a map of its own (metadata.Join allocates and copies the value slices) or, in the
   [alias] variant, the handler's map itself when nothing was set before.  Maps are association
   lists (key index, value) as in Stream.v. *)
Definition mdv := list (Z * Z).
Definition mheap := list (Z * mdv).

Fixpoint mread (a : Z) (h : mheap) : mdv :=
  match h with [] => [] | (b, v) :: r => if b =? a then v else mread a r end.
Definition mwrite (a : Z) (v : mdv) (h : mheap) : mheap := (a, v) :: h.
Definition apply_mwrites (ws : list (Z * mdv)) (h : mheap) : mheap :=
  fold_left (fun h p => mwrite (fst p) (snd p) h) ws h.

Inductive mstore := MVal (v : mdv) | MRef (a : Z).
Definition mget (t : mstore) (h : mheap) : mdv := match t with MVal v => v | MRef a => mread a h end.

(* s.trailer = metadata.Join(s.trailer, md)  (likewise s.header), md being the handler's map at [a] *)
Definition md_set (alias : bool) (cur : option mstore) (a : Z) (h : mheap) : mstore :=
  match cur with
  | None => if alias then MRef a else MVal (mread a h)
  | Some t => MVal (mget t h ++ mread a h)
  end.

(* startStream: cloneMD of the client's outgoing metadata map at [a] becomes the incoming metadata *)
Definition clone_md (a : Z) (h : mheap) : mstore := MVal (mread a h).
