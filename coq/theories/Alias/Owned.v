(* C07 - ownership-tagged message heaps.

   A protobuf message in memory is a graph of separately allocated objects: message structs and
   the backing arrays of repeated message fields.  Every object has a tag (owner, number); the
   heap maps tags to cells.  A message struct cell holds its populated scalar fields (field
   number -> value code), its singular sub-message pointers and, per repeated message field, a
   slice header (array tag, length).  An array cell holds the element pointers of its slots.
   A write to a tag is visible through every reference that reaches the tag: aliasing is
   exactly sharing of tags.

   The owner component is ghost state: [Caller] for objects built by (and handed back to) the
   caller of a write, [Lib] for everything the library allocates (clones, merge copies, stored
   values, results, event values).  It does not influence any computation below except
   equality of tags.

   Not modelled (stated in notes/C07.md): slice capacity - whether an append to a stored
   message's slice reallocates is an input bit (oracle) of the two interceptors that append to
   the old message's slice; the capacity of private (freshly cloned) arrays is unobservable and
   an append to them is modelled as a new array.  Repeated scalars and maps are value codes.

   No proofs in this file. *)
From SC Require Import Base.Prelude.

Inductive owner := Lib | Caller.
Definition owner_eqb (a b : owner) : bool :=
  match a, b with Lib, Lib => true | Caller, Caller => true | _, _ => false end.
Definition tag : Type := owner * Z.
Definition tag_eqb (a b : tag) : bool := owner_eqb (fst a) (fst b) && (snd a =? snd b).

Inductive cell :=
| CNode (sc : list (Z * Z)) (subs : list (Z * tag)) (reps : list (Z * (tag * Z)))
| CArr (slots : list tag).

Definition refs (c : cell) : list tag :=
  match c with
  | CNode _ subs reps => map snd subs ++ map (fun r => fst (snd r)) reps
  | CArr sl => sl
  end.

Definition heap := list (tag * cell).
Fixpoint lookup (h : heap) (t : tag) : option cell :=
  match h with
  | [] => None
  | (u, c) :: r => if tag_eqb u t then Some c else lookup r t
  end.

(* heap + allocation counter *)
Record hst := mkH { hp : heap; nxt : Z }.
Definition hwrite (s : hst) (t : tag) (c : cell) : hst := mkH ((t, c) :: hp s) (nxt s).
Definition halloc (s : hst) (o : owner) (c : cell) : hst * tag :=
  (mkH (((o, nxt s), c) :: hp s) (nxt s + 1), (o, nxt s)).

(* ---- field maps (sorted by field number) ---- *)
Fixpoint fget {A} (f : Z) (l : list (Z * A)) : option A :=
  match l with [] => None | (g, x) :: r => if g =? f then Some x else fget f r end.
Fixpoint fins {A} (f : Z) (x : A) (l : list (Z * A)) : list (Z * A) :=
  match l with
  | [] => [(f, x)]
  | (g, y) :: r => if g =? f then (f, x) :: r else if f <? g then (f, x) :: (g, y) :: r else (g, y) :: fins f x r
  end.
Definition fdel {A} (f : Z) (l : list (Z * A)) : list (Z * A) := filter (fun p => negb (fst p =? f)) l.
Definition fkeep {A} (fs : list Z) (l : list (Z * A)) : list (Z * A) :=
  filter (fun p => existsb (Z.eqb (fst p)) fs) l.
Definition fhas {A} (f : Z) (l : list (Z * A)) : bool := existsb (fun p => fst p =? f) l.

Definition empty_node : cell := CNode [] [] [].

Definition elems (s : hst) (a : tag) (len : Z) : list tag :=
  match lookup (hp s) a with
  | Some (CArr sl) => firstn (Z.to_nat len) sl
  | _ => []
  end.

(* a slice header of length 0 is an unpopulated field *)
Definition set_rep (f : Z) (a : tag) (len : Z) (reps : list (Z * (tag * Z))) :=
  if len <=? 0 then fdel f reps else fins f (a, len) reps.

(* state-threading map *)
Fixpoint smap {A B} (f : hst -> A -> hst * B) (s : hst) (l : list A) : hst * list B :=
  match l with
  | [] => (s, [])
  | x :: r => let '(s1, y) := f s x in let '(s2, ys) := smap f s1 r in (s2, y :: ys)
  end.

(* ---- proto.Clone: fresh tags for every object, owner o ---- *)
Fixpoint clone (n : nat) (o : owner) (s : hst) (t : tag) : hst * tag :=
  match n with
  | O => halloc s o empty_node
  | S n =>
      match lookup (hp s) t with
      | Some (CNode sc subs reps) =>
          let '(s1, subs') := smap (fun s p => let '(s', c) := clone n o s (snd p) in (s', (fst p, c))) s subs in
          let '(s2, reps') :=
            smap (fun s r =>
                    let '(s', els') := smap (clone n o) s (elems s (fst (snd r)) (snd (snd r))) in
                    let '(s'', a') := halloc s' o (CArr els') in
                    (s'', (fst r, (a', zlen els')))) s1 reps in
          halloc s2 o (CNode sc subs' reps')
      | _ => halloc s o empty_node
      end
  end.

(* ---- proto.Merge(dst, src): dst is written in place; copied sub-messages and elements are
   fresh objects of owner o (= the owner of dst) ---- *)
Fixpoint merge_subs (rec : hst -> tag -> tag -> hst) (cl : hst -> tag -> hst * tag)
         (s : hst) (cur : list (Z * tag)) (src : list (Z * tag)) : hst * list (Z * tag) :=
  match src with
  | [] => (s, cur)
  | (f, u) :: r =>
      match fget f cur with
      | Some d => merge_subs rec cl (rec s d u) cur r
      | None => let '(s', c) := cl s u in merge_subs rec cl s' (fins f c cur) r
      end
  end.

Fixpoint merge_reps (cl : hst -> tag -> hst * tag) (o : owner)
         (s : hst) (cur : list (Z * (tag * Z))) (src : list (Z * (tag * Z))) : hst * list (Z * (tag * Z)) :=
  match src with
  | [] => (s, cur)
  | (f, (a, len)) :: r =>
      let '(s1, els') := smap cl s (elems s a len) in
      let old := match fget f cur with Some (da, dlen) => elems s1 da dlen | None => [] end in
      let '(s2, a') := halloc s1 o (CArr (old ++ els')) in
      merge_reps cl o s2 (set_rep f a' (zlen (old ++ els')) cur) r
  end.

Fixpoint merge (n : nat) (o : owner) (s : hst) (dst src : tag) : hst :=
  match n with
  | O => s
  | S n =>
      match lookup (hp s) dst, lookup (hp s) src with
      | Some (CNode dsc dsubs dreps), Some (CNode ssc ssubs sreps) =>
          let sc' := fold_left (fun acc p => fins (fst p) (snd p) acc) ssc dsc in
          let '(s1, subs') := merge_subs (merge n o) (clone n o) s dsubs ssubs in
          let '(s2, reps') := merge_reps (clone n o) o s1 dreps sreps in
          hwrite s2 dst (CNode sc' subs' reps')
      | _, _ => s
      end
  end.

(* fmutils Filter with a top-level mask, in place: only the root object is written *)
Definition keep_top (s : hst) (t : tag) (fs : list Z) : hst :=
  match lookup (hp s) t with
  | Some (CNode sc subs reps) => hwrite s t (CNode (fkeep fs sc) (fkeep fs subs) (fkeep fs reps))
  | _ => s
  end.

Definition cell_has (c : cell) (f : Z) : bool :=
  match c with CNode sc subs reps => fhas f sc || fhas f subs || fhas f reps | CArr _ => false end.

(* pruneEmpty for a top-level mask: a field named by the mask and absent from src is cleared *)
Definition prune_top (s : hst) (dst src : tag) (fs : list Z) : hst :=
  match lookup (hp s) dst, lookup (hp s) src with
  | Some (CNode sc subs reps), Some csrc =>
      let gone := fun g : Z => existsb (Z.eqb g) fs && negb (cell_has csrc g) in
      hwrite s dst (CNode (filter (fun p => negb (gone (fst p))) sc)
                          (filter (fun p => negb (gone (fst p))) subs)
                          (filter (fun p => negb (gone (fst p))) reps))
  | _, _ => s
  end.

(* FieldUpdater.Merge(dst, src) with no writable-field restriction and no reset mask.
   update mask None: proto.Reset(dst), then Merge.  Some fs (non-empty, top level): the
   caller's message src is filtered IN PLACE, merged, and absent masked fields are cleared. *)
Definition upd_merge (n : nat) (s : hst) (dst src : tag) (um : option (list Z)) : hst :=
  match um with
  | None => merge n (fst dst) (hwrite s dst empty_node) dst src
  | Some fs => prune_top (merge n (fst dst) (keep_top s src fs) dst src) dst src fs
  end.

(* ResponseFilter.FilterClone: nil mask returns the message itself *)
Definition filter_clone (n : nat) (s : hst) (t : tag) (rm : option (list Z)) : hst * tag :=
  match rm with
  | None => (s, t)
  | Some fs => let '(s1, c) := clone n Lib s t in (keep_top s1 c fs, c)
  end.

(* ---- interceptors: functions on the heap given (old, new) ---- *)
Definition ifun := hst -> tag -> tag -> hst.

Definition get_sc (s : hst) (t : tag) (f : Z) : option Z :=
  match lookup (hp s) t with Some (CNode sc _ _) => fget f sc | _ => None end.
Definition set_sc (s : hst) (t : tag) (f v : Z) : hst :=
  match lookup (hp s) t with
  | Some (CNode sc subs reps) => hwrite s t (CNode (fins f v sc) subs reps)
  | _ => s
  end.
Definition get_rep (s : hst) (t : tag) (f : Z) : option (tag * Z) :=
  match lookup (hp s) t with Some (CNode _ _ reps) => fget f reps | _ => None end.
Definition put_rep (s : hst) (t : tag) (f : Z) (a : tag) (len : Z) : hst :=
  match lookup (hp s) t with
  | Some (CNode sc subs reps) => hwrite s t (CNode sc subs (set_rep f a len reps))
  | _ => s
  end.

Definition i_none : ifun := fun s _ _ => s.
Definition i_set_new (f v : Z) : ifun := fun s _ new => set_sc s new f v.
Definition i_add_old (f : Z) : ifun := fun s old new =>
  match get_sc s old f with
  | Some a => set_sc s new f (a + match get_sc s new f with Some b => b | None => 0 end)
  | None => s
  end.
(* ill-behaved members (the documentation forbids them): *)
Definition i_bad_old_scalar (f v : Z) : ifun := fun s old _ => set_sc s old f v.
Definition i_bad_share_sub (f : Z) : ifun := fun s old new =>
  match lookup (hp s) old, lookup (hp s) new with
  | Some (CNode _ osubs _), Some (CNode sc subs reps) =>
      match fget f osubs with
      | Some u => hwrite s new (CNode sc (fins f u subs) reps)
      | None => s
      end
  | _, _ => s
  end.
Definition i_bad_old_elem (f : Z) (i : nat) (g v : Z) : ifun := fun s old _ =>
  match get_rep s old f with
  | Some (a, len) => match nth_error (elems s a len) i with Some e => set_sc s e g v | None => s end
  | None => s
  end.

(* ---- parentpb: traitUnion / traitRemove on the OLD message's slice (field f of the message,
   elements keyed by scalar field key).  realloc: cap(old slice) = len(old slice). ---- *)
Definition name_of (s : hst) (key : Z) (e : tag) : Z :=
  match get_sc s e key with Some v => v | None => 0 end.
Fixpoint search_ge (s : hst) (key name : Z) (l : list tag) (i : nat) : nat :=
  match l with
  | [] => i
  | e :: r => if name <=? name_of s key e then i else search_ge s key name r (S i)
  end.
Definition old_slice (s : hst) (old : tag) (f : Z) : tag * Z * list tag * list tag :=
  match get_rep s old f with
  | Some (a, len) =>
      match lookup (hp s) a with
      | Some (CArr sl) => (a, len, firstn (Z.to_nat len) sl, skipn (Z.to_nat len) sl)
      | _ => (a, 0, [], [])
      end
  | None => ((Caller, -1), 0, [], [])
  end.

(* traitUnion(has = old.Traits, name) followed by value.Traits = result.  o: the owner of the objects
   it allocates (the new Trait and, on reallocation, the new array) *)
Definition union_body (o : owner) (f key name : Z) (realloc : bool) : ifun := fun s old new =>
  let '(a, len, els, rest) := old_slice s old f in
  let i := search_ge s key name els O in
  let exists_ := match nth_error els i with Some e => name_of s key e =? name | None => false end in
  if exists_ then put_rep s new f a len
  else
    let '(s1, e) := halloc s o (CNode [(key, name)] [] []) in
    let els' := firstn i els ++ [e] ++ skipn i els in
    if realloc || (len <=? 0) then
      let '(s2, a') := halloc s1 o (CArr els') in put_rep s2 new f a' (len + 1)
    else
      put_rep (hwrite s1 a (CArr (els' ++ skipn 1 rest))) new f a (len + 1).

(* traitRemove: copy(has[i:], has[i+1:]) inside the array it is given; the last slot keeps its pointer *)
Definition remove_body (f key name : Z) : ifun := fun s old new =>
  let '(a, len, els, rest) := old_slice s old f in
  let i := search_ge s key name els O in
  let exists_ := match nth_error els i with Some e => name_of s key e =? name | None => false end in
  if exists_ then
    let els' := firstn i els ++ skipn (S i) els ++ skipn (Nat.pred (List.length els)) els in
    put_rep (hwrite s a (CArr (els' ++ rest))) new f a (len - 1)
  else put_rep s new f a len.

(* before the repair both worked on the live old message *)
Definition i_union_v0 (f key name : Z) (realloc : bool) : ifun := union_body Lib f key name realloc.
Definition i_remove_v0 (f key name : Z) : ifun := remove_body f key name.
(* current code: oldChild := proto.Clone(old) first (the capacity of the clone's slice is not
   observable any more; the bit is kept as an input) *)
Definition i_union (n : nat) (f key name : Z) (realloc : bool) : ifun := fun s old new =>
  let '(s1, oc) := clone n Caller s old in union_body Caller f key name realloc s1 oc new.
Definition i_remove (n : nat) (f key name : Z) : ifun := fun s old new =>
  let '(s1, oc) := clone n Caller s old in remove_body f key name s1 oc new.

(* ---- enterleavesensorpb.CreateEnterLeaveEvent: the totals interceptor writes the caller's
   message only.  adjustTotal(val, cur, inc): a supplied total different from the current one
   is kept, otherwise the current one (+1 if the direction matches) is written. ---- *)
Definition adj_total (s : hst) (old new : tag) (ft : Z) (inc : bool) : hst :=
  let cv := match get_sc s old ft with Some v => v | None => 0 end in
  let write := set_sc s new ft (if inc then cv + 1 else cv) in
  match get_sc s new ft with
  | Some v => if v =? cv then write else s
  | None => write
  end.
Definition i_totals (fdir fenter fleave enter_code leave_code : Z) : ifun := fun s old new =>
  let dir := get_sc s new fdir in
  let is c := match dir with Some d => d =? c | None => false end in
  adj_total (adj_total s old new fenter (is enter_code)) old new fleave (is leave_code).

(* ---- metadatapb: metadataMergeInterceptor.  Field f = traits (elements keyed by key). ---- *)
Fixpoint find_name (s : hst) (key name : Z) (l : list tag) : option tag :=
  match l with
  | [] => None
  | e :: r => if name_of s key e =? name then Some e else find_name s key name r
  end.
Fixpoint insert_by (s : hst) (key : Z) (e : tag) (l : list tag) : list tag :=
  match l with
  | [] => [e]
  | x :: r => if name_of s key e <? name_of s key x then e :: x :: r else x :: insert_by s key e r
  end.
Definition sort_by (s : hst) (key : Z) (l : list tag) : list tag :=
  fold_left (fun acc e => insert_by s key e acc) l [].

(* mergeTraitMetadata(tmds, tmd) for each tmd; cur = (array, len, owner for a new array) *)
Fixpoint meta_merge_traits (n : nat) (o : owner) (key : Z) (realloc : bool) (s : hst) (a : tag) (len : Z) (tms : list tag)
  : hst * tag * Z :=
  match tms with
  | [] => (s, a, len)
  | tm :: r =>
      if len <=? 0 then
        let '(s1, a') := halloc s o (CArr [tm]) in meta_merge_traits n o key realloc s1 a' 1 r
      else
        match find_name s key (name_of s key tm) (elems s a len) with
        | Some e => meta_merge_traits n o key realloc (merge n (fst e) s e tm) a len r
        | None =>
            if realloc then
              let '(s1, a') := halloc s o (CArr (elems s a len ++ [tm])) in
              meta_merge_traits n o key false s1 a' (len + 1) r
            else
              let sl := match lookup (hp s) a with Some (CArr sl) => sl | _ => [] end in
              meta_merge_traits n o key realloc
                (hwrite s a (CArr (firstn (Z.to_nat len) sl ++ [tm] ++ skipn (Z.to_nat len + 1) sl))) a (len + 1) r
        end
  end.

Definition meta_body (n : nat) (f key : Z) (realloc : bool) (s : hst) (old new : tag) : hst :=
  let '(s1, clean) := clone n Caller s new in
  let '(ca, clen) := match get_rep s1 clean f with Some x => x | None => ((Caller, -1), 0) end in
  let tms := elems s1 ca clen in
  let s2 := put_rep s1 clean f ca 0 in
  let s3 := merge n Caller s2 new old in
  let s4 := merge n Caller s3 new clean in
  let '(oa, olen) := match get_rep s4 old f with Some x => x | None => ((Caller, -1), 0) end in
  let '(s5, a, len) := meta_merge_traits n Caller key realloc s4 oa olen tms in
  let sl := match lookup (hp s5) a with Some (CArr sl) => sl | _ => [] end in
  let s6 := if len <=? 0 then s5
            else hwrite s5 a (CArr (sort_by s5 key (firstn (Z.to_nat len) sl) ++ skipn (Z.to_nat len) sl)) in
  put_rep s6 new f a len.

(* the code before the repair worked on the live old message *)
Definition i_meta_v0 (n : nat) (f key : Z) (realloc : bool) : ifun := meta_body n f key realloc.
(* current code: old = proto.Clone(old) first *)
Definition i_meta (n : nat) (f key : Z) (realloc : bool) : ifun := fun s old new =>
  let '(s1, oc) := clone n Caller s old in meta_body n f key realloc s1 oc new.

(* ---- hooks a trait model applies to the seed value its Pull received from the resource ---- *)
Definition sfun := hst -> tag -> hst * tag.
Definition seed_id : sfun := fun s t => (s, t).
Definition clear_fields (s : hst) (t : tag) (fs : list Z) : hst :=
  match lookup (hp s) t with
  | Some (CNode sc subs reps) =>
      hwrite s t (CNode (filter (fun p => negb (existsb (Z.eqb (fst p)) fs)) sc)
                        (filter (fun p => negb (existsb (Z.eqb (fst p)) fs)) subs) reps)
  | _ => s
  end.
(* enterleavesensorpb.PullEnterLeaveEvents before the repair: clears occupant/direction of the
   message it was handed (the stored one when there is no read mask) *)
Definition seed_clear_v0 (fs : list Z) : sfun := fun s t => (clear_fields s t fs, t).
(* repaired: works on a clone *)
Definition seed_clear (n : nat) (fs : list Z) : sfun := fun s t =>
  let '(s1, c) := clone n Lib s t in (clear_fields s1 c fs, c).

(* ---- model-level reads: a trait model builds what it returns from the stored messages (given in id
   order, as Collection.List without a read mask hands them out: the stored messages themselves) ---- *)
Definition rfun := hst -> list tag -> hst * list tag.

(* ---- the merge step of a write (FieldUpdater.Merge) as a heap function of dst (the clone of the old
   value the write builds the new value in) and src (the caller's message).  [upd_merge] above is the
   instance without writable-field restriction and reset mask; Alias/Writable.v has the whole function. ---- *)
Definition mfun := hst -> tag -> tag -> hst.

(* ---- the resource layer ---- *)
Inductive wmode := MSet | MUpdate (create : bool) | MAdd.

Inductive op :=
| OWrite (id : Z) (arg : list cell) (vis : bool) (um : option (list Z)) (m : wmode) (ib ia : ifun)
| ODelete (id : Z)
| OGet (id : Z) (rm : option (list Z))
| OList (rm : option (list Z))
| OPull (rm : option (list Z)) (updates_only : bool) (hook : sfun)
| OMutArg (k : nat)
| ORead (rf : rfun)
| OWriteF (id : Z) (arg : list cell) (vis : bool) (mf : mfun) (m : wmode) (ib ia : ifun).

Record state := mkS {
  hs : hst;
  store : list (Z * tag);            (* id -> stored message, sorted by id *)
  snaps : list tag;                  (* every message that crossed the API, in crossing order *)
  subsc : list (option (list Z));    (* read masks of the open subscriptions *)
  collection : bool                  (* Collection events carry the old value too *)
}.

Definition init_state (coll : bool) : state := mkS (mkH [] 0) [] [] [] coll.

(* the caller's argument: cells with tags relative to the allocation base, root first *)
Definition shift_tag (base : Z) (t : tag) : tag := (Caller, base + snd t).
Definition shift_cell (base : Z) (c : cell) : cell :=
  match c with
  | CNode sc subs reps =>
      CNode sc (map (fun p => (fst p, shift_tag base (snd p))) subs)
            (map (fun r => (fst r, (shift_tag base (fst (snd r)), snd (snd r)))) reps)
  | CArr sl => CArr (map (shift_tag base) sl)
  end.
Fixpoint alloc_cells (base : Z) (i : Z) (h : heap) (cs : list cell) : heap :=
  match cs with
  | [] => h
  | c :: r => alloc_cells base (i + 1) (((Caller, base + i), shift_cell base c) :: h) r
  end.
Definition alloc_arg (s : hst) (cs : list cell) : hst * tag :=
  (mkH (alloc_cells (nxt s) 0 (hp s) cs) (nxt s + Z.max 1 (zlen cs)), (Caller, nxt s)).
Definition arg_wf (cs : list cell) : bool :=
  forallb (fun c => forallb (fun u => (0 <=? snd u) && (snd u <? zlen cs)) (refs c)) cs.

(* what each subscription receives for one change: FilterClone of old (collections) and new *)
Fixpoint publish_events (n : nat) (s : hst) (masks : list (option (list Z))) (vals : list tag) : hst * list tag :=
  match masks with
  | [] => (s, [])
  | m :: r =>
      let '(s1, out) := smap (fun s v => filter_clone n s v m) s vals in
      let '(s2, rest) := publish_events n s1 r vals in
      (s2, out ++ rest)
  end.

Definition write_fails (st : state) (id : Z) (m : wmode) : bool :=
  match m, fget id (store st) with
  | MAdd, Some _ => true
  | MUpdate false, None => true
  | _, _ => false
  end.

(* the caller rewrites every int/string scalar, every map and every list of int/string scalars of every
   object it can reach from its message *)
(* value codes: below 1000000 int / string scalars; from 2000000 maps and lists of int / string scalars (the
   caller empties the map and puts one entry, overwrites every list element); between: everything the
   scrambling caller leaves alone *)
Definition scr (p : Z * Z) : Z * Z := if (snd p <? 1000000) || (2000000 <=? snd p) then (fst p, -7) else p.
Fixpoint scramble (n : nat) (s : hst) (t : tag) : hst :=
  match n with
  | O => s
  | S n =>
      match lookup (hp s) t with
      | Some (CNode sc subs reps) =>
          let s1 := hwrite s t (CNode (map scr sc) subs reps) in
          let s2 := fold_left (fun s p => scramble n s (snd p)) subs s1 in
          fold_left (fun s r => fold_left (scramble n) (elems s (fst (snd r)) (snd (snd r))) s) reps s2
      | _ => s
      end
  end.

(* one write: GetAndUpdate + changeFn with the merge step mf *)
Definition write_step (n : nat) (st : state) (id : Z) (arg : list cell) (vis : bool) (mf : mfun) (m : wmode)
           (ib ia : ifun) : state :=
      let '(s1, a) := alloc_arg (hs st) arg in
      let argsnap := if vis then [a] else [] in
      if write_fails st id m then mkS s1 (store st) (snaps st ++ argsnap) (subsc st) (collection st)
      else
        let '(s2, old, created) :=
          match fget id (store st) with
          | Some t => (s1, t, false)
          | None => let '(s', t) := halloc s1 Lib empty_node in (s', t, true)
          end in
        let '(s3, dst) := clone n Lib s2 old in
        let s4 := ib s3 old a in
        let s5 := mf s4 dst a in
        let s6 := ia s5 old dst in
        let evvals := if collection st && negb created then [old; dst] else [dst] in
        let '(s7, evs) := publish_events n s6 (subsc st) evvals in
        mkS s7 (fins id dst (store st)) (snaps st ++ argsnap ++ [dst] ++ evs) (subsc st) (collection st).

Definition step (n : nat) (st : state) (o : op) : state :=
  match o with
  | OWrite id arg vis um m ib ia =>
      write_step n st id arg vis (fun s dst a => upd_merge n s dst a um) m ib ia
  | OWriteF id arg vis mf m ib ia => write_step n st id arg vis mf m ib ia
  | ODelete id =>
      match fget id (store st) with
      | Some t =>
          let '(s1, evs) := publish_events n (hs st) (subsc st) [t] in
          mkS s1 (fdel id (store st)) (snaps st ++ [t] ++ evs) (subsc st) (collection st)
      | None => st
      end
  | OGet id rm =>
      match fget id (store st) with
      | Some t => let '(s1, r) := filter_clone n (hs st) t rm in
                  mkS s1 (store st) (snaps st ++ [r]) (subsc st) (collection st)
      | None => st
      end
  | OList rm =>
      let '(s1, rs) := smap (fun s p => filter_clone n s (snd p) rm) (hs st) (store st) in
      mkS s1 (store st) (snaps st ++ rs) (subsc st) (collection st)
  | OPull rm uo hook =>
      if uo then mkS (hs st) (store st) (snaps st) (subsc st ++ [rm]) (collection st)
      else
        let '(s1, rs) := smap (fun s p => let '(s', r) := filter_clone n s (snd p) rm in hook s' r) (hs st) (store st) in
        mkS s1 (store st) (snaps st ++ rs) (subsc st ++ [rm]) (collection st)
  | OMutArg k =>
      match nth_error (filter (fun t => owner_eqb (fst t) Caller) (snaps st)) k with
      | Some a => mkS (scramble n (hs st) a) (store st) (snaps st) (subsc st) (collection st)
      | None => st
      end
  | ORead rf =>
      let '(s1, rs) := rf (hs st) (map snd (store st)) in
      mkS s1 (store st) (snaps st ++ rs) (subsc st) (collection st)
  end.

Fixpoint run (n : nat) (st : state) (ops : list op) : state :=
  match ops with [] => st | o :: r => run n (step n st o) r end.

(* ---- reading a snapshot: does the tree at t1 in h1 read the same as the tree at t2 in h2 ---- *)
Definition zz_eqb (a b : Z * Z) : bool := (fst a =? fst b) && (snd a =? snd b).
Definition arr_slots (h : heap) (a : tag) (len : Z) : list tag :=
  match lookup h a with Some (CArr sl) => firstn (Z.to_nat len) sl | _ => [] end.
Fixpoint same (n : nat) (h1 h2 : heap) (t1 t2 : tag) : bool :=
  match n with
  | O => true
  | S n =>
      match lookup h1 t1, lookup h2 t2 with
      | Some (CNode sc1 su1 re1), Some (CNode sc2 su2 re2) =>
          list_eqb zz_eqb sc1 sc2
          && list_eqb (fun a b => (fst a =? fst b) && same n h1 h2 (snd a) (snd b)) su1 su2
          && list_eqb (fun a b => (fst a =? fst b)
                                  && list_eqb (same n h1 h2) (arr_slots h1 (fst (snd a)) (snd (snd a)))
                                              (arr_slots h2 (fst (snd b)) (snd (snd b)))) re1 re2
      | Some (CArr _), Some (CArr _) => true
      | None, None => true
      | _, _ => false
      end
  end.

(* indices of the snapshots of st that read differently in st' *)
Definition changed (n : nat) (st st' : state) : list Z :=
  map fst (filter (fun p => negb (same n (hp (hs st)) (hp (hs st')) (snd p) (snd p))) (zip_index 0 (snaps st))).
