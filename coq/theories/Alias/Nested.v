(* C07 - nested read masks, in-place filtering, shared list elements and assembled responses on the
   tagged heaps of Alias/Owned.v.

   /repo/pkg/masks/get.go:
     ResponseFilter.Filter(msg)       fmutils.Filter IN PLACE: the message and, below a mask path that
                                      continues into a sub-message or a repeated message field, every
                                      sub-message / ELEMENT on the path is written           [filter_n]
     ResponseFilter.FilterClone(msg)  nil mask: msg itself; otherwise proto.Clone, then the same
                                      in-place filter on the clone                          [filter_clone_n]
   fmutils NestedMask.Filter: a field the mask does not name is cleared; a named field whose sub-mask is
   empty is kept whole; otherwise the sub-mask is applied to the sub-message / to every element. [keep_nested]

   Assembled responses (openclosepb GetPositions / the messages PullPositions emits): a NEW response
   message whose repeated field holds the STORED messages (Collection.List without a read mask returns
   the stored messages themselves), then the read mask.  The code applies it with FilterClone
   [r_assembled]; before commit 2246d41 PullPositions applied it with Filter, in place
   [r_assembled_v0] (seeded change C07-r3-3 re-introduced exactly that in GetPositions).

   slices.Clone of a repeated message field: a new array holding the SAME element messages
   [slice_clone]; seeded change C07-r3-2 replaced the deep clone in metadataMergeInterceptor by it
   [i_meta_slice_clone].

   No proofs in this file. *)
From SC Require Import Base.Prelude Alias.Owned.

Inductive nmask := NM (ch : list (Z * nmask)).
Definition nm_ch (m : nmask) : list (Z * nmask) := match m with NM ch => ch end.
Definition nm_leaf (m : nmask) : bool := match nm_ch m with [] => true | _ => false end.

(* fmutils NestedMask.Filter, in place *)
Fixpoint keep_nested (n : nat) (s : hst) (t : tag) (m : nmask) : hst :=
  match n with
  | O => s
  | S n =>
      if nm_leaf m then s else
      match lookup (hp s) t with
      | Some (CNode sc subs reps) =>
          let fs := map fst (nm_ch m) in
          let subs' := fkeep fs subs in
          let reps' := fkeep fs reps in
          let s1 := hwrite s t (CNode (fkeep fs sc) subs' reps') in
          let s2 := fold_left (fun s (p : Z * tag) =>
                                 match fget (fst p) (nm_ch m) with
                                 | Some sub => keep_nested n s (snd p) sub
                                 | None => s
                                 end) subs' s1 in
          fold_left (fun s (r : Z * (tag * Z)) =>
                       match fget (fst r) (nm_ch m) with
                       | Some sub => fold_left (fun s e => keep_nested n s e sub) (elems s (fst (snd r)) (snd (snd r))) s
                       | None => s
                       end) reps' s2
      | _ => s
      end
  end.

(* ResponseFilter.FilterClone: nil mask = the message itself; a mask without paths = clone + Reset *)
Definition filter_clone_n (n : nat) (s : hst) (t : tag) (rm : option nmask) : hst * tag :=
  match rm with
  | None => (s, t)
  | Some m =>
      let '(s1, c) := clone n Lib s t in
      if nm_leaf m then (hwrite s1 c empty_node, c) else (keep_nested n s1 c m, c)
  end.

(* ResponseFilter.Filter: in place *)
Definition filter_n (n : nat) (s : hst) (t : tag) (rm : option nmask) : hst :=
  match rm with
  | None => s
  | Some m => if nm_leaf m then hwrite s t empty_node else keep_nested n s t m
  end.

(* slices.Clone(x.Field): a new array with the same elements *)
Definition slice_clone (s : hst) (o : owner) (a : tag) (len : Z) : hst * tag := halloc s o (CArr (elems s a len)).

(* dst := &Response{Field: make([]*T, len(all))}; dst.Field[i] = all[i] *)
Definition assemble (s : hst) (f : Z) (ts : list tag) : hst * tag :=
  let '(s1, a) := halloc s Lib (CArr ts) in
  halloc s1 Lib (CNode [] [] (set_rep f a (zlen ts) [])).

(* openclosepb.GetPositions, and what PullPositions emits: FilterClone of the assembled message *)
Definition r_assembled (n : nat) (f : Z) (rm : option nmask) : rfun := fun s ts =>
  let '(s1, r) := assemble s f ts in
  let '(s2, c) := filter_clone_n n s1 r rm in
  (s2, [c]).

(* before 2246d41 / seeded change C07-r3-3: Filter, in place, on the assembled message *)
Definition r_assembled_v0 (n : nat) (f : Z) (rm : option nmask) : rfun := fun s ts =>
  let '(s1, r) := assemble s f ts in
  (filter_n n s1 r rm, [r]).

(* seeded change C07-r3-2: metadataMergeInterceptor on a copy of old whose Traits slice is
   slices.Clone(old.Traits): the array is new (cap = len), the elements are the stored ones *)
Definition i_meta_slice_clone (n : nat) (f key : Z) : ifun := fun s old new =>
  match lookup (hp s) old with
  | Some (CNode sc subs reps) =>
      match fget f reps with
      | Some (a, len) =>
          let '(s1, a') := slice_clone s Caller a len in
          let '(s2, o') := halloc s1 Caller (CNode sc subs (fins f (a', len) reps)) in
          meta_body n f key true s2 o' new
      | None => meta_body n f key true s old new
      end
  | _ => s
  end.
