(* Proofs about Alias/Writable.v: FieldUpdater.Merge with ANY writable fields, update mask (any nesting)
   and reset mask is a well-behaved merge step: it writes only the caller's message (the in-place filters)
   and objects the write owns (the destination and what proto.Merge copies into it), and never links the two
   owners.  Hence every history whose writes go through it is inside published_frozen /
   caller_message_not_retained (LayerProofs.v, op_ok of OWriteF). *)
From SC Require Import Base.Prelude Alias.Owned Alias.OwnedProofs Alias.LayerProofs Alias.Nested Alias.NestedProofs
  Alias.Writable.

Local Open Scope Z_scope.
Local Arguments hwrite : simpl never.

(* fmutils Prune with ANY nested mask on an object the operation owns *)
Lemma prune_nested_goodx lo o : forall n s t m, heap_ok lo s -> own lo (nxt s) o t ->
  goodx lo o s (prune_nested n s t m).
Proof.
  induction n as [|n IH]; intros s t m Hs Ht; simpl; [apply goodx_refl; auto|].
  destruct (nm_leaf m); [apply goodx_refl; auto|].
  destruct (lookup (hp s) t) as [[sc subs reps|?]|] eqn:E; try (apply goodx_refl; auto).
  set (s1 := hwrite s t (CNode (filter (stay m) sc) (filter (stay m) subs) (filter (stay m) reps))).
  assert (G1 : goodx lo o s s1).
  { eapply goodx_write; eauto. intros u. rewrite !In_refs_node. intros [[f H]|[f [len H]]]; [left|right].
    - exists f. eapply In_filter_sub; eauto.
    - exists f, len. eapply In_filter_sub; eauto. }
  assert (N1 : nxt s <= nxt s1) by apply G1.
  set (F2 := fun (s : hst) (p : Z * tag) =>
               match fget (fst p) (nm_ch m) with Some sub => prune_nested n s (snd p) sub | None => s end).
  assert (G2 : goodx lo o s1 (fold_left F2 (filter (stay m) subs) s1)).
  { apply (fold_goodx lo o (nxt s) F2 (fun p : Z * tag => own lo (nxt s) o (snd p))).
    - intros s0 p H0 Hb Hp. unfold F2. destruct (fget (fst p) (nm_ch m)); [|apply goodx_refl; auto].
      apply IH; auto. eapply own_mono; eauto.
    - apply (good_ok _ _ _ (proj1 G1)).
    - exact N1.
    - intros [f u] Hf. simpl. eapply own_refs; eauto. apply In_refs_node. left. exists f. eapply In_filter_sub; eauto. }
  set (s2 := fold_left F2 (filter (stay m) subs) s1) in *.
  assert (N2 : nxt s1 <= nxt s2) by apply G2.
  eapply goodx_trans; [eapply goodx_trans; eauto|].
  apply (fold_goodx lo o (nxt s) _ (fun r : Z * (tag * Z) => own lo (nxt s) o (fst (snd r)))).
  - intros s0 r H0 Hb Hr. destruct (fget (fst r) (nm_ch m)) as [sub|]; [|apply goodx_refl; auto].
    apply (fold_goodx lo o (nxt s0) _ (fun e : tag => own lo (nxt s0) o e)); auto; try lia.
    + intros s' e H' Hb' He. apply IH; auto. eapply own_mono; eauto.
    + intros e He. eapply own_elems; [eauto | | eauto]. eapply own_mono; eauto.
  - apply (good_ok _ _ _ (proj1 G2)).
  - lia.
  - intros [f [a len]] Hf. simpl. eapply own_refs; eauto. apply In_refs_node. right. exists f, len. eapply In_filter_sub; eauto.
Qed.

(* pruneEmpty with ANY nested mask: only the destination and objects below it are written; src is read *)
Lemma prune_empty_goodx lo o : forall n s dst src m, heap_ok lo s -> own lo (nxt s) o dst ->
  goodx lo o s (prune_empty n s dst src m).
Proof.
  induction n as [|n IH]; intros s dst src m Hs Hd; simpl; [apply goodx_refl; auto|].
  destruct (lookup (hp s) dst) as [[sc subs reps|?]|] eqn:E; try (apply goodx_refl; auto).
  destruct (lookup (hp s) src) as [csrc|] eqn:Es; try (apply goodx_refl; auto).
  set (subs' := filter (fun p : Z * tag => negb (gone m csrc p && named_whole m (fst p))) subs).
  set (s1 := hwrite s dst (CNode (filter (fun p => negb (gone m csrc p)) sc) subs'
                                 (filter (fun p => negb (gone m csrc p)) reps))).
  assert (G1 : goodx lo o s s1).
  { eapply goodx_write; eauto. intros u. rewrite !In_refs_node. intros [[f H]|[f [len H]]]; [left|right].
    - exists f. eapply In_filter_sub; eauto.
    - exists f, len. eapply In_filter_sub; eauto. }
  assert (N1 : nxt s <= nxt s1) by apply G1.
  eapply goodx_trans; [exact G1|].
  apply (fold_goodx lo o (nxt s) _ (fun p : Z * tag => own lo (nxt s) o (snd p))).
  - intros s0 p H0 Hb Hp. destruct (fget (fst p) (nm_ch m)) as [sub|]; [|apply goodx_refl; auto].
    destruct (cell_has csrc (fst p)).
    + destruct (sub_of s0 src (fst p)) as [u|]; [|apply goodx_refl; auto].
      apply IH; auto. eapply own_mono; eauto.
    + apply prune_nested_goodx; auto. eapply own_mono; eauto.
  - apply (good_ok _ _ _ (proj1 G1)).
  - exact N1.
  - intros [f u] Hf. simpl. eapply own_refs; eauto. apply In_refs_node. left. exists f. eapply In_filter_sub; eauto.
Qed.

Lemma reset_step_good lo n rs s dst : heap_ok lo s -> own lo (nxt s) Lib dst -> good lo s (reset_step n rs s dst).
Proof.
  intros Hs Hd. unfold reset_step. destruct rs as [r|]; [|apply good_refl; auto].
  eapply prune_nested_goodx; eauto.
Qed.

(* FieldUpdater.Merge when the message it is given is owned by the operation, whoever its owner is *)
Lemma upd_merge_w_good_any lo n w um rs s dst src o :
  heap_ok lo s -> own lo (nxt s) Lib dst -> own lo (nxt s) o src -> good lo s (upd_merge_w n w um rs s dst src).
Proof.
  intros Hs Hd Hsrc. unfold upd_merge_w.
  destruct (opt_leaf w); [apply good_refl; auto|].
  set (s1 := match w with Some wm => keep_nested n s src wm | None => s end).
  assert (G1 : good lo s s1).
  { subst s1. destruct w as [wm|]; [eapply keep_nested_good; eauto | apply good_refl; auto]. }
  assert (N1 : nxt s <= nxt s1) by apply G1.
  assert (Hd1 : own lo (nxt s1) Lib dst) by (eapply own_mono; eauto).
  assert (Hs1 : own lo (nxt s1) o src) by (eapply own_mono; eauto).
  assert (Ed : fst dst = Lib) by apply Hd.
  destruct um as [m|].
  - destruct (nm_leaf m); [exact G1|].
    set (s2 := keep_nested n s1 src m).
    assert (G2 : good lo s1 s2) by (eapply keep_nested_good; [apply (good_ok _ _ _ G1) | eauto]).
    assert (Hd2 : own lo (nxt s2) Lib dst) by (eapply own_mono; [eauto | apply G2]).
    set (s3 := merge n (fst dst) s2 dst src).
    assert (G3 : good lo s2 s3).
    { subst s3. rewrite Ed. apply merge_good; [apply (good_ok _ _ _ G2) | auto]. }
    assert (Hd3 : own lo (nxt s3) Lib dst) by (eapply own_mono; [eauto | apply G3]).
    set (s4 := prune_empty n s3 dst src m).
    assert (G4 : good lo s3 s4) by (eapply prune_empty_goodx; [apply (good_ok _ _ _ G3) | eauto]).
    assert (Hd4 : own lo (nxt s4) Lib dst) by (eapply own_mono; [eauto | apply G4]).
    eapply good_trans; [exact G1|]. eapply good_trans; [exact G2|]. eapply good_trans; [exact G3|].
    eapply good_trans; [exact G4|]. apply reset_step_good; [apply (good_ok _ _ _ G4) | auto].
  - set (s2 := match w with None => hwrite s1 dst empty_node | Some wm => prune_nested n s1 dst wm end).
    assert (G2 : good lo s1 s2).
    { subst s2. destruct w as [wm|].
      - eapply prune_nested_goodx; [apply (good_ok _ _ _ G1) | eauto].
      - eapply good_write_own; [apply (good_ok _ _ _ G1) | eauto | simpl; tauto]. }
    assert (Hd2 : own lo (nxt s2) Lib dst) by (eapply own_mono; [eauto | apply G2]).
    set (s3 := merge n (fst dst) s2 dst src).
    assert (G3 : good lo s2 s3).
    { subst s3. rewrite Ed. apply merge_good; [apply (good_ok _ _ _ G2) | auto]. }
    assert (Hd3 : own lo (nxt s3) Lib dst) by (eapply own_mono; [eauto | apply G3]).
    eapply good_trans; [exact G1|]. eapply good_trans; [exact G2|]. eapply good_trans; [exact G3|].
    apply reset_step_good; [apply (good_ok _ _ _ G3) | auto].
Qed.

(* FieldUpdater.Merge with any writable fields, update mask and reset mask is a well-behaved merge step *)
Lemma upd_merge_w_wb n w um rs : wb_merge (upd_merge_w n w um rs).
Proof. intros lo s dst src Hs Hd Hsrc. eapply upd_merge_w_good_any; eauto. Qed.

(* writing a CLONE of a stored message to another resource is a well-behaved model-level operation *)
Lemma wb_read_write_stored n k w um rs : wb_read (r_write_stored n k w um rs).
Proof.
  intros s ts Hs Hts. unfold r_write_stored. set (lo := nxt s).
  destruct (nth_error ts k) as [t|] eqn:Ek.
  2:{ cbn [fst snd]. split; [exact Hs|]. split; [split; [lia | auto] | constructor]. }
  destruct (clone_good lo Lib n s t Hs) as [G1 Q1].
  destruct (clone n Lib s t) as [s1 c] eqn:E1. cbn [fst snd] in G1, Q1.
  destruct (good_alloc lo s1 Lib empty_node (good_ok _ _ _ G1) (own_empty _ _ _)) as [G2 Q2].
  destruct (halloc s1 Lib empty_node) as [s2 dst] eqn:E2. cbn [fst snd] in G2, Q2.
  assert (G3 : good lo s2 (upd_merge_w n w um rs s2 dst c)).
  { eapply upd_merge_w_good_any; [apply (good_ok _ _ _ G2) | exact Q2 |].
    eapply own_mono; [exact Q1 | apply G2]. }
  cbn [fst snd].
  assert (G : good lo s (upd_merge_w n w um rs s2 dst c)).
  { eapply good_trans; [exact G1|]. eapply good_trans; [exact G2 | exact G3]. }
  split; [apply heap_ok_rebase with lo; apply G|]. split; [apply good_frame; exact G|].
  constructor; [|constructor]. destruct Q2 as (A & B & _). split; auto. destruct G3 as (_ & ? & _). lia.
Qed.
