(* The resource layer over tagged heaps: every operation follows the discipline of
   OwnedProofs.v when its interceptors / seed hooks do, hence
     - no library object of an earlier operation is ever written again (published_frozen),
     - the store never reaches a caller-owned object (caller_message_not_retained),
     - reads write nothing that existed before them (reads_pure). *)
From SC Require Import Base.Prelude Alias.Owned Alias.OwnedProofs.

Local Open Scope Z_scope.
Local Arguments hwrite : simpl never.

(* ---------- smap with a lower bound on the counter ---------- *)
Lemma smap_good_b {A B} lo nx0 (f : hst -> A -> hst * B) (Q : Z -> B -> Prop) (P : A -> Prop) :
  (forall nx nx' y, Q nx y -> nx <= nx' -> Q nx' y) ->
  (forall s x, heap_ok lo s -> nx0 <= nxt s -> P x ->
               good lo s (fst (f s x)) /\ Q (nxt (fst (f s x))) (snd (f s x))) ->
  forall l s, heap_ok lo s -> nx0 <= nxt s -> (forall x, In x l -> P x) ->
    good lo s (fst (smap f s l)) /\ Forall (Q (nxt (fst (smap f s l)))) (snd (smap f s l)).
Proof.
  intros Qm Hf. induction l as [|x l IH]; intros s Hs Hb HP; simpl.
  - split; [apply good_refl; auto | constructor].
  - destruct (Hf s x Hs Hb (HP x (or_introl eq_refl))) as [G1 Q1].
    destruct (f s x) as [s1 y] eqn:E1. simpl in *.
    assert (Hb1 : nx0 <= nxt s1) by (destruct G1 as (_ & ? & _); lia).
    destruct (IH s1 (good_ok _ _ _ G1) Hb1 (fun z Hz => HP z (or_intror Hz))) as [G2 Q2].
    destruct (smap f s1 l) as [s2 ys] eqn:E2. simpl in *.
    split; [eapply good_trans; eauto|].
    constructor; auto. eapply Qm; eauto. apply G2.
Qed.

Lemma fold_good {A} lo (f : hst -> A -> hst) (P : A -> Prop) :
  (forall s x, heap_ok lo s -> P x -> good lo s (f s x)) ->
  forall l s, heap_ok lo s -> (forall x, In x l -> P x) -> good lo s (fold_left f l s).
Proof.
  intros Hf. induction l as [|x l IH]; intros s Hs HP; simpl.
  - apply good_refl; auto.
  - assert (G := Hf s x Hs (HP x (or_introl eq_refl))).
    eapply good_trans; eauto. apply IH; [apply (good_ok _ _ _ G) | intros; apply HP; right; auto].
Qed.

(* ---------- the caller's argument ---------- *)
Lemma refs_shift base c : refs (shift_cell base c) = map (shift_tag base) (refs c).
Proof.
  destruct c as [sc subs reps|sl]; simpl; auto.
  rewrite map_app, !map_map. reflexivity.
Qed.

Lemma lookup_alloc_cells base : forall cs i h t c,
  lookup (alloc_cells base i h cs) t = Some c ->
  lookup h t = Some c \/
  exists j cj, nth_error cs j = Some cj /\ t = (Caller, base + i + Z.of_nat j) /\ c = shift_cell base cj.
Proof.
  induction cs as [|c0 cs IH]; intros i h t c; simpl; auto.
  intro H. apply IH in H. destruct H as [H|(j & cj & Hn & Ht & Hc)].
  - rewrite lookup_cons in H. destruct (tag_eqb (Caller, base + i) t) eqn:E; auto.
    apply tag_eqb_eq in E. inversion H. subst. right. exists O, c0. simpl. repeat split; auto. f_equal. lia.
  - right. exists (S j), cj. simpl. repeat split; auto. subst t. f_equal. lia.
Qed.

Lemma lookup_alloc_cells_lib base : forall cs i h t, fst t = Lib ->
  lookup (alloc_cells base i h cs) t = lookup h t.
Proof.
  induction cs as [|c0 cs IH]; intros i h t Ht; simpl; auto.
  rewrite IH; auto. rewrite lookup_cons. destruct (tag_eqb (Caller, base + i) t) eqn:E; auto.
  apply tag_eqb_eq in E. subst t. discriminate.
Qed.

Lemma nth_error_lt {A} (l : list A) j x : nth_error l j = Some x -> Z.of_nat j < zlen l.
Proof.
  intro H. assert (nth_error l j <> None) by congruence. apply nth_error_Some in H0. unfold zlen. lia.
Qed.

Lemma alloc_arg_good lo s cs : heap_ok lo s -> arg_wf cs = true ->
  good lo s (fst (alloc_arg s cs)) /\ own lo (nxt (fst (alloc_arg s cs))) Caller (snd (alloc_arg s cs))
  /\ snd (alloc_arg s cs) = (Caller, nxt s).
Proof.
  intros [Hlo Hok] Hwf. unfold alloc_arg. cbn [fst snd hp nxt].
  assert (Hz : 0 <= zlen cs) by (unfold zlen; lia).
  split; [|split; [split; [reflexivity|split; [simpl; lia|intro; discriminate]] | reflexivity]].
  split; [split|split]; cbn [hp nxt]; try lia.
  - intros t c Hl. apply lookup_alloc_cells in Hl. destruct Hl as [Hl|(j & cj & Hn & Ht & Hc)].
    + eapply cell_ok_mono; [apply (Hok t c Hl) | lia].
    + subst t c. pose proof (nth_error_lt _ _ _ Hn) as Hj. split; [simpl; lia|].
      intros u Hu. rewrite refs_shift in Hu. apply in_map_iff in Hu. destruct Hu as (v & <- & Hv).
      unfold arg_wf in Hwf. rewrite forallb_forall in Hwf.
      pose proof (Hwf cj (nth_error_In _ _ Hn)) as Hc. rewrite forallb_forall in Hc.
      pose proof (Hc v Hv) as Hb. apply andb_true_iff in Hb. destruct Hb as [Hb1 Hb2].
      apply Z.leb_le in Hb1. apply Z.ltb_lt in Hb2.
      split; [simpl; lia|]. split; [reflexivity|]. simpl. intro; discriminate.
  - intros t Ht _. apply lookup_alloc_cells_lib; auto.
Qed.

(* ---------- the caller rewriting its own message ---------- *)
(* own for caller objects does not depend on lo; use a counter-free form inside folds *)
Definition cown (nx : Z) (u : tag) : Prop := fst u = Caller /\ snd u < nx.
Lemma cown_own lo nx u : cown nx u <-> own lo nx Caller u.
Proof. unfold cown, own. split; [intros [A B]; repeat split; auto; discriminate | intros (A & B & _); auto]. Qed.

Lemma fold_good_b {A} lo nx0 (f : hst -> A -> hst) (P : A -> Prop) :
  (forall s x, heap_ok lo s -> nx0 <= nxt s -> P x -> good lo s (f s x)) ->
  forall l s, heap_ok lo s -> nx0 <= nxt s -> (forall x, In x l -> P x) -> good lo s (fold_left f l s).
Proof.
  intros Hf. induction l as [|x l IH]; intros s Hs Hb HP; simpl.
  - apply good_refl; auto.
  - assert (G := Hf s x Hs Hb (HP x (or_introl eq_refl))).
    eapply good_trans; eauto. apply IH; [apply (good_ok _ _ _ G) | destruct G as (_ & ? & _); lia
                                        | intros; apply HP; right; auto].
Qed.

Lemma scramble_good lo : forall n s t, heap_ok lo s -> own lo (nxt s) Caller t -> good lo s (scramble n s t).
Proof.
  induction n as [|n IH]; intros s t Hs Ht; simpl; [apply good_refl; auto|].
  destruct (lookup (hp s) t) as [[sc subs reps|?]|] eqn:E; try (apply good_refl; auto).
  set (s1 := hwrite s t (CNode (map scr sc) subs reps)).
  assert (G1 : good lo s s1) by (eapply good_shrink; eauto).
  assert (G2 : good lo s1 (fold_left (fun s p => scramble n s (snd p)) subs s1)).
  { apply (fold_good_b lo (nxt s) _ (fun p : Z * tag => cown (nxt s) (snd p))).
    - intros s0 p H0 Hb Hp. apply IH; auto. eapply own_mono; [apply cown_own; eauto | auto].
    - apply (good_ok _ _ _ G1).
    - apply G1.
    - intros [f u] Hf. simpl. apply (cown_own lo). eapply own_refs; eauto. apply In_refs_node. left; eauto. }
  set (s2 := fold_left (fun s p => scramble n s (snd p)) subs s1) in *.
  eapply good_trans; [eapply good_trans; eauto|].
  apply (fold_good_b lo (nxt s) _ (fun r : Z * (tag * Z) => cown (nxt s) (fst (snd r)))).
  - intros s0 r H0 Hb Hr.
    apply (fold_good_b lo (nxt s0) _ (fun e : tag => cown (nxt s0) e)); auto; try lia.
    + intros s' e H' Hb' He. apply IH; auto. eapply own_mono; [apply cown_own; eauto | auto].
    + intros e He. apply (cown_own lo). eapply own_elems; [eauto | | eauto].
      eapply own_mono; [apply cown_own; eauto | auto].
  - apply (good_ok _ _ _ G2).
  - destruct G1 as (_ & ? & _), G2 as (_ & ? & _). lia.
  - intros [f [a len]] Hf. simpl. apply (cown_own lo). eapply own_refs; eauto. apply In_refs_node. right; eauto.
Qed.

(* ---------- events ---------- *)
Definition libtag (nx : Z) (t : tag) : Prop := fst t = Lib /\ snd t < nx.

Lemma publish_events_good lo n : forall masks s vals, heap_ok lo s ->
  (forall v, In v vals -> libtag (nxt s) v) ->
  good lo s (fst (publish_events n s masks vals)) /\
  Forall (libtag (nxt (fst (publish_events n s masks vals)))) (snd (publish_events n s masks vals)).
Proof.
  induction masks as [|m masks IH]; intros s vals Hs Hv; simpl.
  - split; [apply good_refl; auto | constructor].
  - destruct (smap_good_b lo (nxt s) (fun s v => filter_clone n s v m) libtag (libtag (nxt s))) with (l := vals) (s := s)
      as [G1 Q1]; auto; try lia.
    { intros nx nx' y [A B] H. split; auto; lia. }
    { intros s0 v H0 Hb [A B]. destruct (filter_clone_good lo n s0 v m H0) as (G & C & D); [lia|].
      split; auto. split; auto. }
    destruct (smap _ s vals) as [s1 out] eqn:E1. simpl in G1, Q1.
    destruct (IH s1 vals (good_ok _ _ _ G1)) as [G2 Q2].
    { intros v Hin. destruct (Hv v Hin). split; auto. destruct G1 as (_ & ? & _). lia. }
    destruct (publish_events n s1 masks vals) as [s2 rest] eqn:E2. cbn [fst snd] in *.
    split; [eapply good_trans; eauto|].
    apply Forall_app. split; auto.
    eapply Forall_impl; [|apply Q1]. intros a [A B]. split; auto. destruct G2 as (_ & ? & _). lia.
Qed.

(* ---------- the state invariant ---------- *)
Definition inv (st : state) : Prop :=
  heap_ok (nxt (hs st)) (hs st) /\
  (forall id t, In (id, t) (store st) -> libtag (nxt (hs st)) t) /\
  (forall t, In t (snaps st) -> snd t < nxt (hs st)).

(* what an operation guarantees about the heap it leaves: no library object that existed when it
   started is written *)
Definition frame (lo : Z) (s s' : hst) : Prop :=
  nxt s <= nxt s' /\ forall t, fst t = Lib -> snd t < lo -> lookup (hp s') t = lookup (hp s) t.

Lemma good_frame lo s s' : good lo s s' -> frame lo s s'.
Proof. intros (_ & A & B). split; auto. Qed.

(* a well-behaved model-level read (a function on heaps, not an enumeration): given a consistent heap
   and the stored messages it leaves a consistent heap, writes no library object that existed, and
   returns library messages.  Unlike the write path it MAY link new objects to old ones (an assembled
   response holds the stored messages). *)
Definition wb_read (rf : rfun) : Prop :=
  forall s ts, heap_ok (nxt s) s -> (forall t, In t ts -> libtag (nxt s) t) ->
    heap_ok (nxt (fst (rf s ts))) (fst (rf s ts)) /\ frame (nxt s) s (fst (rf s ts)) /\
    Forall (libtag (nxt (fst (rf s ts)))) (snd (rf s ts)).

Definition op_ok (o : op) : Prop :=
  match o with
  | OWrite _ arg _ _ _ ib ia => arg_wf arg = true /\ wb_before ib /\ wb_after ia
  | OWriteF _ arg _ mf _ ib ia => arg_wf arg = true /\ wb_merge mf /\ wb_before ib /\ wb_after ia
  | OPull _ _ h => wb_hook h
  | ORead rf => wb_read rf
  | _ => True
  end.

Lemma heap_ok_rebase lo s : heap_ok lo s -> heap_ok (nxt s) s.
Proof.
  intros [Hlo Hok]. split; [lia|]. intros t c Hl. destruct (Hok t c Hl) as [A B]. split; auto.
  intros u Hu. destruct (B u Hu) as (C & D & E). split; auto. split; auto.
  intros HL. split; intros; lia.
Qed.

Lemma init_inv coll : inv (init_state coll).
Proof.
  unfold init_state, inv. simpl. split; [|split; intros; tauto].
  split; simpl; [lia|]. intros t c H. discriminate.
Qed.

(* what one operation adds to the snapshots: library objects, and possibly the caller's argument *)
Definition new_snaps_ok (st st' : state) : Prop :=
  exists l, snaps st' = snaps st ++ l /\
            Forall (fun t => fst t = Lib \/ t = (Caller, nxt (hs st))) l.

Lemma libtag_mono nx nx' t : libtag nx t -> nx <= nx' -> libtag nx' t.
Proof. intros [A B] H. split; auto; lia. Qed.

Local Opaque alloc_arg clone publish_events filter_clone upd_merge scramble.

Lemma step_good n st o : inv st -> op_ok o ->
  frame (nxt (hs st)) (hs st) (hs (step n st o)) /\ inv (step n st o) /\ new_snaps_ok st (step n st o).
Proof.
  intros (Hh & Hst & Hsn) Hop. set (lo := nxt (hs st)).
  assert (Hfin : forall s' store' snaps' subs' coll' l,
             good lo (hs st) s' ->
             (forall id t, In (id, t) store' -> libtag (nxt s') t) ->
             snaps' = snaps st ++ l ->
             Forall (fun t => snd t < nxt s' /\ (fst t = Lib \/ t = (Caller, lo))) l ->
             frame lo (hs st) s' /\ inv (mkS s' store' snaps' subs' coll') /\
             new_snaps_ok st (mkS s' store' snaps' subs' coll')).
  { intros s' store' snaps' subs' coll' l G Hs' -> Hl. split; [apply good_frame; auto|]. split.
    - split; [apply heap_ok_rebase with lo; apply G|]. split; auto.
      simpl. intros t Ht. apply in_app_iff in Ht. destruct Ht as [Ht|Ht].
      + specialize (Hsn t Ht). destruct G as (_ & ? & _). fold lo in Hsn. lia.
      + rewrite Forall_forall in Hl. apply (Hl t Ht).
    - exists l. split; auto. eapply Forall_impl; [|apply Hl]. intros a [_ H]. exact H. }
  assert (Hstore : forall s', good lo (hs st) s' -> forall id t, In (id, t) (store st) -> libtag (nxt s') t).
  { intros s' G id t Hin. eapply libtag_mono; [eapply Hst; eauto|]. apply G. }
  assert (Hnop : frame lo (hs st) (hs st) /\ inv st /\ new_snaps_ok st st).
  { split; [apply good_frame; apply good_refl; auto|]. split; [split; auto|]. exists []. split; [rewrite app_nil_r; auto | constructor]. }
  assert (Hwrite : forall id arg vis mf m ib ia, arg_wf arg = true -> wb_merge mf -> wb_before ib -> wb_after ia ->
             frame lo (hs st) (hs (write_step n st id arg vis mf m ib ia)) /\ inv (write_step n st id arg vis mf m ib ia) /\
             new_snaps_ok st (write_step n st id arg vis mf m ib ia)).
  { intros id arg vis mf m ib ia Hwf Hmf Hib Hia. unfold write_step.
    destruct (alloc_arg_good lo (hs st) arg Hh Hwf) as (G1 & Qa & Ea).
    destruct (alloc_arg (hs st) arg) as [s1 a] eqn:E1. simpl in G1, Qa, Ea.
    assert (Harg : Forall (fun t => snd t < nxt s1 /\ (fst t = Lib \/ t = (Caller, lo))) (if vis then [a] else [])).
    { destruct vis; constructor; [|constructor]. split; [apply Qa | right; exact Ea]. }
    destruct (write_fails st id m).
    + apply Hfin with (l := if vis then [a] else []); auto. intros; eapply Hstore; eauto.
    + (* old value or a created empty message *)
      assert (Hold : exists s2 old created,
                 (match fget id (store st) with
                  | Some t => (s1, t, false)
                  | None => let '(s', t) := halloc s1 Lib empty_node in (s', t, true)
                  end) = (s2, old, created) /\ good lo s1 s2 /\ libtag (nxt s2) old).
      { destruct (fget id (store st)) as [t|] eqn:Ef.
        - exists s1, t, false. split; auto. split; [apply good_refl; apply G1|].
          eapply libtag_mono; [eapply Hst; eapply In_fget; eauto | apply G1].
        - destruct (good_alloc lo s1 Lib empty_node (good_ok _ _ _ G1) (own_empty _ _ _)) as [Ga Qa'].
          destruct (halloc s1 Lib empty_node) as [s' t] eqn:Eh. simpl in *.
          exists s', t, true. split; auto. split; auto. split; apply Qa'. }
      destruct Hold as (s2 & old & created & -> & G2 & Qold).
      destruct (clone_good lo Lib n s2 old (good_ok _ _ _ G2)) as [G3 Qd].
      destruct (clone n Lib s2 old) as [s3 dst] eqn:E3. simpl in G3, Qd.
      assert (N2 : nxt s1 <= nxt s2) by apply G2.
      assert (N3 : nxt s2 <= nxt s3) by apply G3.
      assert (G4 : good lo s3 (ib s3 old a)).
      { apply Hib; [apply (good_ok _ _ _ G3) | destruct Qold; lia | apply Qold |].
        eapply own_mono; [apply Qa | lia]. }
      set (s4 := ib s3 old a) in *.
      assert (N4 : nxt s3 <= nxt s4) by apply G4.
      assert (G5 : good lo s4 (mf s4 dst a)).
      { apply Hmf; [apply (good_ok _ _ _ G4) | |].
        - destruct Qd as (Hd & ? & ?). split; auto. split; [lia | auto].
        - eapply own_mono; [apply Qa | lia]. }
      set (s5 := mf s4 dst a) in *.
      assert (N5 : nxt s4 <= nxt s5) by apply G5.
      assert (G6 : good lo s5 (ia s5 old dst)).
      { apply Hia; [apply (good_ok _ _ _ G5) | destruct Qold; lia | apply Qold |].
        eapply own_mono; [apply Qd | lia]. }
      set (s6 := ia s5 old dst) in *.
      assert (N6 : nxt s5 <= nxt s6) by apply G6.
      assert (Ldst : libtag (nxt s6) dst) by (destruct Qd as (? & ? & _); split; auto; lia).
      assert (Lold : libtag (nxt s6) old) by (eapply libtag_mono; [apply Qold | lia]).
      destruct (publish_events_good lo n (subsc st) s6
                  (if collection st && negb created then [old; dst] else [dst]) (good_ok _ _ _ G6)) as [G7 Q7].
      { intros v Hv. destruct (collection st && negb created); simpl in Hv; intuition (subst; auto). }
      destruct (publish_events n s6 (subsc st) _) as [s7 evs] eqn:E7. simpl in G7, Q7.
      assert (N7 : nxt s6 <= nxt s7) by apply G7.
      assert (Gall : good lo (hs st) s7).
      { eapply good_trans; [exact G1|]. eapply good_trans; [exact G2|]. eapply good_trans; [exact G3|].
        eapply good_trans; [exact G4|]. eapply good_trans; [exact G5|]. eapply good_trans; [exact G6|]. exact G7. }
      apply Hfin with (l := (if vis then [a] else []) ++ [dst] ++ evs); auto.
      * intros id' t Hin. apply In_fins in Hin. destruct Hin as [Hin|Hin].
        -- inversion Hin. subst. eapply libtag_mono; eauto.
        -- eapply Hstore; eauto.
      * apply Forall_app. split.
        -- eapply Forall_impl; [|apply Harg]. intros x [A B]. split; auto. lia.
        -- constructor; [split; [destruct Ldst; lia | left; apply Ldst]|].
           eapply Forall_impl; [|apply Q7]. intros x [A B]. split; auto. }
  destruct o as [id arg vis um m ib ia|id|id rm|rm|rm uo hook|k|rf|id arg vis mf m ib ia]; simpl.
  - (* write *)
    destruct Hop as (Hwf & Hib & Hia). apply Hwrite; auto. apply wb_merge_upd.
  - (* delete *)
    destruct (fget id (store st)) as [t|] eqn:Ef.
    + assert (Lt : libtag (nxt (hs st)) t) by (eapply Hst; eapply In_fget; eauto).
      destruct (publish_events_good lo n (subsc st) (hs st) [t] Hh) as [G Q].
      { intros v [<-|[]]; auto. }
      destruct (publish_events n (hs st) (subsc st) [t]) as [s1 evs] eqn:E. simpl in G, Q.
      apply Hfin with (l := [t] ++ evs); auto.
      * intros id' t' Hin. eapply Hstore; eauto. eapply In_filter_sub; eauto.
      * constructor; [split; [destruct Lt; destruct G as (_ & ? & _); fold lo in H0; lia | left; apply Lt]|].
        eapply Forall_impl; [|apply Q]. intros x [A B]. split; auto.
    + exact Hnop.
  - (* get *)
    destruct (fget id (store st)) as [t|] eqn:Ef.
    + assert (Lt : libtag (nxt (hs st)) t) by (eapply Hst; eapply In_fget; eauto).
      destruct (filter_clone_good lo n (hs st) t rm Hh) as (G & A & B); [apply Lt|].
      destruct (filter_clone n (hs st) t rm) as [s1 r] eqn:E. simpl in G, A, B.
      apply Hfin with (l := [r]); auto.
      * intros; eapply Hstore; eauto.
      * constructor; [|constructor]. split; auto. left. apply B. apply Lt.
    + exact Hnop.
  - (* list *)
    destruct (smap_good_b lo lo (fun s p => filter_clone n s (snd p) rm) libtag
                (fun p : Z * tag => libtag lo (snd p))) with (l := store st) (s := hs st) as [G Q]; auto; try (unfold lo; lia).
    { intros nx nx' y H H'. eapply libtag_mono; eauto. }
    { intros s0 p H0 Hb [A B]. destruct (filter_clone_good lo n s0 (snd p) rm H0) as (G & C & D); [lia|].
      split; auto. split; auto. }
    { intros [id t] Hin. simpl. eapply Hst; eauto. }
    destruct (smap _ (hs st) (store st)) as [s1 rs] eqn:E. simpl in G, Q.
    apply Hfin with (l := rs); auto.
    + intros; eapply Hstore; eauto.
    + eapply Forall_impl; [|apply Q]. intros x [A B]. split; auto.
  - (* pull *)
    destruct uo.
    + apply Hfin with (l := []); [apply good_refl; auto | intros; eapply Hst; eauto | rewrite app_nil_r; auto | constructor].
    + destruct (smap_good_b lo lo (fun s p => let '(s', r) := filter_clone n s (snd p) rm in hook s' r) libtag
                  (fun p : Z * tag => libtag lo (snd p))) with (l := store st) (s := hs st) as [G Q]; auto; try (unfold lo; lia).
      { intros nx nx' y H H'. eapply libtag_mono; eauto. }
      { intros s0 p H0 Hb [A B]. destruct (filter_clone_good lo n s0 (snd p) rm H0) as (G & C & D); [lia|].
        destruct (filter_clone n s0 (snd p) rm) as [s' r] eqn:Ef. simpl in G, C, D.
        destruct (Hop lo s' r (good_ok _ _ _ G) C (D A)) as (G' & C' & D').
        destruct (hook s' r) as [s'' r'] eqn:Eh. simpl in *.
        split; [eapply good_trans; eauto|]. split; auto. }
      { intros [id t] Hin. simpl. eapply Hst; eauto. }
      destruct (smap _ (hs st) (store st)) as [s1 rs] eqn:E. simpl in G, Q.
      apply Hfin with (l := rs); auto.
      * intros; eapply Hstore; eauto.
      * eapply Forall_impl; [|apply Q]. intros x [A B]. split; auto.
  - (* the caller rewrites an argument *)
    destruct (nth_error (filter (fun t => owner_eqb (fst t) Caller) (snaps st)) k) as [a|] eqn:Ek.
    + apply nth_error_In in Ek. apply filter_In in Ek. destruct Ek as [Hin Ho]. apply owner_eqb_eq in Ho.
      assert (G : good lo (hs st) (scramble n (hs st) a)).
      { apply scramble_good; auto. split; auto. split; [apply Hsn; auto | intro; discriminate]. }
      apply Hfin with (l := []); [exact G | intros; eapply Hstore; eauto | rewrite app_nil_r; auto | constructor].
    + exact Hnop.
  - (* a model-level read *)
    destruct (Hop (hs st) (map snd (store st)) Hh) as (H1 & H2 & H3).
    { intros t Ht. apply in_map_iff in Ht. destruct Ht as ([id t'] & <- & Hin). eapply Hst; eauto. }
    destruct (rf (hs st) (map snd (store st))) as [s1 rs] eqn:E. cbn [fst snd] in *.
    split; [exact H2|]. split.
    + split; [exact H1|]. split; cbn [hs store snaps].
      * intros id t Hin. eapply libtag_mono; [eapply Hst; eauto | apply H2].
      * intros t Ht. apply in_app_iff in Ht. destruct Ht as [Ht|Ht].
        -- specialize (Hsn t Ht). destruct H2 as [? _]. lia.
        -- rewrite Forall_forall in H3. apply (H3 t Ht).
    + exists rs. split; auto. eapply Forall_impl; [|apply H3]. intros a [A _]. left; exact A.
  - (* write with any well-behaved merge step *)
    destruct Hop as (Hwf & Hmf & Hib & Hia). apply Hwrite; auto.
Qed.

(* ---------- whole histories ---------- *)
Lemma run_app n : forall pre st post, run n st (pre ++ post) = run n (run n st pre) post.
Proof. induction pre as [|o pre IH]; intros; simpl; auto. Qed.

Lemma run_inv n : forall ops st, inv st -> Forall op_ok ops -> inv (run n st ops).
Proof.
  induction ops as [|o ops IH]; intros st Hi Hok; simpl; auto.
  inversion Hok; subst. apply IH; auto. apply step_good; auto.
Qed.

(* no library object that exists now is ever written by any later operation *)
Lemma run_lib_stable n : forall ops st, inv st -> Forall op_ok ops ->
  nxt (hs st) <= nxt (hs (run n st ops)) /\
  forall t, fst t = Lib -> snd t < nxt (hs st) ->
            lookup (hp (hs (run n st ops))) t = lookup (hp (hs st)) t.
Proof.
  induction ops as [|o ops IH]; intros st Hi Hok; simpl; [split; [lia | auto]|].
  inversion Hok; subst.
  destruct (step_good n st o Hi H1) as ((N & F) & Hi' & _).
  destruct (IH _ Hi' H2) as [N' F']. split; [lia|].
  intros t Ht Hl. rewrite F'; auto. lia.
Qed.

Lemma run_snaps_prefix n : forall ops st, exists l, snaps (run n st ops) = snaps st ++ l.
Proof.
  induction ops as [|o ops IH]; intros st; simpl; [exists []; rewrite app_nil_r; auto|].
  destruct (IH (step n st o)) as [l Hl].
  assert (exists l0, snaps (step n st o) = snaps st ++ l0) as [l0 H0].
  { assert (Hw : forall id arg vis mf m ib ia, exists l0, snaps (write_step n st id arg vis mf m ib ia) = snaps st ++ l0).
    { intros. unfold write_step.
      destruct (alloc_arg (hs st) arg) as [s1 a]. destruct (write_fails st id m); [eexists; reflexivity|].
      destruct (match fget id (store st) with Some t => (s1, t, false) | None => let '(s', t) := halloc s1 Lib empty_node in (s', t, true) end) as [[s2 old] created].
      destruct (clone n Lib s2 old) as [s3 dst]. destruct (publish_events _ _ _ _) as [s7 evs]. eexists; reflexivity. }
    destruct o; simpl.
    - apply Hw.
    - destruct (fget id (store st)); [destruct (publish_events _ _ _ _); eexists; reflexivity | exists []; rewrite app_nil_r; auto].
    - destruct (fget id (store st)); [destruct (filter_clone _ _ _ _); eexists; reflexivity | exists []; rewrite app_nil_r; auto].
    - destruct (smap _ _ _). eexists; reflexivity.
    - destruct updates_only; [exists []; rewrite app_nil_r; auto | destruct (smap _ _ _); eexists; reflexivity].
    - destruct (nth_error _ k); exists []; rewrite app_nil_r; auto.
    - destruct (rf _ _). eexists; reflexivity.
    - apply Hw. }
  rewrite Hl, H0, <- app_assoc. eexists; reflexivity.
Qed.

(* ---------- reachability ---------- *)
Inductive reach (h : heap) : tag -> tag -> Prop :=
| reach_refl t : reach h t t
| reach_step t u c v : reach h t u -> lookup h u = Some c -> In v (refs c) -> reach h t v.

Lemma reach_owner lo s t u : heap_ok lo s -> reach (hp s) t u -> fst u = fst t.
Proof.
  intros Hs H. induction H as [|t u c v _ IH Hl Hv]; auto.
  destruct (heap_ok_cell _ _ _ _ Hs Hl) as [_ B]. destruct (B v Hv) as (_ & E & _). congruence.
Qed.

Lemma reach_lib_old s t u : heap_ok (nxt s) s -> fst t = Lib -> snd t < nxt s ->
  reach (hp s) t u -> fst u = Lib /\ snd u < nxt s.
Proof.
  intros Hs Ht Hl H. induction H as [|t u c v _ IH Hlk Hv]; auto.
  destruct (IH Ht Hl) as [A B].
  destruct (heap_ok_cell _ _ _ _ Hs Hlk) as [_ C]. destruct (C v Hv) as (D & E & F). split; [congruence | lia].
Qed.

(* ---------- reading a frozen tree ---------- *)
Lemma list_eqb_refl_in {A} (e : A -> A -> bool) l : (forall x, In x l -> e x x = true) -> list_eqb e l l = true.
Proof.
  induction l as [|x l IH]; simpl; auto. intro H. rewrite H by auto. simpl. apply IH. intros; apply H; auto.
Qed.

Lemma zz_eqb_refl p : zz_eqb p p = true.
Proof. unfold zz_eqb. rewrite !Z.eqb_refl. reflexivity. Qed.

Lemma same_frame lo s h' : heap_ok lo s ->
  (forall t, fst t = Lib -> snd t < lo -> lookup h' t = lookup (hp s) t) ->
  forall k t, fst t = Lib -> snd t < lo -> same k (hp s) h' t t = true.
Proof.
  intros Hs Hf. induction k as [|k IH]; intros t Ht Hl; simpl; auto.
  rewrite (Hf t Ht Hl). destruct (lookup (hp s) t) as [[sc subs reps|sl]|] eqn:E; auto.
  destruct (heap_ok_cell _ _ _ _ Hs E) as [_ B].
  assert (Hold : forall u, In u (refs (CNode sc subs reps)) -> fst u = Lib /\ snd u < lo).
  { intros u Hu. destruct (B u Hu) as (_ & C & D). split; [congruence|]. apply D; auto. }
  rewrite !andb_true_iff. repeat split.
  - apply list_eqb_refl_in. intros; apply zz_eqb_refl.
  - apply list_eqb_refl_in. intros [f u] Hin. simpl. rewrite Z.eqb_refl. simpl.
    destruct (Hold u) as [A C]; [apply In_refs_node; left; eauto|]. apply IH; auto.
  - apply list_eqb_refl_in. intros [f [a len]] Hin. simpl. rewrite Z.eqb_refl. simpl.
    destruct (Hold a) as [A C]; [apply In_refs_node; right; eauto|].
    unfold arr_slots. rewrite (Hf a A C).
    destruct (lookup (hp s) a) as [[|sl]|] eqn:Ea; auto.
    apply list_eqb_refl_in. intros e He.
    destruct (heap_ok_cell _ _ _ _ Hs Ea) as [_ Ba].
    destruct (Ba e (In_firstn _ _ _ He)) as (_ & C1 & D1). apply IH; [congruence|]. apply D1; auto; congruence.
Qed.

(* ---------- the three theorems ---------- *)
Definition frozen (h h' : heap) (p : tag) : Prop := forall u, reach h p u -> lookup h' u = lookup h u.

Theorem published_frozen n ops st pre post :
  inv st -> Forall op_ok ops -> ops = pre ++ post ->
  forall p, In p (snaps (run n st pre)) -> fst p = Lib ->
    In p (snaps (run n st ops)) /\
    frozen (hp (hs (run n st pre))) (hp (hs (run n st ops))) p /\
    forall k, same k (hp (hs (run n st pre))) (hp (hs (run n st ops))) p p = true.
Proof.
  intros Hi Hok -> p Hp HL. apply Forall_app in Hok. destruct Hok as [Hpre Hpost].
  rewrite run_app. set (st1 := run n st pre) in *.
  assert (Hi1 : inv st1) by (apply run_inv; auto).
  destruct (run_lib_stable n post st1 Hi1 Hpost) as [N F].
  assert (Hlt : snd p < nxt (hs st1)) by (apply Hi1; auto).
  split; [|split].
  - destruct (run_snaps_prefix n post st1) as [l ->]. apply in_app_iff; auto.
  - intros u Hu. destruct (reach_lib_old _ _ _ (proj1 Hi1) HL Hlt Hu). apply F; auto.
  - intro k. apply (same_frame (nxt (hs st1)) (hs st1)); auto. apply Hi1.
Qed.

Theorem caller_message_not_retained n ops st :
  inv st -> Forall op_ok ops ->
  let st' := run n st ops in
  forall r a u, (In r (map snd (store st')) \/ (In r (snaps st') /\ fst r = Lib)) -> fst a = Caller ->
    reach (hp (hs st')) r u -> reach (hp (hs st')) a u -> False.
Proof.
  intros Hi Hok st' r a u Hr Ha Hru Hau.
  assert (Hi' : inv st') by (apply run_inv; auto).
  assert (HrL : fst r = Lib).
  { destruct Hr as [Hr|[_ Hr]]; auto. apply in_map_iff in Hr. destruct Hr as ([id t] & <- & Hin).
    apply (proj1 (proj2 Hi')) in Hin. apply Hin. }
  apply (reach_owner _ _ _ _ (proj1 Hi')) in Hru, Hau. congruence.
Qed.

(* reads: nothing that existed before the read is written, whoever owns it *)
Definition only_allocs (s s' : hst) : Prop :=
  nxt s <= nxt s' /\ forall u, snd u < nxt s -> lookup (hp s') u = lookup (hp s) u.

Lemma oa_refl s : only_allocs s s.
Proof. split; [lia | auto]. Qed.
Lemma oa_trans s1 s2 s3 : only_allocs s1 s2 -> only_allocs s2 s3 -> only_allocs s1 s3.
Proof. intros [A B] [C D]. split; [lia|]. intros u Hu. rewrite D, B; auto. lia. Qed.

Local Transparent halloc clone filter_clone.

Lemma oa_alloc s o c : only_allocs s (fst (halloc s o c)) /\ snd (halloc s o c) = (o, nxt s).
Proof.
  unfold halloc. cbn [fst snd hp nxt]. split; [|reflexivity]. split; cbn [fst snd hp nxt]; [lia|].
  intros u Hu. rewrite lookup_cons. destruct (tag_eqb (o, nxt s) u) eqn:E; auto.
  apply tag_eqb_eq in E. subst u. simpl in Hu. lia.
Qed.

Local Opaque halloc.

Lemma oa_write_fresh s0 s t c : only_allocs s0 s -> nxt s0 <= snd t -> only_allocs s0 (hwrite s t c).
Proof.
  intros [A B] Ht. split; [exact A|]. intros u Hu. unfold hwrite. cbn [hp]. rewrite lookup_cons.
  destruct (tag_eqb t u) eqn:E; auto. apply tag_eqb_eq in E. subst u. lia.
Qed.

Lemma smap_oa {A B} (f : hst -> A -> hst * B) :
  (forall s x, only_allocs s (fst (f s x))) -> forall l s, only_allocs s (fst (smap f s l)).
Proof.
  intros Hf. induction l as [|x l IH]; intros s; simpl; [apply oa_refl|].
  pose proof (Hf s x) as H1. destruct (f s x) as [s1 y]. pose proof (IH s1) as H2.
  destruct (smap f s1 l) as [s2 ys]. simpl in *. eapply oa_trans; eauto.
Qed.

Lemma clone_oa o : forall n s t, only_allocs s (fst (clone n o s t)) /\ nxt s <= snd (snd (clone n o s t)).
Proof.
  induction n as [|n IH]; intros s t.
  - simpl. destruct (oa_alloc s o empty_node) as [A ->]. split; [exact A | simpl; lia].
  - simpl. destruct (lookup (hp s) t) as [[sc subs reps|sl]|];
      try (destruct (oa_alloc s o empty_node) as [A ->]; split; [exact A | simpl; lia]).
    assert (H1 : only_allocs s (fst (smap (fun s (p : Z * tag) => let '(s', c) := clone n o s (snd p) in (s', (fst p, c))) s subs))).
    { apply smap_oa. intros s0 x. destruct (IH s0 (snd x)) as [H _]. destruct (clone n o s0 (snd x)). exact H. }
    destruct (smap _ s subs) as [s1 subs']. simpl in H1.
    assert (H2 : only_allocs s1 (fst (smap (fun s (r : Z * (tag * Z)) =>
                    let '(s', els') := smap (clone n o) s (elems s (fst (snd r)) (snd (snd r))) in
                    let '(s'', a') := halloc s' o (CArr els') in
                    (s'', (fst r, (a', zlen els')))) s1 reps))).
    { apply smap_oa. intros s0 r.
      pose proof (smap_oa (clone n o) (fun s x => proj1 (IH s x)) (elems s0 (fst (snd r)) (snd (snd r))) s0) as Ha.
      destruct (smap (clone n o) s0 _) as [s' els']. simpl in Ha.
      destruct (oa_alloc s' o (CArr els')) as [Hb _]. destruct (halloc s' o (CArr els')) as [s'' a']. simpl in *.
      eapply oa_trans; eauto. }
    destruct (smap _ s1 reps) as [s2 reps']. simpl in H2.
    destruct (oa_alloc s2 o (CNode sc subs' reps')) as [H3 E3]. rewrite E3. simpl.
    split; [eapply oa_trans; [eapply oa_trans|]; eauto|]. destruct H1, H2. lia.
Qed.

Lemma keep_top_oa s0 s t fs : only_allocs s0 s -> nxt s0 <= snd t -> only_allocs s0 (keep_top s t fs).
Proof.
  intros H Ht. unfold keep_top. destruct (lookup (hp s) t) as [[sc subs reps|?]|]; auto.
  apply oa_write_fresh; auto.
Qed.

Lemma filter_clone_oa n s t rm : only_allocs s (fst (filter_clone n s t rm)).
Proof.
  unfold filter_clone. destruct rm as [fs|]; simpl; [|apply oa_refl].
  destruct (clone_oa Lib n s t) as [A B]. destruct (clone n Lib s t) as [s1 c]. simpl in *.
  apply keep_top_oa; auto.
Qed.

Definition pure_hook (h : sfun) : Prop := forall s t, only_allocs s (fst (h s t)).

Lemma pure_seed_id : pure_hook seed_id.
Proof. intros s t. apply oa_refl. Qed.

Lemma pure_seed_clear n fs : pure_hook (seed_clear n fs).
Proof.
  intros s t. unfold seed_clear. destruct (clone_oa Lib n s t) as [A B]. destruct (clone n Lib s t) as [s1 c]. simpl in *.
  unfold clear_fields. destruct (lookup (hp s1) c) as [[sc subs reps|?]|]; auto. apply oa_write_fresh; auto.
Qed.

Definition pure_read (rf : rfun) : Prop := forall s ts, only_allocs s (fst (rf s ts)).

Definition is_read_op (o : op) : Prop :=
  match o with OGet _ _ | OList _ => True | OPull _ _ h => pure_hook h | ORead rf => pure_read rf | _ => False end.

Theorem reads_pure n st o : is_read_op o ->
  store (step n st o) = store st /\ only_allocs (hs st) (hs (step n st o)).
Proof.
  destruct o as [| |id rm|rm|rm uo hook| |rf|]; simpl; try tauto; intros Hr.
  - destruct (fget id (store st)); [|split; [auto | apply oa_refl]].
    pose proof (filter_clone_oa n (hs st) t rm) as H. destruct (filter_clone n (hs st) t rm). simpl in *. auto.
  - pose proof (smap_oa (fun s p => filter_clone n s (snd p) rm) (fun s x => filter_clone_oa n s (snd x) rm) (store st) (hs st)) as H.
    destruct (smap _ (hs st) (store st)). simpl in *. auto.
  - destruct uo; [split; [auto | apply oa_refl]|].
    assert (H : only_allocs (hs st) (fst (smap (fun s (p : Z * tag) => let '(s', r) := filter_clone n s (snd p) rm in hook s' r) (hs st) (store st)))).
    { apply smap_oa. intros s x. pose proof (filter_clone_oa n s (snd x) rm) as A.
      destruct (filter_clone n s (snd x) rm) as [s' r]. simpl in A.
      pose proof (Hr s' r) as B. destruct (hook s' r). simpl in *. eapply oa_trans; eauto. }
    destruct (smap _ (hs st) (store st)). simpl in *. auto.
  - pose proof (Hr (hs st) (map snd (store st))) as H. destruct (rf _ _). simpl in *. auto.
Qed.
