(* Proofs about the tagged-heap model of Alias/Owned.v.

   Discipline ("good" extension of the heap during one API operation that started when the
   allocation counter was lo):
     - only objects that are caller-owned, or were allocated by the library during this very
       operation (number >= lo), are written;
     - every object references objects of its own owner only, below the allocation counter;
       library objects of this operation reference only library objects of this operation,
       older library objects only older ones.
   Everything the library does on the write path (clone, merge, mask filtering on the caller's
   message, pruning) and on the read path follows the discipline; an interceptor is
   "well-behaved" iff it does too.  Under it no library object of an earlier operation is ever
   written again, which is what keeps every published message constant. *)
From SC Require Import Base.Prelude Alias.Owned.

Local Open Scope Z_scope.
Local Arguments halloc : simpl never.
Local Arguments hwrite : simpl never.

(* ---------- tags, lookup ---------- *)
Lemma owner_eqb_eq a b : owner_eqb a b = true <-> a = b.
Proof. destruct a, b; simpl; split; intro H; try reflexivity; discriminate. Qed.

Lemma tag_eqb_eq a b : tag_eqb a b = true <-> a = b.
Proof.
  destruct a as [oa na], b as [ob nb]. unfold tag_eqb. simpl.
  rewrite andb_true_iff, owner_eqb_eq, Z.eqb_eq. split.
  - intros [-> ->]. reflexivity.
  - intro H. inversion H. auto.
Qed.

Lemma tag_eqb_refl a : tag_eqb a a = true.
Proof. apply tag_eqb_eq. reflexivity. Qed.

Lemma tag_eqb_neq a b : a <> b -> tag_eqb a b = false.
Proof. intro H. destruct (tag_eqb a b) eqn:E; [apply tag_eqb_eq in E; contradiction | reflexivity]. Qed.

Lemma lookup_cons t c h u :
  lookup ((t, c) :: h) u = if tag_eqb t u then Some c else lookup h u.
Proof. reflexivity. Qed.

(* ---------- the discipline ---------- *)
Definition writable (lo : Z) (t : tag) : Prop := fst t = Caller \/ lo <= snd t.

Definition ref_ok (lo nx : Z) (t u : tag) : Prop :=
  snd u < nx /\ fst u = fst t /\
  (fst t = Lib -> (snd t < lo -> snd u < lo) /\ (lo <= snd t -> lo <= snd u)).

Definition cell_ok (lo nx : Z) (t : tag) (c : cell) : Prop :=
  snd t < nx /\ forall u, In u (refs c) -> ref_ok lo nx t u.

Definition heap_ok (lo : Z) (s : hst) : Prop :=
  lo <= nxt s /\ forall t c, lookup (hp s) t = Some c -> cell_ok lo (nxt s) t c.

(* an object of owner o that an operation started at lo may write and link freely *)
Definition own (lo nx : Z) (o : owner) (u : tag) : Prop :=
  fst u = o /\ snd u < nx /\ (o = Lib -> lo <= snd u).

Definition good (lo : Z) (s s' : hst) : Prop :=
  heap_ok lo s' /\ nxt s <= nxt s' /\
  forall t, fst t = Lib -> snd t < lo -> lookup (hp s') t = lookup (hp s) t.

Lemma own_writable lo nx o u : own lo nx o u -> writable lo u.
Proof. intros (Ho & _ & Hl). destruct o; [right; auto | left; auto]. Qed.

Lemma own_mono lo nx nx' o u : own lo nx o u -> nx <= nx' -> own lo nx' o u.
Proof. intros (A & B & C) H. repeat split; auto; lia. Qed.

Lemma ref_ok_of_own lo nx o t u :
  fst t = o -> writable lo t -> own lo nx o u -> ref_ok lo nx t u.
Proof.
  intros Ht Hw (Hu & Hn & Hl). split; [auto|]. split; [congruence|].
  intros HL. split.
  - intros Hlt. destruct Hw as [Hc | Hge]; [congruence | lia].
  - intros _. apply Hl. congruence.
Qed.

Lemma own_of_ref_ok lo nx o t u :
  fst t = o -> writable lo t -> ref_ok lo nx t u -> own lo nx o u.
Proof.
  intros Ht Hw (Hn & Hu & Hl). split; [congruence|]. split; [auto|].
  intros Ho. destruct Hw as [Hc | Hge]; [congruence|]. apply Hl; [congruence | auto].
Qed.

Lemma ref_ok_mono lo nx nx' t u : ref_ok lo nx t u -> nx <= nx' -> ref_ok lo nx' t u.
Proof. intros (A & B & C) H. split; [lia|]. split; auto. Qed.

Lemma cell_ok_mono lo nx nx' t c : cell_ok lo nx t c -> nx <= nx' -> cell_ok lo nx' t c.
Proof. intros [A B] H. split; [lia|]. intros u Hu. eapply ref_ok_mono; eauto. Qed.

Lemma good_refl lo s : heap_ok lo s -> good lo s s.
Proof. intro H. split; [exact H|]. split; [lia | auto]. Qed.

Lemma good_trans lo s1 s2 s3 : good lo s1 s2 -> good lo s2 s3 -> good lo s1 s3.
Proof.
  intros (A1 & B1 & C1) (A2 & B2 & C2). split; [exact A2|]. split; [lia|].
  intros t Ht Hl. rewrite C2, C1; auto.
Qed.

Lemma good_ok lo s s' : good lo s s' -> heap_ok lo s'.
Proof. intros H; apply H. Qed.

Lemma good_write lo s t c :
  heap_ok lo s -> writable lo t -> cell_ok lo (nxt s) t c -> good lo s (hwrite s t c).
Proof.
  intros [Hlo Hok] Hw Hc. unfold hwrite. split; [split|split]; cbn [hp nxt]; auto; try lia.
  - intros u cu. rewrite lookup_cons. destruct (tag_eqb t u) eqn:E.
    + apply tag_eqb_eq in E. subst u. intro H. inversion H. subst. apply Hc.
    + intro H. apply (Hok u cu H).
  - intros u Hu Hl. rewrite lookup_cons. destruct (tag_eqb t u) eqn:E; auto.
    apply tag_eqb_eq in E. subst u. destruct Hw as [Hc' | Hge]; [congruence | lia].
Qed.

Lemma good_write_own lo s o t c :
  heap_ok lo s -> own lo (nxt s) o t ->
  (forall u, In u (refs c) -> own lo (nxt s) o u) -> good lo s (hwrite s t c).
Proof.
  intros H Ht Hr. apply good_write; auto.
  - eapply own_writable; eauto.
  - split; [apply Ht|]. intros u Hu. eapply ref_ok_of_own; [apply Ht | eapply own_writable; eauto | apply Hr; auto].
Qed.

Lemma good_alloc lo s o c :
  heap_ok lo s -> (forall u, In u (refs c) -> own lo (nxt s) o u) ->
  good lo s (fst (halloc s o c)) /\ own lo (nxt (fst (halloc s o c))) o (snd (halloc s o c)).
Proof.
  intros [Hlo Hok] Hr. unfold halloc. cbn [fst snd hp nxt]. split.
  - split; [split|split]; cbn [fst snd hp nxt]; try lia.
    + intros u cu. rewrite lookup_cons. destruct (tag_eqb (o, nxt s) u) eqn:E.
      * apply tag_eqb_eq in E. subst u. intro H. inversion H. subst. split; [simpl; lia|]. intros v Hv.
        eapply ref_ok_of_own; [reflexivity | | eapply own_mono; [apply Hr; auto | lia]].
        right. simpl. lia.
      * intro H. eapply cell_ok_mono; [apply (Hok u cu H) | lia].
    + intros u Hu Hl. rewrite lookup_cons. destruct (tag_eqb (o, nxt s) u) eqn:E; auto.
      apply tag_eqb_eq in E. subst u. simpl in Hl. lia.
  - split; [reflexivity|]. split; simpl; [lia | intros; lia].
Qed.

Global Opaque halloc.

Lemma heap_ok_cell lo s t c : heap_ok lo s -> lookup (hp s) t = Some c -> cell_ok lo (nxt s) t c.
Proof. intros [_ H]. apply H. Qed.

(* references of an owned object are owned *)
Lemma own_refs lo s o t c u :
  heap_ok lo s -> own lo (nxt s) o t -> lookup (hp s) t = Some c -> In u (refs c) -> own lo (nxt s) o u.
Proof.
  intros H Ht Hl Hu. destruct (heap_ok_cell _ _ _ _ H Hl) as [_ B].
  eapply own_of_ref_ok; [apply Ht | eapply own_writable; eauto | apply B; auto].
Qed.

Lemma In_firstn {A} (n : nat) (l : list A) x : In x (firstn n l) -> In x l.
Proof. revert l. induction n; intros [|y l]; simpl; auto; try tauto. intros [H|H]; auto. Qed.

Lemma In_skipn {A} (n : nat) (l : list A) x : In x (skipn n l) -> In x l.
Proof. revert l. induction n; intros [|y l]; simpl; auto. Qed.

Lemma own_elems lo s o a len e :
  heap_ok lo s -> own lo (nxt s) o a -> In e (elems s a len) -> own lo (nxt s) o e.
Proof.
  intros H Ha He. unfold elems in He. destruct (lookup (hp s) a) as [[|sl]|] eqn:E; simpl in He; try tauto.
  eapply own_refs; eauto. simpl. eapply In_firstn; eauto.
Qed.

(* ---------- field maps ---------- *)
Lemma In_fins {A} f (x : A) l g y : In (g, y) (fins f x l) -> (g, y) = (f, x) \/ In (g, y) l.
Proof.
  induction l as [|[h z] l IH]; simpl.
  - intros [H|[]]; auto.
  - destruct (h =? f); [|destruct (f <? h)]; simpl; intros H.
    + destruct H; auto.
    + destruct H as [H|[H|H]]; auto.
    + destruct H as [H|H]; auto. destruct (IH H); auto.
Qed.

Lemma In_fget {A} f (l : list (Z * A)) x : fget f l = Some x -> In (f, x) l.
Proof.
  induction l as [|[g y] l IH]; simpl; [discriminate|].
  destruct (Z.eqb_spec g f).
  - intro H. inversion H. subst. auto.
  - intro H. auto.
Qed.

Lemma In_filter_sub {A} (p : A -> bool) l x : In x (filter p l) -> In x l.
Proof. intro H. apply filter_In in H. tauto. Qed.

Lemma In_set_rep f a len reps g y :
  In (g, y) (set_rep f a len reps) -> (g, y) = (f, (a, len)) \/ In (g, y) reps.
Proof.
  unfold set_rep. destruct (len <=? 0).
  - intro H. right. eapply In_filter_sub; eauto.
  - apply In_fins.
Qed.

(* refs of a node in terms of its field maps *)
Lemma In_refs_node sc subs reps u :
  In u (refs (CNode sc subs reps)) <->
  (exists f, In (f, u) subs) \/ (exists f len, In (f, (u, len)) reps).
Proof.
  simpl. rewrite in_app_iff, !in_map_iff. split.
  - intros [[[f v] [E H]]|[[f [v len]] [E H]]]; simpl in E; subst; [left|right]; eauto.
  - intros [[f H]|[f [len H]]]; [left; exists (f, u)|right; exists (f, (u, len))]; auto.
Qed.

(* ---------- smap ---------- *)
Lemma smap_good {A B} lo (f : hst -> A -> hst * B) (Q : Z -> B -> Prop) (P : A -> Prop) :
  (forall nx nx' y, Q nx y -> nx <= nx' -> Q nx' y) ->
  (forall s x, heap_ok lo s -> P x -> good lo s (fst (f s x)) /\ Q (nxt (fst (f s x))) (snd (f s x))) ->
  forall l s, heap_ok lo s -> (forall x, In x l -> P x) ->
    good lo s (fst (smap f s l)) /\ Forall (Q (nxt (fst (smap f s l)))) (snd (smap f s l)).
Proof.
  intros Qm Hf. induction l as [|x l IH]; intros s Hs HP; simpl.
  - split; [apply good_refl; auto | constructor].
  - destruct (Hf s x Hs (HP x (or_introl eq_refl))) as [G1 Q1].
    destruct (f s x) as [s1 y] eqn:E1. simpl in *.
    destruct (IH s1 (good_ok _ _ _ G1) (fun z Hz => HP z (or_intror Hz))) as [G2 Q2].
    destruct (smap f s1 l) as [s2 ys] eqn:E2. simpl in *.
    split; [eapply good_trans; eauto|].
    constructor; auto. eapply Qm; eauto. apply G2.
Qed.

(* ---------- clone ---------- *)
Lemma own_empty lo nx o : forall u, In u (refs empty_node) -> own lo nx o u.
Proof. simpl. tauto. Qed.

Lemma clone_good lo o : forall n s t, heap_ok lo s ->
  good lo s (fst (clone n o s t)) /\ own lo (nxt (fst (clone n o s t))) o (snd (clone n o s t)).
Proof.
  induction n as [|n IH]; intros s t Hs.
  - simpl. apply good_alloc; auto. apply own_empty.
  - simpl. destruct (lookup (hp s) t) as [[sc subs reps|sl]|] eqn:El;
      try (apply good_alloc; auto; apply own_empty).
    (* sub-messages *)
    pose proof (smap_good lo (fun s p => let '(s', c) := clone n o s (snd p) in (s', (fst p, c)))
                  (fun nx (y : Z * tag) => own lo nx o (snd y)) (fun _ => True)) as Hsub.
    destruct (Hsub (fun nx nx' y H H' => own_mono _ _ _ _ _ H H')
                (fun s0 x H0 _ => ltac:(destruct (IH s0 (snd x) H0) as [G Q];
                                         destruct (clone n o s0 (snd x)); simpl in *; auto))
                subs s Hs (fun _ _ => I)) as [G1 Q1].
    clear Hsub.
    destruct (smap _ s subs) as [s1 subs'] eqn:E1. simpl in G1, Q1.
    (* repeated fields *)
    pose proof (smap_good lo
                  (fun s r =>
                    let '(s', els') := smap (clone n o) s (elems s (fst (snd r)) (snd (snd r))) in
                    let '(s'', a') := halloc s' o (CArr els') in
                    (s'', (fst r, (a', zlen els'))))
                  (fun nx (y : Z * (tag * Z)) => own lo nx o (fst (snd y))) (fun _ => True)) as Hrep.
    destruct (Hrep (fun nx nx' y H H' => own_mono _ _ _ _ _ H H')) with (l := reps) (s := s1) as [G2 Q2];
      try (intros; exact I); try (apply (good_ok _ _ _ G1)).
    { intros s0 r H0 _.
      destruct (smap_good lo (clone n o) (fun nx y => own lo nx o y) (fun _ => True)
                  (fun nx nx' y H H' => own_mono _ _ _ _ _ H H')
                  (fun s x H _ => IH s x H) (elems s0 (fst (snd r)) (snd (snd r))) s0 H0 (fun _ _ => I)) as [Ga Qa].
      destruct (smap (clone n o) s0 _) as [s' els'] eqn:Ee. simpl in Ga, Qa.
      destruct (good_alloc lo s' o (CArr els') (good_ok _ _ _ Ga)) as [Gb Qb].
      { simpl. intros u Hu. rewrite Forall_forall in Qa. apply Qa; auto. }
      destruct (halloc s' o (CArr els')) as [s'' a'] eqn:Eh. simpl in *.
      split; [eapply good_trans; eauto | auto]. }
    clear Hrep.
    destruct (smap _ s1 reps) as [s2 reps'] eqn:E2. simpl in G2, Q2.
    destruct (good_alloc lo s2 o (CNode sc subs' reps') (good_ok _ _ _ G2)) as [G3 Q3].
    { intros u Hu. apply In_refs_node in Hu. rewrite Forall_forall in Q1, Q2.
      destruct Hu as [[f Hf]|[f [len Hf]]].
      - eapply own_mono; [apply (Q1 _ Hf) | apply G2].
      - apply (Q2 _ Hf). }
    split; [eapply good_trans; [eapply good_trans|]; eauto | auto].
Qed.

(* ---------- merge ---------- *)
Lemma merge_subs_good lo o (rec : hst -> tag -> tag -> hst) (cl : hst -> tag -> hst * tag) :
  (forall s d u, heap_ok lo s -> own lo (nxt s) o d -> good lo s (rec s d u)) ->
  (forall s u, heap_ok lo s -> good lo s (fst (cl s u)) /\ own lo (nxt (fst (cl s u))) o (snd (cl s u))) ->
  forall src s cur, heap_ok lo s -> (forall f d, In (f, d) cur -> own lo (nxt s) o d) ->
    good lo s (fst (merge_subs rec cl s cur src)) /\
    (forall f d, In (f, d) (snd (merge_subs rec cl s cur src)) ->
                 own lo (nxt (fst (merge_subs rec cl s cur src))) o d).
Proof.
  intros Hrec Hcl. induction src as [|[f u] src IH]; intros s cur Hs Hcur; simpl.
  - split; [apply good_refl; auto | auto].
  - destruct (fget f cur) as [d|] eqn:Ef.
    + assert (G : good lo s (rec s d u)) by (apply Hrec; auto; eapply Hcur; eapply In_fget; eauto).
      destruct (IH (rec s d u) cur (good_ok _ _ _ G)) as [G2 Q2].
      { intros g e He. eapply own_mono; [eapply Hcur; eauto | apply G]. }
      split; [eapply good_trans; eauto | auto].
    + destruct (Hcl s u Hs) as [G Q]. destruct (cl s u) as [s' c] eqn:Ec. simpl in *.
      destruct (IH s' (fins f c cur) (good_ok _ _ _ G)) as [G2 Q2].
      { intros g e He. apply In_fins in He. destruct He as [He|He].
        - inversion He. subst. auto.
        - eapply own_mono; [eapply Hcur; eauto | apply G]. }
      split; [eapply good_trans; eauto | auto].
Qed.

Lemma merge_reps_good lo o (cl : hst -> tag -> hst * tag) :
  (forall s u, heap_ok lo s -> good lo s (fst (cl s u)) /\ own lo (nxt (fst (cl s u))) o (snd (cl s u))) ->
  forall src s cur, heap_ok lo s -> (forall f a len, In (f, (a, len)) cur -> own lo (nxt s) o a) ->
    good lo s (fst (merge_reps cl o s cur src)) /\
    (forall f a len, In (f, (a, len)) (snd (merge_reps cl o s cur src)) ->
                     own lo (nxt (fst (merge_reps cl o s cur src))) o a).
Proof.
  intros Hcl. induction src as [|[f [a len]] src IH]; intros s cur Hs Hcur; simpl.
  - split; [apply good_refl; auto | auto].
  - destruct (smap_good lo cl (fun nx y => own lo nx o y) (fun _ => True)
                (fun nx nx' y H H' => own_mono _ _ _ _ _ H H')
                (fun s x H _ => Hcl s x H) (elems s a len) s Hs (fun _ _ => I)) as [G1 Q1].
    destruct (smap cl s (elems s a len)) as [s1 els'] eqn:E1. simpl in G1, Q1.
    set (old := match fget f cur with Some (da, dlen) => elems s1 da dlen | None => [] end).
    assert (Hold : forall e, In e old -> own lo (nxt s1) o e).
    { intros e He. subst old. destruct (fget f cur) as [[da dlen]|] eqn:Ef; [|destruct He].
      eapply own_elems; [apply (good_ok _ _ _ G1) | | eauto].
      eapply own_mono; [eapply Hcur; eapply In_fget; eauto | apply G1]. }
    destruct (good_alloc lo s1 o (CArr (old ++ els')) (good_ok _ _ _ G1)) as [G2 Q2].
    { simpl. intros u Hu. apply in_app_iff in Hu. destruct Hu as [Hu|Hu]; auto.
      rewrite Forall_forall in Q1. auto. }
    destruct (halloc s1 o (CArr (old ++ els'))) as [s2 a'] eqn:Eh. simpl in G2, Q2.
    destruct (IH s2 (set_rep f a' (zlen (old ++ els')) cur) (good_ok _ _ _ G2)) as [G3 Q3].
    { intros g b l Hb. apply In_set_rep in Hb. destruct Hb as [Hb|Hb].
      - inversion Hb. subst. auto.
      - eapply own_mono; [eapply Hcur; eauto|]. destruct G1 as (_ & ? & _), G2 as (_ & ? & _). lia. }
    split; [eapply good_trans; [eapply good_trans|]; eauto | auto].
Qed.

Lemma merge_good lo o : forall n s dst src, heap_ok lo s -> own lo (nxt s) o dst ->
  good lo s (merge n o s dst src).
Proof.
  induction n as [|n IH]; intros s dst src Hs Hd; simpl; [apply good_refl; auto|].
  destruct (lookup (hp s) dst) as [[dsc dsubs dreps|?]|] eqn:Ed; try (apply good_refl; auto).
  destruct (lookup (hp s) src) as [[ssc ssubs sreps|?]|] eqn:Es; try (apply good_refl; auto).
  destruct (merge_subs_good lo o (merge n o) (clone n o)
              (fun s d u H Hd' => IH s d u H Hd') (fun s u H => clone_good lo o n s u H)
              ssubs s dsubs Hs) as [G1 Q1].
  { intros f d Hf. eapply own_refs; eauto. apply In_refs_node. left; eauto. }
  destruct (merge_subs _ _ s dsubs ssubs) as [s1 subs'] eqn:E1. simpl in G1, Q1.
  destruct (merge_reps_good lo o (clone n o) (fun s u H => clone_good lo o n s u H)
              sreps s1 dreps (good_ok _ _ _ G1)) as [G2 Q2].
  { intros f a len Hf. eapply own_mono; [|apply G1].
    eapply own_refs; eauto. apply In_refs_node. right; eauto. }
  destruct (merge_reps _ o s1 dreps sreps) as [s2 reps'] eqn:E2. simpl in G2, Q2.
  assert (Hn : nxt s <= nxt s2) by (destruct G1 as (_ & ? & _), G2 as (_ & ? & _); lia).
  eapply good_trans; [eapply good_trans; eauto|].
  eapply good_write_own; [apply (good_ok _ _ _ G2) | eapply own_mono; eauto |].
  intros u Hu. apply In_refs_node in Hu. destruct Hu as [[f Hf]|[f [len Hf]]].
  - eapply own_mono; [eapply Q1; eauto | apply G2].
  - eapply Q2; eauto.
Qed.

(* ---------- rewriting an owned node with a subset of its references ---------- *)
Lemma good_shrink lo s o t c c' :
  heap_ok lo s -> own lo (nxt s) o t -> lookup (hp s) t = Some c ->
  (forall u, In u (refs c') -> In u (refs c)) -> good lo s (hwrite s t c').
Proof.
  intros Hs Ht Hl Hsub. eapply good_write_own; eauto.
  intros u Hu. eapply own_refs; eauto.
Qed.

Lemma refs_filter_sub sc sc' subs reps (p q : Z -> bool) u :
  In u (refs (CNode sc' (filter (fun x => p (fst x)) subs) (filter (fun x => q (fst x)) reps))) ->
  In u (refs (CNode sc subs reps)).
Proof.
  rewrite !In_refs_node. intros [[f H]|[f [len H]]]; [left|right].
  - exists f. eapply In_filter_sub; eauto.
  - exists f, len. eapply In_filter_sub; eauto.
Qed.

Lemma keep_top_good lo s o t fs : heap_ok lo s -> own lo (nxt s) o t -> good lo s (keep_top s t fs).
Proof.
  intros Hs Ht. unfold keep_top. destruct (lookup (hp s) t) as [[sc subs reps|?]|] eqn:E; try (apply good_refl; auto).
  eapply good_shrink; eauto. unfold fkeep. intros u.
  apply (refs_filter_sub sc _ subs reps (fun g => existsb (Z.eqb g) fs) (fun g => existsb (Z.eqb g) fs)).
Qed.

Lemma prune_top_good lo s o dst src fs : heap_ok lo s -> own lo (nxt s) o dst -> good lo s (prune_top s dst src fs).
Proof.
  intros Hs Ht. unfold prune_top.
  destruct (lookup (hp s) dst) as [[sc subs reps|?]|] eqn:E; try (apply good_refl; auto).
  destruct (lookup (hp s) src) as [csrc|]; try (apply good_refl; auto).
  eapply good_shrink; eauto. intros u.
  apply (refs_filter_sub sc _ subs reps
           (fun g => negb (existsb (Z.eqb g) fs && negb (cell_has csrc g)))
           (fun g => negb (existsb (Z.eqb g) fs && negb (cell_has csrc g)))).
Qed.

Lemma clear_fields_good lo s o t fs : heap_ok lo s -> own lo (nxt s) o t -> good lo s (clear_fields s t fs).
Proof.
  intros Hs Ht. unfold clear_fields. destruct (lookup (hp s) t) as [[sc subs reps|?]|] eqn:E; try (apply good_refl; auto).
  eapply good_shrink; eauto. intros u. rewrite !In_refs_node. intros [[f H]|[f [len H]]]; [left|right]; eauto.
  exists f. eapply In_filter_sub; eauto.
Qed.

Lemma upd_merge_good lo n s dst src um :
  heap_ok lo s -> own lo (nxt s) (fst dst) dst -> own lo (nxt s) Caller src ->
  good lo s (upd_merge n s dst src um).
Proof.
  intros Hs Hd Hsrc. unfold upd_merge. destruct um as [fs|].
  - assert (G1 : good lo s (keep_top s src fs)) by (eapply keep_top_good; eauto).
    assert (Hd1 : own lo (nxt (keep_top s src fs)) (fst dst) dst) by (eapply own_mono; [eauto | apply G1]).
    assert (G2 := merge_good lo (fst dst) n _ dst src (good_ok _ _ _ G1) Hd1).
    eapply good_trans; [eapply good_trans; eauto|].
    eapply prune_top_good; [apply (good_ok _ _ _ G2) | eapply own_mono; [eauto | apply G2]].
  - assert (G1 : good lo s (hwrite s dst empty_node)).
    { eapply good_write_own; eauto. simpl. tauto. }
    eapply good_trans; eauto. apply merge_good; [apply (good_ok _ _ _ G1) | eapply own_mono; [eauto | apply G1]].
Qed.

(* a well-behaved merge step (a predicate on arbitrary heap functions): given the destination the write
   owns and the caller's message it follows the discipline - it writes only the caller's objects and
   objects of this very operation, and never links objects of the two owners *)
Definition wb_merge (mf : mfun) : Prop :=
  forall lo s dst src, heap_ok lo s -> own lo (nxt s) Lib dst -> own lo (nxt s) Caller src ->
                       good lo s (mf s dst src).

Lemma wb_merge_upd n um : wb_merge (fun s dst src => upd_merge n s dst src um).
Proof.
  intros lo s dst src Hs Hd Hsrc. apply upd_merge_good; auto.
  destruct Hd as (Hd & ? & ?). rewrite Hd. split; auto.
Qed.

(* a tag the subscriber / reader is given: an existing one or a fresh library object *)
Definition handed (nx : Z) (t : tag) : Prop := snd t < nx.

Lemma filter_clone_good lo n s t rm : heap_ok lo s -> snd t < nxt s ->
  good lo s (fst (filter_clone n s t rm)) /\ snd (snd (filter_clone n s t rm)) < nxt (fst (filter_clone n s t rm))
  /\ (fst t = Lib -> fst (snd (filter_clone n s t rm)) = Lib).
Proof.
  intros Hs Ht. unfold filter_clone. destruct rm as [fs|]; simpl.
  - destruct (clone_good lo Lib n s t Hs) as [G Q]. destruct (clone n Lib s t) as [s1 c] eqn:E. simpl in *.
    assert (G2 : good lo s1 (keep_top s1 c fs)) by (eapply keep_top_good; [apply (good_ok _ _ _ G) | eauto]).
    split; [eapply good_trans; eauto|]. split; [|intros _; apply Q].
    destruct Q as (_ & Q & _). destruct G2 as (_ & ? & _). lia.
  - split; [apply good_refl; auto | auto].
Qed.

(* ---------- well-behaved interceptors and seed hooks ---------- *)
Definition wb_before (f : ifun) : Prop :=
  forall lo s old new, heap_ok lo s -> snd old < nxt s -> fst old = Lib -> own lo (nxt s) Caller new ->
                       good lo s (f s old new).
Definition wb_after (f : ifun) : Prop :=
  forall lo s old new, heap_ok lo s -> snd old < nxt s -> fst old = Lib -> own lo (nxt s) Lib new ->
                       good lo s (f s old new).
Definition wb_hook (h : sfun) : Prop :=
  forall lo s t, heap_ok lo s -> snd t < nxt s -> fst t = Lib ->
                 good lo s (fst (h s t)) /\ snd (snd (h s t)) < nxt (fst (h s t)) /\ fst (snd (h s t)) = Lib.

Lemma set_sc_good lo s o t f v : heap_ok lo s -> own lo (nxt s) o t -> good lo s (set_sc s t f v).
Proof.
  intros Hs Ht. unfold set_sc. destruct (lookup (hp s) t) as [[sc subs reps|?]|] eqn:E; try (apply good_refl; auto).
  eapply good_shrink; eauto.
Qed.

Lemma wb_none : wb_before i_none /\ wb_after i_none.
Proof. split; intros lo s old new Hs _ _ _; apply good_refl; auto. Qed.

Lemma wb_set_new f v : wb_before (i_set_new f v) /\ wb_after (i_set_new f v).
Proof. split; intros lo s old new Hs _ _ Hn; eapply set_sc_good; eauto. Qed.

Lemma wb_add_old f : wb_before (i_add_old f) /\ wb_after (i_add_old f).
Proof.
  split; intros lo s old new Hs _ _ Hn; unfold i_add_old; destruct (get_sc s old f);
    try (apply good_refl; auto); eapply set_sc_good; eauto.
Qed.

Lemma adj_total_good lo s o old new ft inc : heap_ok lo s -> own lo (nxt s) o new ->
  good lo s (adj_total s old new ft inc).
Proof.
  intros Hs Hn. unfold adj_total. destruct (get_sc s new ft) as [v|]; [destruct (v =? _)|];
    try (apply good_refl; auto); eapply set_sc_good; eauto.
Qed.

Lemma wb_totals a b c d e : wb_before (i_totals a b c d e) /\ wb_after (i_totals a b c d e).
Proof.
  split; intros lo s old new Hs _ _ Hn; unfold i_totals.
  - assert (G := adj_total_good lo s Caller old new b
                   (match get_sc s new a with Some d0 => d0 =? d | None => false end) Hs Hn).
    eapply good_trans; [exact G|]. eapply adj_total_good; [apply (good_ok _ _ _ G) | eapply own_mono; [eauto | apply G]].
  - assert (G := adj_total_good lo s Lib old new b
                   (match get_sc s new a with Some d0 => d0 =? d | None => false end) Hs Hn).
    eapply good_trans; [exact G|]. eapply adj_total_good; [apply (good_ok _ _ _ G) | eapply own_mono; [eauto | apply G]].
Qed.

Lemma wb_seed_id : wb_hook seed_id.
Proof. intros lo s t Hs Ht HL. simpl. split; [apply good_refl; auto | auto]. Qed.

Lemma wb_seed_clear n fs : wb_hook (seed_clear n fs).
Proof.
  intros lo s t Hs Ht HL. unfold seed_clear.
  destruct (clone_good lo Lib n s t Hs) as [G Q]. destruct (clone n Lib s t) as [s1 c] eqn:E. simpl in *.
  assert (G2 : good lo s1 (clear_fields s1 c fs)) by (eapply clear_fields_good; [apply (good_ok _ _ _ G) | eauto]).
  split; [eapply good_trans; eauto|]. split; [|apply Q].
  destruct Q as (_ & Q & _). destruct G2 as (_ & ? & _). lia.
Qed.
