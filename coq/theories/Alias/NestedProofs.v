(* Proofs about Alias/Nested.v: the in-place nested filter follows the discipline when (and only when)
   it is applied to an object the operation owns; FilterClone with any nested mask does; the assembled
   read with FilterClone is a well-behaved pure read although its response SHARES the stored messages;
   the in-place variant is not (witness in C07JudgeProofs.v) except for masks that stay on the top level. *)
From SC Require Import Base.Prelude Alias.Owned Alias.OwnedProofs Alias.LayerProofs Alias.Nested.

Local Open Scope Z_scope.
Local Arguments hwrite : simpl never.

(* the discipline, and in addition: objects of the other owner are not written *)
Definition goodx (lo : Z) (o : owner) (s s' : hst) : Prop :=
  good lo s s' /\ forall u, fst u <> o -> snd u < nxt s -> lookup (hp s') u = lookup (hp s) u.

Lemma goodx_refl lo o s : heap_ok lo s -> goodx lo o s s.
Proof. intro H. split; [apply good_refl; auto | auto]. Qed.

Lemma goodx_trans lo o s1 s2 s3 : goodx lo o s1 s2 -> goodx lo o s2 s3 -> goodx lo o s1 s3.
Proof.
  intros [A B] [C D]. split; [eapply good_trans; eauto|]. intros u Hu Hl. rewrite D, B; auto.
  destruct A as (_ & ? & _). lia.
Qed.

Lemma goodx_write lo s o t c c' :
  heap_ok lo s -> own lo (nxt s) o t -> lookup (hp s) t = Some c ->
  (forall u, In u (refs c') -> In u (refs c)) -> goodx lo o s (hwrite s t c').
Proof.
  intros Hs Ht Hl Hsub. split; [eapply good_shrink; eauto|].
  intros u Hu _. unfold hwrite. cbn [hp]. rewrite lookup_cons.
  destruct (tag_eqb t u) eqn:E; auto. apply tag_eqb_eq in E. subst u. destruct Ht as [Ht _]. congruence.
Qed.

Lemma fold_goodx {A} lo o nx0 (f : hst -> A -> hst) (P : A -> Prop) :
  (forall s x, heap_ok lo s -> nx0 <= nxt s -> P x -> goodx lo o s (f s x)) ->
  forall l s, heap_ok lo s -> nx0 <= nxt s -> (forall x, In x l -> P x) -> goodx lo o s (fold_left f l s).
Proof.
  intros Hf. induction l as [|x l IH]; intros s Hs Hb HP; simpl.
  - apply goodx_refl; auto.
  - assert (G := Hf s x Hs Hb (HP x (or_introl eq_refl))).
    eapply goodx_trans; eauto. apply IH; [apply (good_ok _ _ _ (proj1 G)) | destruct G as ((_ & ? & _) & _); lia
                                         | intros; apply HP; right; auto].
Qed.

Lemma In_fkeep {A} fs (l : list (Z * A)) x : In x (fkeep fs l) -> In x l.
Proof. unfold fkeep. apply In_filter_sub. Qed.

(* fmutils Filter with ANY nested mask on an object the operation owns: only objects of that owner,
   owned by the operation, are written *)
Lemma keep_nested_goodx lo o : forall n s t m, heap_ok lo s -> own lo (nxt s) o t ->
  goodx lo o s (keep_nested n s t m).
Proof.
  induction n as [|n IH]; intros s t m Hs Ht; simpl; [apply goodx_refl; auto|].
  destruct (nm_leaf m); [apply goodx_refl; auto|].
  destruct (lookup (hp s) t) as [[sc subs reps|?]|] eqn:E; try (apply goodx_refl; auto).
  set (fs := map fst (nm_ch m)).
  set (s1 := hwrite s t (CNode (fkeep fs sc) (fkeep fs subs) (fkeep fs reps))).
  assert (G1 : goodx lo o s s1).
  { eapply goodx_write; eauto. intros u. rewrite !In_refs_node. intros [[f H]|[f [len H]]]; [left|right].
    - exists f. eapply In_fkeep; eauto.
    - exists f, len. eapply In_fkeep; eauto. }
  assert (N1 : nxt s <= nxt s1) by apply G1.
  set (F2 := fun (s : hst) (p : Z * tag) =>
               match fget (fst p) (nm_ch m) with Some sub => keep_nested n s (snd p) sub | None => s end).
  assert (G2 : goodx lo o s1 (fold_left F2 (fkeep fs subs) s1)).
  { apply (fold_goodx lo o (nxt s) F2 (fun p : Z * tag => own lo (nxt s) o (snd p))).
    - intros s0 p H0 Hb Hp. unfold F2. destruct (fget (fst p) (nm_ch m)); [|apply goodx_refl; auto].
      apply IH; auto. eapply own_mono; eauto.
    - apply (good_ok _ _ _ (proj1 G1)).
    - exact N1.
    - intros [f u] Hf. simpl. eapply own_refs; eauto. apply In_refs_node. left. exists f. eapply In_fkeep; eauto. }
  set (s2 := fold_left F2 (fkeep fs subs) s1) in *.
  assert (N2 : nxt s1 <= nxt s2) by apply G2.
  eapply goodx_trans; [eapply goodx_trans; eauto|].
  apply (fold_goodx lo o (nxt s) _ (fun r : Z * (tag * Z) => own lo (nxt s) o (fst (snd r)))).
  - intros s0 r H0 Hb Hr. destruct (fget (fst r) (nm_ch m)) as [sub|]; [|apply goodx_refl; auto].
    apply (fold_goodx lo o (nxt s0) _ (fun e : tag => own lo (nxt s0) o e)); auto; try lia.
    + intros s' e H' Hb' He. apply IH; auto. eapply own_mono; eauto.
    + intros e He. eapply own_elems; [eauto | | eauto]. eapply own_mono; eauto.
  - apply (good_ok _ _ _ (proj1 G2)).
  - lia.
  - intros [f [a len]] Hf. simpl. eapply own_refs; eauto. apply In_refs_node. right. exists f, len. eapply In_fkeep; eauto.
Qed.

Lemma keep_nested_good lo o n s t m : heap_ok lo s -> own lo (nxt s) o t -> good lo s (keep_nested n s t m).
Proof. intros; eapply keep_nested_goodx; eauto. Qed.

(* ResponseFilter.FilterClone with any nested mask *)
Lemma filter_clone_n_goodx lo n s t rm : heap_ok lo s -> snd t < nxt s ->
  goodx lo Lib s (fst (filter_clone_n n s t rm)) /\
  snd (snd (filter_clone_n n s t rm)) < nxt (fst (filter_clone_n n s t rm)) /\
  (fst t = Lib -> fst (snd (filter_clone_n n s t rm)) = Lib).
Proof.
  intros Hs Ht. unfold filter_clone_n. destruct rm as [m|]; simpl.
  - destruct (clone_good lo Lib n s t Hs) as [G Q].
    destruct (clone_oa Lib n s t) as [[_ OA] _].
    destruct (clone n Lib s t) as [s1 c] eqn:E. simpl in *.
    assert (GX : goodx lo Lib s s1) by (split; auto).
    assert (G2 : goodx lo Lib s1 (if nm_leaf m then hwrite s1 c empty_node else keep_nested n s1 c m)).
    { destruct (nm_leaf m).
      - split.
        + eapply good_write_own; [apply (good_ok _ _ _ G) | apply Q | simpl; tauto].
        + intros u Hu _. unfold hwrite. cbn [hp]. rewrite lookup_cons.
          destruct (tag_eqb c u) eqn:Ec; auto. apply tag_eqb_eq in Ec. subst u. destruct Q as [Q _]. congruence.
      - apply keep_nested_goodx; [apply (good_ok _ _ _ G) | apply Q]. }
    destruct (nm_leaf m); simpl.
    + split; [eapply goodx_trans; eauto|]. split; [|intros _; apply Q].
      destruct Q as (_ & Q & _). destruct G2 as ((_ & ? & _) & _). lia.
    + split; [eapply goodx_trans; eauto|]. split; [|intros _; apply Q].
      destruct Q as (_ & Q & _). destruct G2 as ((_ & ? & _) & _). lia.
  - split; [apply goodx_refl; auto | auto].
Qed.

Local Transparent halloc.

(* allocating a library object that references EXISTING library objects keeps the state invariant's
   heap condition (every reference stays within one owner and below the counter) *)
Lemma alloc_shared_ok s c : heap_ok (nxt s) s -> (forall u, In u (refs c) -> libtag (nxt s) u) ->
  heap_ok (nxt (fst (halloc s Lib c))) (fst (halloc s Lib c)) /\
  only_allocs s (fst (halloc s Lib c)) /\ snd (halloc s Lib c) = (Lib, nxt s) /\
  nxt (fst (halloc s Lib c)) = nxt s + 1.
Proof.
  intros [Hlo Hok] Hr. split; [|split; [apply oa_alloc | split; [apply oa_alloc | reflexivity]]].
  unfold halloc, heap_ok. cbn [fst snd hp nxt]. split; [lia|].
  intros t c0. rewrite lookup_cons. destruct (tag_eqb (Lib, nxt s) t) eqn:E.
  - apply tag_eqb_eq in E. subst t. intro H. inversion H. subst c0. split; [simpl; lia|].
    intros u Hu. destruct (Hr u Hu) as [A B]. split; [lia|]. split; [simpl; auto|].
    intros _. split; intros; simpl in *; lia.
  - intro H. destruct (Hok t c0 H) as [A B]. split; [lia|].
    intros u Hu. destruct (B u Hu) as (C & D & F). split; [lia|]. split; auto.
    intros HL. split; intros; lia.
Qed.

Local Opaque halloc.

Lemma In_set_rep_nil f a len g y : In (g, y) (set_rep f a len []) -> y = (a, len).
Proof.
  unfold set_rep. destruct (len <=? 0); simpl; [tauto|]. intros [H|[]]. inversion H. reflexivity.
Qed.

Lemma assemble_ok s f ts : heap_ok (nxt s) s -> (forall t, In t ts -> libtag (nxt s) t) ->
  heap_ok (nxt (fst (assemble s f ts))) (fst (assemble s f ts)) /\
  only_allocs s (fst (assemble s f ts)) /\ libtag (nxt (fst (assemble s f ts))) (snd (assemble s f ts)).
Proof.
  intros Hs Hts. unfold assemble.
  destruct (alloc_shared_ok s (CArr ts) Hs Hts) as (H1 & O1 & E1 & N1).
  destruct (halloc s Lib (CArr ts)) as [s1 a]. cbn [fst snd] in *. subst a.
  assert (Hr : forall u, In u (refs (CNode [] [] (set_rep f (Lib, nxt s) (zlen ts) []))) -> libtag (nxt s1) u).
  { intros u Hu. apply In_refs_node in Hu. destruct Hu as [[g H]|[g [len H]]]; [simpl in H; tauto|].
    apply In_set_rep_nil in H. inversion H. subst. split; [reflexivity|]. simpl. lia. }
  destruct (alloc_shared_ok s1 _ H1 Hr) as (H2 & O2 & E2 & N2).
  destruct (halloc s1 Lib _) as [s2 r]. cbn [fst snd] in *. subst r.
  split; auto. split; [eapply oa_trans; eauto|]. split; [reflexivity | simpl; lia].
Qed.

(* the assembled read as the code has it: its response SHARES the stored messages when there is no
   read mask, and is a filtered deep copy otherwise; no object that existed before - library or
   caller - is written *)
Lemma r_assembled_facts n f rm s ts : heap_ok (nxt s) s -> (forall t, In t ts -> libtag (nxt s) t) ->
  heap_ok (nxt (fst (r_assembled n f rm s ts))) (fst (r_assembled n f rm s ts)) /\
  only_allocs s (fst (r_assembled n f rm s ts)) /\
  Forall (libtag (nxt (fst (r_assembled n f rm s ts)))) (snd (r_assembled n f rm s ts)).
Proof.
  intros Hs Hts. unfold r_assembled.
  destruct (assemble_ok s f ts Hs Hts) as (H1 & O1 & L1).
  destruct (assemble s f ts) as [s1 r]. cbn [fst snd] in *.
  destruct (filter_clone_n_goodx (nxt s1) n s1 r rm H1 (proj2 L1)) as ((G & X) & A & B).
  destruct (filter_clone_n n s1 r rm) as [s2 c]. cbn [fst snd] in *.
  split; [apply heap_ok_rebase with (nxt s1); apply G|]. split.
  - eapply oa_trans; [exact O1|]. destruct G as (_ & N & F). split; [exact N|].
    intros u Hu. destruct (fst u) eqn:Eo; [apply F; auto | apply X; auto; congruence].
  - constructor; [|constructor]. split; [apply B; apply L1 | exact A].
Qed.

Lemma wb_read_assembled n f rm : wb_read (r_assembled n f rm).
Proof.
  intros s ts Hs Hts. destruct (r_assembled_facts n f rm s ts Hs Hts) as (A & [N O] & C).
  split; auto. split; auto. split; auto.
Qed.

(* ... and for heaps the invariant does not describe: the only writes of the FilterClone variant go
   to objects allocated by the read itself - shown under the invariant's heap condition *)
Lemma pure_read_assembled_inv n f rm s ts : heap_ok (nxt s) s -> (forall t, In t ts -> libtag (nxt s) t) ->
  only_allocs s (fst (r_assembled n f rm s ts)).
Proof. intros Hs Hts. apply (r_assembled_facts n f rm s ts Hs Hts). Qed.

(* the in-place variant is harmless exactly when the mask stays on the top level of the response:
   then only the freshly assembled root is written *)
Definition top_only (m : nmask) : bool := forallb (fun p => nm_leaf (snd p)) (nm_ch m).

Lemma fold_id {A} (f : hst -> A -> hst) l s : (forall s x, In x l -> f s x = s) -> fold_left f l s = s.
Proof. revert s. induction l as [|x l IH]; intros s H; simpl; auto. rewrite H by (left; auto). apply IH. intros; apply H; right; auto. Qed.

Lemma fget_In {A} f (l : list (Z * A)) x : fget f l = Some x -> In (f, x) l.
Proof. apply In_fget. Qed.

Lemma keep_nested_leaf n s t m : nm_leaf m = true -> keep_nested n s t m = s.
Proof. destruct n; simpl; auto. intros ->. reflexivity. Qed.

Lemma keep_nested_top_only n s t m : top_only m = true ->
  keep_nested n s t m = s \/ exists c, keep_nested n s t m = hwrite s t c.
Proof.
  intro Ht. destruct n as [|n]; simpl; auto. destruct (nm_leaf m); auto.
  destruct (lookup (hp s) t) as [[sc subs reps|?]|]; auto. right. eexists.
  assert (Hsub : forall g sub, fget g (nm_ch m) = Some sub -> nm_leaf sub = true).
  { intros g sub Hg. unfold top_only in Ht. rewrite forallb_forall in Ht. apply (Ht (g, sub)). apply In_fget; auto. }
  rewrite fold_id.
  - rewrite fold_id; [reflexivity|]. intros s0 p _. destruct (fget (fst p) (nm_ch m)) eqn:E; auto.
    apply keep_nested_leaf. eapply Hsub; eauto.
  - intros s0 r _. destruct (fget (fst r) (nm_ch m)) eqn:E; auto.
    apply fold_id. intros s1 e _. apply keep_nested_leaf. eapply Hsub; eauto.
Qed.

Lemma r_assembled_v0_top_level_pure n f m s ts : top_only m = true ->
  only_allocs s (fst (r_assembled_v0 n f (Some m) s ts)).
Proof.
  intro Ht. unfold r_assembled_v0, assemble.
  destruct (oa_alloc s Lib (CArr ts)) as [O1 E1]. destruct (halloc s Lib (CArr ts)) as [s1 a]. cbn [fst snd] in *.
  destruct (oa_alloc s1 Lib (CNode [] [] (set_rep f a (zlen ts) []))) as [O2 E2].
  destruct (halloc s1 Lib _) as [s2 r]. cbn [fst snd] in *.
  assert (O : only_allocs s s2) by (eapply oa_trans; eauto).
  assert (Hr : nxt s <= snd r) by (rewrite E2; simpl; apply O1).
  unfold filter_n. destruct (nm_leaf m); [apply oa_write_fresh; auto|].
  destruct (keep_nested_top_only n s2 r m Ht) as [->|[c ->]]; auto. apply oa_write_fresh; auto.
Qed.

(* reads through a model-level read function, in states satisfying the invariant *)
Definition pure_read_inv (rf : rfun) : Prop :=
  forall s ts, heap_ok (nxt s) s -> (forall t, In t ts -> libtag (nxt s) t) -> only_allocs s (fst (rf s ts)).

Lemma pure_read_inv_assembled n f rm : pure_read_inv (r_assembled n f rm).
Proof. intros s ts. apply pure_read_assembled_inv. Qed.

Lemma pure_read_inv_of_pure rf : pure_read rf -> pure_read_inv rf.
Proof. intros H s ts _ _. apply H. Qed.

Theorem model_read_pure n st rf : inv st -> pure_read_inv rf ->
  store (step n st (ORead rf)) = store st /\ only_allocs (hs st) (hs (step n st (ORead rf))).
Proof.
  intros (Hh & Hst & _) Hr. simpl.
  assert (H := Hr (hs st) (map snd (store st)) Hh).
  destruct (rf (hs st) (map snd (store st))) as [s1 rs]. simpl in *. split; auto. apply H.
  intros t Ht. apply in_map_iff in Ht. destruct Ht as ([id t'] & <- & Hin). eapply Hst; eauto.
Qed.
