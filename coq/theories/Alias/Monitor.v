(* C07 - the snapshot monitor of harness/c07 (seq.go: monitor.cross / monitor.changed, models.go) as a
   function on the tagged heaps of Alias/Owned.v.

   Every message that crosses the API boundary is registered together with a deep copy taken at that
   moment; after every later operation each registered message is compared with its copy (proto.Equal),
   the ones that differ are reported (by crossing index) and their copy is re-taken.

   The heap of the model is a persistent value, so "the deep copy taken in heap h" is represented by the
   pair (tag, h): reading the tag in the OLD heap.  [rd] is the value such a copy holds - a tree without
   tags - and MonitorProofs.v shows that comparing with the pair is comparing with that value.
   No proofs in this file. *)
From SC Require Import Base.Prelude Alias.Owned.

(* the contents of a message, without identities: what proto.Clone copies and proto.Equal compares *)
Inductive vt :=
| VNode (sc : list (Z * Z)) (subs : list (Z * vt)) (reps : list (Z * list vt))
| VArr | VNone | VCut.

Fixpoint rd (n : nat) (h : heap) (t : tag) : vt :=
  match n with
  | O => VCut
  | S n =>
      match lookup h t with
      | Some (CNode sc subs reps) =>
          VNode sc (map (fun p : Z * tag => (fst p, rd n h (snd p))) subs)
                (map (fun r : Z * (tag * Z) => (fst r, map (rd n h) (arr_slots h (fst (snd r)) (snd (snd r))))) reps)
      | Some (CArr _) => VArr
      | None => VNone
      end
  end.

(* one registered message: the live message and the heap its copy was taken in *)
Definition snapc : Type := tag * heap.
Definition mon : Type := list snapc.

(* monitor.cross for every message that crossed during the operation *)
Definition mon_cross (h : heap) (new : list tag) (m : mon) : mon := m ++ map (fun t => (t, h)) new.

Definition snap_same (n : nat) (h : heap) (c : snapc) : bool := same n (snd c) h (fst c) (fst c).

(* monitor.changed(): the crossing indices whose live message differs from its copy; their copies are re-taken *)
Definition mon_changed (n : nat) (h : heap) (m : mon) : list Z * mon :=
  (map fst (filter (fun p => negb (snap_same n h (snd p))) (zip_index 0 m)),
   map (fun c => if snap_same n h c then c else (fst c, h)) m).

(* after an operation: register what crossed (arguments as the caller has them back, results, event
   values, seeds), then compare everything *)
Definition mon_step (n : nat) (st st' : state) (m : mon) : list Z * mon :=
  let h' := hp (hs st') in
  mon_changed n h' (mon_cross h' (skipn (List.length (snaps st)) (snaps st')) m).

Fixpoint mon_run (n : nat) (st : state) (ops : list op) (m : mon) : list (list Z) :=
  match ops with
  | [] => []
  | o :: r =>
      let st' := step n st o in
      let '(rep, m') := mon_step n st st' m in
      rep :: mon_run n st' r m'
  end.

(* what the model itself reports along a history (Owned.changed between consecutive states) *)
Fixpoint changed_run (n : nat) (st : state) (ops : list op) : list (list Z) :=
  match ops with
  | [] => []
  | o :: r => changed n st (step n st o) :: changed_run n (step n st o) r
  end.

(* the monitor of a state reached so far: every snapshot registered, copies equal to the current reading *)
Definition mon_of (st : state) : mon := map (fun t => (t, hp (hs st))) (snaps st).
