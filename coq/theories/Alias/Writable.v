(* C07 - the whole of FieldUpdater.Merge (/repo/pkg/masks/update.go) on the tagged heaps of Alias/Owned.v:
   writable fields fixed when the resource is constructed (WithWritableFields / WithWritablePaths, widened
   per write by WithMoreWritableFields, lifted by WithAllFieldsWritable), the update mask of the write with
   ANY nesting, and the reset mask.  Masks are [nmask] trees (Alias/Nested.v) of field numbers, as
   fmutils.NestedMaskFromPaths builds them from the normalized paths.

     Merge(dst, src):
       writable fields given and empty            -> nothing                              [w = Some leaf]
       writableMask.Filter(src)                   IN PLACE, on the CALLER's message       [keep_nested]
       no update mask:  all writable -> proto.Reset(dst);  else writableMask.Prune(dst)   [prune_nested]
       update mask without paths                  -> return (src stays filtered)
       updateMask.Filter(src)                     IN PLACE, on the caller's message
       proto.Merge(dst, src)                      [merge: sub-messages, elements deep-copied]
       pruneEmpty(dst, src, updateMask)           [prune_empty]
       fmutils.Prune(dst, resetMask)              [prune_nested]

   dst is the clone of the old value GetAndUpdate made for this write; src is the caller's message.
   Everything written is either the caller's or owned by this write, and nothing of the caller is linked
   into dst (Alias/WritableProofs.v: [wb_merge (upd_merge_w n w um rs)] for all masks).

   [upd_merge_share] is seeded change C07-r4-4: a write without update mask on a resource whose writable
   paths are all whole top-level fields REPLACES these fields by reference (dstPr.Set(fd, srcPr.Get(fd))):
   the new stored value shares sub-messages and arrays with the caller's message.

   No proofs in this file. *)
From SC Require Import Base.Prelude Alias.Owned Alias.Nested.

(* a field the mask names with an empty sub-mask *)
Definition named_whole (m : nmask) (f : Z) : bool :=
  match fget f (nm_ch m) with Some sub => nm_leaf sub | None => false end.

Definition stay {A} (m : nmask) (p : Z * A) : bool := negb (named_whole m (fst p)).

(* fmutils NestedMask.Prune, in place: a field named with an empty sub-mask is cleared; below a named
   field with a sub-mask the sub-mask is pruned from the sub-message / from EVERY element *)
Fixpoint prune_nested (n : nat) (s : hst) (t : tag) (m : nmask) : hst :=
  match n with
  | O => s
  | S n =>
      if nm_leaf m then s else
      match lookup (hp s) t with
      | Some (CNode sc subs reps) =>
          let subs' := filter (stay m) subs in
          let reps' := filter (stay m) reps in
          let s1 := hwrite s t (CNode (filter (stay m) sc) subs' reps') in
          let s2 := fold_left (fun s (p : Z * tag) =>
                                 match fget (fst p) (nm_ch m) with
                                 | Some sub => prune_nested n s (snd p) sub
                                 | None => s
                                 end) subs' s1 in
          fold_left (fun s (r : Z * (tag * Z)) =>
                       match fget (fst r) (nm_ch m) with
                       | Some sub => fold_left (fun s e => prune_nested n s e sub) (elems s (fst (snd r)) (snd (snd r))) s
                       | None => s
                       end) reps' s2
      | _ => s
      end
  end.

(* named by the mask, absent from the source cell *)
Definition gone {A} (m : nmask) (csrc : cell) (p : Z * A) : bool :=
  fhas (fst p) (nm_ch m) && negb (cell_has csrc (fst p)).

Definition sub_of (s : hst) (t : tag) (f : Z) : option tag :=
  match lookup (hp s) t with Some (CNode _ subs _) => fget f subs | _ => None end.

(* pruneEmpty(dst, src, mask): a field of dst the mask names and src does not have is cleared - unless it
   is a singular sub-message and the mask continues below it: then the sub-mask is pruned from it; a named
   singular sub-message both have is descended into *)
Fixpoint prune_empty (n : nat) (s : hst) (dst src : tag) (m : nmask) : hst :=
  match n with
  | O => s
  | S n =>
      match lookup (hp s) dst, lookup (hp s) src with
      | Some (CNode sc subs reps), Some csrc =>
          let subs' := filter (fun p => negb (gone m csrc p && named_whole m (fst p))) subs in
          let s1 := hwrite s dst (CNode (filter (fun p => negb (gone m csrc p)) sc) subs'
                                        (filter (fun p => negb (gone m csrc p)) reps)) in
          fold_left (fun s (p : Z * tag) =>
                       match fget (fst p) (nm_ch m) with
                       | Some sub =>
                           if cell_has csrc (fst p) then
                             match sub_of s src (fst p) with
                             | Some u => prune_empty n s (snd p) u sub
                             | None => s
                             end
                           else prune_nested n s (snd p) sub
                       | None => s
                       end) subs' s1
      | _, _ => s
      end
  end.

Definition opt_leaf (w : option nmask) : bool := match w with Some m => nm_leaf m | None => false end.

Definition reset_step (n : nat) (rs : option nmask) (s : hst) (dst : tag) : hst :=
  match rs with Some r => prune_nested n s dst r | None => s end.

(* FieldUpdater.Merge(dst, src): w = writable fields (None: all), um = update mask, rs = reset mask *)
Definition upd_merge_w (n : nat) (w um rs : option nmask) : mfun := fun s dst src =>
  if opt_leaf w then s else
  let s1 := match w with Some wm => keep_nested n s src wm | None => s end in
  match um with
  | None =>
      let s2 := match w with
                | None => hwrite s1 dst empty_node
                | Some wm => prune_nested n s1 dst wm
                end in
      reset_step n rs (merge n (fst dst) s2 dst src) dst
  | Some m =>
      if nm_leaf m then s1
      else
        let s2 := keep_nested n s1 src m in
        let s3 := merge n (fst dst) s2 dst src in
        reset_step n rs (prune_empty n s3 dst src m) dst
  end.

(* ---- seeded change C07-r4-4 ---- *)
Definition top_whole (m : nmask) : bool := forallb (fun p => nm_leaf (snd p)) (nm_ch m).

Definition fdrop {A} (fs : list Z) (l : list (Z * A)) : list (Z * A) :=
  filter (fun p => negb (existsb (Z.eqb (fst p)) fs)) l.
Definition put_all {A} (src dst : list (Z * A)) : list (Z * A) :=
  fold_left (fun acc p => fins (fst p) (snd p) acc) src dst.

(* replaceFields: every field of the mask becomes what it is in src - the very sub-message pointer, the very
   slice header - or absent *)
Definition replace_fields (s : hst) (dst src : tag) (fs : list Z) : hst :=
  match lookup (hp s) dst, lookup (hp s) src with
  | Some (CNode dsc dsubs dreps), Some (CNode ssc ssubs sreps) =>
      hwrite s dst (CNode (put_all (fkeep fs ssc) (fdrop fs dsc))
                          (put_all (fkeep fs ssubs) (fdrop fs dsubs))
                          (put_all (fkeep fs sreps) (fdrop fs dreps)))
  | _, _ => s
  end.

Definition upd_merge_share (n : nat) (w um rs : option nmask) : mfun := fun s dst src =>
  match w, um with
  | Some wm, None =>
      if negb (nm_leaf wm) && top_whole wm then
        let s1 := keep_nested n s src wm in
        reset_step n rs (replace_fields s1 dst src (map fst (nm_ch wm))) dst
      else upd_merge_w n w um rs s dst src
  | _, _ => upd_merge_w n w um rs s dst src
  end.

(* ---- a trait model writes one of ITS OWN stored messages to another of its resources ----
   electricpb changeActiveMode: mode := modes.Get(id) - no read mask: the stored message itself -, then
   activeMode.Set(mode).  As a model-level operation on the stored messages: the k-th stored message is the
   src of FieldUpdater.Merge into the new value of the other resource (whose old value is abstracted to an empty
   message; w = the writable fields the other resource was constructed with).
   [_v0]: the code before 6705ac9 - the writable filter runs IN PLACE on the stored message.
   current: the write is given proto.Clone(mode). *)
Definition r_write_stored_v0 (n : nat) (k : nat) (w um rs : option nmask) : rfun := fun s ts =>
  match nth_error ts k with
  | Some t => let '(s1, dst) := halloc s Lib empty_node in (upd_merge_w n w um rs s1 dst t, [dst])
  | None => (s, [])
  end.
Definition r_write_stored (n : nat) (k : nat) (w um rs : option nmask) : rfun := fun s ts =>
  match nth_error ts k with
  | Some t =>
      let '(s1, c) := clone n Lib s t in
      let '(s2, dst) := halloc s1 Lib empty_node in
      (upd_merge_w n w um rs s2 dst c, [dst])
  | None => (s, [])
  end.
