(* The snapshot monitor is sound and complete with respect to the tagged-heap model:
     - a registered copy (tag, old heap) is a VALUE copy: comparing against it is comparing the tag-free
       readings [rd] (same_iff_rd);
     - along every history the monitor reports exactly what the model computes as [changed] between
       consecutive states (mon_run_is_changed_run) - for ALL operations, well-behaved or not;
     - soundness: if no object reachable from a published message is written ([frozen]) its snapshot never
       differs (frozen_same); hence under the hypotheses of C07_published_frozen the monitor never reports a
       library message, whatever the history (monitor_quiet_on_library_messages);
     - converse, used for reporting: whenever a snapshot differs, some object REACHABLE from the
       published message (in the heap it was published in) has been written (changed_reaches_write), so
       every report of the monitor names a message a write has reached (monitor_report_is_a_write). *)
From SC Require Import Base.Prelude Alias.Owned Alias.OwnedProofs Alias.LayerProofs Alias.C07Judge Alias.C07JudgeProofs Alias.Monitor.

Local Open Scope Z_scope.

(* ---------- copies are values ---------- *)
Lemma list_eqb_map {A B} (e : A -> A -> bool) (f g : A -> B) l1 :
  forall l2, (forall a b, In a l1 -> (e a b = true <-> f a = g b)) ->
  (list_eqb e l1 l2 = true <-> map f l1 = map g l2).
Proof.
  induction l1 as [|x l1 IH]; intros [|y l2] H; simpl; try (split; [discriminate | discriminate]); [tauto|].
  rewrite andb_true_iff, (H x y (or_introl eq_refl)), (IH l2) by (intros; apply H; right; auto).
  split; [intros [-> ->]; reflexivity | intro E; inversion E; auto].
Qed.

Lemma list_eqb_zz sc1 sc2 : list_eqb zz_eqb sc1 sc2 = true <-> sc1 = sc2.
Proof.
  rewrite (list_eqb_map zz_eqb (fun x => x) (fun x => x)), !map_id; [tauto|].
  intros [a b] [c d] _. unfold zz_eqb. simpl. rewrite andb_true_iff, !Z.eqb_eq.
  split; [intros [-> ->]; auto | intro E; inversion E; auto].
Qed.

Theorem same_iff_rd : forall k h1 h2 t1 t2, same k h1 h2 t1 t2 = true <-> rd k h1 t1 = rd k h2 t2.
Proof.
  induction k as [|k IH]; intros h1 h2 t1 t2; simpl; [tauto|].
  destruct (lookup h1 t1) as [[sc1 su1 re1|sl1]|], (lookup h2 t2) as [[sc2 su2 re2|sl2]|];
    try (split; [discriminate | discriminate]); try tauto.
  rewrite !andb_true_iff, list_eqb_zz.
  rewrite (list_eqb_map _ (fun p : Z * tag => (fst p, rd k h1 (snd p))) (fun p : Z * tag => (fst p, rd k h2 (snd p)))).
  2:{ intros a b _. rewrite andb_true_iff, Z.eqb_eq, IH. split; [intros [-> ->]; auto | intro E; inversion E; auto]. }
  rewrite (list_eqb_map _ (fun r : Z * (tag * Z) => (fst r, map (rd k h1) (arr_slots h1 (fst (snd r)) (snd (snd r)))))
                          (fun r : Z * (tag * Z) => (fst r, map (rd k h2) (arr_slots h2 (fst (snd r)) (snd (snd r)))))).
  2:{ intros a b _. rewrite andb_true_iff, Z.eqb_eq.
      rewrite (list_eqb_map _ (rd k h1) (rd k h2)) by (intros; apply IH).
      split; [intros [-> ->]; auto | intro E; inversion E; auto]. }
  split; [intros [[-> ->] ->]; reflexivity | intro E; inversion E; auto].
Qed.

Lemma same_refl k h t : same k h h t t = true.
Proof. apply same_iff_rd. reflexivity. Qed.

Lemma same_bool_eq k h0 h1 h2 t : rd k h0 t = rd k h1 t -> same k h0 h2 t t = same k h1 h2 t t.
Proof.
  intro E. apply Bool.eq_iff_eq_true. rewrite !same_iff_rd, E. tauto.
Qed.

(* ---------- reachability ---------- *)
Lemma reach_trans h t u v : reach h t u -> reach h u v -> reach h t v.
Proof. intros H1 H2. revert H1. induction H2 as [u|u w c v H2 IH Hl Hv]; intro H1; auto. eapply reach_step; [apply IH; auto | eauto | auto]. Qed.

Lemma reach_child h t c v : lookup h t = Some c -> In v (refs c) -> reach h t v.
Proof. intros. eapply reach_step; [apply reach_refl | eauto | auto]. Qed.

(* ---------- soundness of a snapshot: nothing reachable written => reads the same ---------- *)
Theorem frozen_same h h' : forall k p, frozen h h' p -> same k h h' p p = true.
Proof.
  induction k as [|k IH]; intros p Hf; simpl; auto.
  rewrite (Hf p (reach_refl _ _)).
  destruct (lookup h p) as [[sc subs reps|sl]|] eqn:E; auto.
  assert (Hsub : forall v, In v (refs (CNode sc subs reps)) -> frozen h h' v).
  { intros v Hv u Hu. apply Hf. eapply reach_trans; [eapply reach_child; eauto | auto]. }
  rewrite !andb_true_iff. repeat split.
  - apply list_eqb_refl_in. intros; apply zz_eqb_refl.
  - apply list_eqb_refl_in. intros [f u] Hin. simpl. rewrite Z.eqb_refl. simpl.
    apply IH. apply Hsub. apply In_refs_node. left; eauto.
  - apply list_eqb_refl_in. intros [f [a len]] Hin. simpl. rewrite Z.eqb_refl. simpl.
    assert (Ha : frozen h h' a) by (apply Hsub; apply In_refs_node; right; eauto).
    unfold arr_slots. rewrite (Ha a (reach_refl _ _)).
    destruct (lookup h a) as [[|sl]|] eqn:Ea; auto.
    apply list_eqb_refl_in. intros e He. apply IH. intros u Hu. apply Ha.
    eapply reach_trans; [eapply reach_child; [eauto | simpl; eapply In_firstn; eauto] | auto].
Qed.

(* ---------- the converse: a differing snapshot exhibits a write to a reachable object ---------- *)
Lemma cell_eq_dec : forall a b : cell, {a = b} + {a <> b}.
Proof. repeat decide equality. Qed.

Lemma ocell_eq_dec : forall a b : option cell, {a = b} + {a <> b}.
Proof. decide equality. apply cell_eq_dec. Qed.

Lemma list_eqb_self_false {A} (e : A -> A -> bool) l : list_eqb e l l = false -> exists x, In x l /\ e x x = false.
Proof.
  induction l as [|x l IH]; simpl; [discriminate|]. intro H. apply andb_false_iff in H. destruct H as [H|H].
  - exists x. auto.
  - destruct (IH H) as (y & Hy & Ey). exists y. auto.
Qed.

Theorem changed_reaches_write h h' : forall k p, same k h h' p p = false ->
  exists u, reach h p u /\ lookup h' u <> lookup h u.
Proof.
  induction k as [|k IH]; intros p Hs; simpl in Hs; [discriminate|].
  destruct (ocell_eq_dec (lookup h' p) (lookup h p)) as [E|E]; [|exists p; split; [apply reach_refl | exact E]].
  rewrite E in Hs. destruct (lookup h p) as [[sc subs reps|sl]|] eqn:El; try discriminate.
  apply andb_false_iff in Hs. destruct Hs as [Hs|Hs]; [apply andb_false_iff in Hs; destruct Hs as [Hs|Hs]|].
  - rewrite list_eqb_refl_in in Hs; [discriminate | intros; apply zz_eqb_refl].
  - apply list_eqb_self_false in Hs. destruct Hs as ([f u] & Hin & He). simpl in He. rewrite Z.eqb_refl in He. simpl in He.
    destruct (IH u He) as (w & Hw & Hd). exists w. split; auto.
    eapply reach_trans; [eapply reach_child; [eauto | apply In_refs_node; left; eauto] | auto].
  - apply list_eqb_self_false in Hs. destruct Hs as ([f [a len]] & Hin & He). simpl in He. rewrite Z.eqb_refl in He. simpl in He.
    assert (Hra : reach h p a) by (eapply reach_child; [eauto | apply In_refs_node; right; eauto]).
    destruct (ocell_eq_dec (lookup h' a) (lookup h a)) as [Ea|Ea]; [|exists a; auto].
    unfold arr_slots in He. rewrite Ea in He. destruct (lookup h a) as [[|sl]|] eqn:Ela; try discriminate.
    apply list_eqb_self_false in He. destruct He as (e & Hine & Hee).
    destruct (IH e Hee) as (w & Hw & Hd). exists w. split; auto.
    eapply reach_trans; [exact Hra|]. eapply reach_trans; [eapply reach_child; [eauto | simpl; eapply In_firstn; eauto] | auto].
Qed.

(* ---------- the monitor computes the model's [changed] ---------- *)
Lemma step_snaps_prefix n st o : exists l, snaps (step n st o) = snaps st ++ l.
Proof. destruct (run_snaps_prefix n [o] st) as [l H]. exists l. exact H. Qed.

Lemma skipn_app_len {A} (l1 l2 : list A) : skipn (List.length l1) (l1 ++ l2) = l2.
Proof. induction l1; simpl; auto. Qed.

Lemma zip_index_app {A} (l1 l2 : list A) : forall n,
  zip_index n (l1 ++ l2) = zip_index n l1 ++ zip_index (n + zlen l1) l2.
Proof.
  induction l1 as [|x l1 IH]; intros n; simpl.
  - unfold zlen. simpl. rewrite Z.add_0_r. reflexivity.
  - rewrite IH. f_equal. f_equal. unfold zlen. simpl List.length. rewrite Nat2Z.inj_succ. f_equal. lia.
Qed.

Lemma zip_index_map {A B} (f : A -> B) (l : list A) : forall n,
  zip_index n (map f l) = map (fun p => (fst p, f (snd p))) (zip_index n l).
Proof. induction l as [|x l IH]; intros n; simpl; auto. rewrite IH. reflexivity. Qed.

Lemma filter_map_comm {A B} (f : A -> B) (p : B -> bool) l : filter p (map f l) = map f (filter (fun x => p (f x)) l).
Proof. induction l as [|x l IH]; simpl; auto. destruct (p (f x)); simpl; rewrite IH; auto. Qed.

Lemma filter_ext_in' {A} (p q : A -> bool) l : (forall x, In x l -> p x = q x) -> filter p l = filter q l.
Proof. apply filter_ext_in. Qed.

(* copies agree with the current reading *)
Definition mon_inv (n : nat) (st : state) (m : mon) : Prop :=
  map fst m = snaps st /\ forall c, In c m -> rd n (snd c) (fst c) = rd n (hp (hs st)) (fst c).

Lemma mon_of_inv n st : mon_inv n st (mon_of st).
Proof.
  unfold mon_of. split; [rewrite map_map; simpl; apply map_id|].
  intros c Hc. apply in_map_iff in Hc. destruct Hc as (t & <- & _). reflexivity.
Qed.

Lemma mon_step_spec n st o m : mon_inv n st m ->
  fst (mon_step n st (step n st o) m) = changed n st (step n st o) /\
  mon_inv n (step n st o) (snd (mon_step n st (step n st o) m)).
Proof.
  intros [Hm Hc]. destruct (step_snaps_prefix n st o) as [l Hl].
  set (st' := step n st o) in *. set (h' := hp (hs st')).
  unfold mon_step, mon_changed, mon_cross. fold h'. rewrite Hl, skipn_app_len. cbn [fst snd].
  split.
  - rewrite zip_index_app, filter_app, map_app.
    match goal with |- _ ++ ?b = _ => assert (E2 : b = []) end.
    { rewrite filter_none; [reflexivity|]. intros [i c] Hin. apply In_zip_index in Hin. apply in_map_iff in Hin.
      destruct Hin as (t & <- & _). unfold snap_same. cbn [fst snd]. rewrite same_refl. reflexivity. }
    rewrite E2, app_nil_r. unfold changed.
    rewrite <- Hm, zip_index_map, filter_map_comm.
    etransitivity; [|symmetry; apply map_map]. cbn [fst snd].
    f_equal. apply filter_ext_in. intros [i c] Hin. cbn [fst snd]. f_equal. unfold snap_same.
    apply same_bool_eq. apply Hc. eapply In_zip_index; eauto.
  - split.
    + rewrite map_map. rewrite Hl, <- Hm. rewrite map_app, map_map.
      f_equal; [apply map_ext; intros c; destruct (snap_same n h' c); reflexivity|].
      rewrite <- (map_id l) at 2. apply map_ext. intro t. destruct (snap_same n h' (t, h')); reflexivity.
    + intros c Hin. apply in_map_iff in Hin. destruct Hin as (c0 & <- & Hin0).
      destruct (snap_same n h' c0) eqn:Es; [|reflexivity].
      unfold snap_same in Es. apply same_iff_rd in Es. exact Es.
Qed.

Theorem mon_run_is_changed_run n : forall ops st m, mon_inv n st m ->
  mon_run n st ops m = changed_run n st ops.
Proof.
  induction ops as [|o ops IH]; intros st m Hm; cbn [mon_run changed_run]; auto.
  destruct (mon_step_spec n st o m Hm) as [E Hm'].
  destruct (mon_step n st (step n st o) m) as [rep m']. cbn [fst snd] in *. rewrite E. f_equal. apply IH; auto.
Qed.

(* ---------- headline: soundness over whole histories ---------- *)
(* every index the monitor ever reports, at any step of any history whose operations satisfy the
   hypotheses of C07_published_frozen, is an argument the caller owns: a library message - stored value,
   result, event old/new value, seed - is never reported *)
Theorem monitor_quiet_on_library_messages n : forall ops st m,
  inv st -> Forall op_ok ops -> mon_inv n st m ->
  forall rep i, In rep (mon_run n st ops m) -> In i rep ->
    exists st0 p, In (i, p) (zip_index 0 (snaps st0)) /\ fst p = Caller.
Proof.
  intros ops st m Hi Hok Hm. rewrite (mon_run_is_changed_run n ops st m Hm). clear m Hm.
  revert st Hi. induction Hok as [|o ops Ho Hok IH]; intros st Hi rep i Hrep Hin; simpl in Hrep; [tauto|].
  destruct Hrep as [<-|Hrep].
  - exists st. apply (model_lib_unchanged n st o Hi Ho i Hin).
  - apply (IH (step n st o) (proj1 (proj2 (step_good n st o Hi Ho))) rep i Hrep Hin).
Qed.

(* ---------- headline: every report is a write that reached a published message ---------- *)
Theorem monitor_report_is_a_write n : forall ops st m, mon_inv n st m ->
  forall pre o post, ops = pre ++ o :: post ->
  forall i, In i (nth (List.length pre) (mon_run n st ops m) []) ->
    let st1 := run n st pre in
    exists p u, In (i, p) (zip_index 0 (snaps st1)) /\ reach (hp (hs st1)) p u /\
                lookup (hp (hs (step n st1 o))) u <> lookup (hp (hs st1)) u.
Proof.
  intros ops st m Hm pre o post -> i. rewrite (mon_run_is_changed_run n _ st m Hm). clear m Hm.
  revert st. induction pre as [|a pre IH]; intros st; simpl.
  - unfold changed. intro Hin. apply in_map_iff in Hin. destruct Hin as ([j p] & <- & Hf).
    apply filter_In in Hf. destruct Hf as [Hin Hs]. cbn [fst snd] in *.
    apply negb_true_iff in Hs. destruct (changed_reaches_write _ _ _ _ Hs) as (u & Hu & Hd).
    exists p, u. auto.
  - apply IH.
Qed.
