(* C07 - the in-place write sites of the hand-written code, as listed from the source on every run
   (Gen/AliasSites.v, produced by harness/c07/sites), and the discipline they must satisfy.

   A site is a place where code writes INTO an existing message or message slice: an in-place filter,
   the destination of proto.Merge / FieldUpdater.Merge (which also filters its source), proto.Reset, a sort,
   copy, a shifting append, slices.Insert/Delete, a field or element assignment, or a call of a helper that
   does one of these to its k-th parameter (Call:<helper>#k).  The origin of the written object:
     SFresh    built by the function itself (literal, new, make)
     SClone    the result of proto.Clone
     SParam k  the k-th parameter of the function (for an interceptor: 0 = old, 1 = new)
     SShell    built by the function but HOLDING foreign messages (an assembled response, slices.Clone):
               only reported for deep writers (filter, merge destination), which reach the held messages
     SShared   anything else: results of Get / FilterClone (nil mask: the argument itself), struct fields ...

   The discipline is the syntactic counterpart of wb_before / wb_after / wb_read (OwnedProofs.v,
   LayerProofs.v): code writes only what it built or cloned, or what it was handed as a parameter - and an
   interceptor never its first parameter, the live old message (opt.go: "must not write to it").
   No proofs in this file. *)
From SC Require Import Base.Prelude.
Local Open Scope string_scope.

Inductive sorigin := SFresh | SClone | SParam (k : Z) | SShell | SShared.

Record asite := mkASite {
  as_file : string; as_func : string; as_kind : string; as_origin : sorigin; as_expr : string;
  as_icpt : bool      (* the function is registered with InterceptBefore / InterceptAfter *)
}.

(* reviewed sites whose origin the syntactic analysis cannot see: (function, kind, expression, why) *)
Definition reviewed : list (string * string * string * string) := [
  ("pruneEmpty$lit", "FilterInPlace", "v.Message().Interface()",
   "a sub-message of dst reached through the Range callback of dst.ProtoReflect(): dst is pruneEmpty's parameter, the clone GetAndUpdate made");
  ("Collection.List", "Sort", "tmp", "the slice of entries itemSlice built for this call");
  ("Collection.Pull$lit", "Sort", "currentValues", "the slice of entries onUpdate built for this subscription");
  ("NewCollection", "FieldSet", "conf", "the configuration struct computeConfig built; not a message");
  ("NewValue", "FieldSet", "c", "the configuration struct computeConfig built; not a message");
  ("ModelServer.ListModes", "FieldSet", "result.Modes", "element assignment into the page slice cut from the slice Model.Modes built for this call; the value assigned is a FilterClone");
  ("mst", "FieldSet", "result", "test helper building a fresh message");
  ("calcCuts", "Sort", "cuts", "a local slice of cut structs; not messages");
  ("Collection.PullMetadata$lit", "FieldSet", "protoChange", "the change message metadataValueChangeToProto built for this event");
  ("Model.PullPositions$lit$lit", "Sort", "ids", "a local slice of strings")
].

Definition is_reviewed (s : asite) : bool :=
  existsb (fun r => match r with (f, k, e, _) =>
             String.eqb f (as_func s) && String.eqb k (as_kind s) && String.eqb e (as_expr s) end) reviewed.

Definition origin_ok (s : asite) : bool :=
  match as_origin s with
  | SFresh | SClone => true
  | SParam k => negb (as_icpt s && (k =? 0)%Z)
  | SShell | SShared => false
  end.

Definition site_ok (s : asite) : bool := origin_ok s || is_reviewed s.

Definition sites_ok (l : list asite) : bool := forallb site_ok l.

Definition has_site (l : list asite) (f k : string) : bool :=
  existsb (fun s => String.eqb f (as_func s) && String.eqb k (as_kind s)) l.

(* the sites as they were before the repairs / under the seeded changes (what the translator reports on those trees) *)
Definition sites_metadata_v0 : list asite := [      (* before 2dd155d: no clone of old *)
  mkASite "pkg/trait/metadatapb/model.go" "metadataMergeInterceptor" "Call:mergeTraitMetadata#0" (SParam 0) "newVal.Traits" true;
  mkASite "pkg/trait/metadatapb/model.go" "metadataMergeInterceptor" "Sort" (SParam 0) "newVal.Traits" true ].
Definition sites_parent_v0 : list asite := [        (* before f0e3d5b / seeded change C07-r3-1 *)
  mkASite "pkg/trait/parentpb/model.go" "Model.AddChildTrait$lit" "Call:traitUnion#0" (SParam 0) "oldChild.Traits" true ].
Definition sites_openclose_v0 : list asite := [     (* before 2246d41 / seeded change C07-r3-3 *)
  mkASite "pkg/trait/openclosepb/model.go" "Model.GetPositions" "FilterInPlace" SShell "dst" false ].
Definition sites_enterleave_v0 : list asite := [    (* before 8fa31cf *)
  mkASite "pkg/trait/enterleavesensorpb/model.go" "Model.PullEnterLeaveEvents$lit" "FieldSet" SShared "val" false ].
