(* Links between the judge of C07Judge.v and the theorems of LayerProofs.v, and the refutation
   witnesses (evaluated with vm_compute) for the ill-behaved interceptors and seed hooks. *)
From SC Require Import Base.Prelude Alias.Owned Alias.OwnedProofs Alias.LayerProofs Alias.TraitProofs Alias.Nested Alias.NestedProofs Alias.Writable Alias.WritableProofs Alias.C07Judge Alias.Monitor.

Local Open Scope Z_scope.

(* interceptor / hook codes proved well-behaved *)
Definition icode_proved (c : icode) : bool :=
  match c with INone | ISetNew _ _ | IAddOld _ | ITotals _ _ _ _ _ => true | _ => false end.
(* the repaired trait interceptors are registered before the write only *)
Definition icode_proved_before (c : icode) : bool :=
  match c with IUnion _ _ _ _ | IRemove _ _ _ | IMeta _ _ _ => true | _ => icode_proved c end.
Definition scode_proved (c : scode) : bool :=
  match c with SId | SClear _ => true | SClearV0 _ => false end.
Definition rcode_proved (c : rcode) : bool := match c with RAsm _ _ => true | RAsmV0 _ _ => false end.
Definition cop_proved (c : cop) : bool :=
  match c with
  | CWrite _ arg _ _ _ ib ia => arg_wf arg && icode_proved_before ib && icode_proved ia
  | CPull _ _ h => scode_proved h
  | CRead r => rcode_proved r
  | CWriteF _ arg _ (MW _ _ _) _ ib ia => arg_wf arg && icode_proved_before ib && icode_proved ia
  | CWriteF _ _ _ (MWShare _ _ _) _ _ _ => false
  | _ => true
  end.

Lemma icode_proved_wb c : icode_proved c = true -> wb_before (icode_fun c) /\ wb_after (icode_fun c).
Proof.
  destruct c; simpl; try discriminate; intros _.
  - apply wb_none.
  - apply wb_set_new.
  - apply wb_add_old.
  - apply wb_totals.
Qed.

Lemma icode_proved_before_wb c : icode_proved_before c = true -> wb_before (icode_fun c).
Proof.
  destruct c; simpl; try discriminate; intros _;
    try apply wb_none; try apply wb_set_new; try apply wb_add_old; try apply wb_totals.
  - apply wb_union.
  - apply wb_remove.
  - apply wb_meta.
Qed.

Lemma scode_proved_wb c : scode_proved c = true -> wb_hook (scode_fun c) /\ pure_hook (scode_fun c).
Proof.
  destruct c; simpl; try discriminate; intros _.
  - split; [apply wb_seed_id | apply pure_seed_id].
  - split; [apply wb_seed_clear | apply pure_seed_clear].
Qed.

Lemma cop_proved_ok c : cop_proved c = true -> op_ok (cop_op c).
Proof.
  destruct c; simpl; auto.
  - rewrite !andb_true_iff. intros [[A B] C]. split; auto.
    split; [apply (icode_proved_before_wb ib B) | apply (icode_proved_wb ia C)].
  - intro H. apply (scode_proved_wb hook H).
  - destruct r; simpl; [intros _; apply wb_read_assembled | discriminate].
  - destruct mc; [|discriminate]. rewrite !andb_true_iff. intros [[A B] C]. split; auto.
    split; [apply upd_merge_w_wb|].
    split; [apply (icode_proved_before_wb ib B) | apply (icode_proved_wb ia C)].
Qed.

Lemma cops_proved_ok ops : forallb cop_proved ops = true -> Forall op_ok (map cop_op ops).
Proof.
  induction ops as [|c ops IH]; simpl; [constructor|].
  rewrite andb_true_iff. intros [A B]. constructor; [apply cop_proved_ok; auto | auto].
Qed.

(* the indices the model reports as changed: only caller-owned snapshots can be among them *)
Lemma In_zip_index {A} (l : list A) : forall n i x, In (i, x) (zip_index n l) -> In x l.
Proof. induction l as [|y l IH]; simpl; intros n i x; [tauto|]. intros [H|H]; [inversion H; auto | right; eapply IH; eauto]. Qed.

Lemma model_lib_unchanged n st o : inv st -> op_ok o ->
  forall i, In i (changed n st (step n st o)) ->
            exists p, In (i, p) (zip_index 0 (snaps st)) /\ fst p = Caller.
Proof.
  intros Hi Hok i Hin. unfold changed in Hin. apply in_map_iff in Hin. destruct Hin as ([j p] & <- & Hf).
  apply filter_In in Hf. destruct Hf as [Hin Hs]. simpl in *. exists p. split; auto.
  destruct (fst p) eqn:Eo; auto. exfalso.
  destruct (published_frozen n [o] st [] [o] Hi (Forall_cons _ Hok (Forall_nil _)) eq_refl p) as (_ & _ & Hsame); auto.
  - simpl. eapply In_zip_index; eauto.
  - simpl in Hsame. rewrite Hsame in Hs. discriminate.
Qed.

(* reads: everything that existed reads the same afterwards *)
Lemma same_frame_all lo s h' : heap_ok lo s ->
  (forall t, snd t < nxt s -> lookup h' t = lookup (hp s) t) ->
  forall k t, snd t < nxt s -> same k (hp s) h' t t = true.
Proof.
  intros Hs Hf. induction k as [|k IH]; intros t Hl; simpl; auto.
  rewrite (Hf t Hl). destruct (lookup (hp s) t) as [[sc subs reps|sl]|] eqn:E; auto.
  destruct (heap_ok_cell _ _ _ _ Hs E) as [_ B].
  rewrite !andb_true_iff. repeat split.
  - apply list_eqb_refl_in. intros; apply zz_eqb_refl.
  - apply list_eqb_refl_in. intros [f u] Hin. simpl. rewrite Z.eqb_refl. simpl.
    apply IH. apply (B u). apply In_refs_node. left; eauto.
  - apply list_eqb_refl_in. intros [f [a len]] Hin. simpl. rewrite Z.eqb_refl. simpl.
    assert (Ha : snd a < nxt s) by (apply (B a); apply In_refs_node; right; eauto).
    unfold arr_slots. rewrite (Hf a Ha).
    destruct (lookup (hp s) a) as [[|sl]|] eqn:Ea; auto.
    apply list_eqb_refl_in. intros e He.
    destruct (heap_ok_cell _ _ _ _ Hs Ea) as [_ Ba]. apply IH. apply (Ba e). simpl. eapply In_firstn; eauto.
Qed.

Lemma filter_none {A} (p : A -> bool) l : (forall x, In x l -> p x = false) -> filter p l = [].
Proof. induction l as [|x l IH]; simpl; auto. intro H. rewrite H by auto. apply IH. intros; apply H; auto. Qed.

Lemma model_reads_pure st c : inv st -> is_read c = true -> cop_proved c = true ->
  let st' := step fuel st (cop_op c) in
  store st' = store st /\ store_changed st st' = false /\ changed fuel st st' = [].
Proof.
  intros Hi Hr Hp st'.
  assert (Hro : (exists rf, cop_op c = ORead rf /\ pure_read_inv rf) \/ is_read_op (cop_op c)).
  { destruct c; simpl in *; try discriminate; auto.
    - right. apply (scode_proved_wb hook Hp).
    - destruct r; simpl in *; [|discriminate]. left. eexists; split; [reflexivity | apply pure_read_inv_assembled]. }
  assert (Hpure : store st' = store st /\ only_allocs (hs st) (hs st')).
  { destruct Hro as [(rf & E & Hrf)|Hro].
    - unfold st'. rewrite E. apply model_read_pure; auto.
    - apply reads_pure; auto. }
  destruct Hpure as [Hst [_ Hoa]].
  assert (Hsame : forall t, snd t < nxt (hs st) -> same fuel (hp (hs st)) (hp (hs st')) t t = true).
  { intros t Ht. eapply same_frame_all; eauto. apply Hi. }
  split; auto. split.
  - unfold store_changed. apply not_true_is_false. intro H. apply existsb_exists in H.
    destruct H as ([id t] & Hin & Hn). cbn [snd] in Hn. rewrite Hsame in Hn; [discriminate|].
    apply (proj1 (proj2 Hi)) in Hin. apply Hin.
  - unfold changed. rewrite filter_none; auto. intros [i p] Hin. cbn [snd]. rewrite Hsame; auto.
    apply (proj2 (proj2 Hi)). eapply In_zip_index; eauto.
Qed.

(* ---------- witnesses ---------- *)
(* a Child {name=100, traits=[11;13;15]} as the caller builds it, and the bare {name} message the
   parent model passes to Update *)
Definition w_child3 : list cell :=
  [CNode [(1, 100)] [] [(2, ((Caller, 1), 3))]; CArr [(Caller, 2); (Caller, 3); (Caller, 4)];
   CNode [(1, 11)] [] []; CNode [(1, 13)] [] []; CNode [(1, 15)] [] []].
Definition w_name : list cell := [CNode [(1, 100)] [] []].

(* AddChild; ListChildren; RemoveChildTrait(11): the listed child changes to [13;15;15] *)
Definition w_parent_remove (v0 : bool) : list cop :=
  [CWrite 1 w_child3 true None MAdd INone INone; CList None;
   CWrite 1 w_name false None (MUpdate false) (if v0 then IRemoveV0 2 1 11 else IRemove 2 1 11) INone].
(* AddChildTrait(17) gives the stored slice spare capacity (4 slots for 4 traits is full, the
   oracle bit says whether the next append reallocates); AddChildTrait(12) without
   reallocation shifts inside the stored array *)
Definition w_parent_union (v0 : bool) : list cop :=
  [CWrite 1 w_child3 true None MAdd INone INone; CList None;
   CWrite 1 w_name false None (MUpdate true) (if v0 then IUnionV0 2 1 12 false else IUnion 2 1 12 false) INone].

(* UpdateMetadata {traits=[{name=11}]}; GetMetadata; MergeMetadata {traits=[{name=11, more=..}]}
   with the interceptor as it was before the repair: the earlier result gains the "more" entry *)
Definition w_md1 : list cell :=
  [CNode [(1, 100)] [] [(2, ((Caller, 1), 1))]; CArr [(Caller, 2)]; CNode [(1, 11)] [] []].
Definition w_md2 : list cell :=
  [CNode [] [] [(2, ((Caller, 1), 1))]; CArr [(Caller, 2)]; CNode [(1, 11); (2, 1000005)] [] []].
Definition w_metadata (v0 : bool) : list cop :=
  [CWrite 0 w_md1 true None MSet INone INone; CGet 0 None;
   CWrite 0 w_md2 true None MSet (if v0 then IMetaV0 2 1 false else IMeta 2 1 false) INone].

(* CreateEnterLeaveEvent {direction, occupant, enter_total}; Get; Pull (seed) *)
Definition w_event : list cell :=
  [CNode [(1, 1); (3, 1)] [(2, (Caller, 1))] []; CNode [(1, 50)] [] []].
Definition w_enterleave (v0 : bool) : list cop :=
  [CWrite 0 w_event true None MSet INone INone; CGet 0 None;
   CPull None false (if v0 then SClearV0 [1; 2] else SClear [1; 2])].

(* an interceptor that writes to old, against the documentation *)
Definition w_bad : list cop :=
  [CWrite 1 w_child3 true None MAdd INone INone; CGet 1 None;
   CWrite 1 w_name true (Some [1]) (MUpdate false) (IBadOldScalar 1 7) INone].

(* a history within the proved fragment that publishes shared and cloned messages, has a
   subscriber, a masked write and a caller rewriting its argument *)
Definition w_good : list cop :=
  [CWrite 1 w_child3 true None MAdd INone (ISetNew 5 9); CGet 1 None; CPull None false SId; CGet 1 (Some [2]);
   CWrite 1 w_name true (Some [1]) (MUpdate false) (IAddOld 1) INone; CMutArg 0%nat 0; CList None; CDelete 1].

Lemma w_parent_remove_fails : forallb cop_guard (w_parent_remove true) = true /\ model_ok true (w_parent_remove true) = false.
Proof. vm_compute. auto. Qed.
Lemma w_parent_union_fails : forallb cop_guard (w_parent_union true) = true /\ model_ok true (w_parent_union true) = false.
Proof. vm_compute. auto. Qed.
Lemma w_parent_ok : model_ok true (w_parent_remove false) = true /\ model_ok true (w_parent_union false) = true.
Proof. vm_compute. auto. Qed.
Lemma w_metadata_v0_fails : forallb cop_guard (w_metadata true) = true /\ model_ok false (w_metadata true) = false.
Proof. vm_compute. auto. Qed.
Lemma w_metadata_ok : model_ok false (w_metadata false) = true.
Proof. vm_compute. auto. Qed.
Lemma w_enterleave_v0_fails : forallb cop_guard (w_enterleave true) = true /\ model_ok false (w_enterleave true) = false.
Proof. vm_compute. auto. Qed.
Lemma w_enterleave_ok : model_ok false (w_enterleave false) = true.
Proof. vm_compute. auto. Qed.
Lemma w_bad_fails : model_ok true w_bad = false /\ forallb cop_guard w_bad = false.
Proof. vm_compute. auto. Qed.
Lemma w_good_ok : forallb cop_proved w_good = true /\ model_ok true w_good = true
  /\ zlen (snaps (run fuel (init_state true) (map cop_op w_good))) = 12.
Proof. vm_compute. auto. Qed.

(* the witness histories with the repaired interceptors / hook lie inside the proved fragment *)
Lemma w_repaired_in_fragment :
  forallb cop_proved (w_parent_remove false) = true /\ forallb cop_proved (w_parent_union false) = true /\
  forallb cop_proved (w_metadata false) = true /\ forallb cop_proved (w_enterleave false) = true.
Proof. vm_compute. auto. Qed.

(* ---- assembled responses and shared list elements ---- *)
(* two positions {open_percent, direction}; GetPosition(1) (no mask: the stored message);
   GetPositions(read_mask = states.open_percent) = field 1 of the response, field 1 of each element *)
Definition w_pos (pct dir : Z) : list cell := [CNode [(1, pct); (4, dir)] [] []].
Definition w_mask_nested : nmask := NM [(1, NM [(1, NM [])])].
Definition w_mask_top : nmask := NM [(1, NM [])].
Definition w_assembled (v0 : bool) (m : option nmask) : list cop :=
  [CWrite 1 (w_pos 40 1) true None (MUpdate true) INone INone;
   CWrite 2 (w_pos 10 2) true None (MUpdate true) INone INone;
   CGet 1 None; CRead (RAsm 1 None);
   CRead (if v0 then RAsmV0 1 m else RAsm 1 m); CRead (RAsm 1 None)].

(* in place with a path that continues into the repeated field: the stored positions, the earlier
   GetPosition result and the earlier unmasked GetPositions result lose their other fields *)
Lemma w_assembled_v0_fails :
  forallb cop_guard (w_assembled true (Some w_mask_nested)) = true /\
  model_ok true (w_assembled true (Some w_mask_nested)) = false.
Proof. vm_compute. auto. Qed.
(* ... a read that reports a store mutation *)
Lemma w_assembled_v0_storemut :
  existsb o_storemut (model_trace (init_state true) (w_assembled true (Some w_mask_nested))) = true.
Proof. vm_compute. auto. Qed.
Lemma w_assembled_ok :
  forallb cop_proved (w_assembled false (Some w_mask_nested)) = true /\
  model_ok true (w_assembled false (Some w_mask_nested)) = true /\
  model_ok true (w_assembled false None) = true /\
  (* in place but with a mask that stays on the top level: harmless, as r_assembled_v0_top_level_pure says *)
  model_ok true (w_assembled true (Some w_mask_top)) = true.
Proof. vm_compute. auto. Qed.
(* the unmasked assembled response shares the stored messages: its element IS the stored message *)
Lemma w_assembled_shares :
  let st := run fuel (init_state true) (map cop_op (w_assembled false None)) in
  match nth_error (snaps st) 5, fget 1 (store st) with
  | Some r, Some t => match get_rep (hs st) r 1 with
                      | Some (a, len) => existsb (tag_eqb t) (elems (hs st) a len)
                      | None => false
                      end
  | _, _ => false
  end = true.
Proof. vm_compute. auto. Qed.

(* seeded change C07-r3-2: slices.Clone(old.Traits) instead of proto.Clone(old) - the array is new,
   the elements are the stored ones and Merge writes into them *)
Definition w_metadata_slice_clone : list cop :=
  [CWrite 0 w_md1 true None MSet INone INone; CGet 0 None;
   CWrite 0 w_md2 true None MSet (IMetaSliceClone 2 1) INone].
Lemma w_metadata_slice_clone_fails :
  forallb cop_guard w_metadata_slice_clone = true /\ model_ok false w_metadata_slice_clone = false.
Proof. vm_compute. auto. Qed.

(* ---- the judge against the model: what agreement implies inside the proved fragment ---- *)
(* ---------- writable fields (resource constructed WithWritablePaths), nested update masks, reset masks ---------- *)
(* {1: 40, 19: {1: "a"}, 49: [{1: 3}]} written to a Value whose writable fields are 1, 19 and 49, no update
   mask; then the caller rewrites its message.  share = the by-reference fast path of seeded change C07-r4-4 *)
Definition w_wr_arg : list cell :=
  [CNode [(1, 40); (2, 5)] [(19, (Caller, 1))] [(49, ((Caller, 2), 1))]; CNode [(1, 1000)] [] []; CArr [(Caller, 3)]; CNode [(1, 3)] [] []].
Definition w_wr_mask : nmask := NM [(1, NM []); (19, NM []); (49, NM [])].
Definition w_writable (share : bool) : list cop :=
  [CWriteF 0 w_wr_arg true ((if share then MWShare else MW) (Some w_wr_mask) None None) MSet INone INone;
   CGet 0 None; CMutArg 0%nat 0].
(* nested writable path 18.2.19 with an update mask below it and a reset mask *)
Definition w_wr_nested : list cop :=
  [CWriteF 0 [CNode [(1, 7)] [(18, (Caller, 1))] []; CNode [(1, 2)] [(2, (Caller, 2))] []; CNode [(1, 4)] [(19, (Caller, 3))] []; CNode [(1, 1); (2, 2)] [] []]
           true (MW (Some (NM [(1, NM []); (18, NM [(2, NM [(1, NM []); (19, NM [])])])])) None None) MSet INone INone;
   CWriteF 0 [CNode [(1, 9)] [(18, (Caller, 1))] []; CNode [(1, 3)] [(2, (Caller, 2))] []; CNode [(1, 5)] [(19, (Caller, 3))] []; CNode [(1, 8)] [] []]
           true (MW (Some (NM [(1, NM []); (18, NM [(2, NM [(1, NM []); (19, NM [])])])]))
                    (Some (NM [(18, NM [(2, NM [(19, NM [(1, NM [])])])])])) (Some (NM [(1, NM [])]))) MSet INone (ISetNew 2 6);
   CGet 0 None; CMutArg 1%nat 2; CMutArg 0%nat 0].

Lemma w_writable_share_fails :
  forallb cop_guard (w_writable true) = true /\ model_ok false (w_writable true) = false /\
  model_trace (init_state false) (w_writable true) = [mkO 2 [] false false; mkO 3 [] false false; mkO 3 [0; 1; 2] false false].
Proof. vm_compute. auto. Qed.
Lemma w_writable_ok :
  forallb cop_proved (w_writable false) = true /\ model_ok false (w_writable false) = true /\
  forallb cop_proved w_wr_nested = true /\ model_ok false w_wr_nested = true.
Proof. vm_compute. auto. Qed.
(* the stored value of the second history: field 1 reset, 18.2.19.1 = 8 taken from the argument, 18.2.19.2 kept
   from the first write, 18.1 (not writable) absent, field 2 set by the interceptor *)
Lemma w_wr_nested_value :
  let st := run fuel (init_state false) (map cop_op w_wr_nested) in
  match fget 0 (store st) with
  | Some t => Monitor.rd 6 (hp (hs st)) t
  | None => Monitor.rd 0 [] (Lib, 0)
  end =
  let st0 := run fuel (init_state false)
               [OWrite 0 [CNode [(2, 6)] [(18, (Caller, 1))] []; CNode [] [(2, (Caller, 2))] []; CNode [(1, 4)] [(19, (Caller, 3))] []; CNode [(1, 8); (2, 2)] [] []]
                       true None MSet i_none i_none] in
  match fget 0 (store st0) with
  | Some t => Monitor.rd 6 (hp (hs st0)) t
  | None => Monitor.rd 0 [] (Lib, 0)
  end.
Proof. vm_compute. reflexivity. Qed.
(* under the shared fast path the stored value reaches an object of the caller's argument *)
Lemma w_writable_share_reaches :
  let st := run fuel (init_state false) (map cop_op (firstn 1 (w_writable true))) in
  match fget 0 (store st) with
  | Some t => match sub_of (hs st) t 19 with Some u => owner_eqb (fst u) Caller | None => false end
  | None => false
  end = true.
Proof. vm_compute. reflexivity. Qed.

(* a model hands one of its stored messages to a write on another resource constructed with writable field 1
   (electricpb changeActiveMode before 6705ac9): Add {1: 7, 2: 5, 19: {1: 3}}; Get; the write.  The stored
   message and the two earlier results (snapshots 1, 2) lose fields 2 and 19. *)
Definition w_stored_arg : list cell := [CNode [(1, 7); (2, 5)] [(19, (Caller, 1))] []; CNode [(1, 3)] [] []].
Definition w_write_stored (v0 : bool) : list op :=
  [OWrite 1 w_stored_arg true None MAdd i_none i_none; OGet 1 None;
   ORead ((if v0 then r_write_stored_v0 else r_write_stored) fuel 0%nat (Some (NM [(1, NM [])])) None None)].
Definition changed_last (ops : list op) : list Z :=
  let st := run fuel (init_state true) (removelast ops) in
  match last ops (ODelete 0) with o => changed fuel st (step fuel st o) end.
Lemma w_write_stored_v0_fails : changed_last (w_write_stored true) = [1; 2].
Proof. vm_compute. reflexivity. Qed.
Lemma w_write_stored_ok :
  changed_last (w_write_stored false) = [] /\ zlen (snaps (run fuel (init_state true) (w_write_stored false))) = 4.
Proof. vm_compute. auto. Qed.

Lemma list_eqb_Z a : forall b, list_eqb Z.eqb a b = true -> a = b.
Proof.
  induction a as [|x a IH]; intros [|y b]; simpl; try discriminate; auto.
  rewrite andb_true_iff, Z.eqb_eq. intros [-> H]. f_equal. auto.
Qed.

(* per step: no wrong event value, a read changes neither the store nor any snapshot, and whatever is
   reported as changed is a message the caller owns (an argument it passed) - never a library message *)
Fixpoint lib_quiet (st : state) (ops : list cop) (obs : list obs1) : Prop :=
  match ops, obs with
  | c :: ops', o :: obs' =>
      o_evbad o = false /\
      (is_read c = true -> o_storemut o = false /\ o_changed o = []) /\
      (forall i, In i (o_changed o) -> exists p, In (i, p) (zip_index 0 (snaps st)) /\ fst p = Caller) /\
      lib_quiet (step fuel st (cop_op c)) ops' obs'
  | _, _ => True
  end.

Theorem judge_sound_lib : forall ops obs st, inv st -> forallb cop_proved ops = true ->
  agrees_from st ops obs = true -> lib_quiet st ops obs.
Proof.
  induction ops as [|c ops IH]; intros [|o obs] st Hi Hp Ha; simpl; auto.
  simpl in Hp. apply andb_true_iff in Hp. destruct Hp as [Hc Hp].
  cbn [agrees_from] in Ha. unfold model_obs in Ha.
  apply andb_true_iff in Ha. destruct Ha as [Ha Hrest]. apply andb_true_iff in Ha. destruct Ha as [Ho _].
  unfold obs_eqb in Ho. cbn [o_nsnaps o_changed o_storemut o_evbad] in Ho.
  apply andb_true_iff in Ho. destruct Ho as [Ho Hev]. apply andb_true_iff in Ho. destruct Ho as [Ho Hsm].
  apply andb_true_iff in Ho. destruct Ho as [_ Hch]. apply list_eqb_Z in Hch.
  apply Bool.eqb_prop in Hev. apply Bool.eqb_prop in Hsm.
  assert (Hok : op_ok (cop_op c)) by (apply cop_proved_ok; auto).
  split; [auto|]. split; [|split].
  - intro Hr. destruct (model_reads_pure st c Hi Hr Hc) as (_ & A & B).
    rewrite Hr in Hsm. rewrite <- Hsm, <- Hch. auto.
  - intros i Hin. rewrite <- Hch in Hin. apply (model_lib_unchanged fuel st (cop_op c) Hi Hok i Hin).
  - apply IH; auto. apply step_good; auto.
Qed.
