(* The repaired trait interceptors (parentpb traitUnion/traitRemove, metadatapb merge) work on
   proto.Clone(old): everything they write or link is caller-side, so they are well-behaved
   interceptors in the sense of OwnedProofs.wb_before - for every message shape, name, capacity
   bit and fuel. *)
From SC Require Import Base.Prelude Alias.Owned Alias.OwnedProofs.
Local Open Scope Z_scope.
Local Arguments hwrite : simpl never.

Lemma put_rep_good lo s o t f a len : heap_ok lo s -> own lo (nxt s) o t -> own lo (nxt s) o a ->
  good lo s (put_rep s t f a len).
Proof.
  intros Hs Ht Ha. unfold put_rep. destruct (lookup (hp s) t) as [[sc subs reps|?]|] eqn:E; try (apply good_refl; auto).
  eapply good_write_own; eauto. intros u Hu. apply In_refs_node in Hu. destruct Hu as [[g Hg]|[g [l Hg]]].
  - apply (own_refs lo s o t _ u Hs Ht E). apply In_refs_node. left; eauto.
  - apply In_set_rep in Hg. destruct Hg as [Hg|Hg].
    + inversion Hg. subst. auto.
    + apply (own_refs lo s o t _ u Hs Ht E). apply In_refs_node. right; eauto.
Qed.

(* what old_slice returns for an owned message: an owned array with owned slots, or length 0 *)
Lemma old_slice_own lo s o old f a len els rest :
  heap_ok lo s -> own lo (nxt s) o old -> old_slice s old f = (a, len, els, rest) ->
  (forall e, In e els \/ In e rest -> own lo (nxt s) o e) /\ (els <> [] \/ rest <> [] \/ 0 < len -> own lo (nxt s) o a)
  /\ (own lo (nxt s) o a \/ (len = 0 /\ els = [])).
Proof.
  intros Hs Ho H. unfold old_slice in H. unfold get_rep in H.
  destruct (lookup (hp s) old) as [[sc subs reps|?]|] eqn:El.
  2,3: inversion H; subst; split; [intros e [[]|[]] | split; [intros [A|[A|A]]; try congruence; lia | right; auto]].
  destruct (fget f reps) as [[a0 len0]|] eqn:Ef.
  2: inversion H; subst; split; [intros e [[]|[]] | split; [intros [A|[A|A]]; try congruence; lia | right; auto]].
  assert (Ha : own lo (nxt s) o a0).
  { apply (own_refs lo s o old _ a0 Hs Ho El). apply In_refs_node. right. exists f, len0. eapply In_fget; eauto. }
  destruct (lookup (hp s) a0) as [[|sl]|] eqn:Ea.
  1,3: inversion H; subst; split; [intros e [[]|[]] | split; [intros _; auto | left; auto]].
  assert (Hsl : forall e, In e sl -> own lo (nxt s) o e) by (intros e He; apply (own_refs lo s o a0 _ e Hs Ha Ea); auto).
  inversion H; subst. split; [|split; [intros _; auto | left; auto]].
  intros e [He|He]; apply Hsl; [eapply In_firstn | eapply In_skipn]; eauto.
Qed.

Lemma union_body_good lo s o f key name realloc old new :
  heap_ok lo s -> own lo (nxt s) o old -> own lo (nxt s) o new ->
  good lo s (union_body o f key name realloc s old new).
Proof.
  intros Hs Ho Hn. unfold union_body.
  destruct (old_slice s old f) as [[[a len] els] rest] eqn:Eo.
  destruct (old_slice_own lo s o old f a len els rest Hs Ho Eo) as (Hel & Ha & Hz).
  destruct (match nth_error els (search_ge s key name els 0) with Some e => name_of s key e =? name | None => false end) eqn:Ex.
  - destruct Hz as [Hz|[-> ->]].
    + apply (put_rep_good lo s o); auto.
    + destruct (search_ge s key name [] 0); discriminate.
  - destruct (good_alloc lo s o (CNode [(key, name)] [] []) Hs) as [G1 Q1]; [simpl; tauto|].
    destruct (halloc s o (CNode [(key, name)] [] [])) as [s1 e] eqn:Eh. simpl in G1, Q1.
    assert (N1 : nxt s <= nxt s1) by apply G1.
    assert (Hels' : forall u, In u (firstn (search_ge s key name els 0) els ++ [e] ++ skipn (search_ge s key name els 0) els) ->
                              own lo (nxt s1) o u).
    { intros u Hu. apply in_app_iff in Hu. destruct Hu as [Hu|Hu].
      - eapply own_mono; [apply Hel; left; eapply In_firstn; eauto | auto].
      - simpl in Hu. destruct Hu as [<-|Hu]; auto. eapply own_mono; [apply Hel; left; eapply In_skipn; eauto | auto]. }
    destruct (realloc || (len <=? 0)) eqn:Er.
    + destruct (good_alloc lo s1 o (CArr (firstn (search_ge s key name els 0) els ++ [e] ++ skipn (search_ge s key name els 0) els))
                  (good_ok _ _ _ G1)) as [G2 Q2]; [cbn [refs]; auto|].
      destruct (halloc s1 o (CArr _)) as [s2 a'] eqn:Eh2. simpl in G2, Q2.
      eapply good_trans; [exact G1|]. eapply good_trans; [exact G2|].
      apply (put_rep_good lo s2 o); [apply (good_ok _ _ _ G2) | | auto].
      eapply own_mono; [eauto|]. destruct G2 as (_ & ? & _). lia.
    + apply orb_false_iff in Er. destruct Er as [_ Er]. apply Z.leb_gt in Er.
      assert (Ha1 : own lo (nxt s1) o a) by (eapply own_mono; [apply Ha; auto | auto]).
      assert (G2 : good lo s1 (hwrite s1 a (CArr ((firstn (search_ge s key name els 0) els ++ [e] ++ skipn (search_ge s key name els 0) els) ++ skipn 1 rest)))).
      { eapply good_write_own; [apply (good_ok _ _ _ G1) | eauto |]. cbn [refs]. intros u Hu.
        apply in_app_iff in Hu. destruct Hu as [Hu|Hu]; auto.
        eapply own_mono; [apply Hel; right; eapply In_skipn; eauto | auto]. }
      eapply good_trans; [exact G1|]. eapply good_trans; [exact G2|].
      apply (put_rep_good lo _ o); [apply (good_ok _ _ _ G2) | |]; eapply own_mono; eauto; apply G2.
Qed.

Lemma remove_body_good lo s o f key name old new :
  heap_ok lo s -> own lo (nxt s) o old -> own lo (nxt s) o new ->
  good lo s (remove_body f key name s old new).
Proof.
  intros Hs Ho Hn. unfold remove_body.
  destruct (old_slice s old f) as [[[a len] els] rest] eqn:Eo.
  destruct (old_slice_own lo s o old f a len els rest Hs Ho Eo) as (Hel & Ha & Hz).
  destruct (match nth_error els (search_ge s key name els 0) with Some e => name_of s key e =? name | None => false end) eqn:Ex.
  - assert (Hne : els <> []).
    { intro E. subst els. destruct (search_ge s key name [] 0); discriminate. }
    assert (Ha' := Ha (or_introl Hne)).
    assert (G : good lo s (hwrite s a (CArr ((firstn (search_ge s key name els 0) els ++ skipn (S (search_ge s key name els 0)) els
                                                ++ skipn (Nat.pred (List.length els)) els) ++ rest)))).
    { eapply good_write_own; eauto. cbn [refs]. intros u Hu. apply Hel.
      apply in_app_iff in Hu. destruct Hu as [Hu|Hu]; auto. left.
      apply in_app_iff in Hu. destruct Hu as [Hu|Hu]; [eapply In_firstn; eauto|].
      apply in_app_iff in Hu. destruct Hu as [Hu|Hu]; eapply In_skipn; eauto. }
    eapply good_trans; [exact G|]. apply (put_rep_good lo _ o); [apply (good_ok _ _ _ G) | |]; eapply own_mono; eauto; apply G.
  - destruct Hz as [Hz|[-> ->]].
    + apply (put_rep_good lo s o); auto.
    + unfold put_rep. destruct (lookup (hp s) new) as [[sc subs reps|?]|] eqn:E; try (apply good_refl; auto).
      eapply good_shrink; eauto. intros u Hu. apply In_refs_node in Hu. apply In_refs_node.
      destruct Hu as [Hu|[g [l Hg]]]; auto. right. unfold set_rep in Hg. simpl in Hg. exists g, l. eapply In_filter_sub; eauto.
Qed.

Lemma wb_union n f key name realloc : wb_before (i_union n f key name realloc).
Proof.
  intros lo s old new Hs Ho HL Hn. unfold i_union.
  destruct (clone_good lo Caller n s old Hs) as [G Q]. destruct (clone n Caller s old) as [s1 oc] eqn:E. simpl in *.
  eapply good_trans; [exact G|]. apply (union_body_good lo s1 Caller); [apply (good_ok _ _ _ G) | auto | eapply own_mono; [eauto | apply G]].
Qed.

Lemma wb_remove n f key name : wb_before (i_remove n f key name).
Proof.
  intros lo s old new Hs Ho HL Hn. unfold i_remove.
  destruct (clone_good lo Caller n s old Hs) as [G Q]. destruct (clone n Caller s old) as [s1 oc] eqn:E. simpl in *.
  eapply good_trans; [exact G|]. apply (remove_body_good lo s1 Caller); [apply (good_ok _ _ _ G) | auto | eapply own_mono; [eauto | apply G]].
Qed.

(* ---------- metadata ---------- *)
Lemma put_rep_good' lo s o t f a len : heap_ok lo s -> own lo (nxt s) o t ->
  (own lo (nxt s) o a \/ len <= 0) -> good lo s (put_rep s t f a len).
Proof.
  intros Hs Ht [Ha|Hl]; [apply (put_rep_good lo s o); auto|].
  unfold put_rep. destruct (lookup (hp s) t) as [[sc subs reps|?]|] eqn:E; try (apply good_refl; auto).
  eapply good_shrink; eauto. intros u Hu. apply In_refs_node in Hu. apply In_refs_node.
  destruct Hu as [Hu|[g [l Hg]]]; auto. right. unfold set_rep in Hg.
  assert (Hle : (len <=? 0) = true) by (apply Z.leb_le; auto). rewrite Hle in Hg.
  exists g, l. eapply In_filter_sub; eauto.
Qed.

Lemma In_insert_by s key e l u : In u (insert_by s key e l) -> u = e \/ In u l.
Proof.
  induction l as [|x l IH]; simpl; [intros [H|[]]; auto|].
  destruct (name_of s key e <? name_of s key x); simpl; intros H.
  - destruct H as [H|[H|H]]; auto.
  - destruct H as [H|H]; auto. destruct (IH H); auto.
Qed.

Lemma In_sort_by s key l u : In u (sort_by s key l) -> In u l.
Proof.
  unfold sort_by. assert (H : forall acc, In u (fold_left (fun acc e => insert_by s key e acc) l acc) -> In u acc \/ In u l).
  { induction l as [|x l IH]; simpl; auto. intros acc Hu. destruct (IH _ Hu) as [H|H]; auto.
    apply In_insert_by in H. destruct H; auto. }
  intro Hu. destruct (H [] Hu) as [[]|]; auto.
Qed.

Lemma slots_own lo s o a : heap_ok lo s -> own lo (nxt s) o a ->
  forall u, In u (match lookup (hp s) a with Some (CArr sl) => sl | _ => [] end) -> own lo (nxt s) o u.
Proof.
  intros Hs Ha u Hu. destruct (lookup (hp s) a) as [[|sl]|] eqn:E; try (destruct Hu).
  apply (own_refs lo s o a _ u Hs Ha E). auto.
Qed.

Lemma meta_merge_traits_good lo n key : forall tms realloc s a len,
  heap_ok lo s -> (own lo (nxt s) Caller a \/ len <= 0) -> (forall tm, In tm tms -> own lo (nxt s) Caller tm) ->
  let r := meta_merge_traits n Caller key realloc s a len tms in
  good lo s (fst (fst r)) /\ (own lo (nxt (fst (fst r))) Caller (snd (fst r)) \/ snd r <= 0).
Proof.
  induction tms as [|tm tms IH]; intros realloc s a len Hs Ha Ht; simpl.
  - split; [apply good_refl; auto | auto].
  - assert (Htm : own lo (nxt s) Caller tm) by (apply Ht; left; reflexivity).
    assert (Hrest : forall s', good lo s s' -> forall x, In x tms -> own lo (nxt s') Caller x).
    { intros s' G x Hx. eapply own_mono; [apply Ht; right; auto | apply G]. }
    destruct (Z.leb_spec len 0) as [Hl|Hl].
    + destruct (good_alloc lo s Caller (CArr [tm]) Hs) as [G Q]; [simpl; intros u [<-|[]]; auto|].
      destruct (halloc s Caller (CArr [tm])) as [s1 a'] eqn:E. simpl in G, Q.
      destruct (IH realloc s1 a' 1 (good_ok _ _ _ G) (or_introl Q) (Hrest _ G)) as [G2 Q2].
      split; [eapply good_trans; eauto | auto].
    + destruct Ha as [Ha|Ha]; [|lia].
      destruct (find_name s key (name_of s key tm) (elems s a len)) as [e|] eqn:Ef.
      * assert (He : own lo (nxt s) Caller e).
        { assert (Hin : In e (elems s a len)).
          { revert Ef. generalize (elems s a len). induction l as [|x l IHl]; simpl; [discriminate|].
            destruct (name_of s key x =? name_of s key tm); [intro H; inversion H; auto | auto]. }
          apply (own_elems lo s Caller a len e Hs Ha Hin). }
        assert (G : good lo s (merge n (fst e) s e tm)).
        { destruct He as (Hf & ? & ?). rewrite Hf. apply merge_good; auto. repeat split; auto. }
        destruct (IH realloc _ a len (good_ok _ _ _ G)) as [G2 Q2];
          [left; eapply own_mono; [eauto | apply G] | apply Hrest; auto |].
        split; [eapply good_trans; eauto | auto].
      * destruct realloc.
        -- destruct (good_alloc lo s Caller (CArr (elems s a len ++ [tm])) Hs) as [G Q].
           { cbn [refs]. intros u Hu. apply in_app_iff in Hu. destruct Hu as [Hu|[<-|[]]]; auto. apply (own_elems lo s Caller a len u Hs Ha Hu). }
           destruct (halloc s Caller (CArr (elems s a len ++ [tm]))) as [s1 a'] eqn:E. simpl in G, Q.
           destruct (IH false s1 a' (len + 1) (good_ok _ _ _ G) (or_introl Q) (Hrest _ G)) as [G2 Q2].
           split; [eapply good_trans; eauto | auto].
        -- set (sl := match lookup (hp s) a with Some (CArr sl) => sl | _ => [] end).
           assert (G : good lo s (hwrite s a (CArr (firstn (Z.to_nat len) sl ++ [tm] ++ skipn (Z.to_nat len + 1) sl)))).
           { eapply good_write_own; eauto. cbn [refs]. intros u Hu.
             apply in_app_iff in Hu. destruct Hu as [Hu|Hu].
             { apply (slots_own lo s Caller a Hs Ha). eapply In_firstn. exact Hu. }
             apply in_app_iff in Hu. destruct Hu as [[<-|[]]|Hu]; auto.
             apply (slots_own lo s Caller a Hs Ha). eapply In_skipn. exact Hu. }
           destruct (IH false _ a (len + 1) (good_ok _ _ _ G)) as [G2 Q2];
             [left; eapply own_mono; [eauto | apply G] | apply Hrest; auto |].
           split; [eapply good_trans; eauto | auto].
Qed.

Lemma get_rep_own lo s o t f : heap_ok lo s -> own lo (nxt s) o t ->
  forall a len, get_rep s t f = Some (a, len) -> own lo (nxt s) o a.
Proof.
  intros Hs Ht a len H. unfold get_rep in H. destruct (lookup (hp s) t) as [[sc subs reps|?]|] eqn:E; try discriminate.
  apply (own_refs lo s o t _ a Hs Ht E). apply In_refs_node. right. exists f, len. eapply In_fget; eauto.
Qed.

Lemma meta_body_good lo n f key realloc s old new :
  heap_ok lo s -> own lo (nxt s) Caller old -> own lo (nxt s) Caller new ->
  good lo s (meta_body n f key realloc s old new).
Proof.
  intros Hs Ho Hn. unfold meta_body.
  destruct (clone_good lo Caller n s new Hs) as [G1 Q1]. destruct (clone n Caller s new) as [s1 clean] eqn:E1. simpl in G1, Q1.
  assert (H1 := good_ok _ _ _ G1).
  (* the traits of the clean copy *)
  assert (Hca : exists ca clen, match get_rep s1 clean f with Some x => x | None => ((Caller, -1), 0) end = (ca, clen)
                                /\ (own lo (nxt s1) Caller ca \/ clen = 0)).
  { destruct (get_rep s1 clean f) as [[ca clen]|] eqn:Eg.
    - exists ca, clen. split; auto. left. eapply get_rep_own; eauto.
    - exists (Caller, -1), 0. auto. }
  destruct Hca as (ca & clen & Eca & Hca). rewrite Eca. clear Eca.
  assert (Htms : forall tm, In tm (elems s1 ca clen) -> own lo (nxt s1) Caller tm).
  { intros tm Htm. destruct Hca as [Hca | Hz]; [apply (own_elems lo s1 Caller ca clen tm H1 Hca Htm) | subst clen].
    unfold elems in Htm. destruct (lookup (hp s1) ca) as [[|sl]|]; simpl in Htm; tauto. }
  set (tms := elems s1 ca clen) in *.
  assert (G2 : good lo s1 (put_rep s1 clean f ca 0)) by (apply (put_rep_good' lo s1 Caller); auto; right; lia).
  set (s2 := put_rep s1 clean f ca 0) in *.
  assert (N2 : nxt s <= nxt s2) by (destruct G1 as (_ & ? & _), G2 as (_ & ? & _); lia).
  assert (G3 : good lo s2 (merge n Caller s2 new old)).
  { apply merge_good; [apply (good_ok _ _ _ G2) | eapply own_mono; eauto]. }
  set (s3 := merge n Caller s2 new old) in *.
  assert (N3 : nxt s2 <= nxt s3) by apply G3.
  assert (G4 : good lo s3 (merge n Caller s3 new clean)).
  { apply merge_good; [apply (good_ok _ _ _ G3) | eapply own_mono; eauto; lia]. }
  set (s4 := merge n Caller s3 new clean) in *.
  assert (N4 : nxt s3 <= nxt s4) by apply G4.
  assert (H4 := good_ok _ _ _ G4).
  assert (Hoa : exists oa olen, match get_rep s4 old f with Some x => x | None => ((Caller, -1), 0) end = (oa, olen)
                                /\ (own lo (nxt s4) Caller oa \/ olen <= 0)).
  { destruct (get_rep s4 old f) as [[oa olen]|] eqn:Eg.
    - exists oa, olen. split; auto. left. eapply get_rep_own; eauto. eapply own_mono; eauto; lia.
    - exists (Caller, -1), 0. split; auto. right; lia. }
  destruct Hoa as (oa & olen & Eoa & Hoa). rewrite Eoa. clear Eoa.
  destruct (meta_merge_traits_good lo n key tms realloc s4 oa olen H4 Hoa) as [G5 Q5].
  { intros tm Htm. eapply own_mono; [apply Htms; auto|]. destruct G2 as (_ & ? & _). lia. }
  destruct (meta_merge_traits n Caller key realloc s4 oa olen tms) as [[s5 a] len] eqn:E5. simpl in G5, Q5.
  assert (H5 := good_ok _ _ _ G5).
  assert (N5 : nxt s4 <= nxt s5) by apply G5.
  assert (G6 : good lo s5 (if len <=? 0 then s5
            else hwrite s5 a (CArr (sort_by s5 key (firstn (Z.to_nat len) (match lookup (hp s5) a with Some (CArr sl) => sl | _ => [] end))
                                     ++ skipn (Z.to_nat len) (match lookup (hp s5) a with Some (CArr sl) => sl | _ => [] end))))).
  { destruct (Z.leb_spec len 0) as [Hl|Hl]; [apply good_refl; auto|].
    destruct Q5 as [Q5|Q5]; [|lia].
    eapply good_write_own; eauto. cbn [refs]. intros u Hu. apply in_app_iff in Hu.
    destruct Hu as [Hu|Hu]; apply (slots_own lo s5 Caller a H5 Q5).
    - apply In_sort_by in Hu. eapply In_firstn. exact Hu.
    - eapply In_skipn. exact Hu. }
  match goal with |- good lo s (put_rep ?x new f a len) => set (s6 := x) in * end.
  assert (N6 : nxt s5 <= nxt s6) by apply G6.
  eapply good_trans; [exact G1|]. eapply good_trans; [exact G2|]. eapply good_trans; [exact G3|].
  eapply good_trans; [exact G4|]. eapply good_trans; [exact G5|]. eapply good_trans; [exact G6|].
  apply (put_rep_good' lo s6 Caller); [apply (good_ok _ _ _ G6) | eapply own_mono; eauto; lia |].
  destruct Q5 as [Q5|Q5]; [left; eapply own_mono; eauto | right; auto].
Qed.

Lemma wb_meta n f key realloc : wb_before (i_meta n f key realloc).
Proof.
  intros lo s old new Hs Ho HL Hn. unfold i_meta.
  destruct (clone_good lo Caller n s old Hs) as [G Q]. destruct (clone n Caller s old) as [s1 oc] eqn:E. simpl in *.
  eapply good_trans; [exact G|]. apply meta_body_good; [apply (good_ok _ _ _ G) | auto | eapply own_mono; [eauto | apply G]].
Qed.
