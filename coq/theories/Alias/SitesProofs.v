(* The discipline of Alias/Sites.v holds of the WHOLE table generated from the tree under check
   (re-proved on every run), the table is not empty or truncated (it contains the sites the model is
   about), and the rows of the code before the repairs / under the seeded changes violate it. *)
From SC Require Import Base.Prelude Alias.Sites Gen.AliasSites.
Local Open Scope string_scope.

Theorem alias_sites_discipline : sites_ok alias_sites = true.
Proof. vm_compute. reflexivity. Qed.

(* the table covers the write path and the trait interceptors the tagged model describes *)
Theorem alias_sites_cover_the_model :
  (100 <=? zlen alias_sites)%Z = true /\
  has_site alias_sites "FieldUpdater.Merge" "MergeDst" = true /\
  has_site alias_sites "FieldUpdater.Merge" "MergeSrcFiltered" = false /\   (* src is filtered by NestedMask.Filter: *)
  has_site alias_sites "FieldUpdater.Merge" "FilterInPlace" = true /\
  has_site alias_sites "ResponseFilter.Filter" "FilterInPlace" = true /\
  has_site alias_sites "ResponseFilter.FilterClone" "FilterInPlace" = true /\
  has_site alias_sites "WriteRequest.changeFn$lit" "MergeDst" = true /\
  has_site alias_sites "metadataMergeInterceptor" "MergeDst" = true /\
  has_site alias_sites "metadataMergeInterceptor" "Sort" = true /\
  has_site alias_sites "metadataMergeInterceptor" "Call:mergeTraitMetadata#0" = true /\
  has_site alias_sites "Model.AddChildTrait$lit" "Call:traitUnion#0" = true /\
  has_site alias_sites "Model.RemoveChildTrait$lit" "Call:traitRemove#0" = true /\
  has_site alias_sites "traitUnion" "ShiftAppend" = true /\
  has_site alias_sites "traitRemove" "Copy" = true /\
  has_site alias_sites "Model.PullEnterLeaveEvents$lit" "FieldSet" = true /\
  has_site alias_sites "Model.CreateEnterLeaveEvent$lit" "FieldSet" = true.
Proof. vm_compute. repeat split; reflexivity. Qed.

(* every reviewed exception is used: a stale entry (the code it excused is gone) fails here *)
Theorem reviewed_all_used :
  forallb (fun r => match r with (f, k, e, _) =>
             existsb (fun s => String.eqb f (as_func s) && String.eqb k (as_kind s) && String.eqb e (as_expr s)) alias_sites
           end) reviewed = true.
Proof. vm_compute. reflexivity. Qed.

Theorem sites_v0_refuted :
  sites_ok sites_metadata_v0 = false /\ sites_ok sites_parent_v0 = false /\
  sites_ok sites_openclose_v0 = false /\ sites_ok sites_enterleave_v0 = false.
Proof. vm_compute. repeat split; reflexivity. Qed.
