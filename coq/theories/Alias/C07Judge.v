(* Correspondence cases for C07.  A case is an operation sequence on one resource.Value or
   resource.Collection (driven directly, or through parentpb / metadatapb / enterleavesensorpb
   whose methods are resource operations with their own interceptors and seed hooks) together
   with what the monitor observed after every operation:
     - how many messages have crossed the API boundary so far,
     - which of those snapshots (by crossing index) no longer equal the deep copy taken when
       they crossed (compared against the previous comparison: a snapshot is reported at the
       operation that changed it),
     - whether the stored values differ from their deep copies taken just before the operation
       (reported for read-only operations).
   [agrees]: the tagged-heap model predicts exactly these observations.
   [C07_ok]: the property, evaluated on the observation alone. *)
From SC Require Import Base.Prelude Alias.Owned Alias.Nested Alias.Writable.

Inductive icode :=
| INone
| ISetNew (f v : Z)
| IAddOld (f : Z)
| IBadOldScalar (f v : Z)
| IBadShareSub (f : Z)
| IBadOldElem (f : Z) (i : nat) (g v : Z)
| IUnion (f key name : Z) (realloc : bool)
| IUnionV0 (f key name : Z) (realloc : bool)
| IRemove (f key name : Z)
| IRemoveV0 (f key name : Z)
| ITotals (fdir fenter fleave enter_code leave_code : Z)
| IMeta (f key : Z) (realloc : bool)
| IMetaV0 (f key : Z) (realloc : bool)
| IMetaSliceClone (f key : Z).      (* seeded change C07-r3-2 *)

Inductive scode := SId | SClear (fs : list Z) | SClearV0 (fs : list Z).

(* model-level reads: the assembled response (openclosepb GetPositions) with the mask applied to a
   clone (the code) or in place (before 2246d41 / seeded change C07-r3-3) *)
Inductive rcode := RAsm (f : Z) (rm : option nmask) | RAsmV0 (f : Z) (rm : option nmask).

(* the merge step of a write on a resource with writable fields / a write with a nested update mask or a
   reset mask: FieldUpdater.Merge as it is (MW writable update reset), or with the by-reference fast path of
   seeded change C07-r4-4 (MWShare) *)
Inductive mcode := MW (w um rs : option nmask) | MWShare (w um rs : option nmask).

Inductive cop :=
| CWrite (id : Z) (arg : list cell) (vis : bool) (um : option (list Z)) (m : wmode) (ib ia : icode)
| CDelete (id : Z)
| CGet (id : Z) (rm : option (list Z))
| CList (rm : option (list Z))
| CPull (rm : option (list Z)) (updates_only : bool) (hook : scode)
| CMutArg (k : nat) (snap : Z)
| CRead (r : rcode)
| CWriteF (id : Z) (arg : list cell) (vis : bool) (mc : mcode) (m : wmode) (ib ia : icode).

Definition fuel : nat := 12%nat.

Definition icode_fun (c : icode) : ifun :=
  match c with
  | INone => i_none
  | ISetNew f v => i_set_new f v
  | IAddOld f => i_add_old f
  | IBadOldScalar f v => i_bad_old_scalar f v
  | IBadShareSub f => i_bad_share_sub f
  | IBadOldElem f i g v => i_bad_old_elem f i g v
  | IUnion f key name realloc => i_union fuel f key name realloc
  | IUnionV0 f key name realloc => i_union_v0 f key name realloc
  | IRemove f key name => i_remove fuel f key name
  | IRemoveV0 f key name => i_remove_v0 f key name
  | ITotals a b c d e => i_totals a b c d e
  | IMeta f key realloc => i_meta fuel f key realloc
  | IMetaV0 f key realloc => i_meta_v0 fuel f key realloc
  | IMetaSliceClone f key => i_meta_slice_clone fuel f key
  end.
Definition rcode_fun (c : rcode) : rfun :=
  match c with RAsm f rm => r_assembled fuel f rm | RAsmV0 f rm => r_assembled_v0 fuel f rm end.
Definition scode_fun (c : scode) : sfun :=
  match c with SId => seed_id | SClear fs => seed_clear fuel fs | SClearV0 fs => seed_clear_v0 fs end.

Definition mcode_fun (c : mcode) : mfun :=
  match c with MW w um rs => upd_merge_w fuel w um rs | MWShare w um rs => upd_merge_share fuel w um rs end.

Definition cop_op (c : cop) : op :=
  match c with
  | CWrite id arg vis um m ib ia => OWrite id arg vis um m (icode_fun ib) (icode_fun ia)
  | CDelete id => ODelete id
  | CGet id rm => OGet id rm
  | CList rm => OList rm
  | CPull rm uo h => OPull rm uo (scode_fun h)
  | CMutArg k _ => OMutArg k
  | CRead r => ORead (rcode_fun r)
  | CWriteF id arg vis mc m ib ia => OWriteF id arg vis (mcode_fun mc) m (icode_fun ib) (icode_fun ia)
  end.

(* observation after one operation *)
(* o_evbad: some change event received during the operation did not carry the stored old/new value
   under the subscription's own read mask (reference projection computed by the harness), or an event
   received earlier reads differently now *)
Record obs1 := mkO { o_nsnaps : Z; o_changed : list Z; o_storemut : bool; o_evbad : bool }.

Inductive c07case := KSeq (coll : bool) (ops : list cop) (obs : list obs1).

Definition store_changed (st st' : state) : bool :=
  existsb (fun p => negb (same fuel (hp (hs st)) (hp (hs st')) (snd p) (snd p))) (store st).

Definition is_read (c : cop) : bool :=
  match c with CGet _ _ | CList _ | CPull _ _ _ | CRead _ => true | _ => false end.

Definition model_obs (st : state) (c : cop) : state * obs1 :=
  let st' := step fuel st (cop_op c) in
  (st', mkO (zlen (snaps st')) (changed fuel st st') (if is_read c then store_changed st st' else false) false).

Definition obs_eqb (a b : obs1) : bool :=
  (o_nsnaps a =? o_nsnaps b) && list_eqb Z.eqb (o_changed a) (o_changed b)
  && Bool.eqb (o_storemut a) (o_storemut b) && Bool.eqb (o_evbad a) (o_evbad b).

Fixpoint agrees_from (st : state) (ops : list cop) (obs : list obs1) : bool :=
  match ops, obs with
  | [], [] => true
  | c :: ops', o :: obs' =>
      let '(st', m) := model_obs st c in
      obs_eqb m o
      && match c with
         | CMutArg k snap =>
             (* the harness and the model mean the same message by "argument k" *)
             match nth_error (filter (fun p => owner_eqb (fst (snd p)) Caller) (zip_index 0 (snaps st))) k with
             | Some p => fst p =? snap
             | None => false
             end
         | _ => true
         end
      && agrees_from st' ops' obs'
  | _, _ => false
  end.

Definition agrees (c : c07case) : bool :=
  match c with KSeq coll ops obs => agrees_from (init_state coll) ops obs end.

(* ---- the property on the observation ---- *)
Definition ok_op (c : cop) (o : obs1) : bool :=
  negb (o_storemut o) && negb (o_evbad o)
  && match c with
     | CMutArg _ snap => forallb (Z.eqb snap) (o_changed o)   (* the caller changed its own message *)
     | _ => match o_changed o with [] => true | _ => false end
     end.

Fixpoint ok_all (ops : list cop) (obs : list obs1) : bool :=
  match ops, obs with
  | c :: ops', o :: obs' => ok_op c o && ok_all ops' obs'
  | _, _ => true
  end.

Definition C07_ok (c : c07case) : bool := match c with KSeq _ ops obs => ok_all ops obs end.

(* ---- guard: the hypotheses of Props/C07.v ---- *)
Definition icode_documented (c : icode) : bool :=
  match c with
  | IBadOldScalar _ _ | IBadShareSub _ | IBadOldElem _ _ _ _ => false   (* written to violate opt.go:403-421 *)
  | _ => true
  end.
Definition cop_guard (c : cop) : bool :=
  match c with
  | CWrite _ arg _ um _ ib ia =>
      arg_wf arg && icode_documented ib && icode_documented ia
      && match um with Some [] => false | _ => true end
  | CWriteF _ arg _ _ _ ib ia => arg_wf arg && icode_documented ib && icode_documented ia
  | CGet _ (Some []) | CList (Some []) | CPull (Some []) _ _ => false
  | _ => true
  end.
Definition C07_guard (c : c07case) : bool := match c with KSeq _ ops _ => forallb cop_guard ops end.

(* ---- known findings ----
   class 1: parentpb AddChildTrait / RemoveChildTrait as they were before the repair edit the stored
            child's Traits slice in place (IUnionV0 / IRemoveV0): every violating operation of the
            case is such a write.
   class 2: a Pull whose seed hook clears fields of the message it was handed (SClearV0). *)
Definition is_parent_write (c : cop) : bool :=
  match c with
  | CWrite _ _ _ _ _ (IUnionV0 _ _ _ _) _ | CWrite _ _ _ _ _ (IRemoveV0 _ _ _) _ => true
  | _ => false
  end.
Definition is_clear_v0 (c : cop) : bool :=
  match c with CPull _ _ (SClearV0 _) => true | _ => false end.

Fixpoint violations_all (p : cop -> bool) (ops : list cop) (obs : list obs1) : bool :=
  match ops, obs with
  | c :: ops', o :: obs' => (ok_op c o || p c) && violations_all p ops' obs'
  | _, _ => true
  end.

Definition known_class (c : c07case) : option Z :=
  match c with
  | KSeq _ ops obs =>
      if violations_all is_parent_write ops obs then Some 1
      else if violations_all is_clear_v0 ops obs then Some 2
      else None
  end.

Definition judge (c : c07case) : Z :=
  verdict (agrees c) (if C07_guard c then C07_ok c else true) (known_class c).

(* the model's own observations of a sequence, and the property evaluated on them *)
Fixpoint model_trace (st : state) (ops : list cop) : list obs1 :=
  match ops with
  | [] => []
  | c :: r => let '(st', o) := model_obs st c in o :: model_trace st' r
  end.
Definition model_ok (coll : bool) (ops : list cop) : bool :=
  ok_all ops (model_trace (init_state coll) ops).
