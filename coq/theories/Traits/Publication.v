(* Model of pkg/trait/publicationpb: ModelServer.CreatePublication / UpdatePublication /
   DeletePublication / AcknowledgePublication on one publication id.  The version hash (md5 of id, body,
   media type and audience name) is an abstract function of that content; times are readings of the
   model's clock.

   Update masks are modelled for every subset of the paths
     id version body media_type publish_time audience
     audience.name audience.receipt audience.receipt_rejected_reason audience.receipt_time
   (nil mask = all fields, a mask naming an unknown field = InvalidArgument), following
   masks.FieldUpdater.Merge: Filter(src) ; proto.Merge(dst, src) ; pruneEmpty(dst, src, mask). *)
From SC Require Import Base.Prelude.

Record aud := mkAud { a_name : string; a_receipt : Z; a_reason : string; a_rtime : option Z }.
Record pub := mkPub { p_id : string; p_version : string; p_body : string; p_media : string;
                      p_aud : option aud; p_ptime : option Z }.
Definition content := (string * string * string * string)%type.
Definition content_of (p : pub) : content :=
  (p_id p, p_body p, p_media p, match p_aud p with Some a => a_name a | None => EmptyString end).
Definition content_eqb (a b : content) : bool :=
  let '(a1, a2, a3, a4) := a in let '(b1, b2, b3, b4) := b in
  String.eqb a1 b1 && String.eqb a2 b2 && String.eqb a3 b3 && String.eqb a4 b4.

Definition NO_SIGNAL := 1. Definition ACCEPTED := 2. Definition REJECTED := 3.

(* a non-nil update mask: which paths it names; [k_bad]: it names a field Publication does not have *)
Record pmask := mkPM { k_id : bool; k_version : bool; k_body : bool; k_media : bool; k_ptime : bool;
                       k_aud : bool; k_aname : bool; k_areceipt : bool; k_areason : bool; k_artime : bool;
                       k_bad : bool }.
Definition pm_empty (k : pmask) : bool :=
  negb (k_id k || k_version k || k_body k || k_media k || k_ptime k || k_aud k
        || k_aname k || k_areceipt k || k_areason k || k_artime k || k_bad k).
Definition pm_only_body : pmask := mkPM false false true false false false false false false false false.
Definition pm_body_media : pmask := mkPM false false true true false false false false false false false.
Definition pm_aname : pmask := mkPM false false false false false false true false false false false.
Definition pm_aud : pmask := mkPM false false false false false true false false false false false.

Inductive pubop :=
| PCreate (p : pub)
| PUpdate (p : pub) (mask : option pmask) (version : string)
| PDelete (id version : string) (allow_missing : bool)
| PAck (id version : string) (receipt : Z) (reason : string) (allow : bool).
(* [PNil]: (nil, nil), the answer of a delete of a missing publication with allow_missing *)
Inductive pout := POk (p : pub) | PErr (code : Z) | PNil.

(* proto.Merge on one singular field: a populated source field overwrites *)
Definition merge_str (d s : string) : string := if String.eqb s EmptyString then d else s.
Definition merge_z (d s : Z) : Z := if s =? 0 then d else s.
Definition merge_ot (d s : option Z) : option Z := match s with Some _ => s | None => d end.
Definition aud0 : aud := mkAud EmptyString 0 EmptyString None.
Definition merge_aud (d s : aud) : aud :=
  mkAud (merge_str (a_name d) (a_name s)) (merge_z (a_receipt d) (a_receipt s))
        (merge_str (a_reason d) (a_reason s)) (merge_ot (a_rtime d) (a_rtime s)).

(* the audience after Merge with a mask naming fields inside audience only *)
Definition masked_aud (k : pmask) (d s : option aud) : option aud :=
  let pick (A : Type) (b : bool) (x y : A) := if b then x else y in
  match s, d with
  | None, None => None
  | None, Some da =>        (* pruneEmpty: the named sub-fields are cleared *)
      Some (mkAud (pick _ (k_aname k) EmptyString (a_name da)) (pick _ (k_areceipt k) 0 (a_receipt da))
                  (pick _ (k_areason k) EmptyString (a_reason da)) (pick _ (k_artime k) None (a_rtime da)))
  | Some sa, _ =>           (* named sub-fields become the source's, the others stay *)
      let da := match d with Some da => da | None => aud0 end in
      Some (mkAud (pick _ (k_aname k) (a_name sa) (a_name da)) (pick _ (k_areceipt k) (a_receipt sa) (a_receipt da))
                  (pick _ (k_areason k) (a_reason sa) (a_reason da)) (pick _ (k_artime k) (a_rtime sa) (a_rtime da)))
  end.

(* FieldUpdater.Merge(dst := clone of old, src := request publication) *)
Definition merge_pub (mask : option pmask) (old p : pub) : pub :=
  match mask with
  | None => p                                  (* proto.Reset(dst); proto.Merge(dst, src) *)
  | Some k =>
      if pm_empty k then old else              (* a mask without paths: no changes *)
      let f (A : Type) (b : bool) (x y : A) := if b then x else y in
      mkPub (f _ (k_id k) (p_id p) (p_id old)) (f _ (k_version k) (p_version p) (p_version old))
            (f _ (k_body k) (p_body p) (p_body old)) (f _ (k_media k) (p_media p) (p_media old))
            (if k_aud k then                   (* the whole audience: merged into the old one, cleared when absent *)
               match p_aud p with
               | None => None
               | Some sa => Some (merge_aud (match p_aud old with Some da => da | None => aud0 end) sa)
               end
             else if k_aname k || k_areceipt k || k_areason k || k_artime k then masked_aud k (p_aud old) (p_aud p)
             else p_aud old)
            (f _ (k_ptime k) (p_ptime p) (p_ptime old))
  end.

Section Pub.
  Variable hash : content -> string.

  (* withComputedProperties with resetReceipt, newPublishTime, newVersion *)
  Definition computed (now : Z) (p : pub) : pub :=
    let a := match p_aud p with Some a => Some (mkAud (a_name a) NO_SIGNAL EmptyString None) | None => None end in
    let p1 := mkPub (p_id p) EmptyString (p_body p) (p_media p) a (Some now) in
    mkPub (p_id p1) (hash (content_of p1)) (p_body p1) (p_media p1) (p_aud p1) (p_ptime p1).

  Definition acked (p : pub) : bool :=
    match p_aud p with Some a => (a_receipt a =? ACCEPTED) || (a_receipt a =? REJECTED) | None => false end.

  Definition ack_apply (now : Z) (p : pub) (receipt : Z) (reason : string) : pub :=
    let name := match p_aud p with Some a => a_name a | None => EmptyString end in
    mkPub (p_id p) (p_version p) (p_body p) (p_media p) (Some (mkAud name receipt reason (Some now))) (p_ptime p).

  (* [fixed_allow] = false: the code as first written, where allow_acknowledged has no effect *)
  Definition pub_step_gen (fixed_allow : bool) (now : Z) (pre : option pub) (o : pubop) : pout * option pub :=
    match o with
    | PCreate p =>
        match pre with
        | Some _ => (PErr 6, pre)
        | None => let n := computed now p in (POk n, Some n)
        end
    | PUpdate p mask version =>
        if String.eqb (p_id p) EmptyString then (PErr 3, pre) else
        if match mask with Some k => k_bad k | None => false end then (PErr 3, pre) else
        match pre with
        | None => (PErr 5, None)
        | Some old =>
            if negb (String.eqb version EmptyString) && negb (String.eqb (p_version old) version) then (PErr 9, pre)
            else let n := computed now (merge_pub mask old p) in (POk n, Some n)
        end
    | PDelete id version allow_missing =>
        if String.eqb id EmptyString then (PErr 3, pre) else
        match pre with
        | None => (if allow_missing then PNil else PErr 5, None)
        | Some old =>
            if negb (String.eqb version EmptyString) && negb (String.eqb (p_version old) version) then (PErr 9, pre)
            else (POk old, None)
        end
    | PAck id version receipt reason allow =>
        if String.eqb id EmptyString || String.eqb version EmptyString then (PErr 3, pre) else
        match pre with
        | None => (PErr 5, None)
        | Some old =>
            if negb (String.eqb (p_version old) version) then (PErr 10, pre)
            else if acked old then (if fixed_allow && allow then (POk old, pre) else (PErr 9, pre))
            else let n := ack_apply now old receipt reason in (POk n, Some n)
        end
    end.
  Definition pub_step := pub_step_gen true.
  Definition pub_step_v0 := pub_step_gen false.

  Definition pub_run (pre : option pub) (ops : list (pubop * Z)) : option pub :=
    fold_left (fun s o => snd (pub_step (snd o) s (fst o))) ops pre.

  Definition version_ok (p : option pub) : Prop :=
    match p with Some p => p_version p = hash (content_of p) | None => True end.

  (* what one step of a history must satisfy: a successful create/update answers with the stored
     publication, whose version is the hash of its content; an acknowledgement naming another version
     than the hash of the stored content is refused with Aborted and changes nothing *)
  Definition step_law (now : Z) (s : option pub) (o : pubop) : Prop :=
    match o with
    | PCreate _ | PUpdate _ _ _ =>
        forall n, fst (pub_step now s o) = POk n ->
                  snd (pub_step now s o) = Some n /\ p_version n = hash (content_of n)
    | PAck id version _ _ _ =>
        forall old, s = Some old -> id <> EmptyString -> version <> EmptyString ->
                    version <> hash (content_of old) -> pub_step now s o = (PErr 10, s)
    | PDelete _ _ _ => forall n, fst (pub_step now s o) = POk n -> s = Some n /\ snd (pub_step now s o) = None
    end.
  Fixpoint history_law (s : option pub) (ops : list (pubop * Z)) : Prop :=
    match ops with
    | [] => True
    | (o, now) :: rest => step_law now s o /\ history_law (snd (pub_step now s o)) rest
    end.

  (* the initial state of NewModel(WithInitialPublication(p)) for this id: the record as configured *)
  Definition pub_new (cfg : option pub) : option pub := cfg.
End Pub.
