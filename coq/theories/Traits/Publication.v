(* Model of pkg/trait/publicationpb: ModelServer.CreatePublication / UpdatePublication /
   AcknowledgePublication on one publication id.  The version hash (md5 of id, body, media type and
   audience name) is an abstract function of that content; times are readings of the model's clock. *)
From SC Require Import Base.Prelude.

Record aud := mkAud { a_name : string; a_receipt : Z; a_reason : string; a_rtime : option Z }.
Record pub := mkPub { p_id : string; p_version : string; p_body : string; p_media : string;
                      p_aud : option aud; p_ptime : option Z }.
Definition content := (string * string * string * string)%type.
Definition content_of (p : pub) : content :=
  (p_id p, p_body p, p_media p, match p_aud p with Some a => a_name a | None => EmptyString end).
Definition content_eqb (a b : content) : bool :=
  let '(a1, a2, a3, a4) := a in let '(b1, b2, b3, b4) := b in
  String.eqb a1 b1 && String.eqb a2 b2 && String.eqb a3 b3 && String.eqb a4 b4.

Definition NO_SIGNAL := 1. Definition ACCEPTED := 2. Definition REJECTED := 3.

Inductive pubop :=
| PCreate (p : pub)
| PUpdate (p : pub) (mask : Z) (version : string)   (* mask: 0 absent, 1 [body], 2 [body, media_type] *)
| PAck (id version : string) (receipt : Z) (reason : string) (allow : bool).
Inductive pout := POk (p : pub) | PErr (code : Z).

Section Pub.
  Variable hash : content -> string.

  (* withComputedProperties with resetReceipt, newPublishTime, newVersion *)
  Definition computed (now : Z) (p : pub) : pub :=
    let a := match p_aud p with Some a => Some (mkAud (a_name a) NO_SIGNAL EmptyString None) | None => None end in
    let p1 := mkPub (p_id p) EmptyString (p_body p) (p_media p) a (Some now) in
    mkPub (p_id p1) (hash (content_of p1)) (p_body p1) (p_media p1) (p_aud p1) (p_ptime p1).

  Definition acked (p : pub) : bool :=
    match p_aud p with Some a => (a_receipt a =? ACCEPTED) || (a_receipt a =? REJECTED) | None => false end.

  Definition ack_apply (now : Z) (p : pub) (receipt : Z) (reason : string) : pub :=
    let name := match p_aud p with Some a => a_name a | None => EmptyString end in
    mkPub (p_id p) (p_version p) (p_body p) (p_media p) (Some (mkAud name receipt reason (Some now))) (p_ptime p).

  (* [fixed_allow] = false: the code as first written, where allow_acknowledged has no effect *)
  Definition pub_step_gen (fixed_allow : bool) (now : Z) (pre : option pub) (o : pubop) : pout * option pub :=
    match o with
    | PCreate p =>
        match pre with
        | Some _ => (PErr 6, pre)
        | None => let n := computed now p in (POk n, Some n)
        end
    | PUpdate p mask version =>
        if String.eqb (p_id p) EmptyString then (PErr 3, pre) else
        match pre with
        | None => (PErr 5, None)
        | Some old =>
            if negb (String.eqb version EmptyString) && negb (String.eqb (p_version old) version) then (PErr 9, pre)
            else
              let merged :=
                if mask =? 0 then p
                else if mask =? 1 then mkPub (p_id old) (p_version old) (p_body p) (p_media old) (p_aud old) (p_ptime old)
                else mkPub (p_id old) (p_version old) (p_body p) (p_media p) (p_aud old) (p_ptime old) in
              let n := computed now merged in (POk n, Some n)
        end
    | PAck id version receipt reason allow =>
        if String.eqb id EmptyString || String.eqb version EmptyString then (PErr 3, pre) else
        match pre with
        | None => (PErr 5, None)
        | Some old =>
            if negb (String.eqb (p_version old) version) then (PErr 10, pre)
            else if acked old then (if fixed_allow && allow then (POk old, pre) else (PErr 9, pre))
            else let n := ack_apply now old receipt reason in (POk n, Some n)
        end
    end.
  Definition pub_step := pub_step_gen true.
  Definition pub_step_v0 := pub_step_gen false.

  Definition pub_run (pre : option pub) (ops : list (pubop * Z)) : option pub :=
    fold_left (fun s o => snd (pub_step (snd o) s (fst o))) ops pre.

  Definition version_ok (p : option pub) : Prop :=
    match p with Some p => p_version p = hash (content_of p) | None => True end.
End Pub.
