(* Model of pkg/trait/vendingpb: unitpb.Convert, updateStock, DispenseInstantly, in exact rational
   arithmetic (the Go code computes the same expressions in float64/float32; the correspondence
   compares within a stated relative tolerance).  The unit table is Gen/Units.v, generated from the
   code on every run. *)
From SC Require Import Base.Prelude Gen.Units.
From Coq Require Import QArith Qabs.
Open Scope Z_scope.

Definition lookup_unit (u : Z) : option (Z * Q) :=
  match find (fun e => Z.eqb (fst e) u) unit_table with Some e => Some (snd e) | None => None end.

(* unitpb.Convert: same unit -> unchanged; both known and same category -> v * from / to; else error *)
Definition convert (v : Q) (from to : Z) : option Q :=
  if Z.eqb from to then Some v else
  match lookup_unit from, lookup_unit to with
  | Some (c1, f1), Some (c2, f2) => if Z.eqb c1 c2 then Some ((v * f1) / f2)%Q else None
  | _, _ => None
  end.

Record qty := mkQty { q_unit : Z; q_amount : Q }.
Record stock := mkStock { s_used : option qty; s_rem : option qty; s_last : option qty; s_dispensing : bool }.

Definition qneg (a : Q) : bool := negb (Qle_bool 0 a).           (* a < 0 *)
Definition floor0 (a : Q) : Q := if qneg a then 0%Q else a.

(* updateStock(quantity, src, dst) *)
Inductive upd := UOk (used rem : option qty) | UErr | UPanic.

Definition upd_used (q : qty) (src : stock) : option (option qty) :=
  match s_used src with
  | Some u => match convert (q_amount q) (q_unit q) (q_unit u) with
              | Some d => Some (Some (mkQty (q_unit u) (q_amount u + d)%Q))
              | None => None
              end
  | None => Some None
  end.

(* as first written: the new remaining quantity takes src.Used.Unit (nil dereference when used is absent) *)
Definition update_stock_v0 (q : qty) (src : stock) : upd :=
  match upd_used q src with
  | None => UErr
  | Some used' =>
      match s_rem src with
      | None => UOk used' None
      | Some r =>
          match convert (q_amount q) (q_unit q) (q_unit r) with
          | None => UErr
          | Some d =>
              match s_used src with
              | None => UPanic
              | Some u => UOk used' (Some (mkQty (q_unit u) (floor0 (q_amount r - d)%Q)))
              end
          end
      end
  end.

(* after the fix: remaining keeps its own unit *)
Definition update_stock (q : qty) (src : stock) : upd :=
  match upd_used q src with
  | None => UErr
  | Some used' =>
      match s_rem src with
      | None => UOk used' None
      | Some r =>
          match convert (q_amount q) (q_unit q) (q_unit r) with
          | None => UErr
          | Some d => UOk used' (Some (mkQty (q_unit r) (floor0 (q_amount r - d)%Q)))
          end
      end
  end.

Inductive vout := VStock (s : stock) | VErr (code : Z) | VNilNil | VPanic.

(* DispenseInstantly: UpdateStock({consumable}) with an interceptor; NotFound (5) for an unknown
   consumable; on a conversion error the new value is reset to the old one (stored stock unchanged) and
   the masked error is returned: [masked] = None models `return nil, err` with err == nil. *)
Definition dispense_gen (upd : qty -> stock -> upd) (masked : option Z) (pre : option stock) (q : qty)
  : vout * option stock :=
  match pre with
  | None => (VErr 5, None)
  | Some s =>
      match upd q s with
      | UPanic => (VPanic, pre)
      | UErr => (match masked with Some c => VErr c | None => VNilNil end, Some s)
      | UOk used' rem' => let s' := mkStock used' rem' (Some q) false in (VStock s', Some s')
      end
  end.

Definition dispense_v0 := dispense_gen update_stock_v0 None.
Definition dispense := dispense_gen update_stock (Some 3).   (* InvalidArgument *)

(* ---- specification: the rule as the property states it, over any conversion function ---- *)
Definition omap {A B} (f : A -> option B) (o : option A) : option (option B) :=
  match o with None => Some None | Some a => match f a with Some b => Some (Some b) | None => None end end.

Section Spec.
  Variable conv : Q -> Z -> Z -> option Q.
  Definition spec_used_with (q : qty) (u : qty) : option qty :=
    match conv (q_amount q) (q_unit q) (q_unit u) with
    | Some d => Some (mkQty (q_unit u) (q_amount u + d)%Q) | None => None end.
  Definition spec_rem_with (q : qty) (r : qty) : option qty :=
    match conv (q_amount q) (q_unit q) (q_unit r) with
    | Some d => Some (mkQty (q_unit r) (floor0 (q_amount r - d)%Q)) | None => None end.
  Definition dispense_spec_with (pre : option stock) (q : qty) : vout * option stock :=
    match pre with
    | None => (VErr 5, None)
    | Some s =>
        match omap (spec_used_with q) (s_used s), omap (spec_rem_with q) (s_rem s) with
        | Some u', Some r' => let s' := mkStock u' r' (Some q) false in (VStock s', Some s')
        | _, _ => (VErr 3, Some s)
        end
    end.
End Spec.
Definition spec_used := spec_used_with convert.
Definition spec_rem := spec_rem_with convert.
Definition dispense_spec := dispense_spec_with convert.

(* ---- reference: physical categories and SI factors of the units (hand-written, independent of the code) ---- *)
Definition phys (u : Z) : option (Z * Q) :=
  match u with
  | 2 => Some (1, 1%Q)                              (* METER: length *)
  | 3 => Some (2, 1%Q)                              (* LITER: volume *)
  | 4 => Some (2, 1000%Q)                           (* CUBIC_METER *)
  | 5 => Some (2, (2365882365 # 10000000000)%Q)     (* CUP (US fluid cup = 3.785411784 l / 16) *)
  | 6 => Some (3, 1%Q)                              (* KILOGRAM: weight *)
  | _ => None
  end.
Definition phys_convert (v : Q) (from to : Z) : option Q :=
  if Z.eqb from to then Some v else
  match phys from, phys to with
  | Some (c1, f1), Some (c2, f2) => if Z.eqb c1 c2 then Some ((v * f1) / f2)%Q else None
  | _, _ => None
  end.

Definition vrun (pre : option stock) (qs : list qty) : option stock :=
  fold_left (fun s q => snd (dispense s q)) qs pre.
