From SC Require Import Base.Prelude Resource.Impl Resource.Pull Resource.PullProofs Traits.TraitPull
  Traits.EnterLeave Traits.EnterLeaveProofs Traits.MeterMask Traits.FanSpeed.
Local Open Scope Z_scope.

Section P.
  Variables (S Op : Type).
  Variable step : S -> Op -> option S.
  Variable seed_view : S -> S.
  Notation stream := (tp_stream step seed_view None).
  Notation trace := (tp_trace step).
  Notation run := (tp_run step).

  Lemma events_trace ops : forall s,
    map (fun e => (ve_value e, ve_time e)) (tp_events step s ops) = trace s ops.
  Proof.
    induction ops as [|[o t] ops IH]; intros s; cbn [tp_events tp_trace map]; [reflexivity|].
    destruct (step s o) as [s'|]; cbn [map ve_value ve_time]; rewrite IH; reflexivity.
  Qed.

  (* EXACT: the stream is the (viewed) current value at subscription time unless updates_only, followed by the
     model's getter value after every accepted operation, in order, nothing else *)
  Theorem stream_exact uo s0 t0 ops :
    stream uo s0 t0 ops = (if uo then [] else [(seed_view s0, t0)]) ++ trace s0 ops.
  Proof.
    unfold tp_stream. rewrite value_stream_exact. cbn [ro_updates_only v_val v_time ro_mask].
    rewrite map_app, map_map. cbn [vc_last_seed vc_value vc_time]. unfold filt. cbn [ro_mask].
    rewrite <- events_trace. f_equal. destruct uo; reflexivity.
  Qed.

  Lemma last_trace ops : forall s, last (map fst (trace s ops)) s = run s ops.
  Proof.
    unfold tp_run. induction ops as [|[o t] ops IH]; intros s; cbn [tp_trace fold_left map fst]; [reflexivity|].
    destruct (step s o) as [s'|] eqn:E; cbn [fst]; [|apply IH].
    cbn [map fst]. rewrite <- (IH s'). destruct (map fst (trace s' ops)) as [|x l] eqn:M; [reflexivity|].
    cbn [last]. clear. revert x. induction l as [|y l IHl]; intros x; [reflexivity|]. cbn [last]. apply IHl.
  Qed.

  (* FOLD: after every history, the last value the subscriber holds is the model's getter — for updates-only
     subscribers (holding s0 before the first change) and, when some operation was accepted, for seeded ones *)
  Theorem stream_fold_updates_only s0 t0 ops : tp_last_value (stream true s0 t0 ops) s0 = run s0 ops.
  Proof. rewrite stream_exact. cbn [app]. apply last_trace. Qed.

  Theorem stream_fold_seeded s0 t0 ops : trace s0 ops <> [] ->
    tp_last_value (stream false s0 t0 ops) s0 = run s0 ops.
  Proof.
    intros Hne. rewrite stream_exact. unfold tp_last_value. cbn [app map fst].
    rewrite <- last_trace. destruct (trace s0 ops) as [|x l]; [congruence|]. cbn [map]. reflexivity.
  Qed.

  (* a history in which nothing was accepted delivers the seed only *)
  Theorem stream_seed_only s0 t0 ops : trace s0 ops = [] -> stream false s0 t0 ops = [(seed_view s0, t0)].
  Proof. intros H. rewrite stream_exact, H. reflexivity. Qed.

  (* PREFIX: the stream of a longer history extends the stream of the shorter one *)
  Lemma trace_app a : forall s b, trace s (a ++ b) = trace s a ++ trace (run s a) b.
  Proof.
    unfold tp_run. induction a as [|[o t] a IH]; intros s b; cbn [app tp_trace fold_left fst]; [reflexivity|].
    destruct (step s o) as [s'|]; cbn [app]; rewrite IH; reflexivity.
  Qed.
  Theorem stream_prefix uo s0 t0 a b : stream uo s0 t0 (a ++ b) = stream uo s0 t0 a ++ trace (run s0 a) b.
  Proof. rewrite !stream_exact, trace_app, app_assoc. reflexivity. Qed.

  (* with an equivalence that is equality (fan speed on the values the model produces): changes equal to the value
     the subscriber holds are not delivered, and still the last value held is the model's getter *)
  Variable eqb : S -> S -> bool.
  Hypothesis eqb_spec : forall a b, eqb a b = true <-> a = b.
  Definition eq_equiv : option S -> option S -> bool := option_eqb eqb.

  Lemma last_cons (x : S) l d : last (x :: l) d = last l x.
  Proof.
    revert x d. induction l as [|y l IH]; intros x d; [reflexivity|].
    change (last (x :: y :: l) d) with (last (y :: l) d). rewrite (IH y d), (IH y x). reflexivity.
  Qed.

  Lemma forward_eq_last uo ops : forall s h, h = None \/ h = Some s ->
    last (map (@vc_value S) (v_forward (fun (_ : unit) (m : S) => m) (Some eq_equiv) (mkR None uo None) h (tp_events step s ops))) s
    = run s ops.
  Proof.
    unfold tp_run. induction ops as [|[o t] ops IH]; intros s h Hh; cbn [tp_events fold_left fst]; [reflexivity|].
    destruct (step s o) as [s'|]; [|now apply IH].
    cbn [v_forward]. unfold filt. cbn [ro_mask ve_value ve_time]. unfold eq_equiv at 1.
    destruct h as [x|]; cbn [option_eqb].
    - destruct (eqb x s') eqn:E.
      + apply eqb_spec in E. destruct Hh as [Hh|Hh]; [discriminate|]. inversion Hh. subst. apply IH. now right.
      + cbn [map vc_value]. rewrite last_cons. apply IH. now right.
    - cbn [map vc_value]. rewrite last_cons. apply IH. now right.
  Qed.

  Theorem stream_fold_equality uo s0 t0 ops :
    tp_last_value (tp_stream step (fun s => s) (Some eq_equiv) uo s0 t0 ops) s0 = run s0 ops.
  Proof.
    unfold tp_last_value, tp_stream, pull_value, pull_value_gen. cbn [ro_updates_only v_val v_time].
    rewrite map_map.
    assert (forall l : list (vchange S),
               map (fun x => fst (if vc_last_seed x then vc_value x else vc_value x, vc_time x)) l = map (@vc_value S) l) as A.
    { intros l. apply map_ext. intros c. destruct (vc_last_seed c); reflexivity. }
    rewrite A. destruct uo; cbn [option_map app].
    - apply forward_eq_last. now left.
    - unfold filt. cbn [ro_mask map vc_value]. rewrite last_cons. apply forward_eq_last. now right.
  Qed.
End P.

(* ---- instances ---- *)
Definition el_pull_step (s : elev) (o : elop) : option elev := Some (el_step s o).
Definition el_seed_view (e : elev) : elev := mkEl 0 None (el_enter e) (el_leave e).
Definition mm_pull_step (s : mmeter) (o : mmop) : option mmeter :=
  match o with
  | MMUpdate um req => if fst (mm_update um s req) =? 0 then Some (mm_step s o) else None
  | _ => Some (mm_step s o)
  end.
Definition fan_pull_step (ps : list preset) (s : fan) (o : fan * bool) : option fan :=
  match fan_update ps s (fst o) (snd o) with (FOk _, n) => Some n | _ => None end.

(* enter/leave: every change of the stream carries the two counters of the specification *)
Theorem el_stream_totals ops : forall s t0,
  map (fun c => (tot (el_enter (fst c)), tot (el_leave (fst c)))) (tp_stream el_pull_step el_seed_view None true s t0 ops)
  = map (fun c => (tot (el_enter (fst c)), tot (el_leave (fst c)))) (tp_trace el_pull_step s ops).
Proof. intros. rewrite stream_exact. reflexivity. Qed.

Lemma el_run_is_tp_run ops : forall s, tp_run el_pull_step s ops = el_run s (map fst ops).
Proof.
  unfold tp_run, el_run. induction ops as [|o ops IH]; intros s; cbn [fold_left map]; [reflexivity|]. apply IH.
Qed.
