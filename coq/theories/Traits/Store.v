(* Model of the record CRUD of a trait model built on resource.Collection, as used by
   vendingpb (CreateConsumable/UpdateConsumable/DeleteConsumable/ListConsumables/GetConsumable and
   CreateStock/UpdateStock/DeleteStock/ListInventory/GetStock, DispenseInstantly being an UpdateStock):

     state      the records of the collection as a key-sorted association list (what List returns:
                Collection.List sorts by id); the record's own name field is its key
     Create     Collection.Add(name, rec, WithGenIDIfAbsent, WithIDCallback): an empty name takes a generated
                id (an argument of the operation: the id the collection chose), an existing id is AlreadyExists
     Update     Collection.Update(rec.name, rec, mask): empty name / unknown name NotFound, a mask naming an
                unknown field InvalidArgument, otherwise FieldUpdater.Merge (parameter [merge])
     Delete     Collection.Delete(name, WithAllowMissing): NotFound or (nil, nil) when absent
   The payload type R (the record without its name) and the merge function are parameters. *)
From SC Require Import Base.Prelude Traits.Str.

Section Store.
  Variables (R M : Type).
  Variable merge : M -> R -> R -> R.     (* mask, stored record, request record *)
  Variable mbad : M -> bool.             (* the mask names a field the message does not have *)

  Definition store := list (string * R).

  Fixpoint sfind (k : string) (s : store) : option R :=
    match s with [] => None | (k', v) :: r => if String.eqb k' k then Some v else sfind k r end.
  (* insert or replace, keeping the keys ascending *)
  Fixpoint sput (k : string) (v : R) (s : store) : store :=
    match s with
    | [] => [(k, v)]
    | (k', v') :: r => if String.eqb k' k then (k, v) :: r
                       else if slt k k' then (k, v) :: (k', v') :: r
                       else (k', v') :: sput k v r
    end.
  Fixpoint sdel (k : string) (s : store) : store :=
    match s with [] => [] | (k', v') :: r => if String.eqb k' k then r else (k', v') :: sdel k r end.

  Inductive sop :=
  | SCreate (name gen : string) (v : R)
  | SUpdate (name : string) (v : R) (m : M)
  | SDelete (name : string) (allow_missing : bool).
  Inductive sout := SOk (name : string) (v : R) | SErr (code : Z) | SNil.

  Definition create_id (name gen : string) : string := if String.eqb name EmptyString then gen else name.

  Definition sstep (s : store) (o : sop) : sout * store :=
    match o with
    | SCreate name gen v =>
        let id := create_id name gen in
        match sfind id s with
        | Some _ => (SErr 6, s)
        | None => (SOk id v, sput id v s)
        end
    | SUpdate name v m =>
        if String.eqb name EmptyString then (SErr 5, s) else
        if mbad m then (SErr 3, s) else
        match sfind name s with
        | None => (SErr 5, s)
        | Some old => let n := merge m old v in (SOk name n, sput name n s)
        end
    | SDelete name allow_missing =>
        match sfind name s with
        | None => (if allow_missing then SNil else SErr 5, s)
        | Some old => (SOk name old, sdel name s)
        end
    end.
  Definition srun (s : store) (ops : list sop) : store := fold_left (fun s o => snd (sstep s o)) ops s.

  (* ---- specification: a finite map, no order, no list ---- *)
  Definition fmap := string -> option R.
  Definition fupd (f : fmap) (k : string) (v : option R) : fmap := fun k' => if String.eqb k k' then v else f k'.
  Definition fstep (f : fmap) (o : sop) : fmap :=
    match o with
    | SCreate name gen v => let id := create_id name gen in match f id with Some _ => f | None => fupd f id (Some v) end
    | SUpdate name v m =>
        if String.eqb name EmptyString || mbad m then f else
        match f name with None => f | Some old => fupd f name (Some (merge m old v)) end
    | SDelete name _ => fupd f name None
    end.
  Definition frun (f : fmap) (ops : list sop) : fmap := fold_left fstep ops f.

  Definition store_wf (s : store) : bool := ssorted (map fst s).
End Store.

Arguments SCreate {R M}. Arguments SUpdate {R M}. Arguments SDelete {R M}.
Arguments SOk {R}. Arguments SErr {R}. Arguments SNil {R}.
Arguments sfind {R}. Arguments sput {R}. Arguments sdel {R}. Arguments store_wf {R}.
Arguments sstep {R M}. Arguments srun {R M}. Arguments fstep {R M}. Arguments frun {R M}. Arguments fupd {R}.
