(* Pull / stream methods of the trait models built on one resource.Value (enterleavesensorpb.PullEnterLeaveEvents,
   meterpb.PullMeterReadings, fanspeedpb.PullFanSpeed): the stream a subscriber receives is Resource/Pull.v's
   [pull_value] (no read mask, no equivalence) over the events the model's operations publish — every accepted
   operation performs exactly one Value.Set, which publishes the new value; a rejected operation publishes
   nothing.  [seed_view]: what the model does to the seed change (enter/leave clears occupant and direction).
   No proofs here. *)
From SC Require Import Base.Prelude Resource.Impl Resource.Pull.

Set Implicit Arguments.

Section TraitPull.
  Variables (S Op : Type).
  Variable step : S -> Op -> option S.       (* None: rejected *)
  Variable seed_view : S -> S.
  (* the resource's WithMessageEquivalence (fan speed: message equality up to 0.01 on floats); None: not configured *)
  Variable equiv : option (option S -> option S -> bool).

  Fixpoint tp_events (s : S) (ops : list (Op * Z)) : list (vevent S) :=
    match ops with
    | [] => []
    | (o, t) :: r => match step s o with
                     | Some s' => mkVE s' t :: tp_events s' r
                     | None => tp_events s r
                     end
    end.
  (* the model's getter after the operations *)
  Definition tp_run (s : S) (ops : list (Op * Z)) : S :=
    fold_left (fun s o => match step s (fst o) with Some s' => s' | None => s end) ops s.
  (* the getter after every accepted operation, with the time of the operation *)
  Fixpoint tp_trace (s : S) (ops : list (Op * Z)) : list (S * Z) :=
    match ops with
    | [] => []
    | (o, t) :: r => match step s o with
                     | Some s' => (s', t) :: tp_trace s' r
                     | None => tp_trace s r
                     end
    end.

  (* what the subscriber of Model.Pull... receives: value and change time *)
  Definition tp_stream (updates_only : bool) (s0 : S) (t0 : Z) (ops : list (Op * Z)) : list (S * Z) :=
    map (fun c => (if vc_last_seed c then seed_view (vc_value c) else vc_value c, vc_time c))
        (pull_value (fun (_ : unit) (m : S) => m) equiv (mkV (Some s0) t0 0) (mkR None updates_only None) (tp_events s0 ops)).

  (* the last value of a stream, [d] when it is empty *)
  Definition tp_last_value (l : list (S * Z)) (d : S) : S := last (map fst l) d.
End TraitPull.
