(* publicationpb.Model / ModelServer over ALL publication ids: the collection as a key-sorted association list
   (Traits/Store.v: what ListPublications returns), every operation of Traits/Publication.v applied to the
   slot of the id it addresses.  A create without id takes the id the collection generated (an argument of the
   operation, as in Traits/Store.v) — the id is written into the publication before the version is minted.
   No proofs here. *)
From SC Require Import Base.Prelude Traits.Str Traits.Store Traits.Publication.

Definition pub_with_id (p : pub) (id : string) : pub :=
  mkPub id (p_version p) (p_body p) (p_media p) (p_aud p) (p_ptime p).
Definition pub_norm_op (o : pubop) (gen : string) : pubop :=
  match o with
  | PCreate p => if String.eqb (p_id p) EmptyString then PCreate (pub_with_id p gen) else o
  | _ => o
  end.
Definition pub_op_id (o : pubop) : string :=
  match o with PCreate p | PUpdate p _ _ => p_id p | PDelete id _ _ | PAck id _ _ _ _ => id end.

Record pubsop := mkPO { po_op : pubop; po_gen : string; po_now : Z }.

Section PubStore.
  Variable hash : content -> string.
  Definition pubs := store pub.
  Definition pubs_step (s : pubs) (o : pubsop) : pout * pubs :=
    let o' := pub_norm_op (po_op o) (po_gen o) in
    let id := pub_op_id o' in
    let '(out, post) := pub_step hash (po_now o) (sfind id s) o' in
    (out, match post with Some p => sput id p s | None => sdel id s end).
  Definition pubs_run (s : pubs) (ops : list pubsop) : pubs := fold_left (fun s o => snd (pubs_step s o)) ops s.

  (* ---- generated ids: resource.GenerateUniqueId as used by Collection.Add(WithGenIDIfAbsent) — the clause of the
     C01 collection model (Resource/Spec.v first_fresh): the first of at most ten candidates drawn from the
     collection's random source that is non-empty and unused; exhausted = Aborted ---- *)
  Fixpoint first_fresh (cands : list string) (n : nat) (s : pubs) : option string :=
    match n, cands with
    | O, _ | _, [] => None
    | S n', c :: r =>
        if negb (String.eqb c EmptyString) && match sfind c s with None => true | Some _ => false end
        then Some c else first_fresh r n' s
    end.
  Definition needs_gen (o : pubop) : bool :=
    match o with PCreate p => String.eqb (p_id p) EmptyString | _ => false end.
  (* the operation as the server receives it, the candidates the random source will yield, the clock *)
  Definition pubs_step_c (s : pubs) (o : pubop) (cands : list string) (now : Z) : pout * pubs :=
    if needs_gen o then
      match first_fresh cands 10 s with
      | None => (PErr 10, s)
      | Some g => pubs_step s (mkPO o g now)
      end
    else pubs_step s (mkPO o EmptyString now).
  Definition pubs_run_c (s : pubs) (ops : list (pubop * list string * Z)) : pubs :=
    fold_left (fun s o => snd (pubs_step_c s (fst (fst o)) (snd (fst o)) (snd o))) ops s.

  (* every listed publication carries the hash of its content *)
  Definition pubs_versions_ok (s : pubs) : Prop := forall k p, sfind k s = Some p -> p_version p = hash (content_of p).

  (* NewModel(WithInitialPublication ...): the configured records, key sorted *)
  Definition pubs_new (cfg : list (string * pub)) : pubs := fold_left (fun s e => sput (fst e) (snd e) s) cfg [].
End PubStore.
