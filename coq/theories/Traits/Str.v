(* Byte-order string comparison as Go's < on strings (lexicographic on bytes).
   Coq's String.compare compares characters by their code, which is the same order. *)
From SC Require Import Base.Prelude.

Definition slt (a b : string) : bool := String.ltb a b.        (* a < b *)
Definition sge (a b : string) : bool := negb (slt a b). (* a >= b *)
Definition sgt (a b : string) : bool := slt b a.        (* a > b *)
Definition seqb (a b : string) : bool := String.eqb a b.

Fixpoint smem (x : string) (l : list string) : bool :=
  match l with [] => false | y :: r => String.eqb x y || smem x r end.

(* strictly ascending = sorted and duplicate free *)
Fixpoint ssorted (l : list string) : bool :=
  match l with
  | a :: (b :: _) as r => slt a b && ssorted r
  | _ => true
  end.

(* Go's sort.SliceIsSorted with less = (<): no element is smaller than its predecessor *)
Fixpoint wsorted (l : list string) : bool :=
  match l with
  | a :: (b :: _) as r => negb (slt b a) && wsorted r
  | _ => true
  end.

Definition strs_eqb := list_eqb String.eqb.
