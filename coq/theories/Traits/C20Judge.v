(* Correspondence cases for C20.  Each case is one executed operation of one trait model: the state
   observed before, the operation, what the Go code returned and the state observed after.
   [agrees] compares with the model's step function; [C20_ok] evaluates the property on the
   observation with oracles that do not go through the model's algorithms. *)
From SC Require Export Base.Prelude Traits.Str Traits.Parent Traits.Vending Traits.FanSpeed Traits.ModeTrait
  Traits.EnterLeave Traits.Meter Traits.Publication Traits.Options Traits.Store Traits.VendingStore Traits.FanMask.
From SC Require Export Msg.Msg Msg.Schema Msg.Path Masks.Get Traits.MeterMask Traits.StockMask Traits.PubStore Traits.TraitPull Traits.TraitPullProofs.
From Coq Require Import QArith Qabs.
Open Scope Z_scope.

Inductive c20case :=
| KParent (pre : children) (o : pop) (ret : option (list string) * bool) (post : children)
| KConvert (v : Q) (from to : Z) (obs back : option Q)
| KVendConfig (stocks consumables : list string) (inventory listed : list string)
| KDispense (pre : option stock) (q : qty) (obs : vout) (post : option stock)
| KFan (ps : list preset) (pre req : fan) (relative : bool) (obs : fout) (post : fan)
| KModeConfig (given used : modes) (initial : mvalues)
| KMode (ms : modes) (pre abs : mvalues) (rel : list (string * Z)) (mask : Z) (obs : option mvalues) (post : mvalues)
| KEnterLeave (pre : elev) (o : elop) (post : elev)
| KMeterNew (init : option meter) (now : Z) (obs : meter)
| KMeter (pre : meter) (o : mop) (ret post : meter)
| KPub (now : Z) (pre : option pub) (o : pubop) (obs : pout) (post : option pub) (hpre hpost : string)
| KNew (model : Z) (dflt opts : list mopt) (panicked : bool) (obs : list rstate)
| KVStore (pre : vstate) (names_ok : bool) (o : vop) (obs : vres) (post : vstate)
| KFanMask (ps : list preset) (pre req : fan) (m : option fmask) (obs : fout) (post : fan)
| KMeterSeq (pre : mmeter) (o : mmop) (code : Z) (ret : option mmeter) (post : mmeter)
| KSchema (dumped : schema)
| KStockMask (name : string) (pre : option zstock) (req : zstock) (um : mask) (code : Z) (ret_ok : bool)
             (post : option zstock) (other_same : bool)
| KPubs (now : Z) (pre : pubs) (o : pubop) (cands : list string) (obs : pout) (post : pubs) (hpre hpost : string)
| KPullEL (uo : bool) (s0 : elev) (t0 : Z) (ops : list (elop * Z)) (acc : list bool) (stream : list (elev * Z)) (gets : list elev)
| KPullMeter (uo : bool) (s0 : mmeter) (t0 : Z) (ops : list (mmop * Z)) (acc : list bool) (stream : list (mmeter * Z)) (gets : list mmeter)
| KPullFan (uo : bool) (ps : list preset) (s0 : fan) (t0 : Z) (ops : list (fan * bool * Z)) (acc : list bool) (stream : list (fan * Z)) (gets : list fan).

(* ---- meter with arbitrary update masks (paths) ---- *)
Definition ts_eqb (a b : ts) : bool := (fst a =? fst b) && (snd a =? snd b).
Definition mm_eqb (a b : mmeter) : bool :=
  (mm_usage a =? mm_usage b) && option_eqb ts_eqb (mm_start a) (mm_start b) && option_eqb ts_eqb (mm_end a) (mm_end b).
(* independent of [covers]/[touches]: a path can only reach field f when its first segment is f *)
Definition path_heads (f : string) (ups : list path) : bool :=
  existsb (fun u => match u with [] => true | s :: _ => String.eqb s f end) ups.
Definition names_exactly (f : string) (ups : list path) : bool :=
  existsb (fun u => match u with [s] => String.eqb s f | _ => false end) ups.
Definition meter_seq_ok (pre : mmeter) (o : mmop) (code : Z) (ret : option mmeter) (post : mmeter) : bool :=
  if negb (code =? 0) then mm_eqb post pre && match ret with None => true | Some _ => false end
  else
    option_eqb mm_eqb ret (Some post) &&
    match o with
    | MMRecord v t => mm_eqb post (mkMM v (mm_start pre) (Some (t, 0)))
    | MMReset t => mm_eqb post (mkMM 0 (Some (t, 0)) (Some (t, 0)))
    | MMUpdate None req => mm_eqb post req
    | MMUpdate (Some ups) req =>
        (path_heads "usage" ups || (mm_usage post =? mm_usage pre))
        && (path_heads "start_time" ups || option_eqb ts_eqb (mm_start post) (mm_start pre))
        && (path_heads "end_time" ups || option_eqb ts_eqb (mm_end post) (mm_end pre))
        && (negb (names_exactly "usage" ups) || (mm_usage post =? mm_usage req))
        && (negb (names_exactly "start_time" ups) || match mm_start req with None => match mm_start post with None => true | _ => false end
                                                                          | Some _ => match mm_start post with Some _ => true | None => false end end)
    end.
Definition meter_seq_agrees (pre : mmeter) (o : mmop) (code : Z) (ret : option mmeter) (post : mmeter) : bool :=
  mm_eqb post (mm_step pre o) &&
  match o with
  | MMUpdate um req =>
      (code =? fst (mm_update um pre req)) &&
      match mm_update_tree um pre req with
      | Some (c, p) => (code =? c) && mm_eqb post p
      | None => false
      end
  | _ => code =? 0
  end.

Definition skind_eqb (a b : skind) : bool :=
  match a, b with KInt, KInt | KBool, KBool | KStr, KStr | KBytes, KBytes | KEnum, KEnum | KF32, KF32 | KF64, KF64 => true | _, _ => false end.
Definition fdesc_eqb (a b : fdesc) : bool :=
  String.eqb (fname a) (fname b) && (fnum a =? fnum b)
  && match fcard a, fcard b with CSingular, CSingular | CList, CList | CMap, CMap => true | _, _ => false end
  && match fkd a, fkd b with FScalar x, FScalar y => skind_eqb x y | FMsg x, FMsg y => String.eqb x y | _, _ => false end
  && option_eqb skind_eqb (fkey a) (fkey b) && Bool.eqb (fexplicit a) (fexplicit b) && option_eqb String.eqb (foneof a) (foneof b).
(* every hand-written message type is exactly what the Go descriptors say *)
Definition schema_agrees (hand dumped : schema) : bool :=
  forallb (fun e => match alookup (fst e) dumped with Some fs => list_eqb fdesc_eqb (snd e) fs | None => false end) hand.

(* ---- stock with arbitrary update masks (paths) ---- *)
Definition zq_eqb (a b : Z * Z) : bool := (fst a =? fst b) && (snd a =? snd b).
Definition ps_eqb (a b : zstock) : bool :=
  option_eqb zq_eqb (ps_used a) (ps_used b) && option_eqb zq_eqb (ps_rem a) (ps_rem b)
  && option_eqb zq_eqb (ps_last a) (ps_last b) && Bool.eqb (ps_disp a) (ps_disp b).
(* the update is the generic store's Update step on the one-record store with the path merge function, and the
   generic FieldUpdater model on the encoded trees gives the same record *)
Definition stock_mask_agrees (name : string) (pre : option zstock) (req : zstock) (um : mask) (code : Z)
           (post : option zstock) : bool :=
  let s := match pre with Some o => [(name, o)] | None => [] end in
  let '(out, s') := sstep zupdate (@stock_mask_bad) s (SUpdate name req um) in
  match out with
  | SOk n r => (code =? 0) && String.eqb n name && option_eqb ps_eqb post (Some r)
  | SErr c => (code =? c) && option_eqb ps_eqb post pre
  | SNil => false
  end
  && option_eqb ps_eqb post (sfind name s')
  && match pre with
     | Some o => match zupdate_tree name um o req with
                 | Some (c, p) => (code =? c) && option_eqb ps_eqb post (Some p)
                 | None => false
                 end
     | None => true
     end.
Definition same_unless (touched : bool) (a b : option (Z * Z)) : bool := touched || option_eqb zq_eqb a b.
Definition stock_mask_ok (pre : option zstock) (req : zstock) (um : mask) (code : Z) (ret_ok : bool)
           (post : option zstock) (other_same : bool) : bool :=
  ret_ok && other_same &&
  match pre, post with
  | None, None => negb (code =? 0)
  | Some o, Some p =>
      if negb (code =? 0) then ps_eqb p o else
      match um with
      | None => ps_eqb p req
      | Some ups =>
          same_unless (path_heads "used" ups) (ps_used p) (ps_used o)
          && same_unless (path_heads "remaining" ups) (ps_rem p) (ps_rem o)
          && same_unless (path_heads "last_dispensed" ups) (ps_last p) (ps_last o)
          && (path_heads "dispensing" ups || Bool.eqb (ps_disp p) (ps_disp o))
          && (negb (names_exactly "dispensing" ups) || Bool.eqb (ps_disp p) (ps_disp req))
          (* only used.amount named under "used": the unit is the stored one *)
          && (negb (forallb (fun u => match u with s0 :: r => negb (String.eqb s0 "used") || list_eqb String.eqb r ["amount"%string] | [] => false end) ups
                    && path_heads "used" ups)
              || match ps_used o, ps_used p with
                 | Some a, Some b => fst a =? fst b
                 | None, None => true
                 | None, Some b => match ps_used req with Some _ => fst b =? 0 | None => false end
                 | Some _, None => false
                 end)
      end
  | _, _ => false
  end.


Definition children_eqb (a b : children) : bool :=
  list_eqb (fun x y => String.eqb (fst x) (fst y) && strs_eqb (snd x) (snd y)) a b.
Definition pret_eqb (a b : option (list string) * bool) : bool :=
  option_eqb strs_eqb (fst a) (fst b) && Bool.eqb (snd a) (snd b).

(* ---- parent: set algebra on membership, other children untouched ---- *)
Definition others_same (n : string) (pre post : children) : bool :=
  forallb (fun c => String.eqb (fst c) n || option_eqb strs_eqb (find_child (fst c) post) (Some (snd c))) pre
  && forallb (fun c => String.eqb (fst c) n || option_eqb strs_eqb (find_child (fst c) pre) (Some (snd c))) post.

Definition parent_ok (pre : children) (o : pop) (ret : option (list string) * bool) (post : children) : bool :=
  match o with
  | PAdd n names =>
      match fst ret with
      | Some out =>
          set_ok_union (child_traits n pre) names out
          && option_eqb strs_eqb (find_child n post) (Some out)
          && Bool.eqb (snd ret) (match find_child n pre with None => true | Some _ => false end)
          && others_same n pre post
      | None => false
      end
  | PRemove n names =>
      match find_child n pre, fst ret with
      | None, None => children_eqb pre post && negb (snd ret)
      | Some has, Some out =>
          set_ok_diff has names out && option_eqb strs_eqb (find_child n post) (Some out)
          && negb (snd ret) && others_same n pre post
      | _, _ => false
      end
  end.

Definition parent_guard (pre : children) : bool := children_wf pre && ssorted (map fst pre).

(* ---- vending: float results compared with exact rational arithmetic within a relative tolerance ---- *)
Definition qclose (eps scale a b : Q) : bool := Qle_bool (Qabs (a - b)) (scale * eps).
Definition eps32 : Q := 1 # 2097152.          (* 2^-21: float32 arithmetic, two roundings *)
Definition eps64 : Q := 1 # 35184372088832.   (* 2^-45: float64 arithmetic *)

Definition qty_close (p m o : option qty) : bool :=
  match p, m, o with
  | None, None, None => true
  | Some p, Some m, Some o =>
      (q_unit m =? q_unit o) && qclose eps32 (Qabs (q_amount p) + Qabs (q_amount m)) (q_amount m) (q_amount o)
  | _, _, _ => false
  end.
Definition qty_eqb (a b : qty) : bool := (q_unit a =? q_unit b) && Qeq_bool (q_amount a) (q_amount b).
Definition stock_eqb (a b : stock) : bool :=
  option_eqb qty_eqb (s_used a) (s_used b) && option_eqb qty_eqb (s_rem a) (s_rem b)
  && option_eqb qty_eqb (s_last a) (s_last b) && Bool.eqb (s_dispensing a) (s_dispensing b).
(* [m] computed from [p] by the model or the reference, [o] observed *)
Definition stock_close (p m o : stock) : bool :=
  qty_close (s_used p) (s_used m) (s_used o) && qty_close (s_rem p) (s_rem m) (s_rem o)
  && option_eqb qty_eqb (s_last m) (s_last o) && Bool.eqb (s_dispensing m) (s_dispensing o).

Definition dispense_matches (strict_code : bool) (pre : option stock) (want : vout * option stock)
  (obs : vout) (post : option stock) : bool :=
  match pre, want, obs, post with
  | None, (VErr c, None), VErr c', None => c =? c'
  | Some p, (VStock m, Some _), VStock o, Some o' => stock_close p m o && stock_eqb o o'
  | Some p, (VErr c, Some _), VErr c', Some o' => (if strict_code then c =? c' else negb (c' =? 0)) && stock_eqb p o'
  | Some p, (VNilNil, Some _), VNilNil, Some o' => stock_eqb p o'
  | _, _, _, _ => false
  end.

Definition convert_matches (eps : Q) (v : Q) (want obs : option Q) : bool :=
  match want, obs with
  | None, None => true
  | Some m, Some o => qclose eps (Qabs m) m o
  | _, _ => false
  end.

(* ---- fan speed: the consistency rule on the observed state, the documented precedence, errors only for unknown presets ---- *)
Definition fout_eqb (a b : fout) : bool :=
  match a, b with
  | FOk x, FOk y => fan_eqb x y
  | FErr x, FErr y => x =? y
  | FPanic, FPanic => true
  | _, _ => false
  end.
Definition fan_ok (ps : list preset) (pre req : fan) (relative : bool) (obs : fout) (post : fan) : bool :=
  let named := negb (String.eqb (f_preset req) "") in
  let exists_named := existsb (fun p => String.eqb (fst p) (f_preset req)) ps in
  match obs with
  | FErr c => (c =? 3) && named && negb exists_named && fan_eqb post pre
  | FPanic => false
  | FOk f =>
      let idx' := if relative then wrap32 (f_idx req + f_idx pre) else f_idx req in
      let pct' := if relative then f_pct req + f_pct pre else f_pct req in
      fan_eqb f post && (negb named || exists_named)
      && fan_consistent ps post && (f_dir post =? f_dir req)
      && (if named && negb (String.eqb (f_preset req) (f_preset pre)) then String.eqb (f_preset post) (f_preset req)
          else if negb (idx' =? f_idx pre) then
            match ps with [] => true | _ => f_idx post =? Z.max 0 (Z.min idx' (zlen ps - 1)) end
          else if negb (pct' =? f_pct pre) then f_pct post =? pct'
          else true)
  end.

Definition fan_mask_ok (ps : list preset) (pre req : fan) (m : option fmask) (obs : fout) (post : fan) : bool :=
  let named := negb (String.eqb (f_preset req) "") in
  let exists_named := existsb (fun p => String.eqb (fst p) (f_preset req)) ps in
  let bad := match m with Some k => fk_bad k | None => false end in
  match obs with
  | FErr c => (c =? 3) && ((named && negb exists_named) || bad) && fan_eqb post pre
  | FPanic => false
  | FOk f =>
      fan_eqb f post && (negb named || exists_named) && negb bad && fan_consistent ps post
      && (f_dir post =? (match m with Some k => if fk_dir k then f_dir req else f_dir pre | None => f_dir req end))
      (* a write that names no speed field leaves the speed alone *)
      && (match m with
          | Some k => fk_pct k || fk_preset k || fk_idx k
                      || ((f_pct post =? f_pct pre) && String.eqb (f_preset post) (f_preset pre) && (f_idx post =? f_idx pre))
          | None => true
          end)
  end.

(* ---- mode: wrapping relative steps judged with the mathematical modulus; explicit modes are used ---- *)
Definition modes_eqb (a b : modes) : bool :=
  list_eqb (fun x y => String.eqb (fst x) (fst y) && strs_eqb (snd x) (snd y)) a b.
Definition mvalues_eqb (a b : mvalues) : bool :=
  list_eqb (fun x y => String.eqb (fst x) (fst y) && String.eqb (snd x) (snd y)) a b.
Definition ostr_eqb := option_eqb String.eqb.

Definition mode_rel_ok (ms : modes) (pre post : mvalues) (e : string * Z) : bool :=
  match afind (fst e) ms with
  | None | Some [] => true
  | Some ((v0 :: _) as vs) =>
      let want :=
        match afind (fst e) pre with
        | None => v0
        | Some c => match index_of c 0 vs with
                    | Some i => nth (Z.to_nat ((i + snd e) mod zlen vs)) vs v0
                    | None => v0
                    end
        end in
      ostr_eqb (afind (fst e) post) (Some want)
  end.
Definition mode_ok (ms : modes) (pre abs : mvalues) (rel : list (string * Z)) (mask : Z) (obs : option mvalues) (post : mvalues) : bool :=
  match obs with
  | None => false
  | Some o =>
      mvalues_eqb o post &&
      if mask =? 2 then mvalues_eqb post pre
      else
        forallb (mode_rel_ok ms pre post) rel
        && forallb (fun a => match afind (fst a) rel with
                             | Some _ => match afind (fst a) ms with None | Some [] => ostr_eqb (afind (fst a) post) (Some (snd a)) | _ => true end
                             | None => ostr_eqb (afind (fst a) post) (Some (snd a)) end) abs
  end.
Definition mode_guard (ms : modes) (rel : list (string * Z)) : bool :=
  forallb (fun e => (-1073741824 <=? snd e) && (snd e <=? 1073741824)) rel.

(* ---- enter/leave: two counters ---- *)
Definition oz_eqb := option_eqb Z.eqb.
Definition elev_eqb (a b : elev) : bool :=
  (el_dir a =? el_dir b) && ostr_eqb (el_occ a) (el_occ b) && oz_eqb (el_enter a) (el_enter b) && oz_eqb (el_leave a) (el_leave b).
Definition el_ok (pre : elev) (o : elop) (post : elev) : bool :=
  let c := count_step (tot (el_enter pre), tot (el_leave pre)) o in
  oz_eqb (el_enter post) (Some (fst c)) && oz_eqb (el_leave post) (Some (snd c))
  && match o with
     | ElEvent e => (el_dir post =? el_dir e) && ostr_eqb (el_occ post) (el_occ e)
     | ElReset => (el_dir post =? el_dir pre) && ostr_eqb (el_occ post) (el_occ pre)
     end.
Definition el_guard (pre : elev) : bool :=
  (-2147483648 <=? tot (el_enter pre)) && (tot (el_enter pre) <? 2147483647)
  && (-2147483648 <=? tot (el_leave pre)) && (tot (el_leave pre) <? 2147483647).

(* ---- meter ---- *)
Definition meter_eqb (a b : meter) : bool :=
  (m_usage a =? m_usage b) && oz_eqb (m_start a) (m_start b) && oz_eqb (m_end a) (m_end b).
Definition meter_new_ok (init : option meter) (now : Z) (obs : meter) : bool :=
  match init with
  | None => meter_eqb obs (mkMeter 0 (Some now) (Some now))
  | Some i =>
      (m_usage obs =? m_usage i)
      && oz_eqb (m_start obs) (match m_start i with Some s => Some s | None => Some now end)
      && oz_eqb (m_end obs) (match m_end i with Some e => Some e | None => Some now end)
  end.
Definition meter_ok (pre : meter) (o : mop) (ret post : meter) : bool :=
  meter_eqb ret post && meter_wf post &&
  match o with
  | MRecord v t => (m_usage post =? v) && oz_eqb (m_start post) (m_start pre) && oz_eqb (m_end post) (Some t)
  | MReset t => meter_eqb post (mkMeter 0 (Some t) (Some t))
  end.
Definition meter_guard (pre : meter) (o : mop) : bool :=
  meter_wf pre && match m_end pre with Some e => e <=? op_time o | None => false end.

(* ---- publication: versions are opaque tokens; the hash is instantiated per case by a function that
   agrees with the tokens observed before and after the operation ---- *)
Definition aud_eqb (a b : aud) : bool :=
  String.eqb (a_name a) (a_name b) && (a_receipt a =? a_receipt b) && String.eqb (a_reason a) (a_reason b)
  && oz_eqb (a_rtime a) (a_rtime b).
Definition pub_eqb (a b : pub) : bool :=
  String.eqb (p_id a) (p_id b) && String.eqb (p_version a) (p_version b) && String.eqb (p_body a) (p_body b)
  && String.eqb (p_media a) (p_media b) && option_eqb aud_eqb (p_aud a) (p_aud b) && oz_eqb (p_ptime a) (p_ptime b).
Definition pout_eqb (a b : pout) : bool :=
  match a, b with POk x, POk y => pub_eqb x y | PErr x, PErr y => x =? y | PNil, PNil => true | _, _ => false end.
(* [hpre] / [hpost]: the version a fresh server mints for the content stored before / after the operation *)
Definition local_hash (pre post : option pub) (hpre hpost : string) : content -> string :=
  fun c => match pre with
           | Some p => if content_eqb c (content_of p) then hpre
                       else match post with Some q => if content_eqb c (content_of q) then hpost else "?"%string | None => "?"%string end
           | None => match post with Some q => if content_eqb c (content_of q) then hpost else "?"%string | None => "?"%string end
           end.
Definition aud_name (p : pub) : string := match p_aud p with Some a => a_name a | None => EmptyString end.
Definition has_aud (p : pub) : bool := match p_aud p with Some _ => true | None => false end.
Definition fresh_ok (now : Z) (n : pub) : bool :=
  oz_eqb (p_ptime n) (Some now) && negb (String.eqb (p_version n) EmptyString)
  && match p_aud n with
     | Some a => (a_receipt a =? NO_SIGNAL) && String.eqb (a_reason a) EmptyString && oz_eqb (a_rtime a) None
     | None => true
     end.
Definition unchanged (pre post : option pub) : bool := option_eqb pub_eqb pre post.
Definition version_current (p : option pub) (h : string) : bool :=
  match p with Some p => String.eqb (p_version p) h | None => true end.
(* the fields an update writes, stated per path; the audience name only where the mask semantics leave no
   doubt (a whole-audience write with an unnamed audience merges into the stored one) *)
Definition update_fields_ok (mask : option pmask) (old p n : pub) : bool :=
  match mask with
  | None => String.eqb (p_body n) (p_body p) && String.eqb (p_media n) (p_media p) && String.eqb (aud_name n) (aud_name p)
            && Bool.eqb (has_aud n) (has_aud p)
  | Some k =>
      String.eqb (p_body n) (if k_body k then p_body p else p_body old)
      && String.eqb (p_media n) (if k_media k then p_media p else p_media old)
      && (if k_aud k then
            match p_aud p with
            | None => negb (has_aud n)
            | Some a => has_aud n && (String.eqb (a_name a) EmptyString || String.eqb (aud_name n) (a_name a))
            end
          else if k_aname k then String.eqb (aud_name n) (aud_name p)
          else String.eqb (aud_name n) (aud_name old))
  end.
Definition pub_ok (now : Z) (pre : option pub) (o : pubop) (obs : pout) (post : option pub) (hpre hpost : string) : bool :=
  (* the invariant: the version is the hash of the content, in every state reached from a state where it was *)
  (negb (version_current pre hpre) || version_current post hpost) &&
  match o with
  | PCreate p =>
      match pre, obs, post with
      | Some _, PErr c, _ => (c =? 6) && unchanged pre post
      | None, POk n, Some q =>
          pub_eqb n q && fresh_ok now n && content_eqb (content_of n) (content_of p)
          && Bool.eqb (has_aud n) (has_aud p) && String.eqb (p_version n) hpost
      | _, _, _ => false
      end
  | PUpdate p mask version =>
      match obs with
      | PNil => false
      | PErr c =>
          unchanged pre post &&
          (if String.eqb (p_id p) EmptyString then c =? 3
           else if match mask with Some k => k_bad k | None => false end then c =? 3
           else match pre with
                | None => c =? 5
                | Some old => (c =? 9) && negb (String.eqb version EmptyString) && negb (String.eqb version (p_version old))
                end)
      | POk n =>
          match pre, post with
          | Some old, Some q =>
              pub_eqb n q && fresh_ok now n
              && negb (match mask with Some k => k_bad k | None => false end)
              && (String.eqb version EmptyString || String.eqb version (p_version old))
              && String.eqb (p_id n) (p_id old) && update_fields_ok mask old p n
              (* the new version is the one minted for the new content, and it distinguishes contents *)
              && String.eqb (p_version n) hpost
              && (negb (version_current pre hpre)
                  || Bool.eqb (String.eqb (p_version n) (p_version old)) (content_eqb (content_of n) (content_of old)))
          | _, _ => false
          end
      end
  | PDelete id version allow_missing =>
      match obs with
      | PNil => allow_missing && negb (String.eqb id EmptyString) && unchanged pre None && unchanged post None
      | PErr c =>
          unchanged pre post &&
          (if String.eqb id EmptyString then c =? 3
           else match pre with
                | None => (c =? 5) && negb allow_missing
                | Some old => (c =? 9) && negb (String.eqb version EmptyString) && negb (String.eqb version (p_version old))
                end)
      | POk n =>
          match pre, post with
          | Some old, None => pub_eqb n old && (String.eqb version EmptyString || String.eqb version (p_version old))
          | _, _ => false
          end
      end
  | PAck id version receipt reason allow =>
      match obs with
      | PNil => false
      | PErr c =>
          unchanged pre post &&
          (if String.eqb id EmptyString || String.eqb version EmptyString then c =? 3
           else match pre with
                | None => c =? 5
                | Some old => if negb (String.eqb version (p_version old)) then c =? 10
                              else (c =? 9) && acked old && negb allow
                end)
      | POk n =>
          match pre, post with
          | Some old, Some q =>
              String.eqb version (p_version old) && negb (String.eqb version EmptyString) && pub_eqb n q
              (* an acknowledgement is accepted only for the version of the stored content *)
              && (negb (version_current pre hpre) || String.eqb version hpre) &&
              if acked old then allow && pub_eqb q old
              else
                String.eqb (p_id n) (p_id old) && String.eqb (p_version n) (p_version old) && String.eqb (p_body n) (p_body old)
                && String.eqb (p_media n) (p_media old) && oz_eqb (p_ptime n) (p_ptime old) && String.eqb (aud_name n) (aud_name old)
                && match p_aud n with
                   | Some a => (a_receipt a =? receipt) && String.eqb (a_reason a) reason && oz_eqb (a_rtime a) (Some now)
                   | None => false
                   end
          | _, _ => false
          end
      end
  end.

(* ---- constructors with options: every configured record / value is read back, nothing else, no panic ---- *)
Definition recs_eqb (obs model : list (string * string)) : bool :=
  (zlen obs =? zlen model) && nodup_strs' (map fst obs)
  && forallb (fun e => ostr_eqb (lookup (fst e) model) (Some (snd e))) obs.
Definition rstate_eqb (obs model : rstate) : bool :=
  recs_eqb (rs_records obs) (rs_records model) && ostr_eqb (rs_value obs) (rs_value model).
Definition ropts_for (r : nat) (o : mopt) : list ropt :=
  match o with
  | MAll x => [x]
  | MTarget r' os => if Nat.eqb r' r then os else []
  | MEvery os => os
  | MSetting _ _ => []
  end.
Definition configured_records (r : nat) (all : list mopt) : list (string * string) :=
  flat_map (fun o => flat_map (fun x => match x with OInitRecord id v => [(id, v)] | _ => [] end) (ropts_for r o)) all.
Definition configured_value (r : nat) (all : list mopt) : option string :=
  fold_left (fun acc o => fold_left (fun acc x => match x with OInitValue v => Some v | _ => acc end) (ropts_for r o) acc) all None.
Definition new_ok (model : Z) (dflt opts : list mopt) (panicked : bool) (obs : list rstate) : bool :=
  let all := dflt ++ opts in
  negb panicked && (zlen obs =? Z.of_nat (model_nres model)) &&
  forallb (fun ro => let '(r, o) := ro in
             forallb (fun e => ostr_eqb (lookup (fst e) (rs_records o)) (Some (snd e))) (configured_records r all)
             && (zlen (rs_records o) =? zlen (configured_records r all))
             && ostr_eqb (rs_value o) (configured_value r all))
          (combine (seq 0 (List.length obs)) obs).

(* ---- vending record CRUD ---- *)
Definition cons_eqb (a b : cons) : bool := String.eqb (c_title a) (c_title b) && String.eqb (c_url a) (c_url b).
Definition store_eqb {R} (eqb : R -> R -> bool) (a b : store R) : bool :=
  list_eqb (fun x y => String.eqb (fst x) (fst y) && eqb (snd x) (snd y)) a b.
Definition sout_eqb {R} (eqb : R -> R -> bool) (a b : sout R) : bool :=
  match a, b with
  | SOk n x, SOk m y => String.eqb n m && eqb x y
  | SErr x, SErr y => x =? y
  | SNil, SNil => true
  | _, _ => false
  end.
(* every record other than [k] is the same before and after *)
Definition frame_ok {R} (eqb : R -> R -> bool) (k : string) (pre post : store R) : bool :=
  forallb (fun e => String.eqb (fst e) k || option_eqb eqb (sfind (fst e) post) (Some (snd e))) pre
  && forallb (fun e => String.eqb (fst e) k || option_eqb eqb (sfind (fst e) pre) (Some (snd e))) post.
Definition is_some {A} (o : option A) : bool := match o with Some _ => true | None => false end.
Definition crud_ok {R M} (eqb : R -> R -> bool) (mbad : M -> bool) (fields_ok : M -> R -> R -> R -> bool)
  (pre : store R) (o : sop R M) (obs : sout R) (post : store R) : bool :=
  store_wf post &&
  match o with
  | SCreate name gen v =>
      match obs with
      | SOk id n => negb (String.eqb id EmptyString) && (String.eqb name EmptyString || String.eqb id name)
                    && negb (is_some (sfind id pre)) && eqb n v && option_eqb eqb (sfind id post) (Some v)
                    && frame_ok eqb id pre post
      | SErr c => (c =? 6) && is_some (sfind name pre) && store_eqb eqb pre post
      | SNil => false
      end
  | SUpdate name v m =>
      match obs with
      | SOk id n => String.eqb id name && negb (String.eqb name EmptyString) && negb (mbad m)
                    && match sfind name pre with Some old => fields_ok m old v n | None => false end
                    && option_eqb eqb (sfind name post) (Some n) && frame_ok eqb name pre post
      | SErr c => store_eqb eqb pre post
                  && (if String.eqb name EmptyString then c =? 5 else if mbad m then c =? 3
                      else (c =? 5) && negb (is_some (sfind name pre)))
      | SNil => false
      end
  | SDelete name allow =>
      match obs with
      | SOk id n => String.eqb id name && option_eqb eqb (sfind name pre) (Some n) && negb (is_some (sfind name post))
                    && frame_ok eqb name pre post
      | SErr c => (c =? 5) && negb allow && negb (is_some (sfind name pre)) && store_eqb eqb pre post
      | SNil => allow && negb (is_some (sfind name pre)) && store_eqb eqb pre post
      end
  end.
Definition oqty_eqb := option_eqb qty_eqb.
(* a named quantity field: cleared when the request has none, the request's when that is fully populated *)
Definition qfield_ok (b : bool) (old new got : option qty) : bool :=
  if b then match new with
            | None => oqty_eqb got None
            | Some q => if (q_unit q =? 0) || Qeq_bool (q_amount q) 0 then is_some got else oqty_eqb got (Some q)
            end
  else oqty_eqb got old.
Definition stock_fields_ok (m : option smask) (old new got : stock) : bool :=
  match m with
  | None => stock_eqb got new
  | Some k => qfield_ok (sk_used k) (s_used old) (s_used new) (s_used got)
              && qfield_ok (sk_rem k) (s_rem old) (s_rem new) (s_rem got)
              && qfield_ok (sk_last k) (s_last old) (s_last new) (s_last got)
              && Bool.eqb (s_dispensing got) (if sk_disp k then s_dispensing new else s_dispensing old)
  end.
Definition cons_fields_ok (m : option cmask) (old new got : cons) : bool :=
  match m with
  | None => cons_eqb got new
  | Some k => String.eqb (c_title got) (if ck_title k then c_title new else c_title old)
              && String.eqb (c_url got) (if ck_url k then c_url new else c_url old)
  end.
Definition vstore_ok (pre : vstate) (names_ok : bool) (o : vop) (obs : vres) (post : vstate) : bool :=
  names_ok && vstate_wf post &&
  match o, obs with
  | VInv o, RInv r => crud_ok stock_eqb smask_bad stock_fields_ok (fst pre) o r (fst post) && store_eqb cons_eqb (snd pre) (snd post)
  | VCons o, RCons r => crud_ok cons_eqb cmask_bad cons_fields_ok (snd pre) o r (snd post) && store_eqb stock_eqb (fst pre) (fst post)
  | VDispense name q, RDisp r =>
      dispense_matches false (sfind name (fst pre)) (dispense_spec_with phys_convert (sfind name (fst pre)) q) r (sfind name (fst post))
      && frame_ok stock_eqb name (fst pre) (fst post) && store_eqb cons_eqb (snd pre) (snd post)
      && Bool.eqb (is_some (sfind name (fst pre))) (is_some (sfind name (fst post)))
  | _, _ => false
  end.
Definition vstore_agrees (pre : vstate) (o : vop) (obs : vres) (post : vstate) : bool :=
  match o, obs with
  | VDispense name q, RDisp r =>
      dispense_matches true (sfind name (fst pre)) (dispense (sfind name (fst pre)) q) r (sfind name (fst post))
      && frame_ok stock_eqb name (fst pre) (fst post) && store_eqb cons_eqb (snd pre) (snd post)
      && (zlen (fst pre) =? zlen (fst post))
  | _, _ =>
      let '(r, s') := vstep pre o in
      match r, obs with
      | RInv a, RInv b => sout_eqb stock_eqb a b
      | RCons a, RCons b => sout_eqb cons_eqb a b
      | _, _ => false
      end && store_eqb stock_eqb (fst s') (fst post) && store_eqb cons_eqb (snd s') (snd post)
  end.

(* ---- publication collection over all ids, generated ids ---- *)
Definition pubs_eqb (a b : pubs) : bool :=
  list_eqb (fun x y => String.eqb (fst x) (fst y) && pub_eqb (snd x) (snd y)) a b.
(* the id the operation addresses: for a create without id, the id of the publication the server answered with *)
Definition pubs_addressed (o : pubop) (obs : pout) : string :=
  if needs_gen o then match obs with POk n => p_id n | _ => EmptyString end else pub_op_id o.
Definition pubs_hash (pre : pubs) (o : pubop) (obs : pout) (post : pubs) (hpre hpost : string) : content -> string :=
  let id := pubs_addressed o obs in local_hash (sfind id pre) (sfind id post) hpre hpost.
Definition pubs_agrees (now : Z) (pre : pubs) (o : pubop) (cands : list string) (obs : pout) (post : pubs) (hpre hpost : string) : bool :=
  let '(out, p') := pubs_step_c (pubs_hash pre o obs post hpre hpost) pre o cands now in
  pout_eqb obs out && pubs_eqb post p'.
(* the freshness clause, on the observation: g is the first of the first ten candidates that is non-empty and unused *)
Fixpoint first_fresh_is (g : string) (cands : list string) (n : nat) (pre : pubs) : bool :=
  match n, cands with
  | S n', c :: r =>
      if String.eqb c g then true
      else (String.eqb c EmptyString || match sfind c pre with Some _ => true | None => false end) && first_fresh_is g r n' pre
  | _, _ => false
  end.
Definition pubs_ok (now : Z) (pre : pubs) (o : pubop) (cands : list string) (obs : pout) (post : pubs) (hpre hpost : string) : bool :=
  let id := pubs_addressed o obs in
  store_wf post
  && forallb (fun e => String.eqb (fst e) (p_id (snd e))) post
  && forallb (fun e => String.eqb (fst e) id || option_eqb pub_eqb (sfind (fst e) post) (Some (snd e))) pre
  && forallb (fun e => String.eqb (fst e) id || option_eqb pub_eqb (sfind (fst e) pre) (Some (snd e))) post
  && if needs_gen o then
       match obs with
       | POk n =>
           negb (String.eqb (p_id n) EmptyString)
           && match sfind (p_id n) pre with None => true | Some _ => false end
           && first_fresh_is (p_id n) cands 10 pre
           && pub_ok now None (pub_norm_op o (p_id n)) obs (sfind (p_id n) post) hpre hpost
       | PErr c => (c =? 10) && pubs_eqb post pre
                   && negb (existsb (fun c => negb (String.eqb c EmptyString) && match sfind c pre with None => true | Some _ => false end) (firstn 10 cands))
       | PNil => false
       end
     else pub_ok now (sfind id pre) o obs (sfind id post) hpre hpost.

(* ---- Pull streams of the one-value trait models ---- *)
(* independent of the stream model: the changes after the seed are the getter values after the accepted
   operations, in order, with the operations' clock readings; the last change is the current getter value *)
Fixpoint accepted_of {A B : Type} (acc : list bool) (ops : list (A * Z)) (gets : list B) : list (B * Z) :=
  match acc, ops, gets with
  | a :: acc', o :: ops', v :: gets' => (if a then [(v, snd o)] else []) ++ accepted_of acc' ops' gets'
  | _, _, _ => []
  end.
Fixpoint drop_repeats {B : Type} (eqb : B -> B -> bool) (held : option B) (l : list (B * Z)) : list (B * Z) :=
  match l with
  | [] => []
  | x :: r => if match held with Some h => eqb h (fst x) | None => false end then drop_repeats eqb held r
              else x :: drop_repeats eqb (Some (fst x)) r
  end.
Definition pull_ok {A B : Type} (eqb : B -> B -> bool) (view : B -> B) (dedupe : bool) (uo : bool) (s0 : B) (t0 : Z)
           (ops : list (A * Z)) (acc : list bool) (stream : list (B * Z)) (gets : list B) : bool :=
  let pair_eqb := fun x y : B * Z => eqb (fst x) (fst y) && (snd x =? snd y) in
  let accepted_of := fun acc ops gets =>
    if dedupe then drop_repeats eqb (if uo then None else Some s0) (accepted_of acc ops gets) else accepted_of acc ops gets in
  (List.length acc =? List.length ops)%nat && (List.length gets =? List.length ops)%nat &&
  match uo, stream with
  | false, seed :: changes =>
      pair_eqb seed (view s0, t0) && list_eqb pair_eqb changes (accepted_of acc ops gets)
      && eqb (last (map fst changes) (last gets s0)) (last gets s0)
  | true, changes =>
      list_eqb pair_eqb changes (accepted_of acc ops gets)
      && (negb (existsb (fun b => b) acc) || eqb (last (map fst changes) s0) (last gets s0))
  | false, [] => false
  end.
Definition pull_agrees {A B : Type} (eqb : B -> B -> bool) (step : B -> A -> option B) (view : B -> B)
           (equiv : option (option B -> option B -> bool)) (uo : bool)
           (s0 : B) (t0 : Z) (ops : list (A * Z)) (stream : list (B * Z)) : bool :=
  list_eqb (fun x y : B * Z => eqb (fst x) (fst y) && (snd x =? snd y)) stream (tp_stream step view equiv uo s0 t0 ops).

Definition C20_ok (c : c20case) : bool :=
  match c with
  | KParent pre o ret post => parent_ok pre o ret post
  | KConvert v from to obs back =>
      (* errors exactly across physical categories; the value is the physical conversion; it round-trips *)
      convert_matches eps64 v (phys_convert v from to) obs
      && match obs with Some _ => convert_matches eps64 v (Some v) back | None => true end
  | KVendConfig stocks consumables inventory listed => strs_eqb stocks inventory && strs_eqb consumables listed
  | KDispense pre q obs post => dispense_matches false pre (dispense_spec_with phys_convert pre q) obs post
  | KFan ps pre req rel obs post => fan_ok ps pre req rel obs post
  | KModeConfig given used initial =>
      modes_eqb used given && option_eqb mvalues_eqb (initial_values given) (Some initial)
  | KMode ms pre abs rel mask obs post => mode_ok ms pre abs rel mask obs post
  | KEnterLeave pre o post => el_ok pre o post
  | KMeterNew init now obs => meter_new_ok init now obs
  | KMeter pre o ret post => meter_ok pre o ret post
  | KPub now pre o obs post hpre hpost => pub_ok now pre o obs post hpre hpost
  | KNew model dflt opts panicked obs => new_ok model dflt opts panicked obs
  | KVStore pre names_ok o obs post => vstore_ok pre names_ok o obs post
  | KFanMask ps pre req m obs post => fan_mask_ok ps pre req m obs post
  | KMeterSeq pre o code ret post => meter_seq_ok pre o code ret post
  | KSchema _ => true
  | KStockMask _ pre req um code ret_ok post other_same => stock_mask_ok pre req um code ret_ok post other_same
  | KPubs now pre o cands obs post hpre hpost => pubs_ok now pre o cands obs post hpre hpost
  | KPullEL uo s0 t0 ops acc stream gets => pull_ok elev_eqb el_seed_view false uo s0 t0 ops acc stream gets
  | KPullMeter uo s0 t0 ops acc stream gets => pull_ok mm_eqb (fun m => m) false uo s0 t0 ops acc stream gets
  | KPullFan uo ps s0 t0 ops acc stream gets => pull_ok fan_eqb (fun m => m) true uo s0 t0 ops acc stream gets
  end.

Definition C20_guard (c : c20case) : bool :=
  match c with
  | KParent pre _ _ _ => parent_guard pre
  | KConvert _ _ _ _ _ | KVendConfig _ _ _ _ | KDispense _ _ _ _ => true
  | KFan ps pre _ _ _ _ => presets_wf ps && fan_consistent ps pre
  | KModeConfig _ _ _ => true
  | KMode ms _ _ rel _ _ _ => mode_guard ms rel
  | KEnterLeave pre _ _ => el_guard pre
  | KMeterNew init now _ =>
      match init with
      | Some i => match m_start i, m_end i with
                  | Some s, Some e => s <=? e | Some s, None => s <=? now | None, Some e => now <=? e | None, None => true end
      | None => true
      end
  | KMeter pre o _ _ => meter_guard pre o
  | KPub _ _ _ _ _ _ _ => true
  | KNew model dflt opts _ _ => config_wf (model_nres model) (dflt ++ opts)
  | KVStore pre _ _ _ _ => vstate_wf pre
  | KFanMask ps pre _ _ _ _ => presets_wf ps && fan_consistent ps pre
  | KMeterSeq _ _ _ _ _ | KSchema _ | KStockMask _ _ _ _ _ _ _ _ => true
  | KPubs _ pre _ _ _ _ _ _ => store_wf pre
  | KPullEL _ _ _ _ _ _ _ | KPullMeter _ _ _ _ _ _ _ | KPullFan _ _ _ _ _ _ _ _ => true
  end.

Definition agrees (c : c20case) : bool :=
  match c with
  | KParent pre o ret post => let '(post', ret') := pstep pre o in children_eqb post post' && pret_eqb ret ret'
  | KConvert v from to obs back =>
      convert_matches eps64 v (convert v from to) obs
      && match obs, back with
         | Some o, Some b => convert_matches eps64 o (convert o to from) (Some b)
         | Some o, None => match convert o to from with None => true | Some _ => false end
         | None, _ => true
         end
  | KVendConfig stocks consumables inventory listed => strs_eqb stocks inventory && strs_eqb consumables listed
  | KDispense pre q obs post => dispense_matches true pre (dispense pre q) obs post
  | KFan ps pre req rel obs post =>
      let '(o, p) := fan_update ps pre req rel in fout_eqb obs o && fan_eqb post p
  | KModeConfig given used initial =>
      match new_model given with
      | Some (ms, v) => modes_eqb used ms && mvalues_eqb initial v
      | None => false
      end
  | KMode ms pre abs rel mask obs post =>
      let p := mode_update ms pre abs rel mask in option_eqb mvalues_eqb obs (Some p) && mvalues_eqb post p
  | KEnterLeave pre o post => elev_eqb post (el_step pre o)
  | KMeterNew init now obs => meter_eqb obs (new_meter init now)
  | KMeter pre o ret post => meter_eqb ret (meter_step pre o) && meter_eqb post (meter_step pre o)
  | KPub now pre o obs post hpre hpost =>
      let '(o', p') := pub_step (local_hash pre post hpre hpost) now pre o in pout_eqb obs o' && option_eqb pub_eqb post p'
  | KNew model dflt opts panicked obs =>
      match new_model_code (model_nres model) dflt opts with
      | None => panicked
      | Some st => negb panicked && list_eqb rstate_eqb obs st
      end
  | KVStore pre _ o obs post => vstore_agrees pre o obs post
  | KFanMask ps pre req m obs post =>
      let '(o, p) := fan_update_masked ps pre req m in fout_eqb obs o && fan_eqb post p
  | KMeterSeq pre o code ret post => meter_seq_agrees pre o code ret post
  | KSchema dumped => schema_agrees meter_schema dumped && schema_agrees stock_schema dumped
  | KStockMask name pre req um code _ post _ => stock_mask_agrees name pre req um code post
  | KPubs now pre o cands obs post hpre hpost => pubs_agrees now pre o cands obs post hpre hpost
  | KPullEL uo s0 t0 ops _ stream _ => pull_agrees elev_eqb el_pull_step el_seed_view None uo s0 t0 ops stream
  | KPullMeter uo s0 t0 ops _ stream _ => pull_agrees mm_eqb mm_pull_step (fun m => m) None uo s0 t0 ops stream
  | KPullFan uo ps s0 t0 ops _ stream _ => pull_agrees fan_eqb (fan_pull_step ps) (fun m => m) (Some (option_eqb fan_eqb)) uo s0 t0 ops stream
  end.

Definition judge (c : c20case) : Z :=
  verdict (agrees c) (if C20_guard c then C20_ok c else true) None.
