(* Correspondence cases for C20.  Each case is one executed operation of one trait model: the state
   observed before, the operation, what the Go code returned and the state observed after.
   [agrees] compares with the model's step function; [C20_ok] evaluates the property on the
   observation with oracles that do not go through the model's algorithms. *)
From SC Require Export Base.Prelude Traits.Str Traits.Parent Traits.Vending Traits.FanSpeed Traits.ModeTrait
  Traits.EnterLeave Traits.Meter Traits.Publication.
From Coq Require Import QArith Qabs.
Open Scope Z_scope.

Inductive c20case :=
| KParent (pre : children) (o : pop) (ret : option (list string) * bool) (post : children)
| KConvert (v : Q) (from to : Z) (obs back : option Q)
| KVendConfig (stocks consumables : list string) (inventory listed : list string)
| KDispense (pre : option stock) (q : qty) (obs : vout) (post : option stock)
| KFan (ps : list preset) (pre req : fan) (relative : bool) (obs : fout) (post : fan)
| KModeConfig (given used : modes) (initial : mvalues)
| KMode (ms : modes) (pre abs : mvalues) (rel : list (string * Z)) (mask : Z) (obs : option mvalues) (post : mvalues)
| KEnterLeave (pre : elev) (o : elop) (post : elev)
| KMeterNew (init : option meter) (now : Z) (obs : meter)
| KMeter (pre : meter) (o : mop) (ret post : meter)
| KPub (now : Z) (pre : option pub) (o : pubop) (obs : pout) (post : option pub).

Definition children_eqb (a b : children) : bool :=
  list_eqb (fun x y => String.eqb (fst x) (fst y) && strs_eqb (snd x) (snd y)) a b.
Definition pret_eqb (a b : option (list string) * bool) : bool :=
  option_eqb strs_eqb (fst a) (fst b) && Bool.eqb (snd a) (snd b).

(* ---- parent: set algebra on membership, other children untouched ---- *)
Definition others_same (n : string) (pre post : children) : bool :=
  forallb (fun c => String.eqb (fst c) n || option_eqb strs_eqb (find_child (fst c) post) (Some (snd c))) pre
  && forallb (fun c => String.eqb (fst c) n || option_eqb strs_eqb (find_child (fst c) pre) (Some (snd c))) post.

Definition parent_ok (pre : children) (o : pop) (ret : option (list string) * bool) (post : children) : bool :=
  match o with
  | PAdd n names =>
      match fst ret with
      | Some out =>
          set_ok_union (child_traits n pre) names out
          && option_eqb strs_eqb (find_child n post) (Some out)
          && Bool.eqb (snd ret) (match find_child n pre with None => true | Some _ => false end)
          && others_same n pre post
      | None => false
      end
  | PRemove n names =>
      match find_child n pre, fst ret with
      | None, None => children_eqb pre post && negb (snd ret)
      | Some has, Some out =>
          set_ok_diff has names out && option_eqb strs_eqb (find_child n post) (Some out)
          && negb (snd ret) && others_same n pre post
      | _, _ => false
      end
  end.

Definition parent_guard (pre : children) : bool := children_wf pre && ssorted (map fst pre).

(* ---- vending: float results compared with exact rational arithmetic within a relative tolerance ---- *)
Definition qclose (eps scale a b : Q) : bool := Qle_bool (Qabs (a - b)) (scale * eps).
Definition eps32 : Q := 1 # 2097152.          (* 2^-21: float32 arithmetic, two roundings *)
Definition eps64 : Q := 1 # 35184372088832.   (* 2^-45: float64 arithmetic *)

Definition qty_close (p m o : option qty) : bool :=
  match p, m, o with
  | None, None, None => true
  | Some p, Some m, Some o =>
      (q_unit m =? q_unit o) && qclose eps32 (Qabs (q_amount p) + Qabs (q_amount m)) (q_amount m) (q_amount o)
  | _, _, _ => false
  end.
Definition qty_eqb (a b : qty) : bool := (q_unit a =? q_unit b) && Qeq_bool (q_amount a) (q_amount b).
Definition stock_eqb (a b : stock) : bool :=
  option_eqb qty_eqb (s_used a) (s_used b) && option_eqb qty_eqb (s_rem a) (s_rem b)
  && option_eqb qty_eqb (s_last a) (s_last b) && Bool.eqb (s_dispensing a) (s_dispensing b).
(* [m] computed from [p] by the model or the reference, [o] observed *)
Definition stock_close (p m o : stock) : bool :=
  qty_close (s_used p) (s_used m) (s_used o) && qty_close (s_rem p) (s_rem m) (s_rem o)
  && option_eqb qty_eqb (s_last m) (s_last o) && Bool.eqb (s_dispensing m) (s_dispensing o).

Definition dispense_matches (strict_code : bool) (pre : option stock) (want : vout * option stock)
  (obs : vout) (post : option stock) : bool :=
  match pre, want, obs, post with
  | None, (VErr c, None), VErr c', None => c =? c'
  | Some p, (VStock m, Some _), VStock o, Some o' => stock_close p m o && stock_eqb o o'
  | Some p, (VErr c, Some _), VErr c', Some o' => (if strict_code then c =? c' else negb (c' =? 0)) && stock_eqb p o'
  | Some p, (VNilNil, Some _), VNilNil, Some o' => stock_eqb p o'
  | _, _, _, _ => false
  end.

Definition convert_matches (eps : Q) (v : Q) (want obs : option Q) : bool :=
  match want, obs with
  | None, None => true
  | Some m, Some o => qclose eps (Qabs m) m o
  | _, _ => false
  end.

(* ---- fan speed: the consistency rule on the observed state, the documented precedence, errors only for unknown presets ---- *)
Definition fout_eqb (a b : fout) : bool :=
  match a, b with
  | FOk x, FOk y => fan_eqb x y
  | FErr x, FErr y => x =? y
  | FPanic, FPanic => true
  | _, _ => false
  end.
Definition fan_ok (ps : list preset) (pre req : fan) (relative : bool) (obs : fout) (post : fan) : bool :=
  let named := negb (String.eqb (f_preset req) "") in
  let exists_named := existsb (fun p => String.eqb (fst p) (f_preset req)) ps in
  match obs with
  | FErr c => (c =? 3) && named && negb exists_named && fan_eqb post pre
  | FPanic => false
  | FOk f =>
      let idx' := if relative then wrap32 (f_idx req + f_idx pre) else f_idx req in
      let pct' := if relative then f_pct req + f_pct pre else f_pct req in
      fan_eqb f post && (negb named || exists_named)
      && fan_consistent ps post && (f_dir post =? f_dir req)
      && (if named && negb (String.eqb (f_preset req) (f_preset pre)) then String.eqb (f_preset post) (f_preset req)
          else if negb (idx' =? f_idx pre) then
            match ps with [] => true | _ => f_idx post =? Z.max 0 (Z.min idx' (zlen ps - 1)) end
          else if negb (pct' =? f_pct pre) then f_pct post =? pct'
          else true)
  end.

(* ---- mode: wrapping relative steps judged with the mathematical modulus; explicit modes are used ---- *)
Definition modes_eqb (a b : modes) : bool :=
  list_eqb (fun x y => String.eqb (fst x) (fst y) && strs_eqb (snd x) (snd y)) a b.
Definition mvalues_eqb (a b : mvalues) : bool :=
  list_eqb (fun x y => String.eqb (fst x) (fst y) && String.eqb (snd x) (snd y)) a b.
Definition ostr_eqb := option_eqb String.eqb.

Definition mode_rel_ok (ms : modes) (pre post : mvalues) (e : string * Z) : bool :=
  match afind (fst e) ms with
  | None | Some [] => true
  | Some ((v0 :: _) as vs) =>
      let want :=
        match afind (fst e) pre with
        | None => v0
        | Some c => match index_of c 0 vs with
                    | Some i => nth (Z.to_nat ((i + snd e) mod zlen vs)) vs v0
                    | None => v0
                    end
        end in
      ostr_eqb (afind (fst e) post) (Some want)
  end.
Definition mode_ok (ms : modes) (pre abs : mvalues) (rel : list (string * Z)) (mask : Z) (obs : option mvalues) (post : mvalues) : bool :=
  match obs with
  | None => false
  | Some o =>
      mvalues_eqb o post &&
      if mask =? 2 then mvalues_eqb post pre
      else
        forallb (mode_rel_ok ms pre post) rel
        && forallb (fun a => match afind (fst a) rel with
                             | Some _ => match afind (fst a) ms with None | Some [] => ostr_eqb (afind (fst a) post) (Some (snd a)) | _ => true end
                             | None => ostr_eqb (afind (fst a) post) (Some (snd a)) end) abs
  end.
Definition mode_guard (ms : modes) (rel : list (string * Z)) : bool :=
  forallb (fun e => (-1073741824 <=? snd e) && (snd e <=? 1073741824)) rel.

(* ---- enter/leave: two counters ---- *)
Definition oz_eqb := option_eqb Z.eqb.
Definition elev_eqb (a b : elev) : bool :=
  (el_dir a =? el_dir b) && ostr_eqb (el_occ a) (el_occ b) && oz_eqb (el_enter a) (el_enter b) && oz_eqb (el_leave a) (el_leave b).
Definition el_ok (pre : elev) (o : elop) (post : elev) : bool :=
  let c := count_step (tot (el_enter pre), tot (el_leave pre)) o in
  oz_eqb (el_enter post) (Some (fst c)) && oz_eqb (el_leave post) (Some (snd c))
  && match o with
     | ElEvent e => (el_dir post =? el_dir e) && ostr_eqb (el_occ post) (el_occ e)
     | ElReset => (el_dir post =? el_dir pre) && ostr_eqb (el_occ post) (el_occ pre)
     end.
Definition el_guard (pre : elev) : bool :=
  (-2147483648 <=? tot (el_enter pre)) && (tot (el_enter pre) <? 2147483647)
  && (-2147483648 <=? tot (el_leave pre)) && (tot (el_leave pre) <? 2147483647).

(* ---- meter ---- *)
Definition meter_eqb (a b : meter) : bool :=
  (m_usage a =? m_usage b) && oz_eqb (m_start a) (m_start b) && oz_eqb (m_end a) (m_end b).
Definition meter_new_ok (init : option meter) (now : Z) (obs : meter) : bool :=
  match init with
  | None => meter_eqb obs (mkMeter 0 (Some now) (Some now))
  | Some i =>
      (m_usage obs =? m_usage i)
      && oz_eqb (m_start obs) (match m_start i with Some s => Some s | None => Some now end)
      && oz_eqb (m_end obs) (match m_end i with Some e => Some e | None => Some now end)
  end.
Definition meter_ok (pre : meter) (o : mop) (ret post : meter) : bool :=
  meter_eqb ret post && meter_wf post &&
  match o with
  | MRecord v t => (m_usage post =? v) && oz_eqb (m_start post) (m_start pre) && oz_eqb (m_end post) (Some t)
  | MReset t => meter_eqb post (mkMeter 0 (Some t) (Some t))
  end.
Definition meter_guard (pre : meter) (o : mop) : bool :=
  meter_wf pre && match m_end pre with Some e => e <=? op_time o | None => false end.

(* ---- publication: versions are opaque tokens; the hash is instantiated per case by a function that
   agrees with the tokens observed before and after the operation ---- *)
Definition aud_eqb (a b : aud) : bool :=
  String.eqb (a_name a) (a_name b) && (a_receipt a =? a_receipt b) && String.eqb (a_reason a) (a_reason b)
  && oz_eqb (a_rtime a) (a_rtime b).
Definition pub_eqb (a b : pub) : bool :=
  String.eqb (p_id a) (p_id b) && String.eqb (p_version a) (p_version b) && String.eqb (p_body a) (p_body b)
  && String.eqb (p_media a) (p_media b) && option_eqb aud_eqb (p_aud a) (p_aud b) && oz_eqb (p_ptime a) (p_ptime b).
Definition pout_eqb (a b : pout) : bool :=
  match a, b with POk x, POk y => pub_eqb x y | PErr x, PErr y => x =? y | _, _ => false end.
Definition local_hash (pre post : option pub) : content -> string :=
  fun c => match pre with
           | Some p => if content_eqb c (content_of p) then p_version p
                       else match post with Some q => p_version q | None => EmptyString end
           | None => match post with Some q => p_version q | None => EmptyString end
           end.
Definition aud_name (p : pub) : string := match p_aud p with Some a => a_name a | None => EmptyString end.
Definition fresh_ok (now : Z) (n : pub) : bool :=
  oz_eqb (p_ptime n) (Some now) && negb (String.eqb (p_version n) EmptyString)
  && match p_aud n with
     | Some a => (a_receipt a =? NO_SIGNAL) && String.eqb (a_reason a) EmptyString && oz_eqb (a_rtime a) None
     | None => true
     end.
Definition unchanged (pre post : option pub) : bool := option_eqb pub_eqb pre post.
Definition pub_ok (now : Z) (pre : option pub) (o : pubop) (obs : pout) (post : option pub) : bool :=
  match o with
  | PCreate p =>
      match pre, obs, post with
      | Some _, PErr c, _ => (c =? 6) && unchanged pre post
      | None, POk n, Some q =>
          pub_eqb n q && fresh_ok now n && content_eqb (content_of n) (content_of p)
          && Bool.eqb (match p_aud n with Some _ => true | None => false end) (match p_aud p with Some _ => true | None => false end)
      | _, _, _ => false
      end
  | PUpdate p mask version =>
      match obs with
      | PErr c =>
          unchanged pre post &&
          (if String.eqb (p_id p) EmptyString then c =? 3
           else match pre with
                | None => c =? 5
                | Some old => (c =? 9) && negb (String.eqb version EmptyString) && negb (String.eqb version (p_version old))
                end)
      | POk n =>
          match pre, post with
          | Some old, Some q =>
              pub_eqb n q && fresh_ok now n
              && (String.eqb version EmptyString || String.eqb version (p_version old))
              && String.eqb (p_id n) (p_id old) && String.eqb (p_body n) (p_body p)
              && (if mask =? 1 then String.eqb (p_media n) (p_media old) else String.eqb (p_media n) (p_media p))
              && (if mask =? 0 then String.eqb (aud_name n) (aud_name p) else String.eqb (aud_name n) (aud_name old))
              (* the version is a function of the content, and distinguishes contents *)
              && Bool.eqb (String.eqb (p_version n) (p_version old)) (content_eqb (content_of n) (content_of old))
          | _, _ => false
          end
      end
  | PAck id version receipt reason allow =>
      match obs with
      | PErr c =>
          unchanged pre post &&
          (if String.eqb id EmptyString || String.eqb version EmptyString then c =? 3
           else match pre with
                | None => c =? 5
                | Some old => if negb (String.eqb version (p_version old)) then c =? 10
                              else (c =? 9) && acked old && negb allow
                end)
      | POk n =>
          match pre, post with
          | Some old, Some q =>
              String.eqb version (p_version old) && negb (String.eqb version EmptyString) && pub_eqb n q &&
              if acked old then allow && pub_eqb q old
              else
                String.eqb (p_id n) (p_id old) && String.eqb (p_version n) (p_version old) && String.eqb (p_body n) (p_body old)
                && String.eqb (p_media n) (p_media old) && oz_eqb (p_ptime n) (p_ptime old) && String.eqb (aud_name n) (aud_name old)
                && match p_aud n with
                   | Some a => (a_receipt a =? receipt) && String.eqb (a_reason a) reason && oz_eqb (a_rtime a) (Some now)
                   | None => false
                   end
          | _, _ => false
          end
      end
  end.

Definition C20_ok (c : c20case) : bool :=
  match c with
  | KParent pre o ret post => parent_ok pre o ret post
  | KConvert v from to obs back =>
      (* errors exactly across physical categories; the value is the physical conversion; it round-trips *)
      convert_matches eps64 v (phys_convert v from to) obs
      && match obs with Some _ => convert_matches eps64 v (Some v) back | None => true end
  | KVendConfig stocks consumables inventory listed => strs_eqb stocks inventory && strs_eqb consumables listed
  | KDispense pre q obs post => dispense_matches false pre (dispense_spec_with phys_convert pre q) obs post
  | KFan ps pre req rel obs post => fan_ok ps pre req rel obs post
  | KModeConfig given used initial =>
      modes_eqb used given && option_eqb mvalues_eqb (initial_values given) (Some initial)
  | KMode ms pre abs rel mask obs post => mode_ok ms pre abs rel mask obs post
  | KEnterLeave pre o post => el_ok pre o post
  | KMeterNew init now obs => meter_new_ok init now obs
  | KMeter pre o ret post => meter_ok pre o ret post
  | KPub now pre o obs post => pub_ok now pre o obs post
  end.

Definition C20_guard (c : c20case) : bool :=
  match c with
  | KParent pre _ _ _ => parent_guard pre
  | KConvert _ _ _ _ _ | KVendConfig _ _ _ _ | KDispense _ _ _ _ => true
  | KFan ps pre _ _ _ _ => presets_wf ps && fan_consistent ps pre
  | KModeConfig _ _ _ => true
  | KMode ms _ _ rel _ _ _ => mode_guard ms rel
  | KEnterLeave pre _ _ => el_guard pre
  | KMeterNew init now _ =>
      match init with
      | Some i => match m_start i, m_end i with
                  | Some s, Some e => s <=? e | Some s, None => s <=? now | None, Some e => now <=? e | None, None => true end
      | None => true
      end
  | KMeter pre o _ _ => meter_guard pre o
  | KPub _ _ _ _ _ => true
  end.

Definition agrees (c : c20case) : bool :=
  match c with
  | KParent pre o ret post => let '(post', ret') := pstep pre o in children_eqb post post' && pret_eqb ret ret'
  | KConvert v from to obs back =>
      convert_matches eps64 v (convert v from to) obs
      && match obs, back with
         | Some o, Some b => convert_matches eps64 o (convert o to from) (Some b)
         | Some o, None => match convert o to from with None => true | Some _ => false end
         | None, _ => true
         end
  | KVendConfig stocks consumables inventory listed => strs_eqb stocks inventory && strs_eqb consumables listed
  | KDispense pre q obs post => dispense_matches true pre (dispense pre q) obs post
  | KFan ps pre req rel obs post =>
      let '(o, p) := fan_update ps pre req rel in fout_eqb obs o && fan_eqb post p
  | KModeConfig given used initial =>
      match new_model given with
      | Some (ms, v) => modes_eqb used ms && mvalues_eqb initial v
      | None => false
      end
  | KMode ms pre abs rel mask obs post =>
      let p := mode_update ms pre abs rel mask in option_eqb mvalues_eqb obs (Some p) && mvalues_eqb post p
  | KEnterLeave pre o post => elev_eqb post (el_step pre o)
  | KMeterNew init now obs => meter_eqb obs (new_meter init now)
  | KMeter pre o ret post => meter_eqb ret (meter_step pre o) && meter_eqb post (meter_step pre o)
  | KPub now pre o obs post =>
      let '(o', p') := pub_step (local_hash pre post) now pre o in pout_eqb obs o' && option_eqb pub_eqb post p'
  end.

Definition judge (c : c20case) : Z :=
  verdict (agrees c) (if C20_guard c then C20_ok c else true) None.
