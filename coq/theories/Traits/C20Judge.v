(* Correspondence cases for C20.  Each case is one executed operation of one trait model: the state
   observed before, the operation, what the Go code returned and the state observed after.
   [agrees] compares with the model's step function; [C20_ok] evaluates the property on the
   observation with oracles that do not go through the model's algorithms. *)
From SC Require Export Base.Prelude Traits.Str Traits.Parent Traits.Vending.
From Coq Require Import QArith Qabs.
Open Scope Z_scope.

Inductive c20case :=
| KParent (pre : children) (o : pop) (ret : option (list string) * bool) (post : children)
| KConvert (v : Q) (from to : Z) (obs back : option Q)
| KVendConfig (stocks consumables : list string) (inventory listed : list string)
| KDispense (pre : option stock) (q : qty) (obs : vout) (post : option stock).

Definition children_eqb (a b : children) : bool :=
  list_eqb (fun x y => String.eqb (fst x) (fst y) && strs_eqb (snd x) (snd y)) a b.
Definition pret_eqb (a b : option (list string) * bool) : bool :=
  option_eqb strs_eqb (fst a) (fst b) && Bool.eqb (snd a) (snd b).

(* ---- parent: set algebra on membership, other children untouched ---- *)
Definition set_union_ok (has more out : list string) : bool :=
  ssorted out && forallb (fun x => smem x out) (has ++ more) && forallb (fun x => smem x has || smem x more) out.
Definition set_diff_ok (has rm out : list string) : bool :=
  ssorted out && forallb (fun x => smem x rm || smem x out) has
  && forallb (fun x => smem x has && negb (smem x rm)) out.

Definition others_same (n : string) (pre post : children) : bool :=
  forallb (fun c => String.eqb (fst c) n || option_eqb strs_eqb (find_child (fst c) post) (Some (snd c))) pre
  && forallb (fun c => String.eqb (fst c) n || option_eqb strs_eqb (find_child (fst c) pre) (Some (snd c))) post.

Definition parent_ok (pre : children) (o : pop) (ret : option (list string) * bool) (post : children) : bool :=
  match o with
  | PAdd n names =>
      match fst ret with
      | Some out =>
          set_union_ok (child_traits n pre) names out
          && option_eqb strs_eqb (find_child n post) (Some out)
          && Bool.eqb (snd ret) (match find_child n pre with None => true | Some _ => false end)
          && others_same n pre post
      | None => false
      end
  | PRemove n names =>
      match find_child n pre, fst ret with
      | None, None => children_eqb pre post && negb (snd ret)
      | Some has, Some out =>
          set_diff_ok has names out && option_eqb strs_eqb (find_child n post) (Some out)
          && negb (snd ret) && others_same n pre post
      | _, _ => false
      end
  end.

Definition parent_guard (pre : children) : bool := children_wf pre && ssorted (map fst pre).

(* ---- vending: float results compared with exact rational arithmetic within a relative tolerance ---- *)
Definition qclose (eps scale a b : Q) : bool := Qle_bool (Qabs (a - b)) (scale * eps).
Definition eps32 : Q := 1 # 2097152.          (* 2^-21: float32 arithmetic, two roundings *)
Definition eps64 : Q := 1 # 35184372088832.   (* 2^-45: float64 arithmetic *)

Definition qty_close (p m o : option qty) : bool :=
  match p, m, o with
  | None, None, None => true
  | Some p, Some m, Some o =>
      (q_unit m =? q_unit o) && qclose eps32 (Qabs (q_amount p) + Qabs (q_amount m)) (q_amount m) (q_amount o)
  | _, _, _ => false
  end.
Definition qty_eqb (a b : qty) : bool := (q_unit a =? q_unit b) && Qeq_bool (q_amount a) (q_amount b).
Definition stock_eqb (a b : stock) : bool :=
  option_eqb qty_eqb (s_used a) (s_used b) && option_eqb qty_eqb (s_rem a) (s_rem b)
  && option_eqb qty_eqb (s_last a) (s_last b) && Bool.eqb (s_dispensing a) (s_dispensing b).
(* [m] computed from [p] by the model or the reference, [o] observed *)
Definition stock_close (p m o : stock) : bool :=
  qty_close (s_used p) (s_used m) (s_used o) && qty_close (s_rem p) (s_rem m) (s_rem o)
  && option_eqb qty_eqb (s_last m) (s_last o) && Bool.eqb (s_dispensing m) (s_dispensing o).

Definition dispense_matches (strict_code : bool) (pre : option stock) (want : vout * option stock)
  (obs : vout) (post : option stock) : bool :=
  match pre, want, obs, post with
  | None, (VErr c, None), VErr c', None => c =? c'
  | Some p, (VStock m, Some _), VStock o, Some o' => stock_close p m o && stock_eqb o o'
  | Some p, (VErr c, Some _), VErr c', Some o' => (if strict_code then c =? c' else negb (c' =? 0)) && stock_eqb p o'
  | Some p, (VNilNil, Some _), VNilNil, Some o' => stock_eqb p o'
  | _, _, _, _ => false
  end.

Definition convert_matches (eps : Q) (v : Q) (want obs : option Q) : bool :=
  match want, obs with
  | None, None => true
  | Some m, Some o => qclose eps (Qabs m) m o
  | _, _ => false
  end.

Definition C20_ok (c : c20case) : bool :=
  match c with
  | KParent pre o ret post => parent_ok pre o ret post
  | KConvert v from to obs back =>
      (* errors exactly across physical categories; the value is the physical conversion; it round-trips *)
      convert_matches eps64 v (phys_convert v from to) obs
      && match obs with Some _ => convert_matches eps64 v (Some v) back | None => true end
  | KVendConfig stocks consumables inventory listed => strs_eqb stocks inventory && strs_eqb consumables listed
  | KDispense pre q obs post => dispense_matches false pre (dispense_spec_with phys_convert pre q) obs post
  end.

Definition C20_guard (c : c20case) : bool :=
  match c with
  | KParent pre _ _ _ => parent_guard pre
  | KConvert _ _ _ _ _ | KVendConfig _ _ _ _ | KDispense _ _ _ _ => true
  end.

Definition agrees (c : c20case) : bool :=
  match c with
  | KParent pre o ret post => let '(post', ret') := pstep pre o in children_eqb post post' && pret_eqb ret ret'
  | KConvert v from to obs back =>
      convert_matches eps64 v (convert v from to) obs
      && match obs, back with
         | Some o, Some b => convert_matches eps64 o (convert o to from) (Some b)
         | Some o, None => match convert o to from with None => true | Some _ => false end
         | None, _ => true
         end
  | KVendConfig stocks consumables inventory listed => strs_eqb stocks inventory && strs_eqb consumables listed
  | KDispense pre q obs post => dispense_matches true pre (dispense pre q) obs post
  end.

Definition judge (c : c20case) : Z :=
  verdict (agrees c) (if C20_guard c then C20_ok c else true) None.
