From SC Require Import Base.Prelude Traits.Str Traits.StrProofs Traits.Options.
Local Open Scope list_scope.

(* ---------- option routing: the appends of modelArgs.apply compute [route] ---------- *)

Lemma app_at_length r os a : List.length (app_at r os a) = List.length a.
Proof. revert r; induction a as [|l a IH]; intros [|r]; cbn; auto. Qed.

Lemma apply1_length a o : List.length (apply1 a o) = List.length a.
Proof. destruct o; cbn; rewrite ?map_length, ?app_at_length; reflexivity. Qed.

Lemma nth_app_at r os a i : (i < List.length a)%nat ->
  nth i (app_at r os a) [] = nth i a [] ++ (if Nat.eqb r i then os else []).
Proof.
  revert r i; induction a as [|l a IH]; intros r i Hi; cbn in Hi; [lia|].
  destruct r as [|r], i as [|i]; cbn; rewrite ?app_nil_r; try reflexivity.
  apply IH. lia.
Qed.

Lemma nth_map_app (a : args) x i : (i < List.length a)%nat -> nth i (map (fun l => l ++ x) a) [] = nth i a [] ++ x.
Proof.
  intros Hi. rewrite (nth_indep _ [] ([] ++ x)) by now rewrite map_length.
  now rewrite (map_nth (fun l => l ++ x)).
Qed.

Lemma nth_apply1 a o i : (i < List.length a)%nat -> nth i (apply1 a o) [] = nth i a [] ++ route i [o].
Proof.
  intros Hi. destruct o as [x|r os|os|k v]; cbn [apply1 route flat_map]; rewrite ?app_nil_r.
  - now apply nth_map_app.
  - now apply nth_app_at.
  - now apply nth_map_app.
  - reflexivity.
Qed.

Lemma route_cons r o opts : route r (o :: opts) = route r [o] ++ route r opts.
Proof. unfold route. cbn [flat_map]. now rewrite app_nil_r. Qed.

Lemma route_app r a b : route r (a ++ b) = route r a ++ route r b.
Proof. unfold route. apply flat_map_app. Qed.

Lemma nth_fold_apply opts : forall a i, (i < List.length a)%nat ->
  nth i (fold_left apply1 opts a) [] = nth i a [] ++ route i opts
  /\ List.length (fold_left apply1 opts a) = List.length a.
Proof.
  induction opts as [|o opts IH]; intros a i Hi; cbn [fold_left].
  - cbn. now rewrite app_nil_r.
  - destruct (IH (apply1 a o) i) as [E L]; [now rewrite apply1_length|].
    rewrite E, L, apply1_length, nth_apply1 by assumption. rewrite (route_cons i o opts), app_assoc. split; reflexivity.
Qed.

Lemma fold_apply_length opts : forall a, List.length (fold_left apply1 opts a) = List.length a.
Proof. induction opts as [|o opts IH]; intros a; cbn [fold_left]; [reflexivity|]. now rewrite IH, apply1_length. Qed.

Lemma nth_repeat_nil {A} n i : nth i (repeat (@nil A) n) [] = [].
Proof. revert i; induction n; intros [|i]; cbn; auto. Qed.

(* refinement: the option lists the constructor computes are the routed lists *)
Theorem calc_args_is_route nres opts : calc_args nres opts = map (fun r => route r opts) (seq 0 nres).
Proof.
  unfold calc_args. apply (nth_ext _ _ [] []).
  - now rewrite fold_apply_length, repeat_length, map_length, seq_length.
  - intros i Hi. rewrite fold_apply_length, repeat_length in Hi.
    destruct (nth_fold_apply opts (repeat [] nres) i) as [E _]; [now rewrite repeat_length|].
    rewrite E, nth_repeat_nil. cbn [app].
    rewrite (nth_indep _ [] (route (nth i (seq 0 nres) 0%nat) opts)) by now rewrite map_length, seq_length.
    rewrite (map_nth (fun r => route r opts)), seq_nth by assumption. reflexivity.
Qed.

Theorem new_model_code_is_spec nres dflt opts : new_model_code nres dflt opts = new_model_spec nres dflt opts.
Proof. unfold new_model_code, new_model_spec. now rewrite calc_args_is_route, map_map. Qed.

(* ---------- building a resource from its option list ---------- *)

Definition init_records (os : list ropt) : list (string * string) :=
  flat_map (fun o => match o with OInitRecord id v => [(id, v)] | _ => [] end) os.

Lemma init_records_ids os : map fst (init_records os) = record_ids os.
Proof.
  unfold init_records, record_ids. induction os as [|[k|id v|v] os IH]; cbn [flat_map app map fst]; try assumption; try reflexivity.
  now rewrite IH.
Qed.

Lemma lookup_none l id : lookup id l = None <-> ~ In id (map fst l).
Proof.
  induction l as [|[k v] l IH]; cbn; [tauto|]. destruct (String.eqb_spec k id).
  - split; [discriminate|]. intros H. exfalso. apply H. now left.
  - rewrite IH. tauto.
Qed.

Lemma lookup_some_in l id v : lookup id l = Some v -> In (id, v) l.
Proof.
  induction l as [|[k w] l IH]; cbn; [discriminate|]. destruct (String.eqb_spec k id).
  - intros [= ->]. left. now subst.
  - intros H. right. now apply IH.
Qed.

Lemma lookup_in_nodup l id v : nodup_strs' (map fst l) = true -> In (id, v) l -> lookup id l = Some v.
Proof.
  induction l as [|[k w] l IH]; cbn; [tauto|]. intros Hn [H|H].
  - injection H as -> ->. now rewrite String.eqb_refl.
  - apply andb_prop in Hn as [Hk Hn]. destruct (String.eqb_spec k id) as [->|Hne]; [|now apply IH].
    apply negb_true_iff, smem_false in Hk. exfalso. apply Hk. apply in_map_iff. now exists (id, v).
Qed.

Lemma nodup_app_single l x : nodup_strs' (l ++ [x]) = nodup_strs' l && negb (smem x l).
Proof.
  induction l as [|y l IH]; cbn; [reflexivity|]. rewrite IH.
  assert (E : smem y (l ++ [x]) = smem y l || String.eqb y x).
  { clear. induction l as [|z l IH]; cbn; [now rewrite orb_false_r|]. rewrite IH. now rewrite orb_assoc. }
  rewrite E, (String.eqb_sym x y). destruct (smem y l), (String.eqb y x), (nodup_strs' l), (smem x l); reflexivity.
Qed.

Lemma nodup_app_cons l x r : nodup_strs' (l ++ x :: r) = true <-> nodup_strs' ((l ++ [x]) ++ r) = true.
Proof. now rewrite <- app_assoc. Qed.

Lemma rid_plain k os : record_ids (OPlain k :: os) = record_ids os. Proof. reflexivity. Qed.
Lemma rid_val v os : record_ids (OInitValue v :: os) = record_ids os. Proof. reflexivity. Qed.
Lemma rid_rec id v os : record_ids (OInitRecord id v :: os) = id :: record_ids os. Proof. reflexivity. Qed.
Lemma ir_plain k os : init_records (OPlain k :: os) = init_records os. Proof. reflexivity. Qed.
Lemma ir_val v os : init_records (OInitValue v :: os) = init_records os. Proof. reflexivity. Qed.
Lemma ir_rec id v os : init_records (OInitRecord id v :: os) = (id, v) :: init_records os. Proof. reflexivity. Qed.

(* closed form of computeConfig on one resource *)
Lemma build_from_closed os : forall s, nodup_strs' (map fst (rs_records s)) = true ->
  build_from s os =
  if nodup_strs' (map fst (rs_records s) ++ record_ids os)
  then Some (mkRS (rs_records s ++ init_records os) (last_value (rs_value s) os))
  else None.
Proof.
  induction os as [|[k|id v|v] os IH]; intros s Hs; cbn [build_from last_value];
    rewrite ?rid_plain, ?rid_val, ?rid_rec, ?ir_plain, ?ir_val, ?ir_rec.
  - cbn [record_ids init_records flat_map]. rewrite !app_nil_r, Hs. now destruct s.
  - now apply IH.
  - destruct (lookup id (rs_records s)) as [w|] eqn:Hl.
    + assert (Hin : In id (map fst (rs_records s))).
      { apply lookup_some_in in Hl. apply in_map_iff. now exists (id, w). }
      assert (Hd : nodup_strs' (map fst (rs_records s) ++ id :: record_ids os) = false).
      { clear - Hin. induction (map fst (rs_records s)) as [|y l IHl]; [destruct Hin|]. cbn.
        destruct Hin as [->|Hin].
        - assert (smem id (l ++ id :: record_ids os) = true) as ->; [|reflexivity].
          apply smem_In, in_or_app. right. now left.
        - rewrite (IHl Hin). now rewrite andb_false_r. }
      now rewrite Hd.
    + apply lookup_none in Hl. apply smem_false in Hl.
      rewrite IH; cbn [rs_records rs_value]; rewrite map_app; cbn [map fst].
      * rewrite <- !app_assoc. reflexivity.
      * rewrite nodup_app_single, Hs, Hl. reflexivity.
  - rewrite IH by exact Hs. reflexivity.
Qed.

Theorem build_closed os :
  build os = if nodup_strs' (record_ids os) then Some (mkRS (init_records os) (last_value None os)) else None.
Proof. unfold build. rewrite build_from_closed by reflexivity. reflexivity. Qed.

Lemma all_some_map {A B} (f : A -> option B) (g : A -> B) l :
  (forall x, In x l -> f x = Some (g x)) -> all_some (map f l) = Some (map g l).
Proof.
  induction l as [|x l IH]; intros H; cbn; [reflexivity|]. rewrite (H x) by now left.
  rewrite IH; [reflexivity|]. intros y Hy. apply H. now right.
Qed.

Definition resource_of (os : list ropt) : rstate := mkRS (init_records os) (last_value None os).

(* a well-formed configuration never panics, and every resource holds exactly what was configured for it:
   the records of the options routed to it (plain options do not matter, options targeted at another
   resource do not arrive), its value is the last configured initial value *)
Theorem new_model_configured nres dflt opts : config_wf nres (dflt ++ opts) = true ->
  new_model_code nres dflt opts = Some (map (fun r => resource_of (route r (dflt ++ opts))) (seq 0 nres)).
Proof.
  intros Hwf. rewrite new_model_code_is_spec. unfold new_model_spec. apply all_some_map.
  intros r Hr. rewrite build_closed. unfold config_wf in Hwf. rewrite forallb_forall in Hwf. now rewrite (Hwf r Hr).
Qed.

Theorem resource_has_configured os id v : nodup_strs' (record_ids os) = true ->
  (lookup id (rs_records (resource_of os)) = Some v <-> In (OInitRecord id v) os).
Proof.
  intros Hn. cbn [resource_of rs_records]. split.
  - intros H. apply lookup_some_in in H. unfold init_records in H. apply in_flat_map in H as (o & Ho & Hin).
    destruct o; cbn in Hin; try tauto. destruct Hin as [[= -> ->]|[]]. exact Ho.
  - intros H. apply lookup_in_nodup; [now rewrite init_records_ids|].
    unfold init_records. apply in_flat_map. exists (OInitRecord id v). split; [assumption|now left].
Qed.

(* a malformed configuration (two records with one id for a resource) panics, as documented *)
Theorem new_model_duplicate_panics nres dflt opts : config_wf nres (dflt ++ opts) = false ->
  new_model_code nres dflt opts = None.
Proof.
  intros Hwf. rewrite new_model_code_is_spec. unfold new_model_spec, config_wf in *.
  induction (seq 0 nres) as [|r l IH]; cbn in *; [discriminate|].
  rewrite build_closed. destruct (nodup_strs' (record_ids (route r (dflt ++ opts)))); [|reflexivity].
  cbn in Hwf. now rewrite (IH Hwf).
Qed.

(* routing facts used by the per-model statements *)
Lemma route_target_in r r' os o opts : In (MTarget r' os) opts -> In o os -> (In o (route r opts) \/ r' <> r).
Proof.
  intros Hin Ho. destruct (Nat.eqb_spec r' r) as [->|Hne]; [left|now right].
  unfold route. apply in_flat_map. exists (MTarget r os). split; [assumption|]. now rewrite Nat.eqb_refl.
Qed.

Lemma route_in_inv r o opts : In o (route r opts) ->
  In (MAll o) opts \/ (exists os, In (MTarget r os) opts /\ In o os) \/ (exists os, In (MEvery os) opts /\ In o os).
Proof.
  unfold route. intros H. apply in_flat_map in H as (m & Hm & Hin). destruct m as [x|r' os|os|k v]; cbn in Hin.
  - destruct Hin as [->|[]]. now left.
  - destruct (Nat.eqb_spec r' r) as [->|]; [|destruct Hin]. right. left. now exists os.
  - right. right. now exists os.
  - destruct Hin.
Qed.

Lemma plain_options_do_not_matter r k opts1 opts2 :
  resource_of (route r (opts1 ++ MAll (OPlain k) :: opts2)) = resource_of (route r (opts1 ++ opts2)).
Proof.
  rewrite !route_app, route_cons. unfold resource_of. f_equal.
  - unfold init_records. rewrite !flat_map_app. reflexivity.
  - cbn [route flat_map app]. generalize (@None string).
    induction (route r opts1) as [|[k'|id v|v] l IH]; intros d; cbn; auto.
Qed.
