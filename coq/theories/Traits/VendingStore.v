(* vendingpb.Model as two record stores (Traits/Store.v): the inventory of Consumable_Stock keyed by
   consumable name and the consumables keyed by name; DispenseInstantly is an update of one stock record.
   Update masks: every subset of the top-level fields (nil = all fields). proto.Merge merges a populated
   message field into the stored one (a zero unit / amount of the request keeps the stored one). *)
From SC Require Import Base.Prelude Traits.Str Traits.Vending Traits.Store.
From Coq Require Import QArith.
Open Scope Z_scope.

Record smask := mkSM { sk_name : bool; sk_rem : bool; sk_used : bool; sk_last : bool; sk_disp : bool; sk_bad : bool }.
Definition sm_empty (k : smask) : bool := negb (sk_name k || sk_rem k || sk_used k || sk_last k || sk_disp k || sk_bad k).

Definition merge_qty (d : option qty) (s : qty) : qty :=
  let d' := match d with Some d => d | None => mkQty 0 0%Q end in
  mkQty (if q_unit s =? 0 then q_unit d' else q_unit s) (if Qeq_bool (q_amount s) 0 then q_amount d' else q_amount s).
Definition masked_qty (b : bool) (d s : option qty) : option qty :=
  if b then match s with None => None | Some q => Some (merge_qty d q) end else d.

Definition merge_stock (m : option smask) (old new : stock) : stock :=
  match m with
  | None => new
  | Some k =>
      if sm_empty k then old else
      mkStock (masked_qty (sk_used k) (s_used old) (s_used new)) (masked_qty (sk_rem k) (s_rem old) (s_rem new))
              (masked_qty (sk_last k) (s_last old) (s_last new))
              (if sk_disp k then s_dispensing new else s_dispensing old)
  end.
Definition smask_bad (m : option smask) : bool := match m with Some k => sk_bad k | None => false end.

(* the part of a Consumable the harness varies *)
Record cons := mkCons { c_title : string; c_url : string }.
Record cmask := mkCM { ck_name : bool; ck_title : bool; ck_url : bool; ck_bad : bool }.
Definition merge_cons (m : option cmask) (old new : cons) : cons :=
  match m with
  | None => new
  | Some k =>
      if negb (ck_name k || ck_title k || ck_url k || ck_bad k) then old else
      mkCons (if ck_title k then c_title new else c_title old) (if ck_url k then c_url new else c_url old)
  end.
Definition cmask_bad (m : option cmask) : bool := match m with Some k => ck_bad k | None => false end.

Definition inventory := store stock.
Definition consumables := store cons.

Inductive vop :=
| VInv (o : sop stock (option smask))
| VCons (o : sop cons (option cmask))
| VDispense (name : string) (q : qty).
Inductive vres := RInv (r : sout stock) | RCons (r : sout cons) | RDisp (r : vout).

Definition vstate := (inventory * consumables)%type.
Definition vstep (s : vstate) (o : vop) : vres * vstate :=
  match o with
  | VInv o => let '(r, i) := sstep merge_stock smask_bad (fst s) o in (RInv r, (i, snd s))
  | VCons o => let '(r, c) := sstep merge_cons cmask_bad (snd s) o in (RCons r, (fst s, c))
  | VDispense name q =>
      let '(r, post) := dispense (sfind name (fst s)) q in
      (RDisp r, (match post with Some p => sput name p (fst s) | None => fst s end, snd s))
  end.
Definition vstore_run (s : vstate) (ops : list vop) : vstate := fold_left (fun s o => snd (vstep s o)) ops s.

Definition vstate_wf (s : vstate) : bool := store_wf (fst s) && store_wf (snd s).

(* no panic and no (nil, nil) except the documented delete of a missing record with allow_missing *)
Definition vres_fine (o : vop) (r : vres) : Prop :=
  match r with
  | RDisp VPanic | RDisp VNilNil => False
  | RInv SNil => match o with VInv (SDelete _ true) => True | _ => False end
  | RCons SNil => match o with VCons (SDelete _ true) => True | _ => False end
  | _ => True
  end.

(* NewModel(WithInitialStock..., WithInitialConsumable...): the configured records, key sorted *)
Definition vstore_new (stocks : list (string * stock)) (cs : list (string * cons)) : vstate :=
  (fold_left (fun s e => sput (fst e) (snd e) s) stocks [], fold_left (fun s e => sput (fst e) (snd e) s) cs []).
