From SC Require Import Base.Prelude Traits.Str Traits.StrProofs Traits.Vending Traits.VendingProofs Traits.Store
  Traits.StoreProofs Traits.VendingStore.
From Coq Require Import QArith.
Local Open Scope list_scope.
Open Scope Z_scope.

Lemma dispense_post_shape pre q : match snd (dispense pre q), pre with Some _, Some _ | None, None => True | _, _ => False end.
Proof.
  unfold dispense, dispense_gen. destruct pre as [s|]; [|exact I]. destruct (update_stock q s); exact I.
Qed.

Theorem vstep_wf s o : vstate_wf s = true -> vstate_wf (snd (vstep s o)) = true.
Proof.
  unfold vstate_wf. intros H. apply andb_prop in H as [Hi Hc]. destruct o as [o|o|name q]; cbn [vstep].
  - destruct (sstep merge_stock smask_bad (fst s) o) as [r i] eqn:E. cbn [snd fst].
    pose proof (sstep_refines _ _ merge_stock smask_bad (fst s) o Hi) as [Hw _]. rewrite E in Hw. cbn [snd] in Hw. now rewrite Hw, Hc.
  - destruct (sstep merge_cons cmask_bad (snd s) o) as [r c] eqn:E. cbn [snd fst].
    pose proof (sstep_refines _ _ merge_cons cmask_bad (snd s) o Hc) as [Hw _]. rewrite E in Hw. cbn [snd] in Hw. now rewrite Hw, Hi.
  - destruct (dispense (sfind name (fst s)) q) as [r post]. cbn [snd fst]. rewrite Hc, andb_true_r.
    destruct post; [now apply sput_wf|exact Hi].
Qed.

Theorem vstep_fine s o : vres_fine o (fst (vstep s o)).
Proof.
  destruct o as [o|o|name q]; cbn [vstep].
  - destruct o as [n g v|n v m|n allow]; cbn [sstep].
    + destruct (sfind (create_id n g) (fst s)); exact I.
    + destruct (String.eqb n EmptyString); [exact I|]. destruct (smask_bad m); [exact I|]. destruct (sfind n (fst s)); exact I.
    + destruct (sfind n (fst s)); [exact I|]. destruct allow; exact I.
  - destruct o as [n g v|n v m|n allow]; cbn [sstep].
    + destruct (sfind (create_id n g) (snd s)); exact I.
    + destruct (String.eqb n EmptyString); [exact I|]. destruct (cmask_bad m); [exact I|]. destruct (sfind n (snd s)); exact I.
    + destruct (sfind n (snd s)); [exact I|]. destruct allow; exact I.
  - destruct (dispense_never_panics (sfind name (fst s)) q) as [H1 H2].
    destruct (dispense (sfind name (fst s)) q) as [r post]. cbn [fst] in *. destruct r; try exact I; congruence.
Qed.

(* a dispense changes the stock record of its consumable only, never adds or removes a record, never touches the consumables *)
Theorem vstep_dispense_frame s name q : vstate_wf s = true ->
  let s' := snd (vstep s (VDispense name q)) in
  snd s' = snd s /\
  (forall k, k <> name -> sfind k (fst s') = sfind k (fst s)) /\
  sfind name (fst s') = snd (dispense (sfind name (fst s)) q) /\
  (forall k, (sfind k (fst s') = None <-> sfind k (fst s) = None)).
Proof.
  unfold vstate_wf. intros H. apply andb_prop in H as [Hi Hc]. cbn [vstep].
  pose proof (dispense_post_shape (sfind name (fst s)) q) as Hshape.
  destruct (dispense (sfind name (fst s)) q) as [r post]. cbn [snd fst] in *.
  destruct post as [p|].
  - destruct (sfind name (fst s)) as [old|] eqn:Hold; [|destruct Hshape].
    repeat split.
    + intros k Hk. rewrite sfind_sput by exact Hi. destruct (String.eqb_spec name k); [congruence|reflexivity].
    + rewrite sfind_sput by exact Hi. now rewrite String.eqb_refl.
    + rewrite sfind_sput by exact Hi. destruct (String.eqb_spec name k) as [<-|]; [discriminate|auto].
    + rewrite sfind_sput by exact Hi. destruct (String.eqb_spec name k) as [<-|]; [congruence|auto].
  - destruct (sfind name (fst s)) as [old|] eqn:Hold; [destruct Hshape|]. repeat split; auto.
Qed.

(* every sequence of stock / consumable CRUD and dispenses *)
Theorem vstore_sequences ops : forall s, vstate_wf s = true ->
  vstate_wf (vstore_run s ops) = true.
Proof.
  unfold vstore_run. induction ops as [|o ops IH]; intros s Hs; cbn [fold_left]; [exact Hs|].
  apply IH. now apply vstep_wf.
Qed.

(* constructed with explicit configuration: the state is well formed and holds every configured record *)
Lemma fold_sput_wf {R} (l : list (string * R)) : forall s, store_wf s = true ->
  store_wf (fold_left (fun s e => sput (fst e) (snd e) s) l s) = true.
Proof. induction l as [|e l IH]; intros s Hs; cbn [fold_left]; [exact Hs|]. apply IH. now apply sput_wf. Qed.

Lemma sfind_snoc {R} (r : list (string * R)) k k0 v0 :
  sfind k (r ++ [(k0, v0)]) = match sfind k r with Some v => Some v | None => if String.eqb k0 k then Some v0 else None end.
Proof. induction r as [|[k1 v1] r IHr]; cbn; [reflexivity|]. destruct (String.eqb k1 k); [reflexivity|exact IHr]. Qed.

Lemma fold_sput_find {R} (l : list (string * R)) : forall s k, store_wf s = true ->
  sfind k (fold_left (fun s e => sput (fst e) (snd e) s) l s) =
  match sfind k (rev l) with Some v => Some v | None => sfind k s end.
Proof.
  induction l as [|[k0 v0] l IH]; intros s k Hs; cbn [fold_left rev]; [reflexivity|].
  rewrite IH by now apply sput_wf. cbn [fst snd]. rewrite sfind_sput by exact Hs.
  rewrite sfind_snoc. destruct (sfind k (rev l)); [reflexivity|]. now destruct (String.eqb k0 k).
Qed.

Lemma sfind_rev_nodup {R} (l : list (string * R)) k v : NoDup (map fst l) -> In (k, v) l -> sfind k (rev l) = Some v.
Proof.
  intros Hn Hin. assert (Hn' : NoDup (map fst (rev l))) by (rewrite map_rev; now apply NoDup_rev).
  apply in_rev in Hin. revert Hn' Hin. generalize (rev l). clear. intros l.
  induction l as [|[k0 v0] l IH]; cbn; [tauto|]. intros Hn [H|H].
  - injection H as -> ->. now rewrite String.eqb_refl.
  - inversion Hn as [|? ? Hnot Hn']; subst. destruct (String.eqb_spec k0 k) as [->|]; [|now apply IH].
    exfalso. apply Hnot. apply in_map_iff. now exists (k, v).
Qed.

Theorem vstore_new_configured stocks cs : NoDup (map fst stocks) -> NoDup (map fst cs) ->
  vstate_wf (vstore_new stocks cs) = true /\
  (forall k v, In (k, v) stocks -> sfind k (fst (vstore_new stocks cs)) = Some v) /\
  (forall k v, In (k, v) cs -> sfind k (snd (vstore_new stocks cs)) = Some v) /\
  (forall k, sfind k (fst (vstore_new stocks cs)) <> None -> In k (map fst stocks)) /\
  (forall k, sfind k (snd (vstore_new stocks cs)) <> None -> In k (map fst cs)).
Proof.
  intros Hs Hc. unfold vstore_new, vstate_wf. cbn [fst snd]. repeat split.
  - now rewrite !fold_sput_wf.
  - intros k v Hin. rewrite fold_sput_find by reflexivity. now rewrite (sfind_rev_nodup stocks k v Hs Hin).
  - intros k v Hin. rewrite fold_sput_find by reflexivity. now rewrite (sfind_rev_nodup cs k v Hc Hin).
  - intros k. rewrite fold_sput_find by reflexivity. cbn [sfind]. destruct (sfind k (rev stocks)) eqn:E; [|congruence].
    intros _. clear - E. rewrite in_rev, <- map_rev. induction (rev stocks) as [|[k0 v0] l IH]; cbn in *; [discriminate|].
    destruct (String.eqb_spec k0 k); [now left|right; now apply IH].
  - intros k. rewrite fold_sput_find by reflexivity. cbn [sfind]. destruct (sfind k (rev cs)) eqn:E; [|congruence].
    intros _. clear - E. rewrite in_rev, <- map_rev. induction (rev cs) as [|[k0 v0] l IH]; cbn in *; [discriminate|].
    destruct (String.eqb_spec k0 k); [now left|right; now apply IH].
Qed.

(* a masked stock update leaves the quantities the mask does not name alone *)
Theorem merge_stock_frame k old new : sm_empty k = false ->
  (sk_used k = false -> s_used (merge_stock (Some k) old new) = s_used old) /\
  (sk_rem k = false -> s_rem (merge_stock (Some k) old new) = s_rem old) /\
  (sk_last k = false -> s_last (merge_stock (Some k) old new) = s_last old) /\
  (sk_disp k = false -> s_dispensing (merge_stock (Some k) old new) = s_dispensing old).
Proof. intros He. unfold merge_stock. rewrite He. cbn. unfold masked_qty. repeat split; intros ->; reflexivity. Qed.
