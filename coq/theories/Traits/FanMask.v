(* Model.UpdateFanSpeed with an update mask (resource.WithUpdateMask): validateUpdate looks at the request as
   given, FieldUpdater.Merge writes the named fields only (all four are scalars: named = the request's,
   others = the stored ones; nil mask = all; a mask without paths = nothing), then DeriveValues. *)
From SC Require Import Base.Prelude Traits.FanSpeed.

Record fmask := mkFM { fk_pct : bool; fk_preset : bool; fk_idx : bool; fk_dir : bool; fk_bad : bool }.
Definition merge_fan (m : option fmask) (old req : fan) : fan :=
  match m with
  | None => req
  | Some k => mkFan (if fk_pct k then f_pct req else f_pct old) (if fk_preset k then f_preset req else f_preset old)
                    (if fk_idx k then f_idx req else f_idx old) (if fk_dir k then f_dir req else f_dir old)
  end.
Definition fan_update_masked (ps : list preset) (old req : fan) (m : option fmask) : fout * fan :=
  if negb (known_preset ps (f_preset req)) then (FErr 3, old)
  else if match m with Some k => fk_bad k | None => false end then (FErr 3, old)
  else let new := derive ps old (merge_fan m old req) in (FOk new, new).
Definition fan_run_masked (ps : list preset) (init : fan) (ops : list (fan * option fmask)) : fan :=
  fold_left (fun s o => snd (fan_update_masked ps s (fst o) (snd o))) ops init.
