From SC Require Import Base.Prelude Traits.Str Traits.StrProofs Traits.Parent.

(* ---- sort.Search finds the least index where a monotone predicate holds ---- *)
Lemma div2_mid i j : (i < j)%nat -> (i <= Nat.div2 (i + j) < j)%nat.
Proof.
  intros H. pose proof (Nat.div2_odd (i + j)) as E.
  destruct (Nat.odd (i + j)); cbn [Nat.b2n] in E; lia.
Qed.

Lemma search_go_spec (f : nat -> bool) (n : nat) :
  (forall a b, (a <= b)%nat -> (b < n)%nat -> f a = true -> f b = true) ->
  forall fuel i j, (i <= j)%nat -> (j <= n)%nat -> (j - i < fuel)%nat ->
    (forall x, (x < i)%nat -> f x = false) -> (forall x, (j <= x < n)%nat -> f x = true) ->
    let k := search_go fuel f i j in
    (k <= n)%nat /\ (forall x, (x < k)%nat -> f x = false) /\ (forall x, (k <= x < n)%nat -> f x = true).
Proof.
  intros Hmono. induction fuel as [|fuel IH]; intros i j Hij Hjn Hfuel Hlo Hhi; [lia|].
  cbn [search_go]. destruct (Nat.ltb_spec i j) as [Hlt|Hge].
  - pose proof (div2_mid i j Hlt) as Hh. set (h := Nat.div2 (i + j)) in *.
    destruct (f h) eqn:Fh.
    + apply IH; try lia; try assumption.
      intros x Hx. destruct (Nat.lt_ge_cases x j) as [Hxj|Hxj]; [|apply Hhi; lia].
      apply (Hmono h x); try lia. assumption.
    + apply IH; try lia; try assumption.
      intros x Hx. destruct (Nat.lt_ge_cases x i) as [Hxi|Hxi]; [now apply Hlo|].
      destruct (f x) eqn:Fx; [|reflexivity].
      assert (f h = true) by (apply (Hmono x h); try lia; assumption). congruence.
  - assert (i = j) by lia. subst j. cbn. repeat split; try lia; assumption.
Qed.

Lemma search_spec (f : nat -> bool) (n : nat) :
  (forall a b, (a <= b)%nat -> (b < n)%nat -> f a = true -> f b = true) ->
  (search n f <= n)%nat /\ (forall x, (x < search n f)%nat -> f x = false)
  /\ (forall x, (search n f <= x < n)%nat -> f x = true).
Proof.
  intros Hmono. unfold search. apply (search_go_spec f n Hmono); try lia.
Qed.

(* ---- the linear definition of the same index ---- *)
Fixpoint lin (l : list string) (ts : string) : nat :=
  match l with [] => O | x :: r => if sge x ts then O else S (lin r ts) end.

Lemma lin_spec l ts :
  (lin l ts <= List.length l)%nat
  /\ (forall x, (x < lin l ts)%nat -> sge (name_at l x) ts = false)
  /\ ((lin l ts < List.length l)%nat -> sge (name_at l (lin l ts)) ts = true).
Proof.
  induction l as [|a l IH]; cbn [lin List.length].
  - repeat split; try lia.
  - destruct (sge a ts) eqn:E.
    + repeat split; try lia. intros _. exact E.
    + destruct IH as (I1 & I2 & I3). repeat split; try lia.
      * intros [|x] Hx; [exact E|]. unfold name_at; cbn [nth]. apply I2. lia.
      * intros Hx. unfold name_at; cbn [nth]. apply I3. lia.
Qed.

Lemma ssorted_nth l : ssorted l = true ->
  forall a b, (a < b)%nat -> (b < List.length l)%nat -> slt (name_at l a) (name_at l b) = true.
Proof.
  induction l as [|x l IH]; intros Hs a b Hab Hb; [cbn in Hb; lia|].
  apply ssorted_cons in Hs as [Hall Hs]. cbn [List.length] in Hb.
  destruct b as [|b]; [lia|]. unfold name_at. destruct a as [|a]; cbn [nth].
  - apply Hall. apply nth_In. lia.
  - apply IH; try assumption; lia.
Qed.

Lemma ge_monotone l ts : ssorted l = true ->
  forall a b, (a <= b)%nat -> (b < List.length l)%nat ->
    sge (name_at l a) ts = true -> sge (name_at l b) ts = true.
Proof.
  intros Hs a b Hab Hb. unfold sge. rewrite !negb_true_iff. intros Ha.
  destruct (Nat.eq_dec a b) as [->|Hne]; [assumption|].
  pose proof (ssorted_nth l Hs a b ltac:(lia) Hb) as K.
  eapply sle_trans; [exact Ha|]. now apply slt_asym.
Qed.

Lemma insert_index_lin l ts : ssorted l = true -> insert_index l ts = lin l ts.
Proof.
  intros Hs. unfold insert_index.
  set (f := fun i => sge (name_at l i) ts). set (n := List.length l).
  destruct (search_spec f n (ge_monotone l ts Hs)) as (S1 & S2 & S3).
  destruct (lin_spec l ts) as (L1 & L2 & L3). fold n in L1, L3.
  set (k1 := search n f) in *. set (k2 := lin l ts) in *.
  destruct (Nat.lt_trichotomy k1 k2) as [H|[H|H]]; [|assumption|].
  - pose proof (L2 k1 H) as A. pose proof (S3 k1 ltac:(lia)) as B. unfold f in B. congruence.
  - pose proof (S2 k2 H) as A. pose proof (L3 ltac:(lia)) as B. unfold f in A. congruence.
Qed.

(* ---- structural insert / delete ---- *)
Fixpoint ins (ts : string) (l : list string) : list string :=
  match l with
  | [] => [ts]
  | x :: r => if sge x ts then (if String.eqb x ts then x :: r else ts :: x :: r) else x :: ins ts r
  end.
Fixpoint del (ts : string) (l : list string) : list string :=
  match l with
  | [] => []
  | x :: r => if sge x ts then (if String.eqb x ts then r else x :: r) else x :: del ts r
  end.
Fixpoint del0 (ts : string) (l : list string) : list string :=
  match l with
  | [] => []
  | x :: r => if sge x ts then r else x :: del0 ts r
  end.

Lemma union1_lin l ts :
  (let i := lin l ts in
   if Nat.eqb i (List.length l) then l ++ [ts]
   else if String.eqb (name_at l i) ts then l
   else firstn i l ++ ts :: skipn i l) = ins ts l.
Proof.
  induction l as [|x l IH]; [reflexivity|].
  cbn [lin ins List.length]. destruct (sge x ts).
  - cbn. unfold name_at. cbn. destruct (String.eqb x ts); reflexivity.
  - cbn zeta in *. rewrite <- IH. cbn [Nat.eqb]. unfold name_at. cbn [nth firstn skipn].
    destruct (Nat.eqb (lin l ts) (List.length l)); [reflexivity|].
    fold (name_at l (lin l ts)). destruct (String.eqb (name_at l (lin l ts)) ts); reflexivity.
Qed.

Lemma remove1_lin l ts :
  (let i := lin l ts in
   if Nat.eqb i (List.length l) || negb (String.eqb (name_at l i) ts) then l
   else firstn i l ++ skipn (S i) l) = del ts l.
Proof.
  induction l as [|x l IH]; [reflexivity|].
  cbn [lin del List.length]. destruct (sge x ts).
  - cbn. unfold name_at. cbn. destruct (String.eqb x ts); reflexivity.
  - cbn zeta in *. rewrite <- IH. cbn [Nat.eqb]. unfold name_at. cbn [nth firstn skipn].
    fold (name_at l (lin l ts)).
    destruct (Nat.eqb (lin l ts) (List.length l) || negb (String.eqb (name_at l (lin l ts)) ts)); reflexivity.
Qed.

Lemma remove1_v0_lin l ts :
  (let i := lin l ts in
   if Nat.eqb i (List.length l) then l else firstn i l ++ skipn (S i) l) = del0 ts l.
Proof.
  induction l as [|x l IH]; [reflexivity|].
  cbn [lin del0 List.length]. destruct (sge x ts).
  - reflexivity.
  - cbn zeta in *. rewrite <- IH. cbn [Nat.eqb firstn skipn].
    destruct (Nat.eqb (lin l ts) (List.length l)); reflexivity.
Qed.

Lemma union1_ins l ts : ssorted l = true -> union1 l ts = ins ts l.
Proof. intros Hs. unfold union1. rewrite (insert_index_lin l ts Hs). apply union1_lin. Qed.
Lemma remove1_del l ts : ssorted l = true -> remove1 l ts = del ts l.
Proof. intros Hs. unfold remove1. rewrite (insert_index_lin l ts Hs). apply remove1_lin. Qed.
Lemma remove1_v0_del0 l ts : ssorted l = true -> remove1_v0 l ts = del0 ts l.
Proof. intros Hs. unfold remove1_v0. rewrite (insert_index_lin l ts Hs). apply remove1_v0_lin. Qed.

Lemma ins_In ts l x : In x (ins ts l) <-> x = ts \/ In x l.
Proof.
  induction l as [|a l IH]; cbn [ins]; [cbn; intuition|].
  destruct (sge a ts).
  - destruct (String.eqb_spec a ts) as [->|Hne]; cbn [In]; intuition.
  - cbn [In]. rewrite IH. intuition.
Qed.

Lemma ins_sorted ts l : ssorted l = true -> ssorted (ins ts l) = true.
Proof.
  induction l as [|a l IH]; intros Hs; [reflexivity|]. cbn [ins].
  destruct (sge a ts) eqn:E.
  - destruct (String.eqb_spec a ts) as [->|Hne]; [assumption|].
    change (slt ts a && ssorted (a :: l) = true). rewrite Hs, andb_true_r.
    unfold sge in E. rewrite negb_true_iff in E.
    destruct (slt ts a) eqn:F; [reflexivity|]. exfalso. apply Hne. now apply slt_total.
  - apply ssorted_cons in Hs as [Hall Hs]. apply ssorted_cons. split; [|now apply IH].
    intros x Hx. apply ins_In in Hx as [->|Hx]; [|now apply Hall].
    unfold sge in E. now rewrite negb_false_iff in E.
Qed.

Lemma del_In ts l x : ssorted l = true -> (In x (del ts l) <-> In x l /\ x <> ts).
Proof.
  induction l as [|a l IH]; intros Hs; cbn [del]; [cbn; intuition|].
  apply ssorted_cons in Hs as [Hall Hs]. destruct (sge a ts) eqn:E.
  - unfold sge in E. rewrite negb_true_iff in E.
    destruct (String.eqb_spec a ts) as [->|Hne]; cbn [In].
    + split; [intros Hx; split; [now right|]|intros [[<-|Hx] Hn]; [congruence|assumption]].
      intros ->. pose proof (Hall _ Hx) as K. now rewrite slt_irrefl in K.
    + split; [|tauto]. intros Hx. split; [assumption|]. intros Heq. subst x.
      destruct Hx as [Hx|Hx]; [now apply Hne|].
      pose proof (Hall _ Hx) as K. pose proof (slt_asym _ _ K). congruence.
  - cbn [In]. rewrite (IH Hs). unfold sge in E. rewrite negb_false_iff in E.
    pose proof (slt_neq _ _ E). intuition congruence.
Qed.

Lemma del_sorted ts l : ssorted l = true -> ssorted (del ts l) = true.
Proof.
  induction l as [|a l IH]; intros Hs; [reflexivity|]. cbn [del].
  pose proof Hs as Hs0. apply ssorted_cons in Hs as [Hall Hs]. destruct (sge a ts).
  - destruct (String.eqb a ts); assumption.
  - apply ssorted_cons. split; [|now apply IH].
    intros x Hx. apply (del_In ts l x Hs) in Hx as [Hx _]. now apply Hall.
Qed.

(* ---- traitUnion / traitRemove are set union / difference on sorted duplicate-free lists ---- *)
Lemma trait_union_spec more : forall has, ssorted has = true ->
  ssorted (trait_union has more) = true /\ forall x, In x (trait_union has more) <-> In x has \/ In x more.
Proof.
  unfold trait_union. induction more as [|t more IH]; intros has Hs; cbn [fold_left].
  - split; [assumption|]. cbn. intuition.
  - rewrite (union1_ins has t Hs). destruct (IH (ins t has) (ins_sorted t has Hs)) as [I1 I2].
    split; [assumption|]. intros x. rewrite I2, ins_In. cbn [In]. intuition.
Qed.

Lemma trait_remove_spec rm : forall has, ssorted has = true ->
  ssorted (trait_remove has rm) = true /\ forall x, In x (trait_remove has rm) <-> In x has /\ ~ In x rm.
Proof.
  unfold trait_remove. induction rm as [|t rm IH]; intros has Hs; cbn [fold_left].
  - split; [assumption|]. cbn. intuition.
  - rewrite (remove1_del has t Hs). destruct (IH (del t has) (del_sorted t has Hs)) as [I1 I2].
    split; [assumption|]. intros x. rewrite I2, (del_In t has x Hs). cbn [In]. intuition congruence.
Qed.

(* the executable set-algebra specification and uniqueness of the result *)
Lemma set_ok_union_iff has more out : ssorted has = true ->
  (set_ok_union has more out = true <-> out = trait_union has more).
Proof.
  intros Hs. destruct (trait_union_spec more has Hs) as [U1 U2]. unfold set_ok_union.
  rewrite !andb_true_iff, !forallb_forall. split.
  - intros [[S A] B]. apply ssorted_ext; try assumption. intros x. rewrite U2. split.
    + intros Hx. specialize (B x Hx). rewrite orb_true_iff, !smem_In in B. exact B.
    + intros Hx. rewrite <- smem_In. apply A. apply in_or_app. exact Hx.
  - intros ->. repeat split; try assumption.
    + intros x Hx. apply smem_In, U2. now apply in_app_or.
    + intros x Hx. rewrite orb_true_iff, !smem_In. now apply U2.
Qed.

Lemma set_ok_diff_iff has rm out : ssorted has = true ->
  (set_ok_diff has rm out = true <-> out = trait_remove has rm).
Proof.
  intros Hs. destruct (trait_remove_spec rm has Hs) as [U1 U2]. unfold set_ok_diff.
  rewrite !andb_true_iff, !forallb_forall. split.
  - intros [[S A] B]. apply ssorted_ext; try assumption. intros x. rewrite U2. split.
    + intros Hx. specialize (B x Hx). rewrite andb_true_iff, negb_true_iff, smem_In, smem_false in B. exact B.
    + intros [Hx Hn]. specialize (A x Hx). rewrite orb_true_iff, !smem_In in A. tauto.
  - intros ->. repeat split; try assumption.
    + intros x Hx. rewrite orb_true_iff, !smem_In, U2.
      destruct (smem x rm) eqn:E; [left; now apply smem_In|right; split; [assumption|now apply smem_false]].
    + intros x Hx. apply U2 in Hx as [Hx Hn]. rewrite andb_true_iff, negb_true_iff, smem_In, smem_false. tauto.
Qed.

(* the unfixed traitRemove deletes the wrong element *)
Lemma remove_v0_refuted :
  trait_remove_v0 ["b"; "d"]%string ["a"]%string = ["d"]%string.
Proof. vm_compute. reflexivity. Qed.

(* ---- the children collection ---- *)
Lemma find_put_same n ts cs : find_child n (put_child n ts cs) = Some ts.
Proof.
  induction cs as [|[m us] r IH]; cbn [put_child find_child].
  - now rewrite String.eqb_refl.
  - destruct (String.eqb_spec n m) as [->|Hne]; cbn [find_child].
    + now rewrite String.eqb_refl.
    + destruct (slt n m); cbn [find_child].
      * now rewrite String.eqb_refl.
      * destruct (String.eqb_spec n m); [congruence|assumption].
Qed.

Lemma find_put_other n k ts cs : k <> n -> find_child k (put_child n ts cs) = find_child k cs.
Proof.
  intros Hk. induction cs as [|[m us] r IH]; cbn [put_child find_child].
  - destruct (String.eqb_spec k n); [congruence|reflexivity].
  - destruct (String.eqb_spec n m) as [->|Hne]; cbn [find_child].
    + destruct (String.eqb_spec k m); [congruence|reflexivity].
    + destruct (slt n m); cbn [find_child].
      * destruct (String.eqb_spec k n); [congruence|reflexivity].
      * now rewrite IH.
Qed.

Lemma wf_put n ts cs : children_wf cs = true -> ssorted ts = true -> children_wf (put_child n ts cs) = true.
Proof.
  unfold children_wf. intros Hcs Hts. induction cs as [|[m us] r IH]; cbn [put_child forallb snd].
  - now rewrite Hts.
  - cbn [forallb snd] in Hcs. apply andb_true_iff in Hcs as [H1 H2].
    destruct (String.eqb n m); [|destruct (slt n m)]; cbn [forallb snd]; rewrite ?Hts, ?H1, ?H2, ?IH; auto.
Qed.

Lemma wf_find n ts cs : children_wf cs = true -> find_child n cs = Some ts -> ssorted ts = true.
Proof.
  unfold children_wf. induction cs as [|[m us] r IH]; cbn [find_child forallb snd]; [discriminate|].
  intros H. apply andb_true_iff in H as [H1 H2]. destruct (String.eqb n m); [intros [= <-]; assumption|now apply IH].
Qed.

Lemma pstep_wf cs o : children_wf cs = true -> children_wf (fst (pstep cs o)) = true.
Proof.
  intros Hwf. destruct o as [n names|n names]; cbn [pstep]; destruct (find_child n cs) eqn:F; cbn [fst]; try assumption.
  - apply wf_put; [assumption|]. apply trait_union_spec. eapply wf_find; eauto.
  - apply wf_put; [assumption|]. now apply trait_union_spec.
  - apply wf_put; [assumption|]. apply trait_remove_spec. eapply wf_find; eauto.
Qed.

Lemma child_traits_sorted n cs : children_wf cs = true -> ssorted (child_traits n cs) = true.
Proof. intros H. unfold child_traits. destruct (find_child n cs) eqn:F; [eapply wf_find; eauto|reflexivity]. Qed.

Lemma smem_iff_eq x l b : (In x l <-> b = true) -> smem x l = b.
Proof. intros H. destruct b; [apply smem_In, H; reflexivity|]. apply smem_false. intros K. apply H in K. discriminate. Qed.

Lemma pstep_mem cs o n x : children_wf cs = true ->
  smem x (child_traits n (fst (pstep cs o))) = mem_step n x (smem x (child_traits n cs)) o.
Proof.
  intros Hwf. destruct o as [m names|m names]; cbn [pstep mem_step].
  - destruct (String.eqb_spec n m) as [->|Hne].
    + unfold child_traits at 2. destruct (find_child m cs) as [ts|] eqn:F; cbn [fst]; unfold child_traits;
        rewrite find_put_same; apply smem_iff_eq.
      * destruct (trait_union_spec names ts (wf_find _ _ _ Hwf F)) as [_ U]. rewrite U, orb_true_iff, !smem_In. tauto.
      * destruct (trait_union_spec names [] eq_refl) as [_ U]. rewrite U, orb_true_iff, !smem_In. tauto.
    + destruct (find_child m cs); cbn [fst]; unfold child_traits; now rewrite find_put_other.
  - destruct (String.eqb_spec n m) as [->|Hne].
    + unfold child_traits at 2. destruct (find_child m cs) as [ts|] eqn:F; cbn [fst]; unfold child_traits.
      * rewrite find_put_same. apply smem_iff_eq.
        destruct (trait_remove_spec names ts (wf_find _ _ _ Hwf F)) as [_ U].
        rewrite U, andb_true_iff, negb_true_iff, smem_In, smem_false. tauto.
      * rewrite F. reflexivity.
    + destruct (find_child m cs); cbn [fst]; unfold child_traits; [now rewrite find_put_other|reflexivity].
Qed.

(* for every sequence of AddChildTrait / RemoveChildTrait calls every child's trait list stays sorted and
   duplicate free and its members are exactly those given by set union / difference *)
Theorem parent_sequences ops : forall cs, children_wf cs = true ->
  children_wf (prun cs ops) = true /\
  forall n x, smem x (child_traits n (prun cs ops)) = mem_after n x (smem x (child_traits n cs)) ops.
Proof.
  unfold prun, mem_after. induction ops as [|o ops IH]; intros cs Hwf; cbn [fold_left].
  - split; [assumption|reflexivity].
  - destruct (IH _ (pstep_wf cs o Hwf)) as [I1 I2]. split; [assumption|].
    intros n x. rewrite I2. now rewrite (pstep_mem cs o n x Hwf).
Qed.

Theorem parent_sequences_sorted ops cs n : children_wf cs = true -> ssorted (child_traits n (prun cs ops)) = true.
Proof. intros H. apply child_traits_sorted. now apply parent_sequences. Qed.
