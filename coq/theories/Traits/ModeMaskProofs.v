(* The update-mask behaviour of ModelServer.UpdateModeValues (Traits/ModeTrait.v mode_update) as theorems. *)
From SC Require Import Base.Prelude Traits.Str Traits.ModeTrait.

Lemma afind_aput {A} k k' (v : A) l : afind k (aput k' v l) = if String.eqb k k' then Some v else afind k l.
Proof.
  induction l as [|[m u] l IH]; cbn [aput afind].
  - reflexivity.
  - destruct (String.eqb_spec k' m) as [->|Hne].
    + cbn [afind]. destruct (String.eqb k m); reflexivity.
    + destruct (slt k' m); cbn [afind].
      * reflexivity.
      * rewrite IH. destruct (String.eqb_spec k m) as [->|]; [|reflexivity].
        destruct (String.eqb_spec m k'); [congruence|reflexivity].
Qed.

Lemma afind_amerge_other {A} k (src : list (string * A)) : forall dst, afind k src = None -> afind k (amerge dst src) = afind k dst.
Proof.
  unfold amerge. induction src as [|[m v] src IH]; intros dst H; cbn [fold_left fst snd]; [reflexivity|].
  cbn [afind] in H. destruct (String.eqb k m) eqn:E; [discriminate|]. rewrite (IH _ H), afind_aput, E. reflexivity.
Qed.

Lemma afind_amerge_last {A} k (v : A) (src : list (string * A)) dst :
  afind k (amerge dst (src ++ [(k, v)])) = Some v.
Proof. unfold amerge. rewrite fold_left_app. cbn [fold_left fst snd]. rewrite afind_aput, String.eqb_refl. reflexivity. Qed.

(* mask ["values"]: a mode the (adjusted) request does not mention keeps its stored value; a mask without paths
   changes nothing; no mask replaces the whole map (modes not mentioned are dropped) *)
Theorem mode_update_masks ms pre abs rel :
  let value := fold_left (rel_adjust ms pre) rel abs in
  (forall m, value <> [] -> afind m value = None -> afind m (mode_update ms pre abs rel 1) = afind m pre) /\
  (value = [] -> mode_update ms pre abs rel 1 = []) /\
  mode_update ms pre abs rel 2 = pre /\
  mode_update ms pre abs rel 0 = value.
Proof.
  cbv zeta. unfold mode_update. cbn [Z.eqb]. repeat split.
  - intros m Hne Hm. destruct (fold_left (rel_adjust ms pre) rel abs) as [|e l] eqn:E; [congruence|].
    now apply afind_amerge_other.
  - intros ->. reflexivity.
Qed.
