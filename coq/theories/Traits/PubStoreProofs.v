From SC Require Import Base.Prelude Traits.Str Traits.StrProofs Traits.Store Traits.StoreProofs
  Traits.Publication Traits.PublicationProofs Traits.PubStore.
Local Open Scope string_scope.

Section P.
  Variable hash : content -> string.
  Notation step := (pubs_step hash).
  Notation run := (pubs_run hash).

  Definition addressed (o : pubsop) : string := pub_op_id (pub_norm_op (po_op o) (po_gen o)).

  Lemma pubs_step_wf s o : store_wf s = true -> store_wf (snd (step s o)) = true.
  Proof.
    intros H. unfold pubs_step.
    destruct (pub_step hash (po_now o) (sfind (pub_op_id (pub_norm_op (po_op o) (po_gen o))) s) (pub_norm_op (po_op o) (po_gen o))) as [out [p|]];
      cbn [snd]; [now apply sput_wf|now apply sdel_wf].
  Qed.

  (* LOCAL + FRAME: the addressed slot moves by the one-id step of Traits/Publication.v, every other id is untouched *)
  Theorem pubs_step_slots s o : store_wf s = true ->
    fst (step s o) = fst (pub_step hash (po_now o) (sfind (addressed o) s) (pub_norm_op (po_op o) (po_gen o))) /\
    forall k, sfind k (snd (step s o)) =
              if String.eqb (addressed o) k
              then snd (pub_step hash (po_now o) (sfind (addressed o) s) (pub_norm_op (po_op o) (po_gen o)))
              else sfind k s.
  Proof.
    intros H. unfold pubs_step, addressed.
    destruct (pub_step hash (po_now o) (sfind (pub_op_id (pub_norm_op (po_op o) (po_gen o))) s) (pub_norm_op (po_op o) (po_gen o))) as [out [p|]];
      cbn [fst snd]; (split; [reflexivity|]); intros k.
    - now apply sfind_sput.
    - now apply sfind_sdel.
  Qed.

  Lemma pubs_step_versions s o : store_wf s = true -> pubs_versions_ok hash s -> pubs_versions_ok hash (snd (step s o)).
  Proof.
    intros Hwf Hv k p. destruct (pubs_step_slots s o Hwf) as [_ Hs]. rewrite Hs.
    destruct (String.eqb (addressed o) k).
    - intros E. pose proof (pub_step_version hash (po_now o) (sfind (addressed o) s) (pub_norm_op (po_op o) (po_gen o))) as P.
      rewrite E in P. apply P. unfold version_ok. destruct (sfind (addressed o) s) as [q|] eqn:F; [|exact I]. now apply (Hv (addressed o)).
    - apply Hv.
  Qed.

  (* ALL SEQUENCES over all ids (every update mask, deletes, acknowledgements, creates with generated ids): the
     listing stays key-sorted and duplicate free and every listed publication carries the hash of its content *)
  Theorem pubs_sequences ops : forall s, store_wf s = true -> pubs_versions_ok hash s ->
    store_wf (run s ops) = true /\ pubs_versions_ok hash (run s ops).
  Proof.
    unfold pubs_run. induction ops as [|o ops IH]; intros s Hwf Hv; cbn [fold_left]; [split; assumption|].
    apply IH; [now apply pubs_step_wf|now apply pubs_step_versions].
  Qed.

  (* the slot of id k after a multi-id history is the one-id history of the operations addressed to k *)
  Definition ops_of (k : string) (ops : list pubsop) : list (pubop * Z) :=
    map (fun o => (pub_norm_op (po_op o) (po_gen o), po_now o)) (filter (fun o => String.eqb (addressed o) k) ops).
  Theorem pubs_per_id ops : forall s k, store_wf s = true ->
    sfind k (run s ops) = pub_run hash (sfind k s) (ops_of k ops).
  Proof.
    unfold pubs_run, pub_run, ops_of. induction ops as [|o ops IH]; intros s k Hwf; cbn [fold_left filter map]; [reflexivity|].
    rewrite (IH _ k (pubs_step_wf s o Hwf)). destruct (pubs_step_slots s o Hwf) as [_ Hs]. rewrite Hs.
    destruct (String.eqb (addressed o) k) eqn:E; [|reflexivity].
    apply String.eqb_eq in E. subst k. cbn [map fold_left fst snd]. reflexivity.
  Qed.

  (* a stale acknowledgement is refused whatever else is in the collection *)
  Theorem pubs_stale_ack s id version receipt reason allow gen now old : store_wf s = true -> pubs_versions_ok hash s ->
    sfind id s = Some old -> id <> "" -> version <> "" -> version <> hash (content_of old) ->
    fst (step s (mkPO (PAck id version receipt reason allow) gen now)) = PErr 10 /\
    forall k, sfind k (snd (step s (mkPO (PAck id version receipt reason allow) gen now))) = sfind k s.
  Proof.
    intros Hwf Hv F Hid Hver Hne. set (o := mkPO (PAck id version receipt reason allow) gen now).
    destruct (pubs_step_slots s o Hwf) as [H1 H2]. unfold addressed in *. cbn [po_op po_gen po_now pub_norm_op pub_op_id o] in *.
    assert (version <> p_version old) as Hv' by (rewrite (Hv id old F); exact Hne).
    pose proof (ack_stale hash now old id version receipt reason allow Hid Hver Hv') as A.
    rewrite F in H1, H2. rewrite A in H1, H2. cbn [fst snd] in *. split; [exact H1|].
    intros k. rewrite H2. destruct (String.eqb id k) eqn:E; [|reflexivity]. apply String.eqb_eq in E. now subst k.
  Qed.

  (* ---- generated ids ---- *)
  Theorem first_fresh_spec cands : forall n (s : pubs) g, first_fresh cands n s = Some g ->
    g <> "" /\ sfind g s = None /\
    exists i, (i < n)%nat /\ nth_error cands i = Some g /\
              forall j c, (j < i)%nat -> nth_error cands j = Some c -> c = "" \/ sfind c s <> None.
  Proof.
    induction cands as [|c cands IH]; intros n s g H; destruct n as [|n]; cbn [first_fresh] in H; try discriminate.
    destruct (String.eqb_spec c "") as [E|E]; cbn [negb andb] in H.
    - destruct (IH n s g H) as (A & B & i & Hi & Hn & Hj). split; [exact A|]. split; [exact B|].
      exists (S i). split; [lia|]. split; [exact Hn|]. intros j c' Hlt Hc. destruct j as [|j]; cbn in Hc.
      + inversion Hc. subst. now left.
      + apply (Hj j); [lia|exact Hc].
    - destruct (sfind c s) eqn:F.
      + destruct (IH n s g H) as (A & B & i & Hi & Hn & Hj). split; [exact A|]. split; [exact B|].
        exists (S i). split; [lia|]. split; [exact Hn|]. intros j c' Hlt Hc. destruct j as [|j]; cbn in Hc.
        * inversion Hc. subst. right. rewrite F. discriminate.
        * apply (Hj j); [lia|exact Hc].
      + inversion H. subst g. split; [exact E|]. split; [exact F|]. exists 0%nat. split; [lia|]. split; [reflexivity|].
        intros j c' Hlt. lia.
  Qed.

  Lemma pubs_step_c_wf s o cands now : store_wf s = true -> store_wf (snd (pubs_step_c hash s o cands now)) = true.
  Proof.
    intros H. unfold pubs_step_c. destruct (needs_gen o); [|now apply pubs_step_wf].
    destruct (first_fresh cands 10 s); [now apply pubs_step_wf|exact H].
  Qed.
  Lemma pubs_step_c_versions s o cands now : store_wf s = true -> pubs_versions_ok hash s ->
    pubs_versions_ok hash (snd (pubs_step_c hash s o cands now)).
  Proof.
    intros H Hv. unfold pubs_step_c. destruct (needs_gen o); [|now apply pubs_step_versions].
    destruct (first_fresh cands 10 s); [now apply pubs_step_versions|exact Hv].
  Qed.
  Theorem pubs_c_sequences ops : forall s, store_wf s = true -> pubs_versions_ok hash s ->
    store_wf (pubs_run_c hash s ops) = true /\ pubs_versions_ok hash (pubs_run_c hash s ops).
  Proof.
    unfold pubs_run_c. induction ops as [|o ops IH]; intros s Hwf Hv; cbn [fold_left]; [split; assumption|].
    apply IH; [now apply pubs_step_c_wf|now apply pubs_step_c_versions].
  Qed.

  (* a create without id: the publication is stored under a fresh non-empty id taken from the candidates, carries
     that id and the hash of its content, and no existing publication is touched; exhausted candidates: Aborted *)
  Theorem pubs_create_generated s p cands now : store_wf s = true -> p_id p = "" ->
    match first_fresh cands 10 s with
    | None => pubs_step_c hash s (PCreate p) cands now = (PErr 10, s)
    | Some g =>
        let n := computed hash now (pub_with_id p g) in
        g <> "" /\ sfind g s = None /\ In g cands /\
        fst (pubs_step_c hash s (PCreate p) cands now) = POk n /\ p_id n = g /\ p_version n = hash (content_of n) /\
        forall k, sfind k (snd (pubs_step_c hash s (PCreate p) cands now)) = if String.eqb g k then Some n else sfind k s
    end.
  Proof.
    intros Hwf Hid. unfold pubs_step_c. cbn [needs_gen]. rewrite Hid. cbn [String.eqb].
    destruct (first_fresh cands 10 s) as [g|] eqn:F; [|reflexivity].
    destruct (first_fresh_spec cands 10 s g F) as (A & B & i & _ & Hn & _). cbv zeta.
    split; [exact A|]. split; [exact B|]. split; [eapply nth_error_In; eauto|].
    destruct (pubs_step_slots s (mkPO (PCreate p) g now) Hwf) as [H1 H2].
    unfold addressed in *. cbn [po_op po_gen po_now pub_norm_op] in *. rewrite Hid in *. cbn [String.eqb pub_op_id pub_with_id p_id] in *.
    rewrite B in *. cbn [pub_step pub_step_gen fst snd] in *. split; [exact H1|]. split; [reflexivity|]. split; [reflexivity|]. exact H2.
  Qed.

  (* configured publications are exactly the initial collection *)
  Lemma pubs_new_fold cfg : forall s : pubs, store_wf s = true ->
    store_wf (fold_left (fun s e => sput (fst e) (snd e) s) cfg s) = true.
  Proof. induction cfg as [|e cfg IH]; intros s H; cbn [fold_left]; [assumption|]. apply IH. now apply sput_wf. Qed.
  Theorem pubs_new_wf cfg : store_wf (pubs_new cfg) = true.
  Proof. unfold pubs_new. now apply pubs_new_fold. Qed.
End P.

Lemma pubs_sample :
  let h := fun c : content => let '(a, b, c0, d) := c in "h" ++ a ++ b ++ c0 ++ d in
  map fst (pubs_run h [] [mkPO (PCreate (mkPub "b" "" "x" "" None None)) "" 1; mkPO (PCreate (mkPub "" "" "y" "" None None)) "a-gen" 2;
                          mkPO (PUpdate (mkPub "b" "" "z" "" None None) (Some pm_only_body) "") "" 3;
                          mkPO (PDelete "a-gen" "" false) "" 4; mkPO (PCreate (mkPub "0" "" "" "" None None)) "" 5]) = ["0"; "b"].
Proof. vm_compute. reflexivity. Qed.
