(* Model of pkg/trait/modepb (the Mode trait): NewModelModes, ModelServer.UpdateModeValues with
   relativeAdjustment (wrapping relative steps) and the update-mask behaviour of Value.Set for the
   masks nil, ["values"] and the empty mask.  Maps are association lists kept in ascending key order. *)
From SC Require Import Base.Prelude Traits.Str.

Definition modes := list (string * list string).     (* mode name |-> available value names, in order *)
Definition mvalues := list (string * string).        (* mode name |-> selected value *)

Fixpoint afind {A} (k : string) (l : list (string * A)) : option A :=
  match l with [] => None | (m, v) :: r => if String.eqb k m then Some v else afind k r end.
Fixpoint aput {A} (k : string) (v : A) (l : list (string * A)) : list (string * A) :=
  match l with
  | [] => [(k, v)]
  | (m, u) :: r => if String.eqb k m then (k, v) :: r else if slt k m then (k, v) :: (m, u) :: r else (m, u) :: aput k v r
  end.
Definition amerge {A} (dst src : list (string * A)) : list (string * A) :=
  fold_left (fun acc e => aput (fst e) (snd e) acc) src dst.

Fixpoint index_of (x : string) (i : Z) (l : list string) : option Z :=
  match l with [] => None | y :: r => if String.eqb y x then Some i else index_of x (i + 1) r end.

Definition default_modes : modes :=
  [("temperature", ["delicates"; "medium"; "whites"]); ("spin", ["auto"; "slow"; "fast"])]%string.

(* NewModelModes: the first value of each mode is selected; None = panic (a mode without values).
   As first written the model kept DefaultModes whatever it was given. *)
Definition initial_values (ms : modes) : option mvalues :=
  fold_left (fun acc m => match acc, snd m with
                          | Some a, v0 :: _ => Some (aput (fst m) v0 a)
                          | _, _ => None end) ms (Some []).
Definition new_model_v0 (ms : modes) : option (modes * mvalues) :=
  match initial_values ms with Some v => Some (default_modes, v) | None => None end.
Definition new_model (ms : modes) : option (modes * mvalues) :=
  match initial_values ms with Some v => Some (ms, v) | None => None end.

(* the Go expression: newI := (int32(i) + adjustment) % int32(len(values)); if newI < 0 { newI = len + newI } *)
Definition wrap_index (n i adj : Z) : Z :=
  let r := Z.rem (wrap32 (i + adj)) n in if r <? 0 then n + r else r.

(* the new value of one mode under a relative adjustment, given the stored value *)
Definition rel_value (vs : list string) (cur : option string) (adj : Z) : option string :=
  match vs with
  | [] => None                      (* unknown mode or no values: skipped *)
  | v0 :: _ =>
      match cur with
      | None => Some v0
      | Some c => match index_of c 0 vs with
                  | Some i => Some (nth (Z.to_nat (wrap_index (zlen vs) i adj)) vs v0)
                  | None => Some v0
                  end
      end
  end.

Definition available (ms : modes) (m : string) : list string :=
  match afind m ms with Some vs => vs | None => [] end.

Definition rel_adjust (ms : modes) (old : mvalues) (acc : mvalues) (e : string * Z) : mvalues :=
  match rel_value (available ms (fst e)) (afind (fst e) old) (snd e) with
  | Some v => aput (fst e) v acc
  | None => acc
  end.

(* mask: 0 = absent, 1 = paths ["values"], 2 = present without paths *)
Definition mode_update (ms : modes) (pre abs : mvalues) (rel : list (string * Z)) (mask : Z) : mvalues :=
  let value := fold_left (rel_adjust ms pre) rel abs in
  if mask =? 0 then value
  else if mask =? 1 then (match value with [] => [] | _ => amerge pre value end)
  else pre.

(* ---- specification of a relative step: wrap around in both directions ---- *)
Definition rel_value_spec (vs : list string) (cur : option string) (adj : Z) : option string :=
  match vs with
  | [] => None
  | v0 :: _ =>
      match cur with
      | None => Some v0
      | Some c => match index_of c 0 vs with
                  | Some i => Some (nth (Z.to_nat ((i + adj) mod zlen vs)) vs v0)
                  | None => Some v0
                  end
      end
  end.

Fixpoint nodup_strs (l : list string) : bool :=
  match l with [] => true | x :: r => negb (smem x r) && nodup_strs r end.
