From SC Require Import Base.Prelude Traits.Str.
From Coq Require Import Ascii.

Lemma ascii_compare_refl a : Ascii.compare a a = Eq.
Proof. unfold Ascii.compare. apply N.compare_refl. Qed.

Lemma ascii_lt_trans a b c : Ascii.compare a b = Lt -> Ascii.compare b c = Lt -> Ascii.compare a c = Lt.
Proof. unfold Ascii.compare. rewrite !N.compare_lt_iff. lia. Qed.

Lemma scompare_refl s : String.compare s s = Eq.
Proof. induction s as [|a s IH]; cbn; [reflexivity|]. now rewrite ascii_compare_refl. Qed.

Lemma scompare_eq s t : String.compare s t = Eq <-> s = t.
Proof. split; [apply String.compare_eq_iff|intros ->; apply scompare_refl]. Qed.

Lemma scompare_lt_trans : forall s t u, String.compare s t = Lt -> String.compare t u = Lt -> String.compare s u = Lt.
Proof.
  induction s as [|a s IH]; intros [|b t] [|c u]; cbn; try congruence.
  destruct (Ascii.compare a b) eqn:Eab; try discriminate.
  - apply Ascii.compare_eq_iff in Eab; subst b.
    destruct (Ascii.compare a c) eqn:Eac; try congruence.
    intros H1 H2. eapply IH; eauto.
  - intros _. destruct (Ascii.compare b c) eqn:Ebc; try discriminate.
    + apply Ascii.compare_eq_iff in Ebc; subst c. now rewrite Eab.
    + intros _. now rewrite (ascii_lt_trans _ _ _ Eab Ebc).
Qed.

Lemma slt_irrefl s : slt s s = false.
Proof. unfold slt, String.ltb. now rewrite scompare_refl. Qed.

Lemma slt_trans s t u : slt s t = true -> slt t u = true -> slt s u = true.
Proof.
  unfold slt, String.ltb. intros H1 H2.
  destruct (String.compare s t) eqn:E1; try discriminate.
  destruct (String.compare t u) eqn:E2; try discriminate.
  now rewrite (scompare_lt_trans _ _ _ E1 E2).
Qed.

Lemma slt_asym s t : slt s t = true -> slt t s = false.
Proof.
  intros H. destruct (slt t s) eqn:E; [|reflexivity].
  pose proof (slt_trans _ _ _ H E) as K. now rewrite slt_irrefl in K.
Qed.

Lemma slt_total s t : slt s t = false -> slt t s = false -> s = t.
Proof.
  unfold slt, String.ltb. rewrite (String.compare_antisym t s).
  destruct (String.compare s t) eqn:E; cbn; try discriminate.
  intros _ _. now apply String.compare_eq_iff.
Qed.

Lemma slt_neq s t : slt s t = true -> s <> t.
Proof. intros H ->. now rewrite slt_irrefl in H. Qed.

(* a <= b < c -> a < c ;  a < b <= c -> a < c, with <= written as "not >" *)
Lemma sle_lt_trans a b c : slt b a = false -> slt b c = true -> slt a c = true.
Proof.
  intros H1 H2. destruct (slt a b) eqn:E.
  - eapply slt_trans; eauto.
  - now rewrite (slt_total _ _ E H1).
Qed.

Lemma slt_le_trans a b c : slt a b = true -> slt c b = false -> slt a c = true.
Proof.
  intros H1 H2. destruct (slt b c) eqn:E.
  - eapply slt_trans; eauto.
  - now rewrite <- (slt_total _ _ E H2).
Qed.

Lemma sle_trans a b c : slt b a = false -> slt c b = false -> slt c a = false.
Proof.
  intros H1 H2. destruct (slt c a) eqn:E; [|reflexivity].
  pose proof (slt_le_trans _ _ _ E H1) as K. congruence.
Qed.

Lemma smem_In x l : smem x l = true <-> In x l.
Proof.
  induction l as [|y r IH]; cbn; [intuition discriminate|].
  rewrite orb_true_iff, IH, String.eqb_eq. intuition.
Qed.

Lemma smem_false x l : smem x l = false <-> ~ In x l.
Proof. rewrite <- smem_In. destruct (smem x l); intuition congruence. Qed.

Lemma strs_eqb_eq a b : strs_eqb a b = true <-> a = b.
Proof.
  unfold strs_eqb. revert b. induction a as [|x a IH]; intros [|y b]; cbn; try (intuition congruence).
  rewrite andb_true_iff, IH, String.eqb_eq. intuition congruence.
Qed.

(* strictly sorted lists are determined by their members *)
Lemma ssorted_cons a l : ssorted (a :: l) = true <-> (forall x, In x l -> slt a x = true) /\ ssorted l = true.
Proof.
  revert a. induction l as [|b r IH]; intros a.
  - cbn. intuition.
  - change (ssorted (a :: b :: r)) with (slt a b && ssorted (b :: r)).
    rewrite andb_true_iff. split.
    + intros [Hab Hs]. split; [|assumption].
      intros x [<-|Hx]; [assumption|]. apply IH in Hs. eapply slt_trans; [exact Hab|]. now apply Hs.
    + intros [Hall Hs]. split; [apply Hall; now left|assumption].
Qed.

Lemma ssorted_ext l1 l2 :
  ssorted l1 = true -> ssorted l2 = true -> (forall x, In x l1 <-> In x l2) -> l1 = l2.
Proof.
  revert l2. induction l1 as [|a l1 IH]; intros [|b l2] S1 S2 Hm.
  - reflexivity.
  - exfalso. apply (Hm b). now left.
  - exfalso. apply (Hm a). now left.
  - apply ssorted_cons in S1 as [A1 S1]. apply ssorted_cons in S2 as [A2 S2].
    assert (a = b) as ->.
    { destruct (proj1 (Hm a) (or_introl eq_refl)) as [->|Ha]; [reflexivity|].
      destruct (proj2 (Hm b) (or_introl eq_refl)) as [->|Hb]; [reflexivity|].
      pose proof (A2 _ Ha) as K1. pose proof (A1 _ Hb) as K2.
      rewrite (slt_asym _ _ K1) in K2. discriminate. }
    f_equal. apply IH; try assumption.
    intros x. split; intros Hx.
    + destruct (proj1 (Hm x) (or_intror Hx)) as [<-|]; [|assumption].
      pose proof (A1 _ Hx) as K. now rewrite slt_irrefl in K.
    + destruct (proj2 (Hm x) (or_intror Hx)) as [<-|]; [|assumption].
      pose proof (A2 _ Hx) as K. now rewrite slt_irrefl in K.
Qed.
