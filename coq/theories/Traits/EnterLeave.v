(* Model of pkg/trait/enterleavesensorpb/model.go: CreateEnterLeaveEvent (totals adjusted by an
   InterceptBefore, no update mask: the stored event becomes the given one) and ResetTotals. *)
From SC Require Import Base.Prelude.

Record elev := mkEl { el_dir : Z; el_occ : option string; el_enter : option Z; el_leave : option Z }.
Definition ENTER := 1. Definition LEAVE := 2.

(* adjustTotal(val, cur, inc) *)
Definition adjust_total (val cur : option Z) (inc : bool) : option Z :=
  let cv := match cur with Some c => c | None => 0 end in
  match val with
  | Some v => if negb (v =? cv) then Some v else Some (if inc then wrap32 (cv + 1) else cv)
  | None => Some (if inc then wrap32 (cv + 1) else cv)
  end.

Inductive elop := ElEvent (e : elev) | ElReset.

Definition el_step (cur : elev) (o : elop) : elev :=
  match o with
  | ElEvent e => mkEl (el_dir e) (el_occ e)
                      (adjust_total (el_enter e) (el_enter cur) (el_dir e =? ENTER))
                      (adjust_total (el_leave e) (el_leave cur) (el_dir e =? LEAVE))
  | ElReset => mkEl (el_dir cur) (el_occ cur) (Some 0) (Some 0)
  end.
Definition el_run (init : elev) (ops : list elop) : elev := fold_left el_step ops init.

(* ---- specification: two counters ---- *)
Definition tot (o : option Z) : Z := match o with Some v => v | None => 0 end.
Definition count_step (c : Z * Z) (o : elop) : Z * Z :=
  match o with
  | ElReset => (0, 0)
  | ElEvent e =>
      ((match el_enter e with Some v => if v =? fst c then (if el_dir e =? ENTER then fst c + 1 else fst c) else v
                            | None => if el_dir e =? ENTER then fst c + 1 else fst c end),
       (match el_leave e with Some v => if v =? snd c then (if el_dir e =? LEAVE then snd c + 1 else snd c) else v
                            | None => if el_dir e =? LEAVE then snd c + 1 else snd c end))
  end.
Definition counts (init : Z * Z) (ops : list elop) : Z * Z := fold_left count_step ops init.
(* events that carry no totals of their own *)
Definition plain (o : elop) : bool :=
  match o with ElEvent e => match el_enter e, el_leave e with None, None => true | _, _ => false end | ElReset => true end.
Definition enters_since_reset (ops : list elop) : Z * Z * bool :=
  fold_left (fun acc o => match o with
                          | ElReset => (0, 0, true)
                          | ElEvent e => let '(a, b, r) := acc in
                                         (if el_dir e =? ENTER then a + 1 else a, if el_dir e =? LEAVE then b + 1 else b, r)
                          end) ops (0, 0, false).
