From SC Require Import Base.Prelude Msg.Msg Msg.Schema Msg.Path Masks.Get Masks.Update
  Traits.Str Traits.Store Traits.StoreProofs Traits.MeterMask Traits.MeterMaskProofs Traits.StockMask.
Local Open Scope string_scope.
Local Open Scope Z_scope.

Section P.
  Variable A : Type.
  Variable azero : A.
  Variable aisz : A -> bool.
  Notation upd := (upd_pq azero aisz).
  Notation update := (stock_update azero aisz).

  Lemma upd_pq_frame ups f old req : touches ups f = false -> upd ups f old req = old.
  Proof.
    intros H. destruct (untouched_not_covered ups f H) as [H1 H2]. unfold upd_pq. rewrite H1, !H2. reflexivity.
  Qed.

  (* FRAME: a field no mask path is related to keeps its value — every mask, every request *)
  Theorem stock_update_frame ups old req :
    (touches ups "used" = false -> ps_used (update (Some ups) old req) = ps_used old) /\
    (touches ups "remaining" = false -> ps_rem (update (Some ups) old req) = ps_rem old) /\
    (touches ups "last_dispensed" = false -> ps_last (update (Some ups) old req) = ps_last old) /\
    (touches ups "dispensing" = false -> ps_disp (update (Some ups) old req) = ps_disp old).
  Proof.
    unfold stock_update. destruct ups as [|u ups]; [repeat split; reflexivity|]. set (l := u :: ups).
    cbn [ps_used ps_rem ps_last ps_disp]. repeat split; intros H; try now apply upd_pq_frame.
    destruct (untouched_not_covered l "dispensing" H) as [H1 _]. rewrite H1. reflexivity.
  Qed.

  (* NESTED FRAME: naming only f.amount leaves f.unit alone and writes the request's amount (and vice versa);
     when the request has no f the named scalar is cleared, the other kept *)
  Theorem stock_update_nested ups f old req u a :
    covers ups [f] = false -> old = Some (u, a) ->
    (covers ups [f; "unit"] = false -> option_map fst (upd ups f old req) = Some u) /\
    (covers ups [f; "amount"] = false -> option_map snd (upd ups f old req) = Some a) /\
    (covers ups [f; "amount"] = true -> forall u' a', req = Some (u', a') -> option_map snd (upd ups f old req) = Some a') /\
    (covers ups [f; "unit"] = true -> forall u' a', req = Some (u', a') -> option_map fst (upd ups f old req) = Some u').
  Proof.
    intros Hc ->. unfold upd_pq. rewrite Hc.
    destruct (covers ups [f; "unit"]) eqn:Cu; destruct (covers ups [f; "amount"]) eqn:Ca; cbn [orb negb];
      repeat split; try discriminate; intros; subst; try reflexivity; destruct req as [[u' a']|]; try reflexivity; discriminate.
  Qed.

  (* INSIDE: the whole quantity named: merged into the stored one, cleared when the request has none *)
  Theorem stock_update_inside ups f old req : covers ups [f] = true ->
    upd ups f old req = match req with Some r => Some (merge_pq azero aisz old r) | None => None end.
  Proof. intros H. unfold upd_pq. rewrite H. reflexivity. Qed.

  (* the inventory as a record store whose masks are arbitrary path lists: every sequence of Create /
     Update(arbitrary mask, arbitrary request) / Delete keeps the listing key-sorted and duplicate free and
     equal to the finite-map specification *)
  Theorem stock_path_store_sequences ops (s : store (pstock A)) : store_wf s = true ->
    store_wf (srun update stock_mask_bad s ops) = true /\
    forall k, sfind k (srun update stock_mask_bad s ops) = frun update stock_mask_bad (fun k => sfind k s) ops k.
  Proof. exact (store_sequences _ _ update stock_mask_bad ops s). Qed.

  (* an update with an arbitrary mask touches one record only, and inside it only what the mask is related to *)
  Theorem stock_path_update_frame (s : store (pstock A)) name req um : store_wf s = true ->
    let s' := snd (sstep update stock_mask_bad s (SUpdate name req um)) in
    (forall k, k <> name -> sfind k s' = sfind k s) /\
    (forall k, sfind k s' = None <-> sfind k s = None).
  Proof.
    intros Hwf s'. pose proof (store_sequences _ _ update stock_mask_bad [SUpdate name req um] s Hwf) as [_ H].
    unfold srun in H. cbn [fold_left] in H. fold s' in H. split.
    - intros k Hk. rewrite H. unfold frun. cbn [fold_left fstep].
      destruct (String.eqb name "" || stock_mask_bad um); [reflexivity|].
      destruct (sfind name s); [|reflexivity]. unfold fupd.
      destruct (String.eqb name k) eqn:E; [apply String.eqb_eq in E; congruence|reflexivity].
    - intros k. rewrite H. unfold frun. cbn [fold_left fstep].
      destruct (String.eqb name "" || stock_mask_bad um); [tauto|].
      destruct (sfind name s) eqn:F; [|tauto]. unfold fupd.
      destruct (String.eqb name k) eqn:E; [|tauto]. apply String.eqb_eq in E. subst k. rewrite F. split; discriminate.
  Qed.
End P.

Lemma stock_nested_sample :
  zupdate (Some [["used"; "amount"]; ["remaining"; "unit"]]) (mkPS (Some (3, 20)) (Some (3, 100)) None false)
          (mkPS (Some (9, 25)) (Some (4, 1)) (Some (1, 1)) true)
  = mkPS (Some (3, 25)) (Some (4, 100)) None false
  /\ zupdate_tree "water" (Some [["used"; "amount"]; ["remaining"; "unit"]]) (mkPS (Some (3, 20)) (Some (3, 100)) None false)
          (mkPS (Some (9, 25)) (Some (4, 1)) (Some (1, 1)) true)
  = Some (0, mkPS (Some (3, 25)) (Some (4, 100)) None false).
Proof. vm_compute. split; reflexivity. Qed.
