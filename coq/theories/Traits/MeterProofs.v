From SC Require Import Base.Prelude Traits.Meter.

Theorem new_meter_wf init now :
  (match init with Some m => match m_start m, m_end m with
                             | Some s, Some e => s <= e | Some s, None => s <= now | None, Some e => now <= e | None, None => True end
                 | None => True end) ->
  meter_wf (new_meter init now) = true.
Proof.
  unfold new_meter, meter_wf. destruct init as [[u [s|] [e|]]|]; cbn; intros H; apply Z.leb_le; lia.
Qed.

(* a model constructed with an explicit, complete initial reading uses it *)
Theorem new_meter_uses_initial u s e now : new_meter (Some (mkMeter u (Some s) (Some e))) now = mkMeter u (Some s) (Some e).
Proof. reflexivity. Qed.

Lemma new_meter_v0_drops_initial :
  new_meter_v0 (Some (mkMeter 5 (Some 10) (Some 20))) 30 = mkMeter 0 None (Some 30).
Proof. reflexivity. Qed.

Lemma record_v0_drops_start : m_start (meter_step_v0 (mkMeter 0 (Some 10) (Some 10)) (MRecord 3 20)) = None.
Proof. reflexivity. Qed.

(* for every sequence of readings and resets under a clock that does not run backwards: start and end stay
   recorded with start <= end, start is the time of the last reset, end the time of the last operation *)
Theorem meter_sequences ops : forall m e0, meter_wf m = true -> m_end m = Some e0 -> times_from e0 ops = true ->
  meter_wf (meter_run m ops) = true /\
  m_start (meter_run m ops) = last_reset (m_start m) ops /\
  m_end (meter_run m ops) = last_time (m_end m) ops.
Proof.
  unfold meter_run, last_reset, last_time. induction ops as [|o ops IH]; intros m e0 Hwf He Ht; cbn [fold_left].
  - auto.
  - cbn [times_from] in Ht. apply andb_true_iff in Ht as [Ht1 Ht2]. apply Z.leb_le in Ht1.
    assert (meter_wf (meter_step m o) = true /\ m_end (meter_step m o) = Some (op_time o)) as [W E].
    { unfold meter_wf in *. destruct o as [v t|t]; cbn [meter_step m_start m_end op_time] in *.
      - destruct (m_start m) as [s|]; [|discriminate]. rewrite He in Hwf. split; [apply Z.leb_le; apply Z.leb_le in Hwf; lia|reflexivity].
      - split; [apply Z.leb_refl|reflexivity]. }
    destruct (IH (meter_step m o) (op_time o) W E Ht2) as (I1 & I2 & I3).
    split; [assumption|]. split.
    + rewrite I2. destruct o; reflexivity.
    + rewrite I3, E. reflexivity.
Qed.

Theorem record_keeps_start m v t : m_start (meter_step m (MRecord v t)) = m_start m /\ m_end (meter_step m (MRecord v t)) = Some t
  /\ m_usage (meter_step m (MRecord v t)) = v.
Proof. repeat split. Qed.
