(* vendingpb.Model.UpdateStock with an arbitrary update mask given as field-mask PATHS (Msg/Path.v), nested
   quantity paths included (used.amount, remaining.unit, ...): validated against the Consumable.Stock schema
   (fm_valid), interpreted by prefix tests.  The amount type is a parameter (the mask semantics only tests an
   amount for zero = "not populated"); the judge uses integral amounts and cross-checks every observed update
   with the generic FieldUpdater model (Masks.Update.write) run on the encoded trees.
   [stock_update] / [stock_mask_bad] have the shape the generic record store (Traits/Store.v) takes as merge
   function / mask test.  No proofs here. *)
From SC Require Import Base.Prelude Msg.Msg Msg.Schema Msg.Path Masks.Get Masks.Update Traits.MeterMask.
Local Open Scope string_scope.
Local Open Scope Z_scope.

Definition ST := "smartcore.traits.Consumable.Stock".
Definition QT := "smartcore.traits.Consumable.Quantity".
(* hand-written; compared with the dumped Go descriptors by the judge (KSchema) *)
Definition stock_schema : schema := [
  (QT, [ mkF "amount" 2 CSingular (FScalar KF32) None false None;
         mkF "unit" 3 CSingular (FScalar KEnum) None false None ]);
  (ST, [ mkF "consumable" 1 CSingular (FScalar KStr) None false None;
         mkF "remaining" 2 CSingular (FMsg QT) None true None;
         mkF "used" 3 CSingular (FMsg QT) None true None;
         mkF "last_dispensed" 4 CSingular (FMsg QT) None true None;
         mkF "dispensing" 5 CSingular (FScalar KBool) None false None ])
].

Section StockMask.
  Variable A : Type.
  Variable azero : A.
  Variable aisz : A -> bool.          (* the amount is not populated *)

  Definition pq := (Z * A)%type.      (* unit, amount *)
  Record pstock := mkPS { ps_used : option pq; ps_rem : option pq; ps_last : option pq; ps_disp : bool }.

  (* proto.Merge of a Quantity: populated scalars of the source overwrite *)
  Definition merge_pq (old : option pq) (src : pq) : pq :=
    let o := match old with Some t => t | None => (0, azero) end in
    ((if fst src =? 0 then fst o else fst src), (if aisz (snd src) then snd o else snd src)).

  (* one quantity field f under FieldUpdater.Merge with the non-empty valid mask ups *)
  Definition upd_pq (ups : list path) (f : string) (old req : option pq) : option pq :=
    if covers ups [f] then
      match req with Some r => Some (merge_pq old r) | None => None end
    else
      let cu := covers ups [f; "unit"] in
      let ca := covers ups [f; "amount"] in
      if negb (cu || ca) then old else
      match req with
      | Some (u, a) =>
          let o := match old with Some t => t | None => (0, azero) end in
          Some ((if cu then u else fst o), (if ca then a else snd o))
      | None =>
          match old with
          | Some (u, a) => Some ((if cu then 0 else u), (if ca then azero else a))
          | None => None
          end
      end.

  Definition stock_mask_bad (um : mask) : bool :=
    match um with Some ups => negb (fm_valid stock_schema ST ups) | None => false end.

  (* the merge function of the inventory store (applied when the mask is not bad) *)
  Definition stock_update (um : mask) (old req : pstock) : pstock :=
    match um with
    | None => req
    | Some [] => old
    | Some ups => mkPS (upd_pq ups "used" (ps_used old) (ps_used req))
                       (upd_pq ups "remaining" (ps_rem old) (ps_rem req))
                       (upd_pq ups "last_dispensed" (ps_last old) (ps_last req))
                       (if covers ups ["dispensing"] then ps_disp req else ps_disp old)
    end.
End StockMask.

Arguments mkPS {A}. Arguments ps_used {A}. Arguments ps_rem {A}. Arguments ps_last {A}. Arguments ps_disp {A}.
Arguments stock_update {A}. Arguments upd_pq {A}. Arguments merge_pq {A}.

(* ---- integral amounts: the same update through the generic FieldUpdater model ---- *)
Definition zstock := pstock Z.
Definition zupdate := stock_update 0 (fun a => a =? 0).

Definition enc_pq (q : Z * Z) : value := VM (opt_field "amount" (snd q) ++ opt_field "unit" (fst q)).
Definition opt_pq (k : string) (q : option (Z * Z)) : list (string * value) :=
  match q with Some x => [(k, enc_pq x)] | None => [] end.
Definition enc_ps (name : string) (s : zstock) : value :=
  VM ((if String.eqb name "" then [] else [("consumable", VS (SStr name))])
      ++ opt_pq "remaining" (ps_rem s) ++ opt_pq "used" (ps_used s) ++ opt_pq "last_dispensed" (ps_last s)
      ++ (if ps_disp s then [("dispensing", VS (SBool true))] else [])).
Definition dec_pq (k : string) (v : value) : option (Z * Z) :=
  match vget k v with Some q => Some (dec_z "unit" q, dec_z "amount" q) | None => None end.
Definition dec_ps (v : value) : zstock :=
  mkPS (dec_pq "used" v) (dec_pq "remaining" v) (dec_pq "last_dispensed" v)
       (match vget "dispensing" v with Some (VS (SBool b)) => b | _ => false end).
Definition dec_name (v : value) : string := match vget "consumable" v with Some (VS (SStr s)) => s | _ => "" end.

(* code, stored record afterwards *)
Definition zupdate_tree (name : string) (um : mask) (old req : zstock) : option (Z * zstock) :=
  match write stock_schema ST true None None um None (enc_ps name old) (enc_ps name req) with
  | WOk v => if value_equiv v (enc_ps (dec_name v) (dec_ps v)) && String.eqb (dec_name v) name
             then Some (code_ok, dec_ps v) else None
  | WErr c => Some (c, old)
  | WPanic => None
  end.
