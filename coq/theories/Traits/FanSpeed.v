(* Model of pkg/trait/fanspeedpb: Model.UpdateFanSpeed (validateUpdate, Value.Set without update mask,
   DeriveValues as InterceptAfter) and ModelServer.UpdateFanSpeed (relative updates as InterceptBefore).
   Percentages are integer-valued float32 (exact); preset_index is int32. *)
From SC Require Import Base.Prelude.

Record fan := mkFan { f_pct : Z; f_preset : string; f_idx : Z; f_dir : Z }.
Definition preset := (string * Z)%type.

Definition fan_eqb (a b : fan) : bool :=
  (f_pct a =? f_pct b) && String.eqb (f_preset a) (f_preset b) && (f_idx a =? f_idx b) && (f_dir a =? f_dir b).

(* first preset with the given name / percentage, with its index *)
Fixpoint find_name (n : string) (i : Z) (ps : list preset) : option (Z * Z) :=
  match ps with
  | [] => None
  | (m, p) :: r => if String.eqb m n then Some (i, p) else find_name n (i + 1) r
  end.
Fixpoint find_pct (pct : Z) (i : Z) (ps : list preset) : option (Z * string) :=
  match ps with
  | [] => None
  | (m, p) :: r => if p =? pct then Some (i, m) else find_pct pct (i + 1) r
  end.
Definition preset_at (ps : list preset) (i : Z) : option preset :=
  if i <? 0 then None else nth_error ps (Z.to_nat i).

Definition by_name (ps : list preset) (new : fan) : fan :=
  match find_name (f_preset new) 0 ps with
  | Some (i, p) => mkFan p (f_preset new) i (f_dir new)
  | None => new
  end.
Definition by_pct (ps : list preset) (new : fan) : fan :=
  match find_pct (f_pct new) 0 ps with
  | Some (i, n) => mkFan (f_pct new) n i (f_dir new)
  | None => mkFan (f_pct new) "" (-1) (f_dir new)
  end.
Definition clamp_idx (ps : list preset) (i : Z) : Z :=
  let i := if i >=? zlen ps then zlen ps - 1 else i in if i <? 0 then 0 else i.

(* None = run-time panic (index out of range) *)
Definition by_idx_v0 (ps : list preset) (new : fan) : option fan :=
  let i := clamp_idx ps (f_idx new) in
  match preset_at ps i with
  | Some (n, p) => Some (mkFan p n i (f_dir new))
  | None => None
  end.
(* after the fix: a model without presets has no index and no preset name *)
Definition by_idx (ps : list preset) (new : fan) : fan :=
  match ps with
  | [] => mkFan (f_pct new) "" (-1) (f_dir new)
  | _ => let i := clamp_idx ps (f_idx new) in
         match preset_at ps i with
         | Some (n, p) => mkFan p n i (f_dir new)
         | None => new  (* unreachable: the clamped index is in range *)
         end
  end.

(* DeriveValues as first written: a changed preset name always wins, even when it was cleared *)
Definition derive_v0 (ps : list preset) (old new : fan) : option fan :=
  if negb (String.eqb (f_preset old) (f_preset new)) then Some (by_name ps new)
  else if negb (f_idx old =? f_idx new) then by_idx_v0 ps new
  else if negb (f_pct old =? f_pct new) then Some (by_pct ps new)
  else Some new.

(* DeriveValues after the fixes *)
Definition derive (ps : list preset) (old new : fan) : fan :=
  if negb (String.eqb (f_preset new) "") && negb (String.eqb (f_preset old) (f_preset new)) then by_name ps new
  else if negb (f_idx old =? f_idx new) then by_idx ps new
  else if negb (f_pct old =? f_pct new) || String.eqb (f_preset new) "" then by_pct ps new
  else new.

Definition known_preset (ps : list preset) (n : string) : bool :=
  String.eqb n "" || existsb (fun p => String.eqb (fst p) n) ps.

(* the request after the InterceptBefore of ModelServer.UpdateFanSpeed *)
Definition apply_relative (relative : bool) (old req : fan) : fan :=
  if relative then mkFan (f_pct req + f_pct old) (f_preset req) (wrap32 (f_idx req + f_idx old)) (f_dir req) else req.

Inductive fout := FOk (f : fan) | FErr (code : Z) | FPanic.

Definition fan_update_v0 (ps : list preset) (old req : fan) (relative : bool) : fout * fan :=
  if negb (known_preset ps (f_preset req)) then (FErr 3, old)
  else match derive_v0 ps old (apply_relative relative old req) with
       | Some new => (FOk new, new)
       | None => (FPanic, old)
       end.

Definition fan_update (ps : list preset) (old req : fan) (relative : bool) : fout * fan :=
  if negb (known_preset ps (f_preset req)) then (FErr 3, old)
  else let new := derive ps old (apply_relative relative old req) in (FOk new, new).

Definition fan_run (ps : list preset) (init : fan) (ops : list (fan * bool)) : fan :=
  fold_left (fun s o => snd (fan_update ps s (fst o) (snd o))) ops init.

(* ---- the consistency rule of the property ---- *)
Definition fan_consistent (ps : list preset) (f : fan) : bool :=
  if String.eqb (f_preset f) "" then
    (f_idx f =? -1) && negb (existsb (fun p => snd p =? f_pct f) ps)
  else
    match preset_at ps (f_idx f) with
    | Some (n, p) => String.eqb n (f_preset f) && (p =? f_pct f)
    | None => false
    end.

(* configuration is well formed when no preset has the empty name *)
Definition presets_wf (ps : list preset) : bool := forallb (fun p => negb (String.eqb (fst p) "")) ps.
