(* Model of pkg/trait/meterpb/model.go.  Times are the readings of the model's clock (integers);
   usage is an integer-valued float32. *)
From SC Require Import Base.Prelude.

Record meter := mkMeter { m_usage : Z; m_start : option Z; m_end : option Z }.
Definition meter0 := mkMeter 0 None None.

(* NewModel as first written: Set(&MeterReading{}) without update mask replaces the configured
   reading; the interceptor only fills start_time when the OLD value had none and tests the NEW
   (empty) value's end_time *)
Definition new_meter_v0 (init : option meter) (now : Z) : meter :=
  let old := match init with Some m => m | None => meter0 end in
  mkMeter 0 (match m_start old with None => Some now | Some _ => None end) (Some now).
(* after the fix: the configured reading is kept and only missing times are filled in *)
Definition new_meter (init : option meter) (now : Z) : meter :=
  let old := match init with Some m => m | None => meter0 end in
  mkMeter (m_usage old) (match m_start old with None => Some now | s => s end)
          (match m_end old with None => Some now | e => e end).

Inductive mop := MRecord (v : Z) (now : Z) | MReset (now : Z).

(* RecordReading as first written: no update mask, so start_time is dropped *)
Definition meter_step_v0 (cur : meter) (o : mop) : meter :=
  match o with
  | MRecord v now => mkMeter v None (Some now)
  | MReset now => mkMeter 0 (Some now) (Some now)
  end.
(* after the fix: update paths usage, end_time *)
Definition meter_step (cur : meter) (o : mop) : meter :=
  match o with
  | MRecord v now => mkMeter v (m_start cur) (Some now)
  | MReset now => mkMeter 0 (Some now) (Some now)
  end.
Definition meter_run (init : meter) (ops : list mop) : meter := fold_left meter_step ops init.

Definition op_time (o : mop) : Z := match o with MRecord _ t | MReset t => t end.

(* start and end are recorded and start <= end *)
Definition meter_wf (m : meter) : bool :=
  match m_start m, m_end m with Some s, Some e => s <=? e | _, _ => false end.

(* the clock never runs backwards: each operation's time is at least the previous end *)
Fixpoint times_from (t : Z) (ops : list mop) : bool :=
  match ops with [] => true | o :: r => (t <=? op_time o) && times_from (op_time o) r end.

(* specification of start/end after a sequence: start = time of the last reset (or the initial start),
   end = time of the last operation (or the initial end) *)
Definition last_reset (s : option Z) (ops : list mop) : option Z :=
  fold_left (fun acc o => match o with MReset t => Some t | _ => acc end) ops s.
Definition last_time (e : option Z) (ops : list mop) : option Z :=
  fold_left (fun acc o => Some (op_time o)) ops e.
