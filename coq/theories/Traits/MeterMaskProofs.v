From SC Require Import Base.Prelude Msg.Msg Msg.Schema Msg.Path Masks.Get Masks.Update Traits.MeterMask.
Local Open Scope string_scope.
Local Open Scope Z_scope.

(* a mask path that is a prefix of f.s is a prefix of f or extends f *)
Lemma prefix_nested_related u f s : is_prefix u [f; s] = true -> is_prefix u [f] || is_prefix [f] u = true.
Proof.
  destruct u as [|a [|b r]]; cbn; intros H; try reflexivity.
  - apply andb_prop in H as [H _]. rewrite H. reflexivity.
  - apply andb_prop in H as [H _]. rewrite String.eqb_sym in H. rewrite H. cbn. apply orb_true_r.
Qed.

Lemma untouched_not_covered ups f : touches ups f = false ->
  covers ups [f] = false /\ forall s, covers ups [f; s] = false.
Proof.
  unfold touches, covers. induction ups as [|u ups IH]; cbn [existsb]; intros H; [split; reflexivity|].
  apply orb_false_iff in H as [Hu Hr]. destruct (IH Hr) as [I1 I2]. apply orb_false_iff in Hu as [Hu1 Hu2].
  split.
  - rewrite Hu1, I1. reflexivity.
  - intros s. rewrite I2, orb_false_r. destruct (is_prefix u [f; s]) eqn:E; [|reflexivity].
    apply prefix_nested_related in E. rewrite Hu1, Hu2 in E. discriminate.
Qed.

(* FRAME per field: a timestamp field no mask path is related to keeps its value *)
Lemma upd_ts_frame ups f old req : touches ups f = false -> upd_ts ups f old req = old.
Proof.
  intros H. destruct (untouched_not_covered ups f H) as [H1 H2]. unfold upd_ts. rewrite H1, !H2. reflexivity.
Qed.

Theorem mm_update_frame ups old req :
  (touches ups "start_time" = false -> mm_start (snd (mm_update (Some ups) old req)) = mm_start old) /\
  (touches ups "end_time" = false -> mm_end (snd (mm_update (Some ups) old req)) = mm_end old) /\
  (touches ups "usage" = false -> mm_usage (snd (mm_update (Some ups) old req)) = mm_usage old).
Proof.
  unfold mm_update. destruct ups as [|u ups]; [repeat split; reflexivity|]. set (l := u :: ups).
  destruct (fm_valid meter_schema MR l); cbn [negb snd mm_start mm_end mm_usage]; [|repeat split; reflexivity].
  repeat split; intros H.
  - now apply upd_ts_frame.
  - now apply upd_ts_frame.
  - destruct (untouched_not_covered l "usage" H) as [H1 _]. rewrite H1. reflexivity.
Qed.

(* INSIDE: a named scalar takes the request's value (zero included); a named timestamp is merged into the
   stored one and cleared when the request has none; a named nested scalar takes the request's value *)
Theorem mm_update_inside ups old req : ups <> [] -> fm_valid meter_schema MR ups = true ->
  fst (mm_update (Some ups) old req) = code_ok /\
  (covers ups ["usage"] = true -> mm_usage (snd (mm_update (Some ups) old req)) = mm_usage req) /\
  (covers ups ["start_time"] = true -> mm_start (snd (mm_update (Some ups) old req)) =
     match mm_start req with Some r => Some (merge_ts (mm_start old) r) | None => None end) /\
  (covers ups ["start_time"] = false -> covers ups ["start_time"; "seconds"] = true ->
     forall s n, mm_start req = Some (s, n) -> option_map fst (mm_start (snd (mm_update (Some ups) old req))) = Some s).
Proof.
  intros Hne Hv. unfold mm_update. destruct ups as [|u ups]; [congruence|]. set (l := u :: ups) in *. rewrite Hv.
  cbn [negb fst snd mm_usage mm_start]. split; [reflexivity|]. split; [intros ->; reflexivity|]. split.
  - intros H. unfold upd_ts. rewrite H. reflexivity.
  - intros H1 H2 s n Hr. unfold upd_ts. rewrite H1, H2, Hr. cbn [orb negb]. reflexivity.
Qed.

(* a rejected update (a path that is not valid for MeterReading) changes nothing *)
Theorem mm_update_invalid_noop ups old req : fm_valid meter_schema MR ups = false ->
  mm_update (Some ups) old req = (code_invalid_argument, old).
Proof. intros H. unfold mm_update. destruct ups; [discriminate|]. rewrite H. reflexivity. Qed.

Lemma ts_leb_refl t : ts_leb t t = true.
Proof. unfold ts_leb. rewrite Z.eqb_refl, Z.leb_refl. apply orb_true_r. Qed.

Lemma ts_leb_whole a t : ts_leb a (t, 0) = true -> forall t', t <= t' -> ts_leb a (t', 0) = true.
Proof.
  unfold ts_leb. cbn [fst snd]. intros H t' Ht. apply orb_true_iff in H as [H|H].
  - apply Z.ltb_lt in H. apply orb_true_iff. left. apply Z.ltb_lt. lia.
  - apply andb_prop in H as [H1 H2]. apply Z.eqb_eq in H1. destruct (Z.eq_dec t t') as [->|N].
    + rewrite H1, Z.eqb_refl, H2. apply orb_true_r.
    + apply orb_true_iff. left. apply Z.ltb_lt. lia.
Qed.

(* ALL SEQUENCES of RecordReading / Reset / UpdateMeterReading with ARBITRARY masks and requests, as long as
   no update mask is related to start_time / end_time (valid or not, nested or not, duplicates, any order)
   and the clock does not run backwards: start and end stay recorded and ordered, start = time of the last
   reset, end = time of the last RecordReading/Reset *)
Theorem mm_sequences ops : forall m e0, mm_wf m = true -> mm_end m = Some (e0, 0) ->
  forallb time_safe ops = true -> mm_times_from e0 ops = true ->
  mm_wf (mm_run m ops) = true /\
  mm_start (mm_run m ops) = mm_last_reset (mm_start m) ops /\
  mm_end (mm_run m ops) = mm_last_time (mm_end m) ops.
Proof.
  unfold mm_run, mm_last_reset, mm_last_time. induction ops as [|o ops IH]; intros m e0 Hwf He Hs Ht; cbn [fold_left].
  - auto.
  - cbn [forallb] in Hs. apply andb_prop in Hs as [Hs1 Hs2].
    cbn [mm_times_from] in Ht. apply andb_prop in Ht as [Ht1 Ht2]. apply Z.leb_le in Ht1.
    assert (mm_wf (mm_step m o) = true /\ mm_end (mm_step m o) = Some (mm_op_time e0 o, 0) /\
            mm_start (mm_step m o) = match o with MMReset t => Some (t, 0) | _ => mm_start m end /\
            mm_end (mm_step m o) = match o with MMRecord _ t | MMReset t => Some (t, 0) | MMUpdate _ _ => mm_end m end)
      as (W & E & S1 & E1).
    { destruct o as [v t|t|um req]; cbn [mm_step mm_op_time] in *.
      - unfold mm_wf in *. cbn [mm_start mm_end]. destruct (mm_start m) as [s|]; [|discriminate].
        rewrite He in Hwf. repeat split. eapply ts_leb_whole; eauto.
      - unfold mm_wf. cbn [mm_start mm_end]. repeat split. apply ts_leb_refl.
      - cbn [time_safe] in Hs1. destruct um as [ups|]; [|discriminate]. apply andb_prop in Hs1 as [A B].
        apply negb_true_iff in A. apply negb_true_iff in B.
        destruct (mm_update_frame ups m req) as (F1 & F2 & _). specialize (F1 A). specialize (F2 B).
        unfold mm_wf. rewrite F1, F2. repeat split; assumption. }
    destruct (IH (mm_step m o) (mm_op_time e0 o) W E Hs2 Ht2) as (I1 & I2 & I3).
    split; [assumption|]. split.
    + rewrite I2, S1. destruct o; reflexivity.
    + rewrite I3, E1. destruct o; reflexivity.
Qed.

(* without that guard the statement is false: UpdateMeterReading can clear or reorder the times *)
Lemma mm_update_breaks_wf :
  let m := mkMM 5 (Some (10, 0)) (Some (20, 0)) in
  mm_wf m = true /\
  mm_wf (mm_step m (MMUpdate (Some [["start_time"]]) (mkMM 0 None None))) = false /\
  mm_wf (mm_step m (MMUpdate (Some [["end_time"; "seconds"]]) (mkMM 0 None (Some (3, 0))))) = false.
Proof. vm_compute. repeat split. Qed.

(* the two descriptions of the step coincide on the special masks (all other masks: checked per observed case) *)
Lemma mm_tree_nil_mask_sample :
  mm_update_tree None (mkMM 5 (Some (10, 3)) None) (mkMM 0 None (Some (7, 0))) = Some (mm_update None (mkMM 5 (Some (10, 3)) None) (mkMM 0 None (Some (7, 0)))).
Proof. vm_compute. reflexivity. Qed.

(* the code as first written: a Reset at a clock reading with zero nanos keeps the stored nanos of both times
   (start after end), a RecordReading leaves an end time that is not the clock reading *)
Lemma mm_step_v0_stale_nanos :
  let m := mkMM 5 (Some (10, 900)) (Some (20, 100)) in
  mm_wf m = true /\
  mm_step_v0 m (MMReset 30) = mkMM 0 (Some (30, 900)) (Some (30, 100)) /\
  mm_wf (mm_step_v0 m (MMReset 30)) = false /\
  mm_end (mm_step_v0 m (MMRecord 7 30)) = Some (30, 100) /\
  mm_wf (mm_step m (MMReset 30)) = true /\ mm_end (mm_step m (MMRecord 7 30)) = Some (30, 0).
Proof. vm_compute. repeat split. Qed.
