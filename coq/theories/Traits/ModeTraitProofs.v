From SC Require Import Base.Prelude Traits.Str Traits.StrProofs Traits.ModeTrait.
Local Open Scope string_scope.
Local Open Scope Z_scope.

Lemma wrap32_id z : in32 z = true -> wrap32 z = z.
Proof.
  unfold in32, wrap32. rewrite andb_true_iff, !Z.leb_le. intros [H1 H2].
  rewrite Z.mod_small by lia. lia.
Qed.

(* Go's truncated remainder corrected by +n is the mathematical modulus *)
Lemma wrap_index_mod n i adj : 0 < n -> in32 (i + adj) = true -> wrap_index n i adj = (i + adj) mod n.
Proof.
  intros Hn Hin. unfold wrap_index. rewrite (wrap32_id _ Hin). set (s := i + adj).
  pose proof (Z.quot_rem' s n) as E. pose proof (Z.rem_bound_abs s n ltac:(lia)) as B.
  destruct (Z.ltb_spec (Z.rem s n) 0) as [Hneg|Hpos].
  - apply (Z.mod_unique s n (Z.quot s n - 1)); lia.
  - apply (Z.mod_unique s n (Z.quot s n)); lia.
Qed.

Lemma index_of_bound x : forall l i j, index_of x i l = Some j -> i <= j < i + zlen l.
Proof.
  unfold zlen. induction l as [|y r IH]; intros i j; cbn [index_of List.length]; [discriminate|].
  destruct (String.eqb y x); [intros [= <-]; lia|]. intros H. apply IH in H. lia.
Qed.

(* relative steps wrap around in both directions *)
Theorem rel_value_wraps vs cur adj : zlen vs <= 1073741824 -> -1073741824 <= adj <= 1073741824 ->
  rel_value vs cur adj = rel_value_spec vs cur adj.
Proof.
  intros Hn Ha. unfold rel_value, rel_value_spec. destruct vs as [|v0 r] eqn:E; [reflexivity|]. rewrite <- E in *.
  destruct cur as [c|]; [|reflexivity]. destruct (index_of c 0 vs) as [i|] eqn:I; [|reflexivity].
  apply index_of_bound in I. rewrite wrap_index_mod; [reflexivity| |].
  - rewrite E. unfold zlen. cbn. lia.
  - unfold in32. rewrite andb_true_iff, !Z.leb_le. lia.
Qed.

Lemma index_of_nth : forall l i k d, nodup_strs l = true -> (k < List.length l)%nat ->
  index_of (nth k l d) i l = Some (i + Z.of_nat k).
Proof.
  induction l as [|y r IH]; intros i k d Hnd Hk; [cbn in Hk; lia|].
  cbn [nodup_strs] in Hnd. apply andb_true_iff in Hnd as [Hy Hr]. apply negb_true_iff in Hy.
  destruct k as [|k]; cbn [nth index_of].
  - rewrite String.eqb_refl. f_equal. lia.
  - destruct (String.eqb_spec y (nth k r d)) as [Heq|_].
    + exfalso. apply smem_false in Hy. apply Hy. rewrite Heq. apply nth_In. cbn in Hk. lia.
    + rewrite IH; [f_equal; lia|assumption|cbn in Hk; lia].
Qed.

Definition steps (vs : list string) (cur : option string) (adjs : list Z) : option string :=
  fold_left (fun c a => rel_value vs c a) adjs cur.

(* any number of relative steps from the i-th value ends at index (i + sum of steps) mod n *)
Theorem rel_steps_wrap vs v0 adjs : nodup_strs vs = true -> 0 < zlen vs <= 1073741824 ->
  Forall (fun a => -1073741824 <= a <= 1073741824) adjs ->
  forall i, 0 <= i < zlen vs ->
  steps vs (Some (nth (Z.to_nat i) vs v0)) adjs = Some (nth (Z.to_nat ((i + sumZ adjs) mod zlen vs)) vs v0).
Proof.
  intros Hnd Hn. unfold steps. induction adjs as [|a adjs IH]; intros Hall i Hi; cbn [fold_left sumZ fold_right].
  - rewrite Z.add_0_r, Z.mod_small by lia. reflexivity.
  - inversion Hall as [|? ? Ha Hrest]; subst.
    rewrite rel_value_wraps by lia. unfold rel_value_spec.
    destruct vs as [|w r] eqn:E; [unfold zlen in Hn; cbn in Hn; lia|]. rewrite <- E in *.
    rewrite (index_of_nth vs 0 (Z.to_nat i) v0 Hnd) by (unfold zlen in Hi; lia).
    rewrite Z.add_0_l, Z2Nat.id by lia.
    pose proof (Z.mod_pos_bound (i + a) (zlen vs) ltac:(lia)) as B.
    replace (nth (Z.to_nat ((i + a) mod zlen vs)) vs w) with (nth (Z.to_nat ((i + a) mod zlen vs)) vs v0)
      by (apply nth_indep; unfold zlen in *; lia).
    rewrite (IH Hrest _ B). do 2 f_equal. unfold sumZ.
    rewrite Z.add_mod_idemp_l by lia. now rewrite <- Z.add_assoc.
Qed.

(* a model constructed with explicit modes uses them *)
Theorem new_model_uses_modes ms ms' v : new_model ms = Some (ms', v) -> ms' = ms /\ initial_values ms = Some v.
Proof. unfold new_model. destruct (initial_values ms); [intros [= <- <-]; auto|discriminate]. Qed.

Lemma new_model_v0_ignores_modes :
  exists ms ms' v, new_model_v0 ms = Some (ms', v) /\ ms' <> ms.
Proof. exists [("speed", ["slow"; "fast"])], default_modes, [("speed", "slow")]. split; [reflexivity|discriminate]. Qed.
