From SC Require Import Base.Prelude Traits.FanSpeed Traits.FanSpeedProofs Traits.FanMask.
Local Open Scope string_scope.
Local Open Scope Z_scope.

Lemma consistent_known ps f : fan_consistent ps f = true -> known_preset ps (f_preset f) = true.
Proof.
  unfold fan_consistent, known_preset. destruct (String.eqb (f_preset f) ""); [reflexivity|]. cbn [orb].
  unfold preset_at. destruct (f_idx f <? 0); [discriminate|].
  destruct (nth_error ps (Z.to_nat (f_idx f))) as [[n p]|] eqn:E; [|discriminate].
  intros H. apply andb_prop in H as [Hn _]. apply existsb_exists. exists (n, p). split; [now apply nth_error_In in E|exact Hn].
Qed.

Theorem fan_update_masked_consistent ps old req m : presets_wf ps = true -> fan_consistent ps old = true ->
  fan_consistent ps (snd (fan_update_masked ps old req m)) = true.
Proof.
  intros Hwf Hold. unfold fan_update_masked. destruct (known_preset ps (f_preset req)) eqn:K; cbn [negb snd]; [|assumption].
  destruct (match m with Some k => fk_bad k | None => false end); cbn [snd]; [assumption|].
  apply derive_consistent; try assumption. destruct m as [k|]; cbn [merge_fan f_preset]; [|assumption].
  destruct (fk_preset k); [assumption|now apply consistent_known].
Qed.

Theorem fan_masked_sequences ps ops : forall init, presets_wf ps = true -> fan_consistent ps init = true ->
  fan_consistent ps (fan_run_masked ps init ops) = true.
Proof.
  unfold fan_run_masked. induction ops as [|o ops IH]; intros init Hwf Hc; cbn [fold_left]; [assumption|].
  apply IH; [assumption|]. now apply fan_update_masked_consistent.
Qed.

Theorem fan_update_masked_never_panics ps old req m : fst (fan_update_masked ps old req m) <> FPanic.
Proof.
  unfold fan_update_masked. destruct (known_preset ps (f_preset req)); cbn; [|discriminate].
  destruct (match m with Some k => fk_bad k | None => false end); cbn; discriminate.
Qed.
