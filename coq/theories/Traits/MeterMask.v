(* meterpb.Model.UpdateMeterReading with an arbitrary update mask (resource.WithUpdateMask): the mask is a
   list of field-mask PATHS (Msg/Path.v: a path = its '.'-separated segments), validated against the
   message schema (fm_valid) and interpreted by prefix tests (is_prefix), nested paths included
   (start_time.seconds, end_time.nanos).  Timestamps carry (seconds, nanos).
   Two descriptions of the same step:
   - [mm_update]: the typed model the theorems are about;
   - [mm_update_tree]: the generic FieldUpdater model Masks.Update.write run on the encoded trees
     (the judge demands that both agree with the observation).
   No proofs here. *)
From SC Require Import Base.Prelude Msg.Msg Msg.Schema Msg.Path Masks.Get Masks.Update.
Local Open Scope string_scope.
Local Open Scope Z_scope.

Definition ts := (Z * Z)%type.                       (* seconds, nanos *)
Record mmeter := mkMM { mm_usage : Z; mm_start : option ts; mm_end : option ts }.

Definition MR := "smartcore.traits.MeterReading".
Definition TS := "google.protobuf.Timestamp".
(* hand-written; the harness dumps the Go descriptors and the judge compares (KSchema) *)
Definition meter_schema : schema := [
  (TS, [ mkF "seconds" 1 CSingular (FScalar KInt) None false None;
         mkF "nanos" 2 CSingular (FScalar KInt) None false None ]);
  (MR, [ mkF "usage" 1 CSingular (FScalar KF32) None false None;
         mkF "start_time" 2 CSingular (FMsg TS) None true None;
         mkF "end_time" 3 CSingular (FMsg TS) None true None ])
].

(* some mask path names p or a message containing p *)
Definition covers (ups : list path) (p : path) : bool := existsb (fun u => is_prefix u p) ups.
(* some mask path names field f, a message containing it, or something inside it *)
Definition touches (ups : list path) (f : string) : bool :=
  existsb (fun u => is_prefix u [f] || is_prefix [f] u) ups.

(* proto.Merge of a Timestamp: populated (non-zero) scalars of the source overwrite *)
Definition merge_ts (old : option ts) (src : ts) : ts :=
  let o := match old with Some t => t | None => (0, 0) end in
  ((if fst src =? 0 then fst o else fst src), (if snd src =? 0 then snd o else snd src)).

(* one timestamp field f under FieldUpdater.Merge with the non-empty valid mask ups *)
Definition upd_ts (ups : list path) (f : string) (old req : option ts) : option ts :=
  if covers ups [f] then
    (* the whole field is named: merged into the stored message; cleared when the request has none *)
    match req with Some r => Some (merge_ts old r) | None => None end
  else
    let cs := covers ups [f; "seconds"] in
    let cn := covers ups [f; "nanos"] in
    if negb (cs || cn) then old else
    match req with
    | Some (s, n) =>
        let o := match old with Some t => t | None => (0, 0) end in
        Some ((if cs then s else fst o), (if cn then n else snd o))
    | None =>
        match old with
        | Some (s, n) => Some ((if cs then 0 else s), (if cn then 0 else n))
        | None => None
        end
    end.

(* gRPC code and the stored reading afterwards *)
Definition mm_update (um : mask) (old req : mmeter) : Z * mmeter :=
  match um with
  | None => (code_ok, req)                                  (* no mask: replace *)
  | Some [] => (code_ok, old)                               (* mask without paths: nothing *)
  | Some ups =>
      if negb (fm_valid meter_schema MR ups) then (code_invalid_argument, old)
      else (code_ok, mkMM (if covers ups ["usage"] then mm_usage req else mm_usage old)
                          (upd_ts ups "start_time" (mm_start old) (mm_start req))
                          (upd_ts ups "end_time" (mm_end old) (mm_end req)))
  end.

(* ---- operations: RecordReading / Reset (clock = whole seconds) and masked updates ---- *)
Inductive mmop := MMRecord (v now : Z) | MMReset (now : Z) | MMUpdate (um : mask) (req : mmeter).

Definition mm_step (cur : mmeter) (o : mmop) : mmeter :=
  match o with
  | MMRecord v now => mkMM v (mm_start cur) (Some (now, 0))
  | MMReset now => mkMM 0 (Some (now, 0)) (Some (now, 0))
  | MMUpdate um req => snd (mm_update um cur req)
  end.
(* RecordReading / Reset as first written: update paths "usage", "end_time" (and "start_time"): naming the
   timestamp MESSAGE merges now into the stored time, so a clock reading with zero nanos keeps the stored
   nanos (fixed: the paths now name the timestamp's fields) *)
Definition mm_step_v0 (cur : mmeter) (o : mmop) : mmeter :=
  match o with
  | MMRecord v now => mkMM v (mm_start cur) (Some (merge_ts (mm_end cur) (now, 0)))
  | MMReset now => mkMM 0 (Some (merge_ts (mm_start cur) (now, 0))) (Some (merge_ts (mm_end cur) (now, 0)))
  | MMUpdate um req => snd (mm_update um cur req)
  end.
Definition mm_run (init : mmeter) (ops : list mmop) : mmeter := fold_left mm_step ops init.

Definition ts_leb (a b : ts) : bool := (fst a <? fst b) || ((fst a =? fst b) && (snd a <=? snd b)).
Definition mm_wf (m : mmeter) : bool :=
  match mm_start m, mm_end m with Some s, Some e => ts_leb s e | _, _ => false end.

(* a masked update that cannot reach the two times (by the path relation only) *)
Definition time_safe (o : mmop) : bool :=
  match o with
  | MMUpdate (Some ups) _ => negb (touches ups "start_time") && negb (touches ups "end_time")
  | MMUpdate None _ => false
  | _ => true
  end.
Definition mm_op_time (prev : Z) (o : mmop) : Z :=
  match o with MMRecord _ t | MMReset t => t | MMUpdate _ _ => prev end.
Fixpoint mm_times_from (t : Z) (ops : list mmop) : bool :=
  match ops with [] => true | o :: r => (t <=? mm_op_time t o) && mm_times_from (mm_op_time t o) r end.
Definition mm_last_reset (s : option ts) (ops : list mmop) : option ts :=
  fold_left (fun acc o => match o with MMReset t => Some (t, 0) | _ => acc end) ops s.
Definition mm_last_time (e : option ts) (ops : list mmop) : option ts :=
  fold_left (fun acc o => match o with MMRecord _ t | MMReset t => Some (t, 0) | MMUpdate _ _ => acc end) ops e.

(* ---- the same update through the generic FieldUpdater model ---- *)
Definition opt_field (k : string) (z : Z) : list (string * value) :=
  if z =? 0 then [] else [(k, VS (SInt z))].
Definition enc_ts (t : ts) : value := VM (opt_field "seconds" (fst t) ++ opt_field "nanos" (snd t)).
Definition opt_ts (k : string) (t : option ts) : list (string * value) :=
  match t with Some x => [(k, enc_ts x)] | None => [] end.
Definition enc_mm (m : mmeter) : value :=
  VM (opt_field "usage" (mm_usage m) ++ opt_ts "start_time" (mm_start m) ++ opt_ts "end_time" (mm_end m)).
Definition dec_z (k : string) (v : value) : Z :=
  match vget k v with Some (VS (SInt z)) => z | _ => 0 end.
Definition dec_ts (k : string) (v : value) : option ts :=
  match vget k v with Some t => Some (dec_z "seconds" t, dec_z "nanos" t) | None => None end.
Definition dec_mm (v : value) : mmeter := mkMM (dec_z "usage" v) (dec_ts "start_time" v) (dec_ts "end_time" v).

Definition mm_update_tree (um : mask) (old req : mmeter) : option (Z * mmeter) :=
  match write meter_schema MR true None None um None (enc_mm old) (enc_mm req) with
  | WOk v => if value_equiv v (enc_mm (dec_mm v)) then Some (code_ok, dec_mm v) else None
  | WErr c => Some (c, old)
  | WPanic => None
  end.
