From SC Require Import Base.Prelude Gen.Units Traits.Vending.
From Coq Require Import QArith Qabs.
Open Scope Z_scope.

Definition phys_same (u v : Z) : bool :=
  match phys u, phys v with Some (c1, _), Some (c2, _) => c1 =? c2 | _, _ => false end.
Definition pair_mem (p : Z * Z) (l : list (Z * Z)) : bool := existsb (fun x => (fst x =? fst p) && (snd x =? snd p)) l.
Definition is_some {A} (o : option A) : bool := match o with Some _ => true | None => false end.

(* obligations about the generated table, checked over the complete enum *)
Definition all_pairs : list (Z * Z) := flat_map (fun u => map (fun v => (u, v)) unit_enum) unit_enum.

(* A: Convert succeeds between two distinct units exactly when they measure the same physical quantity *)
Lemma units_categories_physical :
  forallb (fun p => (fst p =? snd p) || Bool.eqb (pair_mem p convertible_pairs) (phys_same (fst p) (snd p))) all_pairs = true.
Proof. vm_compute. reflexivity. Qed.

(* B: the class/factor table reproduces the pairwise relation (conversion is an equivalence) *)
Lemma units_table_is_relation :
  forallb (fun p => (fst p =? snd p) || Bool.eqb (pair_mem p convertible_pairs) (is_some (convert 1%Q (fst p) (snd p)))) all_pairs = true.
Proof. vm_compute. reflexivity. Qed.

(* C: every factor is positive and equals the ratio of SI factors up to float64 rounding (2^-50) *)
Definition factor_ok (e : Z * (Z * Q)) : bool :=
  let '(u, (c, f)) := e in
  match phys u, phys c with
  | Some (_, fu), Some (_, fc) =>
      negb (Qle_bool f 0) && Qle_bool (Qabs (f * fc - fu)) (fu * (1 # 1125899906842624))
  | _, _ => false
  end.
Lemma units_factors_physical : forallb factor_ok unit_table = true.
Proof. vm_compute. reflexivity. Qed.

Lemma units_factors_nonzero : forallb (fun e => negb (Qeq_bool (snd (snd e)) 0)) unit_table = true.
Proof. vm_compute. reflexivity. Qed.

Lemma lookup_nonzero u c f : lookup_unit u = Some (c, f) -> ~ (f == 0)%Q.
Proof.
  unfold lookup_unit. destruct (find (fun e => fst e =? u) unit_table) as [e|] eqn:F; [|discriminate].
  intros [= E]. apply find_some in F as [Hin _].
  pose proof (proj1 (forallb_forall _ _) units_factors_nonzero e Hin) as K.
  cbn beta in K. rewrite E in K. cbn [snd] in K. intros Hz. apply Qeq_bool_iff in Hz. rewrite Hz in K. discriminate.
Qed.

(* unit conversion round-trips within its category (exact arithmetic) *)
Theorem convert_roundtrip v a b w : convert v a b = Some w ->
  exists v', convert w b a = Some v' /\ (v' == v)%Q.
Proof.
  unfold convert. destruct (Z.eqb_spec a b) as [->|Hab].
  - intros [= <-]. rewrite Z.eqb_refl. exists v. split; [reflexivity|apply Qeq_refl].
  - destruct (lookup_unit a) as [[c1 f1]|] eqn:La; [|discriminate].
    destruct (lookup_unit b) as [[c2 f2]|] eqn:Lb; [|discriminate].
    destruct (Z.eqb_spec c1 c2) as [->|Hc]; [|discriminate]. intros [= <-].
    destruct (Z.eqb_spec b a) as [Hba|_]; [congruence|]. rewrite Z.eqb_refl.
    eexists. split; [reflexivity|].
    pose proof (lookup_nonzero _ _ _ La). pose proof (lookup_nonzero _ _ _ Lb). field. split; assumption.
Qed.

(* and fails in one direction exactly when it fails in the other *)
Theorem convert_error_symmetric v w a b : convert v a b = None -> convert w b a = None.
Proof.
  unfold convert. destruct (Z.eqb_spec a b) as [->|Hab]; [discriminate|].
  destruct (Z.eqb_spec b a) as [Hba|_]; [congruence|].
  destruct (lookup_unit a) as [[c1 f1]|], (lookup_unit b) as [[c2 f2]|]; try reflexivity; try discriminate.
  rewrite (Z.eqb_sym c2 c1). destruct (c1 =? c2); [discriminate|reflexivity].
Qed.

Theorem convert_same_unit v a : convert v a a = Some v.
Proof. unfold convert. now rewrite Z.eqb_refl. Qed.

(* ---- DispenseInstantly is the rule of the property ---- *)
Theorem dispense_is_spec pre q : dispense pre q = dispense_spec pre q.
Proof.
  unfold dispense, dispense_gen, dispense_spec, dispense_spec_with. destruct pre as [s|]; [|reflexivity].
  unfold update_stock, upd_used, omap, spec_used_with, spec_rem_with.
  destruct (s_used s) as [u|]; destruct (s_rem s) as [r|];
    repeat match goal with |- context [convert ?a ?b ?c] => destruct (convert a b c) end; reflexivity.
Qed.

(* conversion errors are reported and leave the stock unchanged *)
Theorem dispense_error_reported s q :
  update_stock q s = UErr -> dispense (Some s) q = (VErr 3, Some s).
Proof. unfold dispense, dispense_gen. now intros ->. Qed.

Theorem dispense_error_iff s q :
  update_stock q s = UErr <->
  (exists u, s_used s = Some u /\ convert (q_amount q) (q_unit q) (q_unit u) = None) \/
  (exists r, s_rem s = Some r /\ convert (q_amount q) (q_unit q) (q_unit r) = None).
Proof.
  unfold update_stock, upd_used. destruct (s_used s) as [u|]; destruct (s_rem s) as [r|];
    repeat match goal with |- context [convert ?a ?b ?c] => destruct (convert a b c) eqn:? end;
    split; intros H; try discriminate H; try reflexivity;
    try (destruct H as [[x [E K]]|[x [E K]]]; try discriminate E; injection E as <-; congruence);
    first [left; eexists; split; [reflexivity|assumption] | right; eexists; split; [reflexivity|assumption]].
Qed.

Theorem dispense_never_panics pre q : fst (dispense pre q) <> VPanic /\ fst (dispense pre q) <> VNilNil.
Proof. rewrite dispense_is_spec. unfold dispense_spec, dispense_spec_with. destruct pre as [s|]; cbn; [|split; discriminate].
  destruct (omap (spec_used_with convert q) (s_used s)), (omap (spec_rem_with convert q) (s_rem s)); cbn; split; discriminate. Qed.

(* ---- sequences: each quantity keeps its own unit and its presence; remaining never goes negative ---- *)
Definition unit_of (o : option qty) : option Z := match o with Some x => Some (q_unit x) | None => None end.
Definition rem_nonneg (s : option stock) : Prop :=
  match s with Some s => match s_rem s with Some r => (0 <= q_amount r)%Q | None => True end | None => True end.

Lemma floor0_nonneg a : (0 <= floor0 a)%Q.
Proof. unfold floor0, qneg. destruct (Qle_bool 0 a) eqn:E; cbn; [now apply Qle_bool_iff|apply Qle_refl]. Qed.

Definition same_shape (pre post : option stock) : Prop :=
  match pre, post with
  | Some s, Some s' => unit_of (s_used s') = unit_of (s_used s) /\ unit_of (s_rem s') = unit_of (s_rem s)
  | None, None => True
  | _, _ => False
  end.

Lemma same_shape_trans a b c : same_shape a b -> same_shape b c -> same_shape a c.
Proof. destruct a, b, c; cbn; try tauto. intros [A B] [C D]. split; congruence. Qed.

Lemma dispense_step_inv pre q :
  same_shape pre (snd (dispense pre q)) /\ (rem_nonneg pre -> rem_nonneg (snd (dispense pre q))).
Proof.
  rewrite dispense_is_spec. unfold dispense_spec, dispense_spec_with. destruct pre as [[[u|] [r|] sl sd]|]; cbn; try tauto;
  unfold spec_used_with, spec_rem_with;
    repeat match goal with |- context [convert ?a ?b ?c] => destruct (convert a b c) end; cbn; repeat split; auto;
    try (intros _; apply floor0_nonneg); try apply floor0_nonneg.
Qed.

Theorem vending_sequences qs : forall pre,
  same_shape pre (vrun pre qs) /\ (rem_nonneg pre -> rem_nonneg (vrun pre qs)).
Proof.
  unfold vrun. induction qs as [|q qs IH]; intros pre; cbn [fold_left].
  - split; [destruct pre; cbn; tauto|tauto].
  - destruct (dispense_step_inv pre q) as [A B]. destruct (IH (snd (dispense pre q))) as [C D].
    split; [eapply same_shape_trans; eauto|tauto].
Qed.

(* ---- the code as first written ---- *)
Definition L := 3. Definition M3 := 4. Definition KG := 6.
Lemma dispense_v0_wrong_unit :
  let pre := Some (mkStock (Some (mkQty L 1%Q)) (Some (mkQty M3 2%Q)) None false) in
  exists s', fst (dispense_v0 pre (mkQty L 1%Q)) = VStock s' /\ unit_of (s_rem s') = Some L.
Proof. eexists. split; vm_compute; reflexivity. Qed.
Lemma dispense_v0_panics :
  fst (dispense_v0 (Some (mkStock None (Some (mkQty L 5%Q)) None false)) (mkQty L 1%Q)) = VPanic.
Proof. vm_compute. reflexivity. Qed.
Lemma dispense_v0_swallows_error :
  fst (dispense_v0 (Some (mkStock (Some (mkQty L 1%Q)) None None false)) (mkQty KG 1%Q)) = VNilNil.
Proof. vm_compute. reflexivity. Qed.
