From SC Require Import Base.Prelude Traits.Str Traits.StrProofs Traits.Store.
Local Open Scope list_scope.

Section StoreProofs.
  Variables (R M : Type).
  Variable merge : M -> R -> R -> R.
  Variable mbad : M -> bool.
  Notation store := (store R).

  Lemma sfind_not_in k (s : store) : (forall x, In x (map fst s) -> slt k x = true) -> sfind k s = None.
  Proof.
    induction s as [|[k' v] s IH]; intros H; cbn; [reflexivity|].
    destruct (String.eqb_spec k' k) as [->|Hne].
    - specialize (H k (or_introl eq_refl)). now rewrite slt_irrefl in H.
    - apply IH. intros x Hx. apply H. now right.
  Qed.

  Lemma sput_keys k v (s : store) x : In x (map fst (sput k v s)) <-> x = k \/ In x (map fst s).
  Proof.
    induction s as [|[k' v'] s IH]; cbn; [intuition|].
    destruct (String.eqb_spec k' k) as [->|Hne]; cbn; [intuition|].
    destruct (slt k k'); cbn; [intuition|]. rewrite IH. intuition.
  Qed.

  Lemma sput_wf k v (s : store) : store_wf s = true -> store_wf (sput k v s) = true.
  Proof.
    unfold store_wf. induction s as [|[k' v'] s IH]; intros Hs; [reflexivity|].
    cbn [sput]. destruct (String.eqb_spec k' k) as [->|Hne]; [exact Hs|].
    destruct (slt k k') eqn:Hlt.
    - cbn [map fst] in *. apply ssorted_cons. split; [|exact Hs].
      apply ssorted_cons in Hs as [Hall _]. intros x [<-|Hx]; [exact Hlt|].
      apply (slt_trans _ k'); [exact Hlt|now apply Hall].
    - cbn [map fst] in *. apply ssorted_cons in Hs as [Hall Hs]. apply ssorted_cons. split; [|now apply IH].
      intros x Hx. apply sput_keys in Hx as [->|Hx]; [|now apply Hall].
      destruct (slt k' k) eqn:Hgt; [reflexivity|]. exfalso. apply Hne. symmetry. now apply slt_total.
  Qed.

  Lemma sdel_keys k (s : store) x : In x (map fst (sdel k s)) -> In x (map fst s).
  Proof.
    induction s as [|[k' v'] s IH]; cbn; [tauto|]. destruct (String.eqb k' k); cbn; [tauto|]. intuition.
  Qed.

  Lemma sdel_wf k (s : store) : store_wf s = true -> store_wf (sdel k s) = true.
  Proof.
    unfold store_wf. induction s as [|[k' v'] s IH]; intros Hs; [reflexivity|].
    cbn [sdel]. cbn [map fst] in Hs. apply ssorted_cons in Hs as [Hall Hs].
    destruct (String.eqb k' k); [exact Hs|]. cbn [map fst]. apply ssorted_cons. split; [|now apply IH].
    intros x Hx. apply Hall. now apply sdel_keys in Hx.
  Qed.

  Lemma sfind_sput k v (s : store) k' : store_wf s = true ->
    sfind k' (sput k v s) = if String.eqb k k' then Some v else sfind k' s.
  Proof.
    unfold store_wf. induction s as [|[k0 v0] s IH]; intros Hs; cbn [sput sfind].
    - reflexivity.
    - destruct (String.eqb_spec k0 k) as [->|Hne].
      + cbn [sfind]. now destruct (String.eqb k k').
      + destruct (slt k k0) eqn:Hlt; cbn [sfind]; [reflexivity|].
        cbn [map fst] in Hs. apply ssorted_cons in Hs as [_ Hs]. rewrite (IH Hs).
        destruct (String.eqb_spec k0 k') as [E|]; [|reflexivity].
        destruct (String.eqb_spec k k'); [congruence|reflexivity].
  Qed.

  Lemma sfind_sdel k (s : store) k' : store_wf s = true ->
    sfind k' (sdel k s) = if String.eqb k k' then None else sfind k' s.
  Proof.
    unfold store_wf. induction s as [|[k0 v0] s IH]; intros Hs; cbn [sdel sfind].
    - now destruct (String.eqb k k').
    - cbn [map fst] in Hs. apply ssorted_cons in Hs as [Hall Hs].
      destruct (String.eqb_spec k0 k) as [->|Hne].
      + destruct (String.eqb_spec k k') as [E|]; [|reflexivity]. rewrite <- E. now apply sfind_not_in.
      + cbn [sfind]. rewrite (IH Hs). destruct (String.eqb_spec k0 k') as [E|]; [|reflexivity].
        destruct (String.eqb_spec k k'); [congruence|reflexivity].
  Qed.

  (* one operation: the list stays key-sorted and duplicate free (so List is), and as a map it is the specification *)
  Theorem sstep_refines (s : store) o : store_wf s = true ->
    store_wf (snd (sstep merge mbad s o)) = true /\
    forall k, sfind k (snd (sstep merge mbad s o)) = fstep merge mbad (fun k => sfind k s) o k.
  Proof.
    intros Hs. destruct o as [name gen v|name v m|name allow]; cbn [sstep fstep].
    - destruct (sfind (create_id name gen) s) eqn:Hf; cbn [snd]; [now split|].
      split; [now apply sput_wf|]. intros k. unfold fupd. now apply sfind_sput.
    - destruct (String.eqb name EmptyString); cbn [orb snd]; [now split|].
      destruct (mbad m); cbn [snd]; [now split|].
      destruct (sfind name s) eqn:Hf; cbn [snd]; [|now split].
      split; [now apply sput_wf|]. intros k. unfold fupd. now apply sfind_sput.
    - destruct (sfind name s) eqn:Hf; cbn [snd].
      + split; [now apply sdel_wf|]. intros k. unfold fupd. now apply sfind_sdel.
      + split; [exact Hs|]. intros k. unfold fupd. destruct (String.eqb_spec name k) as [<-|]; [exact Hf|reflexivity].
  Qed.

  Lemma fstep_ext f g o : (forall k, f k = g k) -> forall k, fstep merge mbad f o k = fstep merge mbad g o k.
  Proof.
    intros H k. destruct o as [name gen v|name v m|name allow]; cbn [fstep]; unfold fupd.
    - rewrite <- (H (create_id name gen)). destruct (f (create_id name gen)); [apply H|]. now destruct (String.eqb _ k).
    - destruct (String.eqb name EmptyString || mbad m); [apply H|]. rewrite <- (H name).
      destruct (f name); [|apply H]. now destruct (String.eqb name k).
    - now destruct (String.eqb name k).
  Qed.

  Lemma frun_ext ops : forall f g, (forall k, f k = g k) -> forall k, frun merge mbad f ops k = frun merge mbad g ops k.
  Proof.
    unfold frun. induction ops as [|o ops IH]; intros f g H k; cbn [fold_left]; [apply H|].
    apply IH. now apply fstep_ext.
  Qed.

  (* every sequence of Create/Update/Delete *)
  Theorem store_sequences ops : forall s : store, store_wf s = true ->
    store_wf (srun merge mbad s ops) = true /\
    forall k, sfind k (srun merge mbad s ops) = frun merge mbad (fun k => sfind k s) ops k.
  Proof.
    unfold srun, frun. induction ops as [|o ops IH]; intros s Hs; cbn [fold_left]; [now split|].
    destruct (sstep_refines s o Hs) as [Hw Hf]. destruct (IH _ Hw) as [Hw' Hf']. split; [exact Hw'|].
    intros k. rewrite Hf'. apply (frun_ext ops). exact Hf.
  Qed.

  (* no operation has a panic outcome, and an operation only touches the record it names *)
  Theorem sstep_frame (s : store) o k : store_wf s = true ->
    k <> (match o with SCreate name gen _ => create_id name gen | SUpdate name _ _ => name | SDelete name _ => name end) ->
    sfind k (snd (sstep merge mbad s o)) = sfind k s.
  Proof.
    intros Hs Hk. destruct (sstep_refines s o Hs) as [_ Hf]. rewrite Hf.
    destruct o as [name gen v|name v m|name allow]; cbn [fstep]; unfold fupd.
    - destruct (sfind (create_id name gen) s); [reflexivity|]. destruct (String.eqb_spec (create_id name gen) k); [congruence|reflexivity].
    - destruct (String.eqb name EmptyString || mbad m); [reflexivity|]. destruct (sfind name s); [|reflexivity].
      destruct (String.eqb_spec name k); [congruence|reflexivity].
    - destruct (String.eqb_spec name k); [congruence|reflexivity].
  Qed.
End StoreProofs.
