From SC Require Import Base.Prelude Traits.FanSpeed.
Local Open Scope string_scope.
Local Open Scope Z_scope.

Lemma find_name_spec n : forall ps i j p, find_name n i ps = Some (j, p) ->
  0 <= j - i /\ nth_error ps (Z.to_nat (j - i)) = Some (n, p).
Proof.
  induction ps as [|[m q] r IH]; intros i j p; cbn [find_name]; [discriminate|].
  destruct (String.eqb_spec m n) as [->|Hne].
  - intros [= <- <-]. rewrite Z.sub_diag. split; [lia|reflexivity].
  - intros H. apply IH in H as [H1 H2]. split; [lia|].
    replace (j - i) with (Z.succ (j - (i + 1))) by lia. rewrite Z2Nat.inj_succ by lia. exact H2.
Qed.

Lemma find_pct_spec pct : forall ps i j m, find_pct pct i ps = Some (j, m) ->
  0 <= j - i /\ nth_error ps (Z.to_nat (j - i)) = Some (m, pct).
Proof.
  induction ps as [|[m q] r IH]; intros i j m'; cbn [find_pct]; [discriminate|].
  destruct (Z.eqb_spec q pct) as [->|Hne].
  - intros [= <- <-]. rewrite Z.sub_diag. split; [lia|reflexivity].
  - intros H. apply IH in H as [H1 H2]. split; [lia|].
    replace (j - i) with (Z.succ (j - (i + 1))) by lia. rewrite Z2Nat.inj_succ by lia. exact H2.
Qed.

Lemma find_pct_none pct : forall ps i, find_pct pct i ps = None -> existsb (fun p => snd p =? pct) ps = false.
Proof.
  induction ps as [|[m q] r IH]; intros i; cbn [find_pct existsb snd]; [reflexivity|].
  destruct (q =? pct); [discriminate|]. intros H. now rewrite (IH _ H).
Qed.

Lemma find_name_known n : forall ps i, existsb (fun p => String.eqb (fst p) n) ps = true -> find_name n i ps <> None.
Proof.
  induction ps as [|[m q] r IH]; intros i; cbn [find_name existsb fst]; [discriminate|].
  destruct (String.eqb m n); [discriminate|]. cbn. apply IH.
Qed.

Lemma wf_nth ps k n p : presets_wf ps = true -> nth_error ps k = Some (n, p) -> String.eqb n "" = false.
Proof.
  intros Hwf H. apply nth_error_In in H. unfold presets_wf in Hwf.
  rewrite forallb_forall in Hwf. specialize (Hwf _ H). cbn in Hwf. now apply negb_true_iff in Hwf.
Qed.

Lemma consistent_at ps i n p d : presets_wf ps = true -> 0 <= i -> nth_error ps (Z.to_nat i) = Some (n, p) ->
  fan_consistent ps (mkFan p n i d) = true.
Proof.
  intros Hwf Hi H. unfold fan_consistent. cbn [f_preset f_idx f_pct].
  rewrite (wf_nth _ _ _ _ Hwf H). unfold preset_at.
  destruct (Z.ltb_spec i 0); [lia|]. rewrite H. now rewrite String.eqb_refl, Z.eqb_refl.
Qed.

Lemma by_pct_consistent ps new : presets_wf ps = true -> fan_consistent ps (by_pct ps new) = true.
Proof.
  intros Hwf. unfold by_pct. destruct (find_pct (f_pct new) 0 ps) as [[i n]|] eqn:F.
  - apply find_pct_spec in F as [F1 F2]. rewrite Z.sub_0_r in *. now apply consistent_at.
  - unfold fan_consistent. cbn. now rewrite (find_pct_none _ _ _ F).
Qed.

Lemma clamp_range ps i : ps <> [] -> 0 <= clamp_idx ps i < zlen ps.
Proof.
  intros Hne. unfold clamp_idx, zlen. assert (0 < Z.of_nat (List.length ps)) by (destruct ps; [congruence|cbn; lia]).
  destruct (Z.geb_spec i (Z.of_nat (List.length ps))); [|destruct (Z.ltb_spec i 0); lia].
  destruct (Z.ltb_spec (Z.of_nat (List.length ps) - 1) 0); lia.
Qed.

Lemma by_idx_consistent ps new : presets_wf ps = true -> fan_consistent ps (by_idx ps new) = true.
Proof.
  intros Hwf. unfold by_idx. destruct ps as [|p0 r] eqn:E; [reflexivity|]. rewrite <- E in *.
  assert (ps <> []) as Hne by (rewrite E; discriminate).
  pose proof (clamp_range ps (f_idx new) Hne) as [C1 C2]. set (i := clamp_idx ps (f_idx new)) in *.
  unfold preset_at. destruct (Z.ltb_spec i 0); [lia|].
  destruct (nth_error ps (Z.to_nat i)) as [[n p]|] eqn:N.
  - now apply consistent_at.
  - apply nth_error_None in N. unfold zlen in C2. lia.
Qed.

Lemma by_idx_v0_agrees ps new : ps <> [] -> by_idx_v0 ps new = Some (by_idx ps new).
Proof.
  intros Hne. unfold by_idx_v0, by_idx. destruct ps as [|p0 r] eqn:E; [congruence|]. rewrite <- E in *.
  pose proof (clamp_range ps (f_idx new) Hne) as [C1 C2]. set (i := clamp_idx ps (f_idx new)) in *.
  unfold preset_at. destruct (Z.ltb_spec i 0); [lia|].
  destruct (nth_error ps (Z.to_nat i)) as [[n p]|] eqn:N; [reflexivity|].
  apply nth_error_None in N. unfold zlen in C2. lia.
Qed.

Lemma by_name_consistent ps new : presets_wf ps = true -> String.eqb (f_preset new) "" = false ->
  known_preset ps (f_preset new) = true -> fan_consistent ps (by_name ps new) = true.
Proof.
  intros Hwf Hn Hk. unfold known_preset in Hk. rewrite Hn in Hk. cbn in Hk.
  unfold by_name. destruct (find_name (f_preset new) 0 ps) as [[i p]|] eqn:F.
  - apply find_name_spec in F as [F1 F2]. rewrite Z.sub_0_r in *. now apply consistent_at.
  - exfalso. now apply (find_name_known _ _ 0 Hk).
Qed.

Lemma consistent_same ps a b : f_pct a = f_pct b -> f_preset a = f_preset b -> f_idx a = f_idx b ->
  fan_consistent ps a = fan_consistent ps b.
Proof. unfold fan_consistent. now intros -> -> ->. Qed.

(* DeriveValues re-establishes the consistency rule after every validated update *)
Theorem derive_consistent ps old new : presets_wf ps = true -> fan_consistent ps old = true ->
  known_preset ps (f_preset new) = true -> fan_consistent ps (derive ps old new) = true.
Proof.
  intros Hwf Hold Hk. unfold derive.
  destruct (String.eqb (f_preset new) "") eqn:En; cbn [negb andb orb].
  - destruct (f_idx old =? f_idx new); cbn [negb]; [|now apply by_idx_consistent].
    rewrite orb_true_r. now apply by_pct_consistent.
  - destruct (String.eqb_spec (f_preset old) (f_preset new)) as [Ep|Ep]; cbn [negb].
    + destruct (Z.eqb_spec (f_idx old) (f_idx new)) as [Ei|Ei]; cbn [negb]; [|now apply by_idx_consistent].
      destruct (Z.eqb_spec (f_pct old) (f_pct new)) as [Ec|Ec]; cbn [negb orb]; [|now apply by_pct_consistent].
      now rewrite <- (consistent_same ps old new).
    + now apply by_name_consistent.
Qed.

Theorem fan_update_consistent ps old req rel : presets_wf ps = true -> fan_consistent ps old = true ->
  fan_consistent ps (snd (fan_update ps old req rel)) = true.
Proof.
  intros Hwf Hold. unfold fan_update. destruct (known_preset ps (f_preset req)) eqn:K; cbn [negb snd]; [|assumption].
  apply derive_consistent; try assumption. unfold apply_relative. now destruct rel.
Qed.

Theorem fan_update_never_panics ps old req rel : fst (fan_update ps old req rel) <> FPanic.
Proof. unfold fan_update. destruct (known_preset ps (f_preset req)); cbn; discriminate. Qed.

Theorem fan_update_response_is_state ps old req rel f :
  fst (fan_update ps old req rel) = FOk f -> snd (fan_update ps old req rel) = f.
Proof. unfold fan_update. destruct (known_preset ps (f_preset req)); cbn; congruence. Qed.

(* every state reachable by any sequence of absolute and relative updates is consistent *)
Theorem fan_sequences ps ops : forall init, presets_wf ps = true -> fan_consistent ps init = true ->
  fan_consistent ps (fan_run ps init ops) = true.
Proof.
  unfold fan_run. induction ops as [|o ops IH]; intros init Hwf Hc; cbn [fold_left]; [assumption|].
  apply IH; [assumption|]. now apply fan_update_consistent.
Qed.

(* precedence: a named preset that differs from the stored one wins; otherwise a changed index; otherwise the percentage *)
Theorem derive_precedence ps old new :
  (String.eqb (f_preset new) "" = false -> f_preset old <> f_preset new -> derive ps old new = by_name ps new) /\
  ((f_preset new = "" \/ f_preset old = f_preset new) -> f_idx old <> f_idx new -> derive ps old new = by_idx ps new) /\
  ((f_preset new = "" \/ f_preset old = f_preset new) -> f_idx old = f_idx new -> f_pct old <> f_pct new ->
     derive ps old new = by_pct ps new).
Proof.
  unfold derive. repeat split.
  - intros -> Hne. cbn. destruct (String.eqb_spec (f_preset old) (f_preset new)); [contradiction|reflexivity].
  - intros Hp Hi. destruct (Z.eqb_spec (f_idx old) (f_idx new)); [contradiction|]. cbn [negb].
    destruct Hp as [-> | ->]; [now cbn|]. rewrite String.eqb_refl. cbn. now rewrite andb_false_r.
  - intros Hp -> Hc. rewrite Z.eqb_refl. cbn [negb]. destruct (Z.eqb_spec (f_pct old) (f_pct new)); [contradiction|].
    cbn [negb orb]. destruct Hp as [-> | ->]; [now cbn|]. rewrite String.eqb_refl. cbn. now rewrite andb_false_r.
Qed.

(* ---- the code as first written ---- *)
Definition default_presets : list preset := [("off", 0); ("low", 15); ("med", 40); ("high", 75); ("full", 100)]%string.

(* setting only the percentage while a preset is active leaves index 0 with an empty preset name *)
Lemma derive_v0_inconsistent :
  let old := mkFan 0 "off" 0 1 in
  fan_consistent default_presets old = true /\
  exists new, fan_update_v0 default_presets old (mkFan 40 "" 0 1) false = (FOk new, new)
              /\ fan_consistent default_presets new = false.
Proof. split; [reflexivity|]. eexists. split; vm_compute; reflexivity. Qed.

(* a relative index step from an active preset is not followed by its preset and percentage *)
Lemma derive_v0_relative_inconsistent :
  exists new, fan_update_v0 default_presets (mkFan 15 "low" 1 1) (mkFan 0 "" 1 1) true = (FOk new, new)
              /\ fan_consistent default_presets new = false.
Proof. eexists. split; vm_compute; reflexivity. Qed.

(* a model configured with no presets panics on an index update *)
Lemma derive_v0_panics : fst (fan_update_v0 [] (mkFan 0 "" (-1) 1) (mkFan 0 "" 0 1) false) = FPanic.
Proof. vm_compute. reflexivity. Qed.
