(* Model of the option plumbing shared by the trait model constructors
   (vendingpb, publicationpb, electricpb, fanspeedpb, enterleavesensorpb model_opts.go + resource/opt.go):

     calcModelArgs: args.apply(DefaultModelOptions...); args.apply(opts...)
     apply: a ModelOption runs its function on the args (append its resource options to the list of the
            resource it targets, or store a model setting such as the preset list); any other option is
            appended to the option list of EVERY resource of the model
     NewModel: one resource.NewCollection / resource.NewValue per option list
     computeConfig: the options are applied in order; WithInitialRecord panics on a duplicate id,
            WithInitialValue overwrites, the other options do not touch the initial content.

   Record and value payloads are opaque strings (the harness renders the messages canonically). *)
From SC Require Import Base.Prelude Traits.Str.

Inductive ropt :=
| OPlain (k : Z)                        (* WithClock / WithRNG / WithNoDuplicates / WithEquivalence / EmptyOption ... *)
| OInitRecord (id : string) (v : string)
| OInitValue (v : string).

Inductive mopt :=
| MAll (o : ropt)                       (* a plain resource option given to NewModel *)
| MTarget (r : nat) (os : list ropt)    (* With<Resource>Option(os...), WithInitial<Record>(...) *)
| MEvery (os : list ropt)               (* electricpb.WithClock / WithRNG: appended to every resource by a model option *)
| MSetting (k : nat) (v : string).      (* fanspeedpb.WithPresets: a model level setting, the last one wins *)

(* ---- the code: modelArgs holds one option list per resource; apply appends ---- *)
Definition args := list (list ropt).
Fixpoint app_at (r : nat) (os : list ropt) (a : args) : args :=
  match a, r with
  | [], _ => []
  | l :: rest, O => (l ++ os) :: rest
  | l :: rest, S r' => l :: app_at r' os rest
  end.
Definition apply1 (a : args) (o : mopt) : args :=
  match o with
  | MAll x => map (fun l => l ++ [x]) a
  | MTarget r os => app_at r os a
  | MEvery os => map (fun l => l ++ os) a
  | MSetting _ _ => a
  end.
Definition calc_args (nres : nat) (opts : list mopt) : args := fold_left apply1 opts (repeat [] nres).

(* ---- the specification: resource r gets, in argument order, the plain options and the ones targeted at it ---- *)
Definition route (r : nat) (opts : list mopt) : list ropt :=
  flat_map (fun o => match o with
                     | MAll x => [x]
                     | MTarget r' os => if Nat.eqb r' r then os else []
                     | MEvery os => os
                     | MSetting _ _ => []
                     end) opts.

Fixpoint setting (k : nat) (dflt : option string) (opts : list mopt) : option string :=
  match opts with
  | [] => dflt
  | MSetting k' v :: rest => setting k (if Nat.eqb k' k then Some v else dflt) rest
  | _ :: rest => setting k dflt rest
  end.

(* ---- resource.computeConfig + NewCollection / NewValue ---- *)
Record rstate := mkRS { rs_records : list (string * string); rs_value : option string }.
Fixpoint lookup (id : string) (l : list (string * string)) : option string :=
  match l with [] => None | (k, v) :: r => if String.eqb k id then Some v else lookup id r end.
(* None: WithInitialRecord panicked *)
Fixpoint build_from (s : rstate) (os : list ropt) : option rstate :=
  match os with
  | [] => Some s
  | OPlain _ :: r => build_from s r
  | OInitRecord id v :: r =>
      match lookup id (rs_records s) with
      | Some _ => None
      | None => build_from (mkRS (rs_records s ++ [(id, v)]) (rs_value s)) r
      end
  | OInitValue v :: r => build_from (mkRS (rs_records s) (Some v)) r
  end.
Definition build (os : list ropt) : option rstate := build_from (mkRS [] None) os.

Fixpoint all_some {A} (l : list (option A)) : option (list A) :=
  match l with
  | [] => Some []
  | None :: _ => None
  | Some x :: r => match all_some r with Some r' => Some (x :: r') | None => None end
  end.

(* the constructed model: one resource state per resource, None if construction panics *)
Definition new_model_code (nres : nat) (dflt opts : list mopt) : option (list rstate) :=
  all_some (map build (calc_args nres (dflt ++ opts))).
Definition new_model_spec (nres : nat) (dflt opts : list mopt) : option (list rstate) :=
  all_some (map (fun r => build (route r (dflt ++ opts))) (seq 0 nres)).

(* ---- what a configuration asks for ---- *)
Definition record_ids (os : list ropt) : list string :=
  flat_map (fun o => match o with OInitRecord id _ => [id] | _ => [] end) os.
Fixpoint nodup_strs' (l : list string) : bool :=
  match l with [] => true | x :: r => negb (smem x r) && nodup_strs' r end.
Fixpoint last_value (dflt : option string) (os : list ropt) : option string :=
  match os with
  | [] => dflt
  | OInitValue v :: r => last_value (Some v) r
  | _ :: r => last_value dflt r
  end.
(* well formed: no resource is given two initial records with one id (documented to panic) *)
Definition config_wf (nres : nat) (opts : list mopt) : bool :=
  forallb (fun r => nodup_strs' (record_ids (route r opts))) (seq 0 nres).

(* ---- the default options of each model (model_opts.go DefaultModelOptions), payloads as rendered by the harness ---- *)
Definition M_VENDING := 0. Definition M_PUBLICATION := 1. Definition M_ELECTRIC := 2.
Definition M_FAN := 3. Definition M_ENTERLEAVE := 4.
Definition model_nres (m : Z) : nat :=
  if m =? M_VENDING then 2%nat else if m =? M_ELECTRIC then 3%nat else 1%nat.
