From SC Require Import Base.Prelude Traits.EnterLeave.

Definition small (c : Z * Z) : Prop := 0 <= fst c < 2147483647 /\ 0 <= snd c < 2147483647.

Lemma wrap32_small z : -2147483648 <= z <= 2147483647 -> wrap32 z = z.
Proof. intros H. unfold wrap32. rewrite Z.mod_small by lia. lia. Qed.

Lemma el_step_counts cur o :
  -2147483648 <= tot (el_enter cur) < 2147483647 -> -2147483648 <= tot (el_leave cur) < 2147483647 ->
  let c := count_step (tot (el_enter cur), tot (el_leave cur)) o in
  el_enter (el_step cur o) = Some (fst c) /\ el_leave (el_step cur o) = Some (snd c).
Proof.
  intros He Hl. destruct o as [e|]; cbn [el_step count_step el_enter el_leave fst snd]; [|split; reflexivity].
  unfold adjust_total. fold (tot (el_enter cur)). fold (tot (el_leave cur)).
  rewrite !wrap32_small by lia.
  split; [destruct (el_enter e) as [v|]|destruct (el_leave e) as [v|]];
    try destruct (v =? _); cbn [negb]; reflexivity.
Qed.

(* the totals are always present after an operation and follow the two-counter specification,
   for every sequence of events and resets (as long as the counters stay below 2^31 - 1) *)
Theorem el_sequences ops : forall cur,
  (forall k, let c := counts (tot (el_enter cur), tot (el_leave cur)) (firstn k ops) in
             -2147483648 <= fst c < 2147483647 /\ -2147483648 <= snd c < 2147483647) ->
  tot (el_enter (el_run cur ops)) = fst (counts (tot (el_enter cur), tot (el_leave cur)) ops) /\
  tot (el_leave (el_run cur ops)) = snd (counts (tot (el_enter cur), tot (el_leave cur)) ops).
Proof.
  unfold el_run, counts. induction ops as [|o ops IH]; intros cur Hb; cbn [fold_left]; [split; reflexivity|].
  pose proof (Hb 0%nat) as H0. cbn in H0.
  destruct (el_step_counts cur o) as [E1 E2]; try lia.
  specialize (IH (el_step cur o)). rewrite E1, E2 in IH. cbn [tot] in IH.
  rewrite <- surjective_pairing in IH. apply IH.
  intros k. specialize (Hb (S k)). cbn [firstn fold_left] in Hb. exact Hb.
Qed.

(* without caller-supplied totals the counters are the numbers of ENTER / LEAVE events since the last reset
   (plus the initial totals if there was no reset) *)
Theorem counts_plain ops : forall (c : Z * Z) (a b : Z) (r : bool), Forall (fun o => plain o = true) ops ->
  fold_left count_step ops (if r then (a, b) else (fst c + a, snd c + b)) =
  let '(a', b', r') := fold_left (fun acc o => match o with
                          | ElReset => (0, 0, true)
                          | ElEvent e => let '(a, b, r) := acc in
                                         (if el_dir e =? ENTER then a + 1 else a, if el_dir e =? LEAVE then b + 1 else b, r)
                          end) ops (a, b, r) in
  if r' then (a', b') else (fst c + a', snd c + b').
Proof.
  induction ops as [|o ops IH]; intros c a b r Hp; cbn [fold_left]; [reflexivity|].
  inversion Hp as [|? ? Ho Hrest]; subst. destruct o as [e|].
  - destruct e as [d oc [en|] [lv|]]; cbn in Ho; try discriminate.
    rewrite <- (IH c _ _ r Hrest). f_equal. unfold count_step. cbn [el_enter el_leave el_dir].
    destruct r; cbn [fst snd]; destruct (d =? ENTER), (d =? LEAVE); f_equal; lia.
  - rewrite <- (IH c 0 0 true Hrest). reflexivity.
Qed.
