(* Model of pkg/trait/parentpb/model.go: AddChildTrait / RemoveChildTrait with
   traitUnion / traitRemove (binary search with sort.Search on the sorted trait slice).
   Trait lists are lists of names; a child is (name, traits); the children collection is
   listed in ascending name order (resource.Collection.List). *)
From SC Require Import Base.Prelude Traits.Str.

(* sort.Search(n, f): i, j := 0, n; for i < j { h := (i+j)/2; if !f(h) {i = h+1} else {j = h} }; return i *)
Fixpoint search_go (fuel : nat) (f : nat -> bool) (i j : nat) : nat :=
  match fuel with
  | O => i
  | S fuel' =>
      if Nat.ltb i j then
        let h := Nat.div2 (i + j) in
        if f h then search_go fuel' f i h else search_go fuel' f (S h) j
      else i
  end.
Definition search (n : nat) (f : nat -> bool) : nat := search_go (S n) f 0 n.

Definition name_at (l : list string) (i : nat) : string := nth i l EmptyString.

(* sort.Search(len(has), func(i) { return has[i].Name >= ts }) *)
Definition insert_index (has : list string) (ts : string) : nat :=
  search (List.length has) (fun i => sge (name_at has i) ts).

(* one iteration of traitUnion's loop *)
Definition union1 (has : list string) (ts : string) : list string :=
  let i := insert_index has ts in
  if Nat.eqb i (List.length has) then has ++ [ts]
  else if String.eqb (name_at has i) ts then has
  else firstn i has ++ ts :: skipn i has.
Definition trait_union (has more : list string) : list string := fold_left union1 more has.

(* traitRemove as first written: removes has[insertIndex] without checking it is the name asked for *)
Definition remove1_v0 (has : list string) (ts : string) : list string :=
  let i := insert_index has ts in
  if Nat.eqb i (List.length has) then has
  else firstn i has ++ skipn (S i) has.
Definition trait_remove_v0 (has rm : list string) : list string := fold_left remove1_v0 rm has.

(* traitRemove after the fix: exact-match test *)
Definition remove1 (has : list string) (ts : string) : list string :=
  let i := insert_index has ts in
  if Nat.eqb i (List.length has) || negb (String.eqb (name_at has i) ts) then has
  else firstn i has ++ skipn (S i) has.
Definition trait_remove (has rm : list string) : list string := fold_left remove1 rm has.

(* ---- the children collection ---- *)
Definition child := (string * list string)%type.
Definition children := list child.

Fixpoint find_child (n : string) (cs : children) : option (list string) :=
  match cs with
  | [] => None
  | (m, ts) :: r => if String.eqb n m then Some ts else find_child n r
  end.

(* replace or insert keeping ascending name order *)
Fixpoint put_child (n : string) (ts : list string) (cs : children) : children :=
  match cs with
  | [] => [(n, ts)]
  | (m, us) :: r =>
      if String.eqb n m then (n, ts) :: r
      else if slt n m then (n, ts) :: (m, us) :: r
      else (m, us) :: put_child n ts r
  end.

Inductive pop :=
| PAdd (child : string) (names : list string)      (* AddChildTrait *)
| PRemove (child : string) (names : list string).  (* RemoveChildTrait *)

(* result: the returned child's traits (None = nil returned) and the created flag *)
Definition pstep (cs : children) (o : pop) : children * (option (list string) * bool) :=
  match o with
  | PAdd n names =>
      match find_child n cs with
      | Some ts => let ts' := trait_union ts names in (put_child n ts' cs, (Some ts', false))
      | None => let ts' := trait_union [] names in (put_child n ts' cs, (Some ts', true))
      end
  | PRemove n names =>
      match find_child n cs with
      | Some ts => let ts' := trait_remove ts names in (put_child n ts' cs, (Some ts', false))
      | None => (cs, (None, false))
      end
  end.

Definition pstep_v0 (cs : children) (o : pop) : children * (option (list string) * bool) :=
  match o with
  | PRemove n names =>
      match find_child n cs with
      | Some ts => let ts' := trait_remove_v0 ts names in (put_child n ts' cs, (Some ts', false))
      | None => (cs, (None, false))
      end
  | _ => pstep cs o
  end.

Definition prun (cs : children) (ops : list pop) : children := fold_left (fun s o => fst (pstep s o)) ops cs.

(* ---- specification: plain set algebra on membership ---- *)
Definition child_traits (n : string) (cs : children) : list string :=
  match find_child n cs with Some ts => ts | None => [] end.

(* is trait x a member of child n's set after the operations, given it was/wasn't before *)
Definition mem_step (n x : string) (b : bool) (o : pop) : bool :=
  match o with
  | PAdd m names => if String.eqb n m then b || smem x names else b
  | PRemove m names => if String.eqb n m then b && negb (smem x names) else b
  end.
Definition mem_after (n x : string) (b : bool) (ops : list pop) : bool := fold_left (mem_step n x) ops b.

(* the sorted duplicate-free list [out] is the set union / difference: stated by membership only *)
Definition set_ok_union (has more out : list string) : bool :=
  ssorted out && forallb (fun x => smem x out) (has ++ more) && forallb (fun x => smem x has || smem x more) out.
Definition set_ok_diff (has rm out : list string) : bool :=
  ssorted out && forallb (fun x => smem x rm || smem x out) has
  && forallb (fun x => smem x has && negb (smem x rm)) out.

Definition children_wf (cs : children) : bool := forallb (fun c => ssorted (snd c)) cs.
