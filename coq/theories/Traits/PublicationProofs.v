From SC Require Import Base.Prelude Traits.Publication.
Local Open Scope string_scope.
Local Open Scope Z_scope.

Section PubProofs.
  Variable hash : content -> string.

  Lemma computed_version now p : version_ok hash (Some (computed hash now p)).
  Proof. reflexivity. Qed.

  Lemma ack_apply_content now p r reason : content_of (ack_apply now p r reason) = content_of p.
  Proof. unfold content_of, ack_apply. cbn. now destruct (p_aud p). Qed.

  (* the version is the hash of the content after every operation *)
  Theorem pub_step_version now pre o : version_ok hash pre -> version_ok hash (snd (pub_step hash now pre o)).
  Proof.
    intros Hv. unfold pub_step, pub_step_gen. destruct o as [p|p mask version|id version receipt reason allow].
    - destruct pre; cbn; auto.
    - destruct (String.eqb (p_id p) ""); [exact Hv|]. destruct pre as [old|]; [|exact I].
      destruct (negb (String.eqb version "") && negb (String.eqb (p_version old) version)); [exact Hv|].
      apply computed_version.
    - destruct (String.eqb id "" || String.eqb version ""); [exact Hv|]. destruct pre as [old|]; [|exact I].
      destruct (negb (String.eqb (p_version old) version)); [exact Hv|].
      destruct (acked old); [destruct (true && allow); exact Hv|].
      cbn [snd version_ok]. rewrite ack_apply_content. exact Hv.
  Qed.

  Theorem pub_sequences ops : forall pre, version_ok hash pre -> version_ok hash (pub_run hash pre ops).
  Proof.
    unfold pub_run. induction ops as [|o ops IH]; intros pre Hv; cbn [fold_left]; [assumption|].
    apply IH. now apply pub_step_version.
  Qed.

  (* create and update mint the publish time and reset the receipt *)
  Theorem computed_resets now p :
    let n := computed hash now p in
    p_ptime n = Some now /\
    match p_aud n with Some a => a_receipt a = NO_SIGNAL /\ a_reason a = "" /\ a_rtime a = None | None => p_aud p = None end
    /\ acked n = false.
  Proof. unfold computed, acked. cbn. destruct (p_aud p); cbn; auto. Qed.

  (* acknowledge protocol *)
  Theorem ack_first now old id receipt reason allow :
    id <> "" -> p_version old <> "" -> acked old = false ->
    pub_step hash now (Some old) (PAck id (p_version old) receipt reason allow)
    = (POk (ack_apply now old receipt reason), Some (ack_apply now old receipt reason)).
  Proof.
    intros Hid Hv Ha. unfold pub_step, pub_step_gen.
    destruct (String.eqb_spec id ""); [contradiction|]. destruct (String.eqb_spec (p_version old) ""); [contradiction|].
    cbn [orb]. rewrite String.eqb_refl, Ha. reflexivity.
  Qed.

  Theorem ack_twice now old id receipt reason allow :
    id <> "" -> p_version old <> "" -> acked old = true ->
    pub_step hash now (Some old) (PAck id (p_version old) receipt reason allow)
    = (if allow then POk old else PErr 9, Some old).
  Proof.
    intros Hid Hv Ha. unfold pub_step, pub_step_gen.
    destruct (String.eqb_spec id ""); [contradiction|]. destruct (String.eqb_spec (p_version old) ""); [contradiction|].
    cbn [orb]. rewrite String.eqb_refl, Ha. cbn. now destruct allow.
  Qed.

  Theorem ack_marks now old receipt reason : (receipt = ACCEPTED \/ receipt = REJECTED) ->
    acked (ack_apply now old receipt reason) = true /\ p_version (ack_apply now old receipt reason) = p_version old
    /\ p_ptime (ack_apply now old receipt reason) = p_ptime old.
  Proof. intros [-> | ->]; repeat split. Qed.

  Theorem ack_stale now old id version receipt reason allow :
    id <> "" -> version <> "" -> version <> p_version old ->
    pub_step hash now (Some old) (PAck id version receipt reason allow) = (PErr 10, Some old).
  Proof.
    intros Hid Hv Hne. unfold pub_step, pub_step_gen.
    destruct (String.eqb_spec id ""); [contradiction|]. destruct (String.eqb_spec version ""); [contradiction|].
    cbn [orb]. destruct (String.eqb_spec (p_version old) version); [congruence|]. reflexivity.
  Qed.

  (* with a collision-free hash an update that changes the content changes the version, so
     acknowledgements of the old version are refused *)
  Theorem update_changes_version now old p mask v n :
    (forall a b, hash a = hash b -> a = b) -> version_ok hash (Some old) ->
    pub_step hash now (Some old) (PUpdate p mask v) = (POk n, Some n) ->
    (p_version n = p_version old <-> content_of n = content_of old).
  Proof.
    intros Hinj Hold Hstep. pose proof (pub_step_version now (Some old) (PUpdate p mask v) Hold) as Hn.
    rewrite Hstep in Hn. cbn in Hn, Hold. rewrite Hn, Hold. split; [apply Hinj|congruence].
  Qed.
End PubProofs.

(* as first written allow_acknowledged has no effect *)
Lemma ack_v0_ignores_allow :
  let old := mkPub "p" "v" "b" "" (Some (mkAud "a" ACCEPTED "" (Some 1))) (Some 0) in
  forall hash, fst (pub_step_v0 hash 7 (Some old) (PAck "p" "v" ACCEPTED "" true)) = PErr 9.
Proof. reflexivity. Qed.
