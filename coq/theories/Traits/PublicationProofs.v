From SC Require Import Base.Prelude Traits.Publication.
Local Open Scope string_scope.
Local Open Scope Z_scope.

Section PubProofs.
  Variable hash : content -> string.

  Lemma computed_version now p : version_ok hash (Some (computed hash now p)).
  Proof. reflexivity. Qed.

  Lemma ack_apply_content now p r reason : content_of (ack_apply now p r reason) = content_of p.
  Proof. unfold content_of, ack_apply. cbn. now destruct (p_aud p). Qed.

  (* the version is the hash of the content after every operation, whatever the update mask *)
  Theorem pub_step_version now pre o : version_ok hash pre -> version_ok hash (snd (pub_step hash now pre o)).
  Proof.
    intros Hv. unfold pub_step, pub_step_gen.
    destruct o as [p|p mask version|id version allow_missing|id version receipt reason allow].
    - destruct pre; cbn; auto.
    - destruct (String.eqb (p_id p) ""); [exact Hv|].
      destruct (match mask with Some k => k_bad k | None => false end); [exact Hv|].
      destruct pre as [old|]; [|exact I].
      destruct (negb (String.eqb version "") && negb (String.eqb (p_version old) version)); [exact Hv|].
      apply computed_version.
    - destruct (String.eqb id ""); [exact Hv|]. destruct pre as [old|]; [|destruct allow_missing; exact I].
      destruct (negb (String.eqb version "") && negb (String.eqb (p_version old) version)); [exact Hv|exact I].
    - destruct (String.eqb id "" || String.eqb version ""); [exact Hv|]. destruct pre as [old|]; [|exact I].
      destruct (negb (String.eqb (p_version old) version)); [exact Hv|].
      destruct (acked old); [destruct (true && allow); exact Hv|].
      cbn [snd version_ok]. rewrite ack_apply_content. exact Hv.
  Qed.

  Theorem pub_sequences ops : forall pre, version_ok hash pre -> version_ok hash (pub_run hash pre ops).
  Proof.
    unfold pub_run. induction ops as [|o ops IH]; intros pre Hv; cbn [fold_left]; [assumption|].
    apply IH. now apply pub_step_version.
  Qed.

  (* one step of a history: minted versions are hashes of the stored content; stale acknowledgements are refused *)
  Theorem pub_step_law now s o : version_ok hash s -> step_law hash now s o.
  Proof.
    intros Hv. unfold step_law, pub_step, pub_step_gen.
    destruct o as [p|p mask version|id version allow_missing|id version receipt reason allow].
    - intros n. destruct s; cbn [fst snd]; [discriminate|]. intros [= <-]. split; reflexivity.
    - intros n. destruct (String.eqb (p_id p) ""); [discriminate|].
      destruct (match mask with Some k => k_bad k | None => false end); [discriminate|].
      destruct s as [old|]; [|discriminate].
      destruct (negb (String.eqb version "") && negb (String.eqb (p_version old) version)); [discriminate|].
      cbn [fst snd]. intros [= <-]. split; reflexivity.
    - intros n. destruct (String.eqb id ""); [discriminate|]. destruct s as [old|]; [|destruct allow_missing; discriminate].
      destruct (negb (String.eqb version "") && negb (String.eqb (p_version old) version)); [discriminate|].
      cbn [fst snd]. intros [= <-]. split; reflexivity.
    - intros old -> Hid Hver Hstale. cbn in Hv.
      destruct (String.eqb_spec id ""); [contradiction|]. destruct (String.eqb_spec version ""); [contradiction|].
      cbn [orb]. destruct (String.eqb_spec (p_version old) version); [congruence|]. reflexivity.
  Qed.

  Theorem pub_history ops : forall s, version_ok hash s -> history_law hash s ops.
  Proof.
    induction ops as [|[o now] ops IH]; intros s Hv; cbn [history_law]; [exact I|]. split.
    - now apply pub_step_law.
    - apply IH. now apply pub_step_version.
  Qed.

  (* a masked update leaves the fields the mask does not name alone and takes the named ones from the request *)
  Theorem merge_pub_fields k old p : pm_empty k = false ->
    p_body (merge_pub (Some k) old p) = (if k_body k then p_body p else p_body old) /\
    p_media (merge_pub (Some k) old p) = (if k_media k then p_media p else p_media old) /\
    p_id (merge_pub (Some k) old p) = (if k_id k then p_id p else p_id old) /\
    (k_aud k = false -> k_aname k = true -> forall sa, p_aud p = Some sa ->
       exists a, p_aud (merge_pub (Some k) old p) = Some a /\ a_name a = a_name sa) /\
    (k_aud k = false -> k_aname k = false -> 
       match p_aud old with Some da => exists a, p_aud (merge_pub (Some k) old p) = Some a /\ a_name a = a_name da
                          | None => True end).
  Proof.
    intros He. unfold merge_pub. rewrite He. cbn [p_body p_media p_id p_aud]. repeat split.
    - intros Ha Hn sa Hs. rewrite Ha, Hn. cbn [orb]. unfold masked_aud. rewrite Hs, Hn.
      destruct (p_aud old); eexists; split; reflexivity.
    - intros Ha Hn. rewrite Ha, Hn. cbn [orb]. destruct (p_aud old) as [da|] eqn:Hd; [|exact I].
      destruct (k_areceipt k || k_areason k || k_artime k).
      + unfold masked_aud. rewrite Hn. destruct (p_aud p); eexists; split; reflexivity.
      + eexists; split; reflexivity.
  Qed.

  (* create and update mint the publish time and reset the receipt *)
  Theorem computed_resets now p :
    let n := computed hash now p in
    p_ptime n = Some now /\
    match p_aud n with Some a => a_receipt a = NO_SIGNAL /\ a_reason a = "" /\ a_rtime a = None | None => p_aud p = None end
    /\ acked n = false.
  Proof. unfold computed, acked. cbn. destruct (p_aud p); cbn; auto. Qed.

  (* acknowledge protocol *)
  Theorem ack_first now old id receipt reason allow :
    id <> "" -> p_version old <> "" -> acked old = false ->
    pub_step hash now (Some old) (PAck id (p_version old) receipt reason allow)
    = (POk (ack_apply now old receipt reason), Some (ack_apply now old receipt reason)).
  Proof.
    intros Hid Hv Ha. unfold pub_step, pub_step_gen.
    destruct (String.eqb_spec id ""); [contradiction|]. destruct (String.eqb_spec (p_version old) ""); [contradiction|].
    cbn [orb]. rewrite String.eqb_refl, Ha. reflexivity.
  Qed.

  Theorem ack_twice now old id receipt reason allow :
    id <> "" -> p_version old <> "" -> acked old = true ->
    pub_step hash now (Some old) (PAck id (p_version old) receipt reason allow)
    = (if allow then POk old else PErr 9, Some old).
  Proof.
    intros Hid Hv Ha. unfold pub_step, pub_step_gen.
    destruct (String.eqb_spec id ""); [contradiction|]. destruct (String.eqb_spec (p_version old) ""); [contradiction|].
    cbn [orb]. rewrite String.eqb_refl, Ha. cbn. now destruct allow.
  Qed.

  Theorem ack_marks now old receipt reason : (receipt = ACCEPTED \/ receipt = REJECTED) ->
    acked (ack_apply now old receipt reason) = true /\ p_version (ack_apply now old receipt reason) = p_version old
    /\ p_ptime (ack_apply now old receipt reason) = p_ptime old.
  Proof. intros [-> | ->]; repeat split. Qed.

  Theorem ack_stale now old id version receipt reason allow :
    id <> "" -> version <> "" -> version <> p_version old ->
    pub_step hash now (Some old) (PAck id version receipt reason allow) = (PErr 10, Some old).
  Proof.
    intros Hid Hv Hne. unfold pub_step, pub_step_gen.
    destruct (String.eqb_spec id ""); [contradiction|]. destruct (String.eqb_spec version ""); [contradiction|].
    cbn [orb]. destruct (String.eqb_spec (p_version old) version); [congruence|]. reflexivity.
  Qed.

  (* with a collision-free hash an update that changes the content changes the version, so
     acknowledgements of the old version are refused *)
  Theorem update_changes_version now old p mask v n :
    (forall a b, hash a = hash b -> a = b) -> version_ok hash (Some old) ->
    pub_step hash now (Some old) (PUpdate p mask v) = (POk n, Some n) ->
    (p_version n = p_version old <-> content_of n = content_of old).
  Proof.
    intros Hinj Hold Hstep. pose proof (pub_step_version now (Some old) (PUpdate p mask v) Hold) as Hn.
    rewrite Hstep in Hn. cbn in Hn, Hold. rewrite Hn, Hold. split; [apply Hinj|congruence].
  Qed.

  (* the version a client saw before a content-changing update is refused afterwards (any mask) *)
  Theorem stale_ack_after_update now now' old p mask v n id receipt reason allow :
    (forall a b, hash a = hash b -> a = b) -> version_ok hash (Some old) ->
    pub_step hash now (Some old) (PUpdate p mask v) = (POk n, Some n) ->
    content_of n <> content_of old -> id <> "" -> p_version old <> "" ->
    pub_step hash now' (Some n) (PAck id (p_version old) receipt reason allow) = (PErr 10, Some n).
  Proof.
    intros Hinj Hold Hstep Hc Hid Hv. apply ack_stale; try assumption.
    intros Heq. apply Hc. apply (update_changes_version now old p mask v n Hinj Hold Hstep). now symmetry.
  Qed.
End PubProofs.

(* as first written allow_acknowledged has no effect *)
Lemma ack_v0_ignores_allow :
  let old := mkPub "p" "v" "b" "" (Some (mkAud "a" ACCEPTED "" (Some 1))) (Some 0) in
  forall hash, fst (pub_step_v0 hash 7 (Some old) (PAck "p" "v" ACCEPTED "" true)) = PErr 9.
Proof. reflexivity. Qed.

(* a masked update of the audience name alone changes the content, hence (collision-free hash) the version *)
Example masked_audience_update_changes_version :
  let hash := fun c : content => let '(a, b, m, n) := c in append a (append b (append m n)) in
  let old := computed hash 1 (mkPub "p" "" "x" "t" (Some (mkAud "alice" 0 "" None)) None) in
  exists n, pub_step hash 2 (Some old) (PUpdate (mkPub "p" "" "" "" (Some (mkAud "bob" 0 "" None)) None) (Some pm_aname) "")
            = (POk n, Some n) /\ p_version n = "pxtbob" /\ p_version old = "pxtalice" /\ p_body n = "x".
Proof. eexists. repeat split. Qed.
