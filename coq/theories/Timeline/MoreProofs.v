(* Second-wave proofs: the cut order, cutPeriod, MaxMagnitude, MaxAfter, MinAt under any map
   iteration order, Sum's law under its exact guard, and the bound behind the float32 guard. *)
From Coq Require Import Permutation.
From SC Require Import Base.Prelude Timeline.Timestamp Timeline.Segment Timeline.Mode Timeline.Own Timeline.Wrap
  Timeline.TimestampProofs Timeline.SegmentProofs Timeline.ShiftSumProofs Timeline.ModeProofs Timeline.C18Judge.

Local Arguments Z.add : simpl never.
Local Arguments Z.sub : simpl never.
Local Arguments Z.mul : simpl never.

(* ---- the order of cuts ---- *)
Lemma sgn_cmp_cases a b :
  (a < b /\ sgn_cmp a b = -1) \/ (a = b /\ sgn_cmp a b = 0) \/ (a > b /\ sgn_cmp a b = 1).
Proof. unfold sgn_cmp. destruct (Z.compare_spec a b); lia. Qed.

Lemma lex3_le a1 a2 a3 b1 b2 b3 :
  lex3 (a1, a2, a3) (b1, b2, b3) <= 0 <-> (a1 < b1 \/ (a1 = b1 /\ (a2 < b2 \/ (a2 = b2 /\ a3 <= b3)))).
Proof.
  unfold lex3. destruct (Z.eqb_spec a1 b1) as [E1|E1]; simpl.
  - destruct (Z.eqb_spec a2 b2) as [E2|E2]; simpl.
    + destruct (sgn_cmp_cases a3 b3) as [[L ->]|[[L ->]|[L ->]]]; lia.
    + destruct (sgn_cmp_cases a2 b2) as [[L ->]|[[L ->]|[L ->]]]; lia.
  - destruct (sgn_cmp_cases a1 b1) as [[L ->]|[[L ->]|[L ->]]]; lia.
Qed.
Lemma lex3_antisym x y : lex3 x y = - lex3 y x.
Proof.
  destruct x as [[a1 a2] a3], y as [[b1 b2] b3]. unfold lex3.
  destruct (Z.eqb_spec a1 b1) as [E1|E1]; destruct (Z.eqb_spec b1 a1) as [F1|F1]; try lia; simpl.
  - destruct (Z.eqb_spec a2 b2) as [E2|E2]; destruct (Z.eqb_spec b2 a2) as [F2|F2]; try lia; simpl.
    + destruct (sgn_cmp_cases a3 b3) as [[L ->]|[[L ->]|[L ->]]]; destruct (sgn_cmp_cases b3 a3) as [[K ->]|[[K ->]|[K ->]]]; lia.
    + destruct (sgn_cmp_cases a2 b2) as [[L ->]|[[L ->]|[L ->]]]; destruct (sgn_cmp_cases b2 a2) as [[K ->]|[[K ->]|[K ->]]]; lia.
  - destruct (sgn_cmp_cases a1 b1) as [[L ->]|[[L ->]|[L ->]]]; destruct (sgn_cmp_cases b1 a1) as [[K ->]|[[K ->]|[K ->]]]; lia.
Qed.
Lemma lex3_sign x y : lex3 x y = -1 \/ lex3 x y = 0 \/ lex3 x y = 1.
Proof.
  destruct x as [[a1 a2] a3], y as [[b1 b2] b3]. unfold lex3.
  destruct (negb (a1 =? b1)); [|destruct (negb (a2 =? b2))];
  match goal with |- context [sgn_cmp ?a ?b] => destruct (sgn_cmp_cases a b) as [[L ->]|[[L ->]|[L ->]]] end; lia.
Qed.
Lemma lex3_zero x y : lex3 x y = 0 <-> x = y.
Proof.
  destruct x as [[a1 a2] a3], y as [[b1 b2] b3]. unfold lex3.
  destruct (Z.eqb_spec a1 b1) as [E1|E1]; simpl.
  - destruct (Z.eqb_spec a2 b2) as [E2|E2]; simpl.
    + destruct (sgn_cmp_cases a3 b3) as [[L ->]|[[L ->]|[L ->]]]; split; intros H; try lia; try (inversion H; lia). subst. reflexivity.
    + destruct (sgn_cmp_cases a2 b2) as [[L ->]|[[L ->]|[L ->]]]; split; intros H; try lia; inversion H; lia.
  - destruct (sgn_cmp_cases a1 b1) as [[L ->]|[[L ->]|[L ->]]]; split; intros H; try lia; inversion H; lia.
Qed.

Lemma compare_value_cuts_ref x ax that : ts_valid x = true -> cut_valid that = true ->
  compare_value_cuts x ax that = lex3 (0, ts_val x, if ax then 1 else 0) (cut_rank that).
Proof.
  intros Hx Ht. destruct that as [|t|t|]; try reflexivity; simpl in Ht;
  unfold compare_value_cuts; rewrite (compare_ascending_is_ref x t Hx Ht); unfold compare_ref, cut_rank, lex3;
  simpl (0 =? 0); simpl negb;
  destruct (Z.compare_spec (ts_val x) (ts_val t)) as [E|E|E]; simpl (negb _).
  all: try (rewrite E, Z.eqb_refl; simpl; destruct ax; reflexivity).
  all: destruct (Z.eqb_spec (ts_val x) (ts_val t)) as [F|F]; try lia; simpl;
       destruct (sgn_cmp_cases (ts_val x) (ts_val t)) as [[L ->]|[[L ->]|[L ->]]]; lia.
Qed.

Theorem cut_compare_is_ref a b : cut_valid a = true -> cut_valid b = true ->
  cut_compare a b = cut_ref_compare a b.
Proof.
  intros Ha Hb. unfold cut_ref_compare. destruct a as [|x|x|]; simpl in Ha.
  - destruct b; reflexivity.
  - simpl cut_compare. rewrite compare_value_cuts_ref by assumption. reflexivity.
  - simpl cut_compare. rewrite compare_value_cuts_ref by assumption. reflexivity.
  - destruct b; reflexivity.
Qed.

Lemma cut_rank_inj a b : cut_valid a = true -> cut_valid b = true -> cut_rank a = cut_rank b -> a = b.
Proof.
  intros Ha Hb H. destruct a as [|x|x|], b as [|y|y|]; simpl in *; try reflexivity; try (inversion H; fail);
  inversion H; f_equal; apply ts_val_inj; assumption.
Qed.

(* CompareTo is a total order on cuts, and it is the order of the positions they denote *)
Theorem cut_compare_total_order a b c :
  cut_valid a = true -> cut_valid b = true -> cut_valid c = true ->
  (cut_compare a b = -1 \/ cut_compare a b = 0 \/ cut_compare a b = 1) /\
  (cut_compare a b = 0 <-> a = b) /\
  cut_compare a b = - cut_compare b a /\
  (cut_compare a b <= 0 -> cut_compare b c <= 0 -> cut_compare a c <= 0).
Proof.
  intros Ha Hb Hc. rewrite !cut_compare_is_ref by assumption. unfold cut_ref_compare.
  split; [apply lex3_sign|]. split; [|split; [apply lex3_antisym|]].
  - rewrite lex3_zero. split; [apply cut_rank_inj; assumption|intros ->; reflexivity].
  - destruct (cut_rank a) as [[a1 a2] a3], (cut_rank b) as [[b1 b2] b3], (cut_rank c) as [[c1 c2] c3].
    rewrite !lex3_le. lia.
Qed.

(* cutPeriod: the lower cut sits at the start (or below everything), the upper at the end (or above everything) *)
Definition end_rank (o : option Z) (inf : Z) : Z * Z * Z := match o with None => (inf, 0, 0) | Some x => (0, x, 0) end.
Theorem cut_period_ranks p :
  cut_rank (fst (cut_period p)) = end_rank (period_lo p) (-1) /\
  cut_rank (snd (cut_period p)) = end_rank (period_hi p) 1.
Proof. unfold cut_period, period_lo, period_hi. destruct (pstart p), (pend p); simpl; split; reflexivity. Qed.

(* ---- MaxMagnitude ---- *)
Lemma fold_max_ge x r : forall y, In y (x :: r) -> y <= fold_right Z.max x r.
Proof.
  induction r as [|z r IH]; intros y Hy; simpl in *.
  - destruct Hy as [Hy|[]]. lia.
  - destruct Hy as [Hy|[Hy|Hy]].
    + specialize (IH y (or_introl Hy)). lia.
    + lia.
    + specialize (IH y (or_intror Hy)). lia.
Qed.
Lemma fold_max_le x r M : (forall y, In y (x :: r) -> y <= M) -> fold_right Z.max x r <= M.
Proof.
  induction r as [|z r IH]; intros H; simpl.
  - apply H. left. reflexivity.
  - assert (z <= M) by (apply H; right; left; reflexivity).
    assert (fold_right Z.max x r <= M).
    { apply IH. intros y [Hy|Hy]; apply H; [left; exact Hy|right; right; exact Hy]. }
    lia.
Qed.

Lemma filter_none {A} (f : A -> bool) l : forallb (fun s => negb (f s)) l = true -> filter f l = [].
Proof.
  induction l as [|x l IH]; simpl; intros H; [reflexivity|].
  apply andb_prop in H. destruct H as [Hx Hl]. destruct (f x); [discriminate|]. apply IH. exact Hl.
Qed.

Theorem max_magnitude_is_max l : max_magnitude l = max_mag_ref l.
Proof.
  unfold max_magnitude, max_mag_ref. pose proof (max_index_contract l) as C. simpl in C.
  destruct (Z.ltb_spec (max_index l) (zlen l)) as [Hi|Hi].
  - destruct C as (C0 & C1 & C2 & _).
    set (i := max_index l) in *.
    assert (Hin : In (nth_mag i l) (map mag (filter counts l))).
    { unfold nth_mag. apply in_map. apply filter_In. split; [|exact C1].
      apply nth_In. unfold zlen in Hi. lia. }
    destruct (map mag (filter counts l)) as [|x r] eqn:E; [destruct Hin|].
    assert (Hall : forall y, In y (x :: r) -> y <= nth_mag i l).
    { intros y Hy. rewrite <- E in Hy. apply in_map_iff in Hy. destruct Hy as (s & <- & Hs).
      apply filter_In in Hs. destruct Hs as [Hs Hc]. rewrite forallb_forall in C2. specialize (C2 s Hs).
      rewrite Hc in C2. simpl in C2. apply Z.leb_le. exact C2. }
    pose proof (fold_max_ge x r _ Hin). pose proof (fold_max_le x r _ Hall). lia.
  - rewrite (filter_none counts l C). reflexivity.
Qed.

(* ---- MaxAfter ---- *)
Lemma active_from_idx l : forall d cur i, snd (active_from d cur i l) = i + idx_ref (d - cur) l.
Proof.
  induction l as [|s r IH]; intros d cur i; simpl; [lia|].
  destruct (len s) as [n|]; [|simpl; lia].
  destruct (Z.ltb_spec d (cur + n)); destruct (Z.ltb_spec (d - cur) n); try lia; simpl; [lia|].
  rewrite IH. replace (d - (cur + n)) with (d - cur - n) by lia. lia.
Qed.
Lemma active_at_idx d l : snd (active_at d l) = if d <? 0 then 0 else idx_ref d l.
Proof.
  unfold active_at. destruct (d <? 0); [reflexivity|]. rewrite active_from_idx.
  replace (d - 0) with d by lia. lia.
Qed.

Lemma max_ok_model l : max_ok l (max_index l) = true.
Proof.
  unfold max_ok. pose proof (max_index_contract l) as C. simpl in C.
  destruct (Z.ltb_spec (max_index l) (zlen l)).
  - destruct C as (C1 & C2 & C3 & C4). rewrite C2, C3, C4.
    destruct (Z.leb_spec 0 (max_index l)); [reflexivity|lia].
  - exact C.
Qed.

Theorem max_after_contract d l : max_after_ok d l (max_after d l) = true.
Proof.
  unfold max_after_ok, max_after. pose proof (active_at_idx d l) as H.
  destruct (active_at d l) as [el i]. simpl in H. rewrite <- H.
  replace (max_index (skipn (Z.to_nat i) l) + i - i) with (max_index (skipn (Z.to_nat i) l)) by lia.
  apply max_ok_model.
Qed.

(* ---- MinAt: the loop over a Go map, for every iteration order ---- *)
Fixpoint min_at_loop (t : Z) (ms : list mode) (cur : option (mode * Z)) : option (mode * Z) :=
  match ms with
  | [] => cur
  | m :: r =>
      let g := fst (mode_magnitude_at_w t m) in
      match cur with
      | None => min_at_loop t r (Some (m, g))
      | Some (_, best) => if g <? best then min_at_loop t r (Some (m, g)) else min_at_loop t r cur
      end
  end.

Lemma min_at_loop_spec t ms : forall cur,
  match cur with
  | None => True
  | Some (m0, g0) => g0 = fst (mode_magnitude_at_w t m0)
  end ->
  match min_at_loop t ms cur with
  | None => ms = [] /\ cur = None
  | Some (m, g) =>
      g = fst (mode_magnitude_at_w t m) /\
      (In m ms \/ exists g0, cur = Some (m, g0)) /\
      (forall m', In m' ms -> g <= fst (mode_magnitude_at_w t m')) /\
      (forall m0 g0, cur = Some (m0, g0) -> g <= g0)
  end.
Proof.
  induction ms as [|m r IH]; intros cur Hc; simpl.
  - destruct cur as [[m0 g0]|]; [|split; reflexivity].
    split; [exact Hc|]. split; [right; eauto|]. split; [intros m' []|]. intros m1 g1 E. inversion E. lia.
  - destruct cur as [[m0 g0]|].
    + destruct (Z.ltb_spec (fst (mode_magnitude_at_w t m)) g0) as [L|L].
      * specialize (IH (Some (m, fst (mode_magnitude_at_w t m))) eq_refl).
        destruct (min_at_loop t r _) as [[m1 g1]|]; [|destruct IH as [_ IH]; discriminate].
        destruct IH as (I1 & I2 & I3 & I4). split; [exact I1|]. split.
        { left. destruct I2 as [I2|[g' I2]]; [right; exact I2|inversion I2; left; reflexivity]. }
        specialize (I4 _ _ eq_refl). split.
        { intros m' [<-|Hm']; [exact I4|apply I3; exact Hm']. }
        intros m2 g2 E. inversion E. subst. lia.
      * specialize (IH (Some (m0, g0)) Hc).
        destruct (min_at_loop t r _) as [[m1 g1]|]; [|destruct IH as [_ IH]; discriminate].
        destruct IH as (I1 & I2 & I3 & I4). split; [exact I1|]. split.
        { destruct I2 as [I2|I2]; [left; right; exact I2|right; exact I2]. }
        specialize (I4 _ _ eq_refl). split.
        { intros m' [<-|Hm']; [lia|apply I3; exact Hm']. }
        intros m2 g2 E. inversion E. subst. exact I4.
    + specialize (IH (Some (m, fst (mode_magnitude_at_w t m))) eq_refl).
      destruct (min_at_loop t r _) as [[m1 g1]|]; [|destruct IH as [_ IH]; discriminate].
      destruct IH as (I1 & I2 & I3 & I4). split; [exact I1|]. split.
      { left. destruct I2 as [I2|[g' I2]]; [right; exact I2|inversion I2; left; reflexivity]. }
      specialize (I4 _ _ eq_refl). split.
      { intros m' [<-|Hm']; [exact I4|apply I3; exact Hm']. }
      intros m2 g2 E. discriminate.
Qed.

(* whatever order the map is iterated in, the result is one of the modes, carries its own
   magnitude at t, and that magnitude is the least one *)
Theorem min_at_any_order t ms ms' : Permutation ms ms' ->
  match min_at_loop t ms' None with
  | None => ms = []
  | Some (m, g) => In m ms /\ g = fst (mode_magnitude_at_w t m) /\
                   forall m', In m' ms -> g <= fst (mode_magnitude_at_w t m')
  end.
Proof.
  intros P. pose proof (min_at_loop_spec t ms' None I) as S.
  destruct (min_at_loop t ms' None) as [[m g]|].
  - destruct S as (S1 & S2 & S3 & _). split; [|split; [exact S1|]].
    + destruct S2 as [S2|[g0 S2]]; [|discriminate]. apply (Permutation_in _ (Permutation_sym P)). exact S2.
    + intros m' Hm'. apply S3. apply (Permutation_in _ P). exact Hm'.
  - destruct S as [-> _]. apply Permutation_sym in P. apply Permutation_nil in P. exact P.
Qed.

(* ---- Sum under its exact guard: only the open tails have to add up to >= 0 ---- *)
Lemma tail_level_eq l : tail_level l = tail_mag l.
Proof. induction l as [|s r IH]; simpl; [reflexivity|]. destruct (len s); [exact IH|reflexivity]. Qed.

Theorem sum_is_pointwise_tail ls t :
  forallb segs_wf ls = true -> 0 <= sumZ (map tail_level ls) ->
  val (sum ls) t = sumZ (map (fun l => val l t) ls).
Proof.
  intros Hwf Hnn.
  destruct (Z.ltb_spec t 0) as [Ht|Ht].
  { rewrite val_neg by lia. clear Hwf Hnn.
    induction ls as [|l ls IH]; [reflexivity|]. simpl. rewrite val_neg by lia.
    rewrite <- IH. reflexivity. }
  rewrite sum_is_sweep.
  destruct (calc_cuts_spec ls Hwf) as (S1 & S2 & S3 & S4).
  replace t with (t - 0) at 1 by lia.
  rewrite sweep_val; try assumption; try lia.
  - rewrite S4 by lia. lia.
  - rewrite S3. rewrite <- (map_ext _ _ tail_level_eq). lia.
Qed.

(* the guard is exact: whenever the open tails add up to less than 0 the law fails somewhere *)
Lemma nonneg_tail_of_nonneg ls : forallb segs_nonneg ls = true -> 0 <= sumZ (map tail_level ls).
Proof.
  intros H. apply sumZ_nonneg. intros x Hx. apply in_map_iff in Hx. destruct Hx as (l & <- & Hl).
  rewrite tail_level_eq. apply tail_mag_nonneg. rewrite forallb_forall in H. apply H. exact Hl.
Qed.

(* ---- the bound behind the float32 guard: every magnitude Sum produces is a partial sum of
        edge deltas, so it is bounded by the sum of their absolute values ---- *)
Definition abs_total (cs : list (Z * Z)) : Z := sumZ (map (fun c => Z.abs (snd c)) cs).

Lemma sweep_bound cs : forall m last,
  Forall (fun s => Z.abs (mag s) <= Z.abs m + abs_total cs) (sweep cs m last).
Proof.
  induction cs as [|[a dl] r IH]; intros m last; simpl sweep.
  - unfold tail_seg, abs_total. simpl. destruct (m <=? 0); constructor; [simpl; lia|constructor].
  - assert (A : abs_total ((a, dl) :: r) = Z.abs dl + abs_total r) by reflexivity.
    assert (B : 0 <= abs_total r).
    { unfold abs_total. apply sumZ_nonneg. intros x Hx. apply in_map_iff in Hx. destruct Hx as (c & <- & _). lia. }
    destruct (a - last =? 0).
    + eapply Forall_impl; [|apply IH]. intros s Hs. simpl in Hs. rewrite A. lia.
    + constructor; [simpl; rewrite A; lia|].
      eapply Forall_impl; [|apply IH]. intros s Hs. simpl in Hs. rewrite A. lia.
Qed.

Lemma insert_cut_abs c l : abs_total (insert_cut c l) = Z.abs (snd c) + abs_total l.
Proof.
  induction l as [|x l IH]; simpl; [reflexivity|].
  destruct (fst c <? fst x); [reflexivity|].
  change (abs_total (x :: insert_cut c l)) with (Z.abs (snd x) + abs_total (insert_cut c l)).
  change (abs_total (x :: l)) with (Z.abs (snd x) + abs_total l). rewrite IH. lia.
Qed.
Lemma abs_total_app a b : abs_total (a ++ b) = abs_total a + abs_total b.
Proof. unfold abs_total. rewrite map_app, sumZ_app. reflexivity. Qed.
Lemma sort_cuts_abs l : abs_total (sort_cuts l) = abs_total l.
Proof.
  unfold sort_cuts. rewrite <- (rev_involutive l) at 2. generalize (rev l). intros k.
  induction k as [|x k IH]; [reflexivity|]. simpl fold_right. rewrite insert_cut_abs, IH.
  simpl rev. rewrite abs_total_app. unfold abs_total at 3. simpl. lia.
Qed.

Definition mag_budget (l : list seg) : Z := sumZ (map (fun s => Z.abs (mag s)) l).
Lemma cuts_of_abs l : forall cur, abs_total (cuts_of cur l) <= 2 * mag_budget l.
Proof.
  induction l as [|s r IH]; intros cur; simpl cuts_of; [unfold abs_total, mag_budget; simpl; lia|].
  assert (M : mag_budget (s :: r) = Z.abs (mag s) + mag_budget r) by reflexivity.
  assert (B : 0 <= mag_budget r).
  { unfold mag_budget. apply sumZ_nonneg. intros x Hx. apply in_map_iff in Hx. destruct Hx as (c & <- & _). lia. }
  destruct (len s) as [n|].
  - specialize (IH (cur + n)). destruct (mag s =? 0); simpl app.
    + rewrite M. lia.
    + change (abs_total ((cur, mag s) :: (cur + n, - mag s) :: cuts_of (cur + n) r))
        with (Z.abs (mag s) + (Z.abs (- mag s) + abs_total (cuts_of (cur + n) r))).
      rewrite M. lia.
  - destruct (mag s =? 0); unfold abs_total; simpl; rewrite M; lia.
Qed.

Theorem sum_magnitudes_bounded ls :
  Forall (fun s => Z.abs (mag s) <= 2 * sumZ (map mag_budget ls)) (sum ls).
Proof.
  rewrite sum_is_sweep. eapply Forall_impl; [|apply sweep_bound].
  intros s Hs. simpl in Hs. unfold calc_cuts in Hs. rewrite sort_cuts_abs in Hs.
  assert (abs_total (flat_map (cuts_of 0) ls) <= 2 * sumZ (map mag_budget ls)); [|lia].
  clear. induction ls as [|l ls IH]; simpl; [unfold abs_total; simpl; lia|].
  rewrite abs_total_app. pose proof (cuts_of_abs l 0). lia.
Qed.


(* ---- mode Sum under the exact guard ---- *)
Lemma tail_level_shift_neg l : forall e cur, tail_level (shift_neg e cur l) = tail_level l.
Proof.
  induction l as [|[m [n|]] r IH]; intros e cur; simpl shift_neg; try reflexivity.
  destruct (e <? cur + n); [|simpl; apply IH].
  destruct (cut_seg (e - cur) (mkSeg m (Some n))) as [[b [a|]] o] eqn:E; [|reflexivity].
  unfold cut_seg in E. simpl in E.
  destruct (e - cur <=? 0); [inversion E; subst; reflexivity|].
  destruct (n <=? e - cur); inversion E; subst; reflexivity.
Qed.
Lemma tail_level_shift d l : tail_level (shift d l) = tail_level l.
Proof.
  unfold shift. destruct (d =? 0); [reflexivity|]. destruct l as [|[m [n|]] r]; [reflexivity| |].
  - destruct (0 <? d); [|apply tail_level_shift_neg]. simpl mag. simpl len. destruct (m =? 0); reflexivity.
  - destruct (0 <? d); [|apply tail_level_shift_neg]. simpl mag. simpl len. destruct (m =? 0); reflexivity.
Qed.

Definition modes_tail (ms : list mode) : Z := sumZ (map (fun m => tail_level (msegs m)) ms).

Theorem mode_sum_is_pointwise_tail ms s0 rest :
  ms <> [] -> starts ms = s0 :: rest ->
  forallb (fun m => segs_wf (msegs m)) ms = true -> 0 <= modes_tail ms ->
  exists r, mode_sum ms = Some r /\
    mstart r = Some (ts_of (minZ rest s0)) /\
    forall x, minZ rest s0 <= x ->
      mode_val r x = sumZ (map (fun m => val (msegs m) (x - mode_st (maxZ rest s0) m)) ms).
Proof.
  intros Hne Hst Hwf Hnn. unfold mode_sum. destruct ms as [|m0 ms']; [contradiction|].
  rewrite Hst. eexists. split; [reflexivity|]. split; [reflexivity|].
  intros x Hx. unfold mode_val. cbn [mstart msegs]. rewrite ts_val_ts_of.
  rewrite sum_is_pointwise_tail.
  - rewrite map_map. f_equal. apply map_ext_in. intros m Hm.
    rewrite shift_is_translation.
    + destruct (Z.ltb_spec (x - minZ rest s0) 0); [lia|]. unfold mode_st. f_equal.
      destruct (mstart m); lia.
    + rewrite forallb_forall in Hwf. apply Hwf. exact Hm.
  - rewrite forallb_forall. intros l Hl. apply in_map_iff in Hl. destruct Hl as (m & <- & Hm).
    apply shift_wf. rewrite forallb_forall in Hwf. apply Hwf. exact Hm.
  - rewrite map_map. unfold modes_tail in Hnn.
    rewrite (map_ext _ (fun m => tail_level (msegs m))); [exact Hnn|]. intros m. apply tail_level_shift.
Qed.

Theorem mode_sum_no_start_tail ms t :
  ms <> [] -> starts ms = [] ->
  forallb (fun m => segs_wf (msegs m)) ms = true -> 0 <= modes_tail ms ->
  exists r, mode_sum ms = Some r /\ mstart r = None /\
            val (msegs r) t = sumZ (map (fun m => val (msegs m) t) ms).
Proof.
  intros Hne Hst Hwf Hnn. unfold mode_sum. destruct ms as [|m0 ms']; [contradiction|].
  rewrite Hst. eexists. split; [reflexivity|]. split; [reflexivity|]. cbn [msegs].
  rewrite sum_is_pointwise_tail.
  - rewrite map_map. reflexivity.
  - rewrite forallb_forall. intros l Hl. apply in_map_iff in Hl. destruct Hl as (m & <- & Hm).
    rewrite forallb_forall in Hwf. apply Hwf. exact Hm.
  - rewrite map_map. exact Hnn.
Qed.

(* ---- whole histories: any expression built from literals, Shift and Sum ---- *)
Inductive texpr :=
| TLit (l : list seg)
| TShift (d : Z) (e : texpr)
| TSum (e1 e2 : texpr).

(* evaluated with the library's functions *)
Fixpoint teval (e : texpr) : list seg :=
  match e with
  | TLit l => l
  | TShift d e => shift d (teval e)
  | TSum e1 e2 => sum [teval e1; teval e2]
  end.
(* its meaning: a function of elapsed time *)
Fixpoint tden (e : texpr) (t : Z) : Z :=
  match e with
  | TLit l => val l t
  | TShift d e => if t <? 0 then 0 else tden e (t - d)
  | TSum e1 e2 => tden e1 t + tden e2 t
  end.
(* literals well-formed; at every Sum node the open tails add up to >= 0 *)
Fixpoint twf (e : texpr) : Prop :=
  match e with
  | TLit l => segs_wf l = true
  | TShift _ e => twf e
  | TSum e1 e2 => twf e1 /\ twf e2 /\ 0 <= tail_level (teval e1) + tail_level (teval e2)
  end.

Lemma sweep_wf cs : forall m last, lb last cs -> sorted cs -> segs_wf (sweep cs m last) = true.
Proof.
  induction cs as [|[a dl] r IH]; intros m last Hlb Hs; simpl sweep.
  - unfold tail_seg. destruct (m <=? 0); reflexivity.
  - destruct Hs as [Hlb_r Hs]. simpl fst in Hlb_r.
    assert (Ha : last <= a) by (apply (Hlb (a, dl)); left; reflexivity).
    destruct (Z.eqb_spec (a - last) 0).
    + apply IH; [|exact Hs]. intros x Hx. specialize (Hlb_r x Hx). lia.
    + unfold segs_wf. simpl. unfold seg_wf at 1. simpl.
      destruct (Z.leb_spec 0 (a - last)); [|lia]. apply IH; assumption.
Qed.

Lemma sum_wf ls : forallb segs_wf ls = true -> segs_wf (sum ls) = true.
Proof.
  intros H. rewrite sum_is_sweep. destruct (calc_cuts_spec ls H) as (S1 & S2 & _). apply sweep_wf; assumption.
Qed.

Lemma teval_wf e : twf e -> segs_wf (teval e) = true.
Proof.
  induction e as [l|d e IH|e1 IH1 e2 IH2]; simpl; intros H.
  - exact H.
  - apply shift_wf. apply IH. exact H.
  - destruct H as (H1 & H2 & _). apply sum_wf. simpl. rewrite (IH1 H1), (IH2 H2). reflexivity.
Qed.

Theorem timeline_expressions e : twf e -> forall t, val (teval e) t = tden e t.
Proof.
  induction e as [l|d e IH|e1 IH1 e2 IH2]; simpl; intros H t.
  - reflexivity.
  - rewrite shift_is_translation by (apply teval_wf; exact H). destruct (t <? 0); [reflexivity|]. apply IH. exact H.
  - destruct H as (H1 & H2 & H3). rewrite sum_is_pointwise_tail.
    + simpl. rewrite (IH1 H1), (IH2 H2). lia.
    + simpl. rewrite (teval_wf e1 H1), (teval_wf e2 H2). reflexivity.
    + simpl. lia.
Qed.

(* the boolean relation the judge evaluates is the index form of min_at_any_order's conclusion *)
Theorem min_at_ok_of_loop t ms ms' : Permutation ms ms' ->
  match min_at_loop t ms' None with
  | None => min_at_ok t ms (None, 0) = true
  | Some (m, g) => exists i, nth_error ms i = Some m /\ min_at_ok t ms (Some (Z.of_nat i), g) = true
  end.
Proof.
  intros P. pose proof (min_at_any_order t ms ms' P) as H.
  destruct (min_at_loop t ms' None) as [[m g]|].
  - destruct H as (Hin & Hg & Hmin). destruct (In_nth_error ms m Hin) as [i Hi]. exists i. split; [exact Hi|].
    unfold min_at_ok. simpl fst. simpl snd.
    assert (Hlt : (i < List.length ms)%nat) by (apply nth_error_Some; rewrite Hi; discriminate).
    apply andb_true_intro. split; [apply andb_true_intro; split; [apply andb_true_intro; split|]|].
    + apply Z.leb_le. lia.
    + apply Z.ltb_lt. unfold zlen. lia.
    + rewrite Nat2Z.id. apply Z.eqb_eq.
      rewrite (nth_indep _ 0 (fst (mode_magnitude_at_w t m))) by (rewrite map_length; exact Hlt).
      rewrite (map_nth (fun m0 => fst (mode_magnitude_at_w t m0)) ms m i) at 1.
      rewrite (nth_error_nth ms i m Hi). symmetry. exact Hg.
    + apply forallb_forall. intros x Hx. apply in_map_iff in Hx. destruct Hx as (m' & <- & Hm').
      apply Z.leb_le. apply Hmin. exact Hm'.
  - subst ms. reflexivity.
Qed.
