(* The model table of C18: every top-level function of pkg/time, segmentpb and modepb (listed from
   the source with go/ast on every run, Gen/C18Funcs.v) must have a row here saying where it is
   modelled; a new, renamed or removed function breaks [funcs_all_in_table] / [table_not_stale],
   a changed signature breaks [signatures_as_modelled].  The decision tables of the cut order and
   of cutPeriod, evaluated on the tree under check, are re-proved against the model and against
   the reference order over the whole table. *)
From SC Require Import Base.Prelude Timeline.Timestamp Timeline.C18Judge Gen.C18Funcs.

Open Scope string_scope.

Definition T := "pkg/time".
Definition S := "pkg/trait/electricpb/segmentpb".
Definition M := "pkg/trait/electricpb/modepb".

(* (package, function, model / status, signature the model was written against) *)
Definition model_table : list (string * string * string * string) := [
  (T, "CompareAscending", "Timestamp.compare_ascending", "func(t1, t2 *timestamppb.Timestamp) int");
  (T, "PeriodsConnected", "Timestamp.periods_connected", "func(p1, p2 *time.Period) bool");
  (T, "PeriodsIntersect", "Timestamp.periods_intersect", "func(p1, p2 *time.Period) bool");
  (T, "AllTime", "C18Judge.period_ctor 0", "func() *time.Period");
  (T, "PeriodBetween", "C18Judge.period_ctor 1", "func(t1, t2 *timestamppb.Timestamp) *time.Period");
  (T, "PeriodBefore", "C18Judge.period_ctor 2", "func(t *timestamppb.Timestamp) *time.Period");
  (T, "PeriodOnOrAfter", "C18Judge.period_ctor 3", "func(t *timestamppb.Timestamp) *time.Period");
  (T, "cutPeriod", "Timestamp.cut_period", "func(p *time.Period) (lower cut, upper cut)");
  (T, "cutBelow", "Timestamp.Below", "func(ts *timestamppb.Timestamp) cut");
  (T, "cutAbove", "Timestamp.Above", "func(ts *timestamppb.Timestamp) cut");
  (T, "cutAboveAll", "Timestamp.AboveAll", "func() cut");
  (T, "cutBelowAll", "Timestamp.BelowAll", "func() cut");
  (T, "compareValueCuts", "Timestamp.compare_value_cuts", "func(this, that cut) int");
  (T, "extractValue", "Timestamp.compare_value_cuts (the match on `that`; the panic branch is unreachable: four cut types)", "func(c cut) (ts *timestamppb.Timestamp, isAbove bool)");
  (T, "(*below).CompareTo", "Timestamp.cut_compare (Below)", "func(that cut) int");
  (T, "(*above).CompareTo", "Timestamp.cut_compare (Above)", "func(that cut) int");
  (T, "(*belowAll).CompareTo", "Timestamp.cut_compare (BelowAll)", "func(that cut) int");
  (T, "(*aboveAll).CompareTo", "Timestamp.cut_compare (AboveAll)", "func(that cut) int");
  (S, "ActiveAt", "Wrap.active_at_w / Segment.active_at", "func(d time.Duration, segments ...*traits.ElectricMode_Segment) (elapsed time.Duration, index int)");
  (S, "Cut", "Segment.cut_seg / Own.cut_own", "func(d time.Duration, segment *traits.ElectricMode_Segment) (before, after *traits.ElectricMode_Segment, outside bool)");
  (S, "Duration", "Wrap.duration_w / Segment.duration", "func(s ...*traits.ElectricMode_Segment) (total time.Duration, infinite bool)");
  (S, "MagnitudeAt", "Wrap.magnitude_at_w / Segment.magnitude_at", "func(d time.Duration, segments ...*traits.ElectricMode_Segment) (level float32, ok bool)");
  (S, "Max", "Segment.max_index", "func(segments ...*traits.ElectricMode_Segment) (index int)");
  (S, "MaxAfter", "Wrap.max_after_w / Segment.max_after", "func(d time.Duration, segments ...*traits.ElectricMode_Segment) (index int)");
  (S, "MaxMagnitude", "Segment.max_magnitude", "func(segments ...*traits.ElectricMode_Segment) (max float32)");
  (S, "SumMagnitude", "Segment.sum_magnitude", "func(segments ...*traits.ElectricMode_Segment) (sum float32)");
  (S, "Shift", "Wrap.shift_w / Segment.shift / Own.shift_own", "func(d time.Duration, segments ...*traits.ElectricMode_Segment) []*traits.ElectricMode_Segment");
  (S, "Sum", "Segment.sum / Own.sum_own", "func(segmentSlices ...[]*traits.ElectricMode_Segment) []*traits.ElectricMode_Segment");
  (S, "calcCuts", "Segment.calc_cuts", "func(segmentSlices ...[]*traits.ElectricMode_Segment) []cut");
  (S, "durationPositive", "Segment.counts", "func(d *durationpb.Duration) bool");
  (S, "seg", "test helper (th.go), not called by the package: out of scope", "func(seg s) *traits.ElectricMode_Segment");
  (S, "segs", "test helper (th.go), not called by the package: out of scope", "func(ss ...s) (result []*traits.ElectricMode_Segment)");
  (M, "ActiveAt", "Wrap.mode_active_at_w / Mode.mode_active_at", "func(t time.Time, mode *traits.ElectricMode) (elapsed time.Duration, index int)");
  (M, "Cut", "Wrap.mode_cut_w / Mode.mode_cut / Own.mode_cut_own", "func(t time.Time, mode *traits.ElectricMode) (before, after *traits.ElectricMode, outside bool)");
  (M, "MagnitudeAt", "Wrap.mode_magnitude_at_w / Mode.mode_magnitude_at", "func(t time.Time, mode *traits.ElectricMode) (level float32, ok bool)");
  (M, "MaxSegmentAfter", "Wrap.mode_max_segment_after_w / Mode.mode_max_segment_after", "func(t time.Time, mode *traits.ElectricMode) (index int)");
  (M, "MinAt", "MoreProofs.min_at_loop (any iteration order) / C18Judge.min_at_ok", "func(t time.Time, modes map[string]*traits.ElectricMode) (mode *traits.ElectricMode, magnitude float32)");
  (M, "Shift", "Wrap.mode_shift_w / Mode.mode_shift / Own.mode_shift_own", "func(d time.Duration, mode *traits.ElectricMode) *traits.ElectricMode");
  (M, "Sum", "Wrap.mode_sum_w / Mode.mode_sum / Own.mode_sum_own", "func(modes ...*traits.ElectricMode) *traits.ElectricMode");
  (M, "tOrST", "Mode.t_or_st", "func(t time.Time, m *traits.ElectricMode) time.Time");
  (M, "at", "test helper (th.go), not called by the package: out of scope", "func(t int) time.Time");
  (M, "m", "test helper (th.go), not called by the package: out of scope", "func(ss ...s) *traits.ElectricMode");
  (M, "modes", "test helper (th.go), not called by the package: out of scope", "func(modes ...*traits.ElectricMode) []*traits.ElectricMode");
  (M, "mst", "test helper (th.go), not called by the package: out of scope", "func(st int, ss ...s) *traits.ElectricMode");
  (M, "seg", "test helper (th.go), not called by the package: out of scope", "func(seg s) *traits.ElectricMode_Segment")
].

Definition row_for (pkg name : string) : option (string * string * string * string) :=
  find (fun r => (fst (fst (fst r)) =? pkg) && (snd (fst (fst r)) =? name)) model_table.

(* every function found in the source has a row *)
Theorem funcs_all_in_table :
  forallb (fun f => match row_for (fst (fst (fst f))) (snd (fst (fst f))) with Some _ => true | None => false end) c18_funcs = true.
Proof. vm_compute. reflexivity. Qed.

(* every row still names a function of the source *)
Theorem table_not_stale :
  forallb (fun r => existsb (fun f => (fst (fst (fst f)) =? fst (fst (fst r))) && (snd (fst (fst f)) =? snd (fst (fst r)))) c18_funcs) model_table = true.
Proof. vm_compute. reflexivity. Qed.

(* ... with the parameters and results the model was written against *)
Theorem signatures_as_modelled :
  forallb (fun f => match row_for (fst (fst (fst f))) (snd (fst (fst f))) with
                    | Some r => snd r =? snd f
                    | None => false
                    end) c18_funcs = true.
Proof. vm_compute. reflexivity. Qed.

Close Scope string_scope.
Open Scope Z_scope.

(* the CompareTo decision table of the tree under check = the model = the order of positions *)
Theorem cut_table_is_model :
  forallb (fun r => let '(a, b, obs) := r in obs =? cut_compare a b) c18_cut_rows = true.
Proof. vm_compute. reflexivity. Qed.
Theorem cut_table_is_order :
  forallb (fun r => let '(a, b, obs) := r in obs =? cut_ref_compare a b) c18_cut_rows = true.
Proof. vm_compute. reflexivity. Qed.
(* all 16 pairs of kinds occur in the table *)
Definition kind_of (c : cut) : Z := match c with BelowAll => 0 | Below _ => 1 | Above _ => 2 | AboveAll => 3 end.
Theorem cut_table_covers_all_kinds :
  forallb (fun k1 => forallb (fun k2 =>
     existsb (fun r => let '(a, b, _) := r in (kind_of a =? k1) && (kind_of b =? k2)) c18_cut_rows) [0; 1; 2; 3]) [0; 1; 2; 3] = true.
Proof. vm_compute. reflexivity. Qed.

Theorem cutperiod_table_is_model :
  forallb (fun r => let '(p, (lo, hi)) := r in
                    cut_eqb lo (fst (cut_period p)) && cut_eqb hi (snd (cut_period p))) c18_cutperiod_rows = true.
Proof. vm_compute. reflexivity. Qed.
