(* Model of pkg/trait/electricpb/modepb.  A time.Time is the integer count of nanoseconds it
   denotes; timestamppb.New / AsTime convert to and from (seconds, nanos).  No proofs here. *)
From SC Require Import Base.Prelude Timeline.Timestamp Timeline.Segment.

Record mode := mkMode { mstart : option ts; msegs : list seg }.

Definition ts_of (t : Z) : ts := mkTs (t / 1000000000) (t mod 1000000000).   (* timestamppb.New *)

Definition mode_eqb (a b : mode) : bool :=
  option_eqb ts_eqb (mstart a) (mstart b) && list_eqb seg_eqb (msegs a) (msegs b).

(* common.go tOrST *)
Definition t_or_st (t : Z) (m : mode) : Z :=
  match mstart m with None => t | Some s => ts_val s end.

Definition mode_active_at (t : Z) (m : mode) : Z * Z := active_at (t - t_or_st t m) (msegs m).
Definition mode_magnitude_at (t : Z) (m : mode) : Z * bool := magnitude_at (t - t_or_st t m) (msegs m).
Definition mode_max_segment_after (t : Z) (m : mode) : Z := max_after (t - t_or_st t m) (msegs m).

(* cut.go Cut: (before, after, outside) *)
Definition mode_cut (t : Z) (m : mode) : option mode * option mode * bool :=
  match msegs m with
  | [] => (Some m, Some m, true)
  | _ =>
    let st := t_or_st t m in
    if t <=? st then (None, Some m, t <? st)
    else
      let d := t - st in
      let '(elapsed, index) := active_at d (msegs m) in
      if index =? zlen (msegs m) then (Some m, None, true)
      else
        let i := Z.to_nat index in
        let s := nth i (msegs m) (mkSeg 0 None) in
        let '(sb, sa, _) := cut_seg (d - elapsed) s in
        let before := firstn i (msegs m) ++ match sb with Some x => [x] | None => [] end in
        let after := match sa with Some x => [x] | None => [] end ++ skipn (S i) (msegs m) in
        (Some (mkMode (mstart m) before), Some (mkMode (Some (ts_of t)) after), false)
  end.

(* shift.go Shift *)
Definition mode_shift (d : Z) (m : mode) : mode :=
  if d =? 0 then m
  else match mstart m with
       | None => mkMode None (shift d (msegs m))
       | Some s => mkMode (Some (ts_of (ts_val s + d))) (msegs m)
       end.

(* sum.go Sum; None is the nil result for no modes.  earliest.IsZero() (year 1) is not modelled:
   start times are assumed not to be the zero time. *)
Definition starts (ms : list mode) : list Z :=
  flat_map (fun m => match mstart m with Some s => [ts_val s] | None => [] end) ms.
Definition minZ (l : list Z) (d : Z) : Z := fold_right Z.min d l.
Definition maxZ (l : list Z) (d : Z) : Z := fold_right Z.max d l.

Definition mode_sum (ms : list mode) : option mode :=
  match ms with
  | [] => None
  | _ =>
    match starts ms with
    | [] => Some (mkMode None (sum (map msegs ms)))
    | s0 :: rest =>
        let earliest := minZ rest s0 in
        let latest := maxZ rest s0 in
        let slices := map (fun m =>
                             let st := match mstart m with Some s => ts_val s | None => latest end in
                             shift (st - earliest) (msegs m)) ms in
        Some (mkMode (Some (ts_of earliest)) (sum slices))
    end
  end.

(* reference meaning of a mode with a start time: power level as a function of absolute time *)
Definition mode_val (m : mode) (t : Z) : Z :=
  match mstart m with Some s => val (msegs m) (t - ts_val s) | None => val (msegs m) 0 end.
