(* The same functions as Segment.v / Mode.v with Go's machine arithmetic made explicit:
   time.Duration is an int64 (+ and - wrap), time.Time.Sub saturates at the int64 limits.
   These are the definitions the correspondence compares the code with; WrapProofs.v shows that
   inside the stated range guard (dur_guard: the finite lengths add up to at most MaxInt64 and
   |d| is representable) they coincide with the integer model the algebraic theorems are about.
   segmentpb.Sum / calcCuts have their int64 version too (sum_w); modepb.Sum is modelled with the
   integer Sum (inputs of the harness stay small there).  No proofs here. *)
From SC Require Import Base.Prelude Timeline.Timestamp Timeline.Segment Timeline.Mode.

Definition max64 : Z := 9223372036854775807.
Definition min64 : Z := -9223372036854775808.
Definition add64 (a b : Z) : Z := wrap64 (a + b).
Definition sub64 (a b : Z) : Z := wrap64 (a - b).
Definition neg64 (a : Z) : Z := wrap64 (- a).
(* time.Time.Sub *)
Definition sat64 (z : Z) : Z := if z <? min64 then min64 else if max64 <? z then max64 else z.

Fixpoint active_from_w (d cur : Z) (i : Z) (l : list seg) : Z * Z :=
  match l with
  | [] => (cur, i)
  | s :: r =>
      match len s with
      | None => (cur, i)
      | Some n => if d <? add64 cur n then (cur, i) else active_from_w d (add64 cur n) (i + 1) r
      end
  end.
Definition active_at_w (d : Z) (l : list seg) : Z * Z :=
  if d <? 0 then (d, 0) else active_from_w d 0 0 l.

Fixpoint duration_from_w (total : Z) (l : list seg) : Z * bool :=
  match l with
  | [] => (total, false)
  | s :: r => match len s with None => (total, true) | Some n => duration_from_w (add64 total n) r end
  end.
Definition duration_w (l : list seg) : Z * bool := duration_from_w 0 l.

Definition max_after_w (d : Z) (l : list seg) : Z :=
  let '(_, i) := active_at_w d l in max_index (skipn (Z.to_nat i) l) + i.

Definition magnitude_at_w (d : Z) (l : list seg) : Z * bool :=
  if d <? 0 then (0, false)
  else let '(_, i) := active_at_w d l in
       if zlen l <=? i then (0, false) else (nth_mag i l, true).

Fixpoint shift_neg_w (d cur : Z) (l : list seg) : list seg :=
  match l with
  | [] => []
  | s :: r =>
      match len s with
      | None => s :: r
      | Some n =>
          if d <? add64 cur n then
            match cut_seg (sub64 d cur) s with
            | (_, Some a, _) => a :: r
            | (_, None, _) => r
            end
          else shift_neg_w d (add64 cur n) r
      end
  end.

Definition shift_w (d : Z) (l : list seg) : list seg :=
  if d =? 0 then l
  else match l with
       | [] => l
       | first :: rest =>
           if 0 <? d then
             if mag first =? 0 then
               match len first with
               | None => l
               | Some n => mkSeg (mag first) (Some (add64 n d)) :: rest
               end
             else mkSeg 0 (Some d) :: l
           else shift_neg_w (neg64 d) 0 l
       end.

(* sum.go calcCuts / Sum with the running offset and the segment length as int64 *)
Fixpoint cuts_of_w (cur : Z) (l : list seg) : list (Z * Z) :=
  match l with
  | [] => []
  | s :: r =>
      let rise := if mag s =? 0 then [] else [(cur, mag s)] in
      match len s with
      | None => rise
      | Some n =>
          rise ++ (if mag s =? 0 then [] else [(add64 cur n, - mag s)]) ++ cuts_of_w (add64 cur n) r
      end
  end.
Definition calc_cuts_w (ls : list (list seg)) : list (Z * Z) := sort_cuts (flat_map (cuts_of_w 0) ls).
Fixpoint sum_loop_w (cuts : list (Z * Z)) (done : list seg) (open : option Z) (last : Z)
  : list seg * option Z :=
  match cuts with
  | [] => (done, open)
  | (at_, delta) :: r =>
      let m := match open with None => 0 | Some m => m end in
      let length := sub64 at_ last in
      if length =? 0 then sum_loop_w r done (Some (m + delta)) last
      else sum_loop_w r (mkSeg m (Some length) :: done) (Some (m + delta)) at_
  end.
Definition sum_w (ls : list (list seg)) : list seg :=
  let '(done, open) := sum_loop_w (calc_cuts_w ls) [] None 0 in
  match open with
  | None => []
  | Some m => if m <=? 0 then rev done else rev done ++ [mkSeg m None]
  end.

(* ---- modes: d = t.Sub(st) saturates ---- *)
Definition mode_d (t : Z) (m : mode) : Z := sat64 (t - t_or_st t m).
Definition mode_active_at_w (t : Z) (m : mode) : Z * Z := active_at_w (mode_d t m) (msegs m).
Definition mode_magnitude_at_w (t : Z) (m : mode) : Z * bool := magnitude_at_w (mode_d t m) (msegs m).
Definition mode_max_segment_after_w (t : Z) (m : mode) : Z := max_after_w (mode_d t m) (msegs m).

Definition mode_cut_w (t : Z) (m : mode) : option mode * option mode * bool :=
  match msegs m with
  | [] => (Some m, Some m, true)
  | _ =>
    let st := t_or_st t m in
    if t <=? st then (None, Some m, t <? st)
    else
      let d := sat64 (t - st) in
      let '(elapsed, index) := active_at_w d (msegs m) in
      if index =? zlen (msegs m) then (Some m, None, true)
      else
        let i := Z.to_nat index in
        let s := nth i (msegs m) (mkSeg 0 None) in
        let '(sb, sa, _) := cut_seg (sub64 d elapsed) s in
        let before := firstn i (msegs m) ++ match sb with Some x => [x] | None => [] end in
        let after := match sa with Some x => [x] | None => [] end ++ skipn (S i) (msegs m) in
        (Some (mkMode (mstart m) before), Some (mkMode (Some (ts_of t)) after), false)
  end.

Definition mode_shift_w (d : Z) (m : mode) : mode :=
  if d =? 0 then m
  else match mstart m with
       | None => mkMode None (shift_w d (msegs m))
       | Some s => mkMode (Some (ts_of (ts_val s + d))) (msegs m)
       end.

Definition mode_sum_w (ms : list mode) : option mode :=
  match ms with
  | [] => None
  | _ =>
    match starts ms with
    | [] => Some (mkMode None (sum (map msegs ms)))
    | s0 :: rest =>
        let earliest := minZ rest s0 in
        let latest := maxZ rest s0 in
        let slices := map (fun m =>
                             let st := match mstart m with Some s => ts_val s | None => latest end in
                             shift_w (sat64 (st - earliest)) (msegs m)) ms in
        Some (mkMode (Some (ts_of earliest)) (sum slices))
    end
  end.

(* modepb.Sum before "fix: Sum no longer mistakes a start time of 0001-01-01 for 'none seen yet'":
   earliest / latest were tracked with time.Time.IsZero() as the "nothing seen" marker. *)
Definition zero_time : Z := -62135596800 * 1000000000.
Definition earliest_v0 (sts : list Z) : Z :=
  fold_left (fun e st => if (e =? zero_time) || (st <? e) then st else e) sts zero_time.
Definition latest_v0 (sts : list Z) : Z :=
  fold_left (fun e st => if (e =? zero_time) || (e <? st) then st else e) sts zero_time.
Definition mode_sum_v0 (ms : list mode) : option mode :=
  match ms with
  | [] => None
  | _ =>
    match starts ms with
    | [] => Some (mkMode None (sum (map msegs ms)))
    | sts =>
        let earliest := earliest_v0 sts in
        let latest := latest_v0 sts in
        let slices := map (fun m =>
                             let st := match mstart m with Some s => ts_val s | None => latest end in
                             shift_w (sat64 (st - earliest)) (msegs m)) ms in
        Some (mkMode (Some (ts_of earliest)) (sum slices))
    end
  end.

(* ---- the range guard ---- *)
Definition fin_len_z (s : seg) : Z := match len s with Some n => n | None => 0 end.
Definition total_len (l : list seg) : Z := sumZ (map fin_len_z l).
(* lengths non-negative, their total representable, and the offset d together with the total too *)
Definition lens_ok_b (l : list seg) : bool := segs_wf l && (total_len l <=? max64).
Definition dur_guard (d : Z) (l : list seg) : bool :=
  segs_wf l && (total_len l <=? max64) && (- max64 <=? d) && (d <=? max64) &&
  (Z.abs d + total_len l <=? max64).
Definition mode_dur_guard (t : Z) (m : mode) : bool :=
  dur_guard (t - t_or_st t m) (msegs m).

(* mode Sum: the start times are close enough that st.Sub(earliest) is exact and shifts stay in range *)
Definition sum_small (ms : list mode) : bool :=
  match starts ms with
  | [] => true
  | s0 :: rest =>
      let earliest := minZ rest s0 in
      let latest := maxZ rest s0 in
      forallb (fun m => dur_guard ((match mstart m with Some s => ts_val s | None => latest end) - earliest) (msegs m)) ms
  end.

