(* Model of pkg/trait/electricpb/segmentpb.  Durations are integer nanoseconds (time.Duration);
   magnitudes are integers (the harness uses integer-valued float32 below 2^24, on which float32
   addition and comparison are exact).  Segment shapes are not modelled.  No proofs here. *)
From SC Require Import Base.Prelude.

Record seg := mkSeg { mag : Z; len : option Z }.   (* len = None: Length == nil, infinite *)

Definition seg_eqb (a b : seg) : bool := (mag a =? mag b) && option_eqb Z.eqb (len a) (len b).

(* active.go ActiveAt: (elapsed, index) *)
Fixpoint active_from (d cur : Z) (i : Z) (l : list seg) : Z * Z :=
  match l with
  | [] => (cur, i)
  | s :: r =>
      match len s with
      | None => (cur, i)
      | Some n => if d <? cur + n then (cur, i) else active_from d (cur + n) (i + 1) r
      end
  end.
Definition active_at (d : Z) (l : list seg) : Z * Z :=
  if d <? 0 then (d, 0) else active_from d 0 0 l.

(* duration.go Duration: (total, infinite) *)
Fixpoint duration_from (total : Z) (l : list seg) : Z * bool :=
  match l with
  | [] => (total, false)
  | s :: r => match len s with None => (total, true) | Some n => duration_from (total + n) r end
  end.
Definition duration (l : list seg) : Z * bool := duration_from 0 l.

(* magnitude.go *)
Definition nth_mag (i : Z) (l : list seg) : Z := mag (nth (Z.to_nat i) l (mkSeg 0 None)).

Definition counts (s : seg) : bool := match len s with None => true | Some n => 0 <? n end.

(* Max: (found, max, index) threaded through the loop *)
Fixpoint max_from (i : Z) (found : bool) (mx idx : Z) (l : list seg) : bool * Z :=
  match l with
  | [] => (found, idx)
  | s :: r =>
      if negb (counts s) then max_from (i + 1) found mx idx r
      else if negb found then max_from (i + 1) true (mag s) i r
      else if mx <? mag s then max_from (i + 1) true (mag s) i r
      else max_from (i + 1) found mx idx r
  end.
Definition max_index (l : list seg) : Z :=
  let '(found, idx) := max_from 0 false 0 0 l in if found then idx else zlen l.

Definition max_after (d : Z) (l : list seg) : Z :=
  let '(_, i) := active_at d l in max_index (skipn (Z.to_nat i) l) + i.

Definition max_magnitude (l : list seg) : Z :=
  let i := max_index l in if i <? zlen l then nth_mag i l else 0.

Definition sum_magnitude (l : list seg) : Z := sumZ (map mag l).

Definition magnitude_at (d : Z) (l : list seg) : Z * bool :=
  if d <? 0 then (0, false)
  else let '(_, i) := active_at d l in
       if zlen l <=? i then (0, false) else (nth_mag i l, true).

(* cut.go Cut: (before, after, outside); nil segments are None *)
Definition cut_seg (d : Z) (s : seg) : option seg * option seg * bool :=
  if d <=? 0 then (None, Some s, d <? 0)
  else match len s with
       | None => (Some (mkSeg (mag s) (Some d)), Some s, false)
       | Some l =>
           if l <=? d then (Some s, None, true)
           else (Some (mkSeg (mag s) (Some d)), Some (mkSeg (mag s) (Some (l - d))), false)
       end.

(* shift.go Shift *)
Fixpoint shift_neg (d cur : Z) (l : list seg) : list seg :=
  match l with
  | [] => []
  | s :: r =>
      match len s with
      | None => s :: r
      | Some n =>
          if d <? cur + n then
            match cut_seg (d - cur) s with
            | (_, Some a, _) => a :: r
            | (_, None, _) => r      (* not reachable: d - cur < n *)
            end
          else shift_neg d (cur + n) r
      end
  end.

Definition shift (d : Z) (l : list seg) : list seg :=
  if d =? 0 then l
  else match l with
       | [] => l
       | first :: rest =>
           if 0 <? d then
             if mag first =? 0 then
               match len first with
               | None => l
               | Some n => mkSeg (mag first) (Some (n + d)) :: rest
               end
             else mkSeg 0 (Some d) :: l
           else shift_neg (- d) 0 l
       end.

(* sum.go calcCuts / Sum *)
Fixpoint cuts_of (cur : Z) (l : list seg) : list (Z * Z) :=   (* (at, delta) *)
  match l with
  | [] => []
  | s :: r =>
      let rise := if mag s =? 0 then [] else [(cur, mag s)] in
      match len s with
      | None => rise
      | Some n =>
          rise ++ (if mag s =? 0 then [] else [(cur + n, - mag s)]) ++ cuts_of (cur + n) r
      end
  end.

(* sort.Slice by `at`: modelled as a stable insertion sort; Sum's result does not depend on
   the order of cuts with equal `at` (their deltas are added, which commutes). *)
Fixpoint insert_cut (c : Z * Z) (l : list (Z * Z)) : list (Z * Z) :=
  match l with
  | [] => [c]
  | x :: r => if fst c <? fst x then c :: l else x :: insert_cut c r
  end.
Definition sort_cuts (l : list (Z * Z)) : list (Z * Z) := fold_right insert_cut [] (rev l).
(* note: fold_right over the reversed list inserts the elements in original order,
   each after the equal ones already present, i.e. stably *)

Definition calc_cuts (ls : list (list seg)) : list (Z * Z) :=
  sort_cuts (flat_map (cuts_of 0) ls).

(* the loop of Sum: finished segments (reversed), magnitude of the open last segment (None
   while result is still empty), lastTime *)
Fixpoint sum_loop (cuts : list (Z * Z)) (done : list seg) (open : option Z) (last : Z)
  : list seg * option Z :=
  match cuts with
  | [] => (done, open)
  | (at_, delta) :: r =>
      let m := match open with None => 0 | Some m => m end in
      let length := at_ - last in
      if length =? 0 then sum_loop r done (Some (m + delta)) last
      else sum_loop r (mkSeg m (Some length) :: done) (Some (m + delta)) at_
  end.

Definition sum (ls : list (list seg)) : list seg :=
  let '(done, open) := sum_loop (calc_cuts ls) [] None 0 in
  match open with
  | None => []
  | Some m => if m <=? 0 then rev done else rev done ++ [mkSeg m None]
  end.

(* ---------- reference meaning: a segment list as a step function of elapsed time ---------- *)

(* level at elapsed time t (None where no segment is active) *)
Fixpoint level_at (t : Z) (l : list seg) : option Z :=
  match l with
  | [] => None
  | s :: r =>
      match len s with
      | None => Some (mag s)
      | Some n => if t <? n then Some (mag s) else level_at (t - n) r
      end
  end.
Definition level (t : Z) (l : list seg) : option Z := if t <? 0 then None else level_at t l.
(* the total function used for pointwise laws: 0 where nothing is defined *)
Definition val (l : list seg) (t : Z) : Z := match level t l with Some m => m | None => 0 end.

Definition seg_wf (s : seg) : bool := match len s with None => true | Some n => 0 <=? n end.
Definition segs_wf (l : list seg) : bool := forallb seg_wf l.
Definition segs_nonneg (l : list seg) : bool := forallb (fun s => 0 <=? mag s) l.

(* breakpoints of a list (for the sampling oracle of the correspondence) *)
Fixpoint breakpoints (cur : Z) (l : list seg) : list Z :=
  match l with
  | [] => [cur]
  | s :: r => cur :: match len s with None => [] | Some n => breakpoints (cur + n) r end
  end.
Definition sample_points (ls : list (list seg)) (extra : list Z) : list Z :=
  flat_map (fun b => [b - 1; b; b + 1]) (extra ++ flat_map (breakpoints 0) ls).
