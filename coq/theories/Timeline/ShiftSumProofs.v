(* Shift is translation, Sum is pointwise addition (Segment.v). *)
From SC Require Import Base.Prelude Timeline.Segment Timeline.SegmentProofs.

Local Arguments Z.add : simpl never.
Local Arguments Z.sub : simpl never.
Local Arguments Z.ltb : simpl never.
Local Arguments Z.leb : simpl never.
Local Arguments Z.eqb : simpl never.

Lemma segs_wf_cons s r : segs_wf (s :: r) = true -> seg_wf s = true /\ segs_wf r = true.
Proof. unfold segs_wf. simpl. intros H. apply andb_prop in H. exact H. Qed.

Lemma seg_wf_fin m n : seg_wf (mkSeg m (Some n)) = true -> 0 <= n.
Proof. unfold seg_wf. simpl. intros H. apply Z.leb_le in H. exact H. Qed.

(* ---------- Shift ---------- *)

Lemma cut_seg_nonpos d s : d <= 0 -> cut_seg d s = (None, Some s, d <? 0).
Proof. intros H. unfold cut_seg. destruct (Z.leb_spec d 0); [reflexivity|lia]. Qed.

Lemma cut_seg_fin m n d : 0 < d -> d < n ->
  cut_seg d (mkSeg m (Some n)) = (Some (mkSeg m (Some d)), Some (mkSeg m (Some (n - d))), false).
Proof.
  intros H1 H2. unfold cut_seg. destruct (Z.leb_spec d 0); [lia|]. simpl.
  destruct (Z.leb_spec n d); [lia|reflexivity].
Qed.

Lemma shift_neg_val l : forall e cur t,
  segs_wf l = true -> cur <= e -> 0 <= t ->
  val (shift_neg e cur l) t = val l (t + e - cur).
Proof.
  induction l as [|[m [n|]] r IH]; intros e cur t Hwf Hc Ht; simpl shift_neg.
  - rewrite !val_nil. reflexivity.
  - apply segs_wf_cons in Hwf. destruct Hwf as [Hs Hr]. apply seg_wf_fin in Hs.
    destruct (Z.ltb_spec e (cur + n)) as [E|E].
    + destruct (Z.leb_spec (e - cur) 0) as [E2|E2].
      * rewrite cut_seg_nonpos by lia. replace (t + e - cur) with t by lia. reflexivity.
      * rewrite cut_seg_fin by lia.
        rewrite !val_cons_fin by lia.
        destruct (Z.ltb_spec t (n - (e - cur))), (Z.ltb_spec (t + e - cur) n); try lia; try reflexivity.
        f_equal. lia.
    + rewrite IH by (auto; lia).
      rewrite (val_cons_fin m n r (t + e - cur)) by lia.
      destruct (Z.ltb_spec (t + e - cur) n); [lia|]. f_equal. lia.
  - rewrite !val_cons_inf by lia. reflexivity.
Qed.

Theorem shift_is_translation d l t :
  segs_wf l = true ->
  val (shift d l) t = if t <? 0 then 0 else val l (t - d).
Proof.
  intros Hwf. destruct (Z.ltb_spec t 0) as [Ht|Ht]; [apply val_neg; lia|].
  unfold shift. destruct (Z.eqb_spec d 0) as [->|Hd].
  { f_equal. lia. }
  destruct l as [|[m [n|]] r].
  - rewrite !val_nil. reflexivity.
  - apply segs_wf_cons in Hwf. destruct Hwf as [Hs Hr]. pose proof (seg_wf_fin _ _ Hs) as Hn.
    destruct (Z.ltb_spec 0 d) as [Hp|Hp].
    + simpl mag. simpl len. destruct (Z.eqb_spec m 0) as [->|Hm].
      * rewrite val_cons_fin by lia.
        destruct (Z.ltb_spec (t - d) 0) as [E|E].
        -- rewrite (val_neg _ (t - d)) by lia. destruct (Z.ltb_spec t (n + d)); [reflexivity|lia].
        -- rewrite (val_cons_fin 0 n r (t - d)) by lia.
           destruct (Z.ltb_spec t (n + d)), (Z.ltb_spec (t - d) n); try lia; try reflexivity.
           f_equal. lia.
      * rewrite val_cons_fin by lia.
        destruct (Z.ltb_spec t d) as [E|E].
        -- rewrite (val_neg _ (t - d)) by lia. reflexivity.
        -- reflexivity.
    + rewrite shift_neg_val.
      * f_equal. lia.
      * unfold segs_wf. simpl. rewrite Hs. exact Hr.
      * lia.
      * lia.
  - destruct (Z.ltb_spec 0 d) as [Hp|Hp].
    + simpl mag. simpl len. destruct (Z.eqb_spec m 0) as [->|Hm].
      * rewrite val_cons_inf by lia.
        destruct (Z.ltb_spec (t - d) 0) as [E|E]; [rewrite val_neg by lia; reflexivity|].
        rewrite val_cons_inf by lia. reflexivity.
      * rewrite val_cons_fin by lia.
        destruct (Z.ltb_spec t d) as [E|E].
        -- rewrite (val_neg _ (t - d)) by lia. reflexivity.
        -- reflexivity.
    + rewrite shift_neg_val; [f_equal; lia|exact Hwf|lia|lia].
Qed.

(* ---------- Sum ---------- *)

Definition cut_at (t : Z) (c : Z * Z) : Z := if fst c <=? t then snd c else 0.
Definition cuts_val (cs : list (Z * Z)) (t : Z) : Z := sumZ (map (cut_at t) cs).
Definition total (cs : list (Z * Z)) : Z := sumZ (map snd cs).

Lemma sumZ_app a b : sumZ (a ++ b) = sumZ a + sumZ b.
Proof. induction a as [|x a IH]; simpl; [lia|]. rewrite IH. lia. Qed.

Lemma cuts_val_app a b t : cuts_val (a ++ b) t = cuts_val a t + cuts_val b t.
Proof. unfold cuts_val. rewrite map_app. apply sumZ_app. Qed.
Lemma total_app a b : total (a ++ b) = total a + total b.
Proof. unfold total. rewrite map_app. apply sumZ_app. Qed.
Lemma cuts_val_cons c r t : cuts_val (c :: r) t = cut_at t c + cuts_val r t.
Proof. reflexivity. Qed.
Lemma total_cons c r : total (c :: r) = snd c + total r.
Proof. reflexivity. Qed.
Lemma cuts_val_nil t : cuts_val [] t = 0.
Proof. reflexivity. Qed.

(* lower bound on the positions of a cut list *)
Definition lb (a : Z) (l : list (Z * Z)) : Prop := forall x, In x l -> a <= fst x.
Fixpoint sorted (l : list (Z * Z)) : Prop :=
  match l with [] => True | c :: r => lb (fst c) r /\ sorted r end.

Lemma lb_cuts_val a l t : lb a l -> t < a -> cuts_val l t = 0.
Proof.
  induction l as [|c r IH]; intros Hlb Ht; [reflexivity|].
  rewrite cuts_val_cons. rewrite IH; [|intros x Hx; apply Hlb; right; exact Hx|exact Ht].
  unfold cut_at. specialize (Hlb c (or_introl eq_refl)).
  destruct (Z.leb_spec (fst c) t); lia.
Qed.

(* the cuts of one list sum to its step function *)
Lemma cuts_of_spec l : forall cur,
  segs_wf l = true ->
  lb cur (cuts_of cur l) /\
  forall t, cur <= t -> cuts_val (cuts_of cur l) t = val l (t - cur).
Proof.
  induction l as [|[m [n|]] r IH]; intros cur Hwf; simpl cuts_of.
  - split; [intros x []|]. intros t Ht. rewrite val_nil. reflexivity.
  - apply segs_wf_cons in Hwf. destruct Hwf as [Hs Hr]. apply seg_wf_fin in Hs.
    destruct (IH (cur + n) Hr) as [Hlb Hval]. simpl mag.
    destruct (Z.eqb_spec m 0) as [->|Hm]; simpl app.
    + split.
      * intros x Hx. specialize (Hlb x Hx). lia.
      * intros t Ht. rewrite val_cons_fin by lia.
        destruct (Z.ltb_spec (t - cur) n) as [E|E].
        -- apply (lb_cuts_val (cur + n)); [exact Hlb|lia].
        -- rewrite Hval by lia. f_equal. lia.
    + split.
      * intros x [<-|[<-|Hx]]; simpl; try lia. specialize (Hlb x Hx). lia.
      * intros t Ht. rewrite !cuts_val_cons. unfold cut_at. simpl fst. simpl snd.
        rewrite val_cons_fin by lia.
        destruct (Z.leb_spec cur t); [|lia].
        destruct (Z.ltb_spec (t - cur) n) as [E|E].
        -- destruct (Z.leb_spec (cur + n) t); [lia|].
           rewrite (lb_cuts_val (cur + n)); [lia|exact Hlb|lia].
        -- destruct (Z.leb_spec (cur + n) t); [|lia].
           rewrite Hval by lia. replace (t - (cur + n)) with (t - cur - n) by lia. lia.
  - simpl mag. destruct (Z.eqb_spec m 0) as [->|Hm].
    + split; [intros x []|]. intros t Ht. rewrite val_cons_inf by lia. reflexivity.
    + split.
      * intros x [<-|[]]. simpl. lia.
      * intros t Ht. rewrite cuts_val_cons, cuts_val_nil. unfold cut_at. simpl.
        rewrite val_cons_inf by lia. destruct (Z.leb_spec cur t); lia.
Qed.

(* the sum of all deltas of one list: the magnitude of its infinite tail *)
Fixpoint tail_mag (l : list seg) : Z :=
  match l with [] => 0 | s :: r => match len s with None => mag s | Some _ => tail_mag r end end.

Lemma total_cuts_of l : forall cur, total (cuts_of cur l) = tail_mag l.
Proof.
  induction l as [|[m [n|]] r IH]; intros cur; simpl cuts_of; simpl tail_mag.
  - reflexivity.
  - simpl mag. destruct (Z.eqb_spec m 0) as [->|Hm]; simpl app.
    + apply IH.
    + rewrite !total_cons. simpl snd. rewrite IH. lia.
  - simpl mag. destruct (Z.eqb_spec m 0) as [->|Hm]; [reflexivity|]. unfold total. simpl. lia.
Qed.

Lemma tail_mag_nonneg l : segs_nonneg l = true -> 0 <= tail_mag l.
Proof.
  induction l as [|[m [n|]] r IH]; unfold segs_nonneg; simpl; intros H.
  - lia.
  - apply andb_prop in H. destruct H as [_ H]. apply IH. exact H.
  - apply andb_prop in H. destruct H as [H _]. apply Z.leb_le in H. exact H.
Qed.

(* insertion sort: permutation-invariant quantities, sortedness, lower bounds *)
Lemma insert_cut_val c l t : cuts_val (insert_cut c l) t = cut_at t c + cuts_val l t.
Proof.
  induction l as [|x r IH]; simpl; [reflexivity|].
  destruct (fst c <? fst x); [reflexivity|]. rewrite !cuts_val_cons, IH. lia.
Qed.
Lemma insert_cut_total c l : total (insert_cut c l) = snd c + total l.
Proof.
  induction l as [|x r IH]; simpl; [reflexivity|].
  destruct (fst c <? fst x); [reflexivity|]. rewrite !total_cons, IH. lia.
Qed.
Lemma insert_cut_in c l x : In x (insert_cut c l) -> x = c \/ In x l.
Proof.
  induction l as [|y r IH]; simpl.
  - intros [<-|[]]. left. reflexivity.
  - destruct (fst c <? fst y).
    + intros [<-|H]; [left; reflexivity|right; exact H].
    + intros [<-|H]; [right; left; reflexivity|]. destruct (IH H) as [->|H']; [left; reflexivity|right; right; exact H'].
Qed.
Lemma insert_cut_sorted c l : sorted l -> sorted (insert_cut c l).
Proof.
  induction l as [|y r IH]; simpl; intros Hs.
  - split; [intros x []|exact I].
  - destruct Hs as [Hlb Hs]. destruct (Z.ltb_spec (fst c) (fst y)) as [E|E].
    + split; [|split; assumption].
      intros x [<-|Hx]; [lia|]. specialize (Hlb x Hx). lia.
    + split; [|apply IH; exact Hs].
      intros x Hx. apply insert_cut_in in Hx. destruct Hx as [->|Hx]; [exact E|apply Hlb; exact Hx].
Qed.

Lemma sort_cuts_spec l :
  sorted (sort_cuts l) /\ (forall t, cuts_val (sort_cuts l) t = cuts_val l t) /\
  total (sort_cuts l) = total l /\ (forall a, lb a l -> lb a (sort_cuts l)).
Proof.
  unfold sort_cuts.
  assert (H : forall k, sorted (fold_right insert_cut [] k) /\
                        (forall t, cuts_val (fold_right insert_cut [] k) t = cuts_val k t) /\
                        total (fold_right insert_cut [] k) = total k /\
                        (forall a, lb a k -> lb a (fold_right insert_cut [] k))).
  { induction k as [|c k (IH1 & IH2 & IH3 & IH4)]; simpl.
    - repeat split; auto.
    - split; [apply insert_cut_sorted; exact IH1|]. split; [|split].
      + intros t. rewrite insert_cut_val, cuts_val_cons, IH2. reflexivity.
      + rewrite insert_cut_total, total_cons, IH3. reflexivity.
      + intros a Ha x Hx. apply insert_cut_in in Hx. destruct Hx as [->|Hx].
        * apply Ha. left. reflexivity.
        * apply IH4; [|exact Hx]. intros y Hy. apply Ha. right. exact Hy. }
  destruct (H (rev l)) as (H1 & H2 & H3 & H4).
  split; [exact H1|]. split; [|split].
  - intros t. rewrite H2. unfold cuts_val. rewrite map_rev.
    generalize (map (cut_at t) l). intros k. induction k as [|x k IH]; [reflexivity|].
    simpl. rewrite sumZ_app, IH. simpl. lia.
  - rewrite H3. unfold total. rewrite map_rev.
    generalize (map snd l). intros k. induction k as [|x k IH]; [reflexivity|].
    simpl. rewrite sumZ_app, IH. simpl. lia.
  - intros a Ha. apply H4. intros x Hx. apply Ha. apply in_rev. exact Hx.
Qed.

(* the loop of Sum, in forward form *)
Definition tail_seg (m : Z) : list seg := if m <=? 0 then [] else [mkSeg m None].
Fixpoint sweep (cs : list (Z * Z)) (m last : Z) : list seg :=
  match cs with
  | [] => tail_seg m
  | (at_, delta) :: r =>
      if at_ - last =? 0 then sweep r (m + delta) last
      else mkSeg m (Some (at_ - last)) :: sweep r (m + delta) at_
  end.

Definition open_mag (o : option Z) : Z := match o with Some m => m | None => 0 end.

Lemma sum_loop_sweep cs : forall done open last,
  let '(d', o') := sum_loop cs done open last in
  rev d' ++ tail_seg (open_mag o') = rev done ++ sweep cs (open_mag open) last.
Proof.
  induction cs as [|[a dl] r IH]; intros done open last; simpl sum_loop; simpl sweep.
  - reflexivity.
  - fold (open_mag open). destruct (Z.eqb_spec (a - last) 0) as [E|E].
    + specialize (IH done (Some (open_mag open + dl)) last). simpl open_mag in IH at 2. exact IH.
    + specialize (IH (mkSeg (open_mag open) (Some (a - last)) :: done) (Some (open_mag open + dl)) a).
      simpl open_mag in IH at 2. destruct (sum_loop r _ _ a) as [d' o']. rewrite IH. simpl rev.
      rewrite <- app_assoc. reflexivity.
Qed.

Lemma sum_loop_none cs : forall done open last d',
  sum_loop cs done open last = (d', None) -> cs = [] /\ open = None /\ d' = done.
Proof.
  induction cs as [|[a dl] r IH]; intros done open last d' H; simpl in H.
  - inversion H. auto.
  - destruct (a - last =? 0); apply IH in H; destruct H as (_ & H & _); discriminate.
Qed.

Lemma sum_is_sweep ls : sum ls = sweep (calc_cuts ls) 0 0.
Proof.
  unfold sum. pose proof (sum_loop_sweep (calc_cuts ls) [] None 0) as H.
  destruct (sum_loop (calc_cuts ls) [] None 0) as [d' o'] eqn:El. simpl in H. rewrite <- H.
  destruct o' as [m|].
  - unfold tail_seg; simpl open_mag. destruct (m <=? 0); [rewrite app_nil_r|]; reflexivity.
  - apply sum_loop_none in El. destruct El as (_ & _ & ->). reflexivity.
Qed.

Lemma sweep_val cs : forall m last t,
  sorted cs -> lb last cs -> 0 <= m + total cs -> last <= t ->
  val (sweep cs m last) (t - last) = m + cuts_val cs t.
Proof.
  induction cs as [|[a dl] r IH]; intros m last t Hs Hlb Htot Ht; simpl sweep.
  - unfold total in Htot. simpl in Htot. rewrite cuts_val_nil. unfold tail_seg.
    destruct (Z.leb_spec m 0).
    + rewrite val_nil. lia.
    + rewrite val_cons_inf by lia. lia.
  - destruct Hs as [Hlb_r Hs]. simpl fst in Hlb_r.
    assert (Ha : last <= a) by (apply (Hlb (a, dl)); left; reflexivity).
    rewrite total_cons in Htot. simpl snd in Htot.
    rewrite cuts_val_cons. unfold cut_at. simpl fst. simpl snd.
    destruct (Z.eqb_spec (a - last) 0) as [E|E].
    + assert (a = last) by lia. subst a.
      rewrite IH; try assumption; try lia.
      * destruct (Z.leb_spec last t); lia.
    + rewrite val_cons_fin by lia.
      destruct (Z.ltb_spec (t - last) (a - last)) as [E2|E2].
      * destruct (Z.leb_spec a t); [lia|].
        rewrite (lb_cuts_val a r t); [lia|exact Hlb_r|lia].
      * destruct (Z.leb_spec a t); [|lia].
        replace (t - last - (a - last)) with (t - a) by lia.
        rewrite IH; try assumption; try lia.
Qed.

Lemma calc_cuts_spec ls :
  forallb segs_wf ls = true ->
  sorted (calc_cuts ls) /\ lb 0 (calc_cuts ls) /\
  total (calc_cuts ls) = sumZ (map tail_mag ls) /\
  forall t, 0 <= t -> cuts_val (calc_cuts ls) t = sumZ (map (fun l => val l t) ls).
Proof.
  intros Hwf. unfold calc_cuts.
  assert (Hraw : lb 0 (flat_map (cuts_of 0) ls) /\
                 total (flat_map (cuts_of 0) ls) = sumZ (map tail_mag ls) /\
                 forall t, 0 <= t -> cuts_val (flat_map (cuts_of 0) ls) t = sumZ (map (fun l => val l t) ls)).
  { induction ls as [|l ls IH]; simpl.
    - split; [intros x []|]. split; [reflexivity|]. intros t Ht. reflexivity.
    - simpl in Hwf. apply andb_prop in Hwf. destruct Hwf as [Hl Hls].
      destruct (IH Hls) as (I1 & I2 & I3).
      destruct (cuts_of_spec l 0 Hl) as [C1 C2].
      split; [|split].
      + intros x Hx. apply in_app_or in Hx. destruct Hx as [Hx|Hx]; [apply C1|apply I1]; exact Hx.
      + rewrite total_app, total_cuts_of, I2. reflexivity.
      + intros t Ht. rewrite cuts_val_app, C2, I3 by lia. replace (t - 0) with t by lia. reflexivity. }
  destruct Hraw as (R1 & R2 & R3).
  destruct (sort_cuts_spec (flat_map (cuts_of 0) ls)) as (H1 & H2 & H3 & H4).
  split; [exact H1|].
  split; [apply H4; exact R1|]. split; [rewrite H3; exact R2|].
  intros t Ht. rewrite H2. apply R3. exact Ht.
Qed.

Lemma sumZ_nonneg l : (forall x, In x l -> 0 <= x) -> 0 <= sumZ l.
Proof.
  induction l as [|x l IH]; simpl; intros H; [lia|].
  assert (0 <= x) by (apply H; left; reflexivity).
  assert (0 <= sumZ l) by (apply IH; intros y Hy; apply H; right; exact Hy). lia.
Qed.

Theorem sum_is_pointwise ls t :
  forallb segs_wf ls = true -> forallb segs_nonneg ls = true ->
  val (sum ls) t = sumZ (map (fun l => val l t) ls).
Proof.
  intros Hwf Hnn.
  destruct (Z.ltb_spec t 0) as [Ht|Ht].
  { rewrite val_neg by lia. clear Hwf Hnn.
    induction ls as [|l ls IH]; [reflexivity|]. simpl. rewrite val_neg by lia.
    rewrite <- IH. reflexivity. }
  rewrite sum_is_sweep.
  destruct (calc_cuts_spec ls Hwf) as (S1 & S2 & S3 & S4).
  replace t with (t - 0) at 1 by lia.
  rewrite sweep_val; try assumption; try lia.
  - rewrite S4 by lia. lia.
  - rewrite S3. assert (0 <= sumZ (map tail_mag ls)); [|lia].
    apply sumZ_nonneg. intros x Hx. apply in_map_iff in Hx. destruct Hx as (l & <- & Hl).
    apply tail_mag_nonneg. rewrite forallb_forall in Hnn. apply Hnn. exact Hl.
Qed.

(* Without the non-negativity guard the law fails: a negative infinite tail is dropped. *)
Lemma sum_negative_tail_refuted :
  exists ls t, forallb segs_wf ls = true /\ 0 <= t /\ val (sum ls) t <> sumZ (map (fun l => val l t) ls).
Proof. exists [[mkSeg (-3) None]], 1. vm_compute. repeat split; discriminate. Qed.
