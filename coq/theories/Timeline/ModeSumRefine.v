(* The heap model of modepb.Sum (Own.mode_sum_own: every mode's segments shifted with shift_own one after the other on
   the growing heap, then sum_own over the results, then a new mode object) computes the mode of the value model
   (Mode.mode_sum), for every heap in which the argument modes' slices are readable, every aliasing between the
   arguments and every growth policy.  Needs: results of Shift are readable slices of the exit heap and stay so (and
   read the same) while the later arguments are shifted. *)
From SC Require Import Base.Prelude Timeline.Timestamp Timeline.Segment Timeline.Mode Timeline.Own Timeline.OwnProofs
  Timeline.OwnRefine Timeline.SumRefine.
Local Open Scope nat_scope.

Lemma slice_ok_ext h h' s : heap_ext h h' -> slice_ok h s -> slice_ok h' s.
Proof.
  intros E [A F]. pose proof E as [Ec [Ea _]]. apply ext_length in Ec. apply ext_length in Ea.
  split; [lia|]. rewrite (slice_ptrs_ext h h' s E A). eapply Forall_impl; [|exact F]. cbv beta. intros; lia.
Qed.

Lemma slice_ptrs_new_array ps e h : slice_ptrs (snd (new_array ps e h)) (fst (new_array ps e h)) = ps.
Proof.
  unfold new_array, slice_ptrs, arr. cbn [fst snd slen sarr soff arrays]. rewrite arr_app_new. cbn [skipn].
  rewrite firstn_app, Nat.sub_diag, firstn_all. cbn [firstn]. apply app_nil_r.
Qed.

Lemma new_array_ok ps e h : Forall (fun p => p < List.length (cells h)) ps ->
  slice_ok (snd (new_array ps e h)) (fst (new_array ps e h)).
Proof.
  intros F. split; [|rewrite slice_ptrs_new_array; exact F].
  unfold new_array. cbn [fst snd sarr arrays]. rewrite app_length. cbn [List.length]. lia.
Qed.

Lemma cut_own_after_ok d p h : p < List.length (cells h) ->
  match snd (fst (fst (cut_own d p h))) with
  | Some pa => pa < List.length (cells (snd (cut_own d p h)))
  | None => True
  end.
Proof.
  intros Hp. unfold cut_own. destruct (d <=? 0)%Z; [exact Hp|].
  destruct (len (cell h p)) as [l|].
  - destruct (l <=? d)%Z; [exact I|]. unfold new_cell. cbn [fst snd cells]. rewrite !app_length. cbn [List.length]. lia.
  - unfold new_cell. cbn [fst snd cells]. rewrite app_length. cbn [List.length]. lia.
Qed.

Lemma forall_lt_ext h h' ps : heap_ext h h' -> Forall (fun p => p < List.length (cells h)) ps ->
  Forall (fun p => p < List.length (cells h')) ps.
Proof.
  intros [Ec _] F. apply ext_length in Ec. eapply Forall_impl; [|exact F]. cbv beta. intros; lia.
Qed.

Lemma shift_neg_own_ok d s : forall ps cur i h, slice_ok h s ->
  Forall (fun p => p < List.length (cells h)) ps ->
  slice_ok (snd (shift_neg_own d cur s i ps h)) (fst (shift_neg_own d cur s i ps h)).
Proof.
  induction ps as [|p r IH]; intros cur i h Ok F; cbn [shift_neg_own].
  - cbn [fst snd]. destruct Ok as [A _]. split; [cbn [nil_slice sarr]; lia|].
    unfold slice_ptrs. cbn [nil_slice slen firstn]. constructor.
  - inversion F as [|? ? Fp Fr]; subst.
    destruct (len (cell h p)) as [n|].
    + destruct (d <? cur + n)%Z; [|apply IH; assumption].
      pose proof (cut_own_after_ok (d - cur)%Z p h Fp) as Ha.
      pose proof (seg_cut_never_writes_args (d - cur)%Z p h) as E.
      destruct (cut_own (d - cur)%Z p h) as [[[b a] o] h1]. cbn [fst snd] in Ha, E.
      pose proof (forall_lt_ext h h1 r E Fr) as Fr1.
      destruct a as [pa|]; apply new_array_ok; [constructor; assumption|exact Fr1].
    + cbn [fst snd]. destruct Ok as [A Fs]. split; [exact A|]. rewrite slice_ptrs_sub.
      rewrite <- (firstn_skipn i (slice_ptrs h s)) in Fs. apply Forall_app in Fs. exact (proj2 Fs).
Qed.

(* the slice Shift returns is a readable slice of the exit heap *)
Lemma shift_own_ok d s h : slice_ok h s -> slice_ok (snd (shift_own d s h)) (fst (shift_own d s h)).
Proof.
  intros Ok. unfold shift_own. destruct (d =? 0)%Z; [exact Ok|].
  destruct (slice_ptrs h s) as [|p0 rest] eqn:Eps; [exact Ok|].
  assert (F : Forall (fun p => p < List.length (cells h)) (p0 :: rest)) by (rewrite <- Eps; exact (proj2 Ok)).
  destruct (0 <? d)%Z; [|apply shift_neg_own_ok; assumption].
  inversion F as [|? ? F0 Fr]; subst.
  destruct (mag (cell h p0) =? 0)%Z.
  - destruct (len (cell h p0)) as [n|]; [|exact Ok].
    unfold new_cell. cbv beta iota zeta. apply new_array_ok.
    unfold set_cell. cbn [cells]. rewrite upd_length, app_length. cbn [List.length].
    constructor; [lia|]. eapply Forall_impl; [|exact Fr]. cbv beta. intros; lia.
  - unfold new_cell. cbv beta iota zeta. apply new_array_ok. cbn [cells]. rewrite app_length. cbn [List.length].
    constructor; [lia|]. constructor; [lia|]. eapply Forall_impl; [|exact Fr]. cbv beta. intros; lia.
Qed.

(* shifting the arguments one after the other on the growing heap *)
Lemma shift_all_refines : forall ds h, Forall (fun x => slice_ok h (snd x)) ds ->
  heap_ext h (snd (shift_all ds h)) /\
  Forall (slice_ok (snd (shift_all ds h))) (fst (shift_all ds h)) /\
  map (read_slice (snd (shift_all ds h))) (fst (shift_all ds h)) =
  map (fun x => shift (fst x) (read_slice h (snd x))) ds.
Proof.
  induction ds as [|[d s] r IH]; intros h F; cbn [shift_all].
  - cbn [fst snd map]. split; [apply heap_ext_refl|]. split; [constructor|reflexivity].
  - inversion F as [|? ? Fs Fr]; subst. cbn [snd] in Fs.
    pose proof (shift_never_writes_args d s h) as E1.
    pose proof (shift_own_ok d s h Fs) as Ok1.
    pose proof (shift_own_refines d s h Fs) as R1.
    destruct (shift_own d s h) as [s' h1]. cbn [fst snd] in E1, Ok1, R1.
    assert (Fr1 : Forall (fun x => slice_ok h1 (snd x)) r).
    { eapply Forall_impl; [|exact Fr]. cbv beta. intros x Hx. apply (slice_ok_ext h h1 _ E1 Hx). }
    destruct (IH h1 Fr1) as (E2 & Ok2 & R2).
    destruct (shift_all r h1) as [rs h2]. cbn [fst snd] in E2, Ok2, R2 |- *.
    split; [apply (heap_ext_trans h h1 h2 E1 E2)|].
    split; [constructor; [apply (slice_ok_ext h1 h2 s' E2 Ok1)|exact Ok2]|].
    cbn [map fst snd]. f_equal.
    + rewrite (ext_read_slice h1 h2 s' E2 Ok1). exact R1.
    + rewrite R2. apply map_ext_in. intros x Hx. rewrite Forall_forall in Fr. specialize (Fr x Hx).
      rewrite (ext_read_slice h h1 (snd x) E1 Fr). reflexivity.
Qed.

Lemma starts_read h ms :
  flat_map (fun v : option ts * slice => match fst v with Some s => [ts_val s] | None => [] end) (map (mcell h) ms) =
  starts (map (read_mode h) ms).
Proof. unfold starts. induction ms as [|m r IH]; [reflexivity|]. cbn [map flat_map]. rewrite IH. reflexivity. Qed.

Lemma read_new_mcell st r h1 :
  read_mode (snd (new_mcell (st, r) h1)) (fst (new_mcell (st, r) h1)) = mkMode st (read_slice h1 r).
Proof.
  unfold new_mcell, read_mode, mcell. cbn [fst snd mcells]. rewrite app_nth2 by lia. rewrite Nat.sub_diag. reflexivity.
Qed.

Lemma match_ne {A B} (l : list A) (x y : B) : l <> [] -> match l with [] => x | _ :: _ => y end = y.
Proof. destruct l; [congruence|reflexivity]. Qed.

Theorem mode_sum_own_refines g ms h : Forall (fun m => slice_ok h (snd (mcell h m))) ms ->
  option_map (read_mode (snd (mode_sum_own g ms h))) (fst (mode_sum_own g ms h)) = mode_sum (map (read_mode h) ms).
Proof.
  intros F. destruct ms as [|m0 r0]; [reflexivity|].
  remember (m0 :: r0) as ms eqn:Ems.
  assert (NE : ms <> []) by (subst ms; discriminate).
  assert (NE' : map (read_mode h) ms <> []) by (subst ms; discriminate).
  clear Ems m0 r0.
  unfold mode_sum_own, mode_sum. rewrite (match_ne ms _ _ NE), (match_ne (map (read_mode h) ms) _ _ NE'). cbv zeta.
  rewrite starts_read. destruct (starts (map (read_mode h) ms)) as [|s0 rest].
  - pose proof (sum_own_refines g (map snd (map (mcell h) ms)) h) as R.
    destruct (sum_own g (map snd (map (mcell h) ms)) h) as [r h1]. cbn [fst snd] in R.
    pose proof (read_new_mcell None r h1) as RM. destruct (new_mcell (None, r) h1) as [m' h2]. cbn [fst snd] in RM |- *.
    cbn [option_map]. rewrite RM, R. rewrite !map_map. reflexivity.
  - set (earliest := minZ rest s0). set (latest := maxZ rest s0).
    set (ds := map (fun v : option ts * slice => ((match fst v with Some s => ts_val s | None => latest end - earliest)%Z, snd v))
                   (map (mcell h) ms)).
    assert (Fd : Forall (fun x => slice_ok h (snd x)) ds).
    { unfold ds. rewrite map_map. apply Forall_forall. intros x Hx. apply in_map_iff in Hx. destruct Hx as (m & Ex & Hm).
      subst x. cbn [snd]. rewrite Forall_forall in F. apply F. exact Hm. }
    destruct (shift_all_refines ds h Fd) as (_ & _ & RS).
    destruct (shift_all ds h) as [slices h1]. cbn [fst snd] in RS.
    pose proof (sum_own_refines g slices h1) as R.
    destruct (sum_own g slices h1) as [r h2]. cbn [fst snd] in R.
    pose proof (read_new_mcell (Some (ts_of earliest)) r h2) as RM.
    destruct (new_mcell (Some (ts_of earliest), r) h2) as [m' h3]. cbn [fst snd] in RM |- *.
    cbn [option_map]. rewrite RM, R, RS. unfold ds. rewrite !map_map. reflexivity.
Qed.
