(* Correspondence cases for C18: each case carries an input and what the Go implementation
   returned.  [judge] compares the observation with the model (agree) and evaluates the property
   predicate C18_ok on the observation with oracles that do not go through the model's
   algorithms (arithmetic on denoted integers, pointwise sampling of step functions). *)
From SC Require Import Base.Prelude Cmp.Cmp Cmp.Tolerance Cmp.GoTime.
From SC Require Import Timeline.Timestamp Timeline.Segment Timeline.Mode Timeline.Own Timeline.Wrap Timeline.GoTimeMode.

(* a mode result seen from outside: which argument it IS (if any), start time, Segments *)
Definition mres : Type := option nat * option ts * (sprov * list (prov * seg)).

Inductive c18case :=
| KCompare (a b : ts) (obs : Z)
| KIntersect (p q : option period) (obs : bool)
| KConnected (p q : option period) (obs : bool)
| KActiveAt (d : Z) (l : list seg) (obs : Z * Z)
| KMagAt (d : Z) (l : list seg) (obs : Z * bool)
| KDuration (l : list seg) (obs : Z * bool)
| KMax (l : list seg) (obs : Z)
| KMaxAfter (d : Z) (l : list seg) (obs : Z)
| KCutSeg (d : Z) (s : seg) (obs : option seg * option seg * bool)
| KShift (d : Z) (l : list seg) (obs : list seg)
| KSum (ls : list (list seg)) (obs : list seg)
| KModeMagAt (t : Z) (m : mode) (obs : Z * bool)
| KModeActiveAt (t : Z) (m : mode) (obs : Z * Z)
| KModeCut (t : Z) (m : mode) (obs : option mode * option mode * bool)
| KModeShift (d : Z) (m : mode) (obs : mode)
| KModeSum (ms : list mode) (obs : option mode)
(* second wave: the rest of the three packages, and ownership *)
| KCutCompare (a b : cut) (obs : Z)
| KCutPeriod (p : period) (obs : cut * cut)
| KPeriodCtor (k : Z) (a b : option ts) (obs : option period)
| KMaxMagnitude (l : list seg) (obs : Z)
| KSumMagnitude (l : list seg) (obs : Z)
| KModeMaxAfter (t : Z) (m : mode) (obs : Z)
| KMinAt (t : Z) (ms : list mode) (obs : option Z * Z)
| KOwnShift (pre post : nat) (d : Z) (l : list seg) (mut : bool) (obs : sprov * list (prov * seg))
| KOwnSum (args : list (nat * nat * list seg)) (mut : bool) (obs : sprov * list (prov * seg))
| KOwnModeCut (arg : nat * nat * option ts * list seg) (t : Z) (mut : bool) (obs : option mres * option mres * bool)
| KOwnModeShift (arg : nat * nat * option ts * list seg) (d : Z) (mut : bool) (obs : option mres)
| KOwnModeSum (args : list (nat * nat * option ts * list seg)) (mut : bool) (obs : option mres)
(* fourth wave: Go's time.Time under AsTime / Compare / Sub / Before / After / Add / timestamppb.New, and the mode
   operations for start times over the whole 64-bit range of seconds (GoTimeMode.v) *)
| KGoCompare (a b : ts) (obs : Z * Z * bool * bool)
| KGoNew (a : ts) (d : Z) (obs : ts)
| KGoMode (t : Z) (m : mode) (obs : (Z * Z) * (Z * bool) * Z * (option mode * option mode * bool))
| KGoModeShift (d : Z) (m : mode) (obs : mode)
| KGoModeSum (ms : list mode) (obs : option mode).

Definition zz_eqb (a b : Z * Z) := (fst a =? fst b) && (snd a =? snd b).
Definition zb_eqb (a b : Z * bool) := (fst a =? fst b) && Bool.eqb (snd a) (snd b).
Definition segs_eqb := list_eqb seg_eqb.
Definition cut3_eqb {A} (e : A -> A -> bool) (a b : option A * option A * bool) :=
  let '(a1, a2, a3) := a in let '(b1, b2, b3) := b in
  option_eqb e a1 b1 && option_eqb e a2 b2 && Bool.eqb a3 b3.


(* ---- second wave: reference meanings ---- *)

(* position of a cut on the extended time line, ordered lexicographically *)
Definition cut_rank (c : cut) : Z * Z * Z :=
  match c with
  | BelowAll => (-1, 0, 0)
  | Below t => (0, ts_val t, 0)
  | Above t => (0, ts_val t, 1)
  | AboveAll => (1, 0, 0)
  end.
Definition sgn_cmp (a b : Z) : Z := match a ?= b with Lt => -1 | Eq => 0 | Gt => 1 end.
Definition lex3 (x y : Z * Z * Z) : Z :=
  let '(a1, a2, a3) := x in let '(b1, b2, b3) := y in
  if negb (a1 =? b1) then sgn_cmp a1 b1 else if negb (a2 =? b2) then sgn_cmp a2 b2 else sgn_cmp a3 b3.
Definition cut_ref_compare (a b : cut) : Z := lex3 (cut_rank a) (cut_rank b).
Definition cut_valid (c : cut) : bool := match c with Below t | Above t => ts_valid t | _ => true end.
Definition cut_eqb (a b : cut) : bool :=
  match a, b with
  | BelowAll, BelowAll | AboveAll, AboveAll => true
  | Below x, Below y | Above x, Above y => ts_eqb x y
  | _, _ => false
  end.
Definition period_eqb (p q : period) : bool :=
  option_eqb ts_eqb (pstart p) (pstart q) && option_eqb ts_eqb (pend p) (pend q).

(* period.go AllTime / PeriodBetween / PeriodBefore / PeriodOnOrAfter (k = 0..3) *)
Definition period_ctor (k : Z) (a b : option ts) : option period :=
  if k =? 0 then Some (mkPeriod None None)
  else if k =? 1 then Some (mkPeriod a b)
  else if k =? 2 then Some (mkPeriod None a)
  else Some (mkPeriod a None).
Definition optZ_eqb := option_eqb Z.eqb.

(* Max's contract (the KMax predicate) *)
Definition max_ok (l : list seg) (obs : Z) : bool :=
  if obs <? zlen l then
    (0 <=? obs) && counts (nth (Z.to_nat obs) l (mkSeg 0 None))
    && forallb (fun s => negb (counts s) || (mag s <=? nth_mag obs l)) l
    && forallb (fun s => negb (counts s) || (mag s <? nth_mag obs l)) (firstn (Z.to_nat obs) l)
  else forallb (fun s => negb (counts s)) l.

(* index of the segment active at d >= 0, by the recursion of the step function (not ActiveAt's scan) *)
Fixpoint idx_ref (d : Z) (l : list seg) : Z :=
  match l with
  | [] => 0
  | s :: r => match len s with None => 0 | Some n => if d <? n then 0 else 1 + idx_ref (d - n) r end
  end.
Definition max_after_ok (d : Z) (l : list seg) (obs : Z) : bool :=
  let i0 := if d <? 0 then 0 else idx_ref d l in
  max_ok (skipn (Z.to_nat i0) l) (obs - i0).

(* the largest magnitude among the segments that count, 0 if none *)
Definition max_mag_ref (l : list seg) : Z :=
  match map mag (filter counts l) with [] => 0 | x :: r => fold_right Z.max x r end.

(* MinAt over a Go map: the iteration order is unspecified, so the contract is a relation:
   the reported magnitude is the least one, and the reported mode has it *)
Definition min_at_ok (t : Z) (ms : list mode) (obs : option Z * Z) : bool :=
  let mags := map (fun m => fst (mode_magnitude_at_w t m)) ms in
  match fst obs with
  | None => match ms with [] => snd obs =? 0 | _ => false end
  | Some i => (0 <=? i) && (i <? zlen ms) && (nth (Z.to_nat i) mags 0 =? snd obs)
              && forallb (fun x => snd obs <=? x) mags
  end.

(* ---- ownership cases: the heap the harness built, and how a result looks from outside ---- *)

Fixpoint args_heap_from (h : heap) (args : list (nat * nat * list seg)) : heap * list slice :=
  match args with
  | [] => (h, [])
  | (pre, post, l) :: r =>
      let cs := repeat sentinel pre ++ l ++ repeat sentinel post in
      let s := mkSlice (List.length (arrays h)) pre (List.length l) (List.length l + post) in
      let h1 := mkHeap (cells h ++ cs) (arrays h ++ [seq (List.length (cells h)) (List.length cs)]) (mcells h) in
      let '(h2, ss) := args_heap_from h1 r in (h2, s :: ss)
  end.
Definition args_heap := args_heap_from (mkHeap [] [] []).
Definition margs_heap (args : list (nat * nat * option ts * list seg)) : heap * list nat :=
  let '(h, ss) := args_heap (map (fun a => let '(pre, post, _, l) := a in (pre, post, l)) args) in
  (mkHeap (cells h) (arrays h) (combine (map (fun a => snd (fst a)) args) ss), seq 0 (List.length args)).

Definition view_eqb (a b : sprov * list (prov * seg)) : bool :=
  sprov_eqb (fst a) (fst b) &&
  list_eqb (fun x y => prov_eqb (fst x) (fst y) && seg_eqb (snd x) (snd y)) (snd a) (snd b).
Definition view_mode (h0 h : heap) (m : nat) : mres :=
  (if (m <? List.length (mcells h0))%nat then Some m else None, fst (mcell h m), view_slice h0 h (snd (mcell h m))).
Definition mres_eqb (a b : mres) : bool :=
  let '(a1, a2, a3) := a in let '(b1, b2, b3) := b in
  option_eqb Nat.eqb a1 b1 && option_eqb ts_eqb a2 b2 && view_eqb a3 b3.
Definition no_growth (n : nat) : nat := 0%nat.

(* ---- oracles ---- *)
Definition periods_ok (p q : option period) : bool :=
  match p, q with Some p, Some q => period_wf p && period_wf q | _, _ => true end.

Definition pointwise (pts : list Z) (f g : Z -> Z) : bool := forallb (fun t => f t =? g t) pts.

Definition prefix_len (i : Z) (l : list seg) : Z :=
  sumZ (map (fun s => match len s with Some n => n | None => 0 end) (firstn (Z.to_nat i) l)).

(* ActiveAt's contract, for d >= 0 and well-formed lists: elapsed is the total length of the
   first `index` segments, none of them infinite, d lies in [elapsed, elapsed+len(index)) *)
Definition active_ok (d : Z) (l : list seg) (obs : Z * Z) : bool :=
  let '(el, i) := obs in
  if d <? 0 then (el =? d) && (i =? 0)
  else
    (0 <=? i) && (i <=? zlen l) && (el =? prefix_len i l) && (el <=? d)
    && forallb (fun s => match len s with Some _ => true | None => false end) (firstn (Z.to_nat i) l)
    && (if i <? zlen l
        then match len (nth (Z.to_nat i) l (mkSeg 0 None)) with Some n => d <? el + n | None => true end
        else true).

Definition mode_wf (m : mode) : bool :=
  segs_wf (msegs m) && match mstart m with Some s => ts_valid s | None => true end.

Definition C18_ok0 (c : c18case) : bool :=
  match c with
  | KCompare a b obs => obs =? compare_ref a b
  | KIntersect p q obs => Bool.eqb obs (intersect_ref p q)
  | KConnected p q obs => Bool.eqb obs (connected_ref p q)
  | KActiveAt d l obs => active_ok d l obs
  | KMagAt d l obs =>
      match level d l with Some m => zb_eqb obs (m, true) | None => zb_eqb obs (0, false) end
  | KDuration l obs =>
      let fin := forallb (fun s => match len s with Some _ => true | None => false end) l in
      if fin then zb_eqb obs (prefix_len (zlen l) l, false)
      else snd obs
  | KMax l obs => max_ok l obs
  | KMaxAfter d l obs => max_after_ok d l obs
  | KCutSeg d s obs =>
      let '(b, a, outside) := obs in
      if (0 <? d) && (match len s with Some n => d <? n | None => true end) then
        (* a proper cut: before ++ after is the same step function and before has length d *)
        match b, a with
        | Some b, Some a =>
            (option_eqb Z.eqb (len b) (Some d)) && negb outside &&
            pointwise (sample_points [[s]; [b; a]] [d]) (val [s]) (val [b; a])
        | _, _ => false
        end
      else true
  | KShift d l obs =>
      pointwise (sample_points [l; obs] [d; - d]) (val obs) (fun t => if t <? 0 then 0 else val l (t - d))
  | KSum ls obs =>
      pointwise (sample_points (obs :: ls) []) (val obs) (fun t => sumZ (map (fun l => val l t) ls))
  | KModeMagAt t m obs =>
      match level (t - t_or_st t m) (msegs m) with Some x => zb_eqb obs (x, true) | None => zb_eqb obs (0, false) end
  | KModeActiveAt t m obs => active_ok (t - t_or_st t m) (msegs m) obs
  | KModeCut t m obs =>
      let '(b, a, outside) := obs in
      match mstart m, b, a with
      | Some s, Some b, Some a =>
          if outside then true else
          let pts := map (fun x => x + ts_val s) (sample_points [msegs m; msegs b; msegs a] [t - ts_val s]) in
          forallb (fun x => if x <? t then mode_val b x =? mode_val m x else mode_val a x =? mode_val m x) pts
          && option_eqb ts_eqb (mstart a) (Some (ts_of t))
      | _, _, _ => true
      end
  | KModeShift d m obs =>
      match mstart m, mstart obs with
      | Some s, Some s' =>
          pointwise (map (fun x => x + ts_val s) (sample_points [msegs m; msegs obs] [d; -d]))
                    (mode_val obs) (fun x => mode_val m (x - d))
      | None, None =>
          pointwise (sample_points [msegs m; msegs obs] [d; - d]) (val (msegs obs))
                    (fun t => if t <? 0 then 0 else val (msegs m) (t - d))
      | _, _ => false
      end
  | KModeSum ms obs =>
      match ms, obs with
      | [], None => true
      | _ :: _, Some r =>
          match starts ms with
          | [] =>
              negb (match mstart r with Some _ => true | None => false end) &&
              pointwise (sample_points (msegs r :: map msegs ms) []) (val (msegs r))
                        (fun t => sumZ (map (fun m => val (msegs m) t) ms))
          | s0 :: rest =>
              let earliest := minZ rest s0 in
              let latest := maxZ rest s0 in
              let st m := match mstart m with Some s => ts_val s | None => latest end in
              option_eqb ts_eqb (mstart r) (Some (ts_of earliest)) &&
              forallb (fun x =>
                         if x <? earliest then true
                         else val (msegs r) (x - earliest) =? sumZ (map (fun m => val (msegs m) (x - st m)) ms))
                      (flat_map (fun m => map (fun x => x + st m) (sample_points [msegs m; msegs r] [earliest - st m])) ms)
          end
      | _, _ => false
      end
  | KCutCompare a b obs => obs =? cut_ref_compare a b
  | KCutPeriod p obs =>
      let '(lo, hi) := obs in
      let rk := fun (o : option Z) (inf : Z) => match o with None => (inf, 0, 0) | Some x => (0, x, 0) end in
      (lex3 (cut_rank lo) (rk (period_lo p) (-1)) =? 0) && (lex3 (cut_rank hi) (rk (period_hi p) 1) =? 0)
  | KPeriodCtor k a b obs =>
      match obs with
      | None => false
      | Some p =>
          let v := option_map ts_val in
          if k =? 0 then optZ_eqb (period_lo p) None && optZ_eqb (period_hi p) None
          else if k =? 1 then optZ_eqb (period_lo p) (v a) && optZ_eqb (period_hi p) (v b)
          else if k =? 2 then optZ_eqb (period_lo p) None && optZ_eqb (period_hi p) (v a)
          else optZ_eqb (period_lo p) (v a) && optZ_eqb (period_hi p) None
      end
  | KMaxMagnitude l obs => obs =? max_mag_ref l
  | KSumMagnitude l obs => obs =? sumZ (map mag l)
  | KModeMaxAfter t m obs => max_after_ok (t - t_or_st t m) (msegs m) obs
  | KMinAt t ms obs => min_at_ok t ms obs
  | KOwnShift _ _ _ _ mut _ | KOwnSum _ mut _ | KOwnModeCut _ _ mut _ | KOwnModeShift _ _ mut _
  | KOwnModeSum _ mut _ => negb mut
  | KGoCompare _ _ _ | KGoNew _ _ _ | KGoMode _ _ _ | KGoModeShift _ _ _ | KGoModeSum _ _ => true
  end.

(* magnitude of the infinite last segment of a list, 0 if the list is finite: what Sum's open tail adds up from *)
Fixpoint tail_level (l : list seg) : Z :=
  match l with
  | [] => 0
  | s :: r => match len s with None => mag s | Some _ => tail_level r end
  end.
(* the guard under which the theorems of Props/C18.v are stated *)
Definition C18_guard0 (c : c18case) : bool :=
  match c with
  | KCompare a b _ => ts_valid a && ts_valid b
  | KIntersect p q _ | KConnected p q _ => periods_ok p q
  | KActiveAt d l _ | KMagAt d l _ | KMaxAfter d l _ | KShift d l _ => dur_guard d l
  | KDuration l _ | KMax l _ => dur_guard 0 l
  | KCutSeg _ s _ => seg_wf s
  | KSum ls _ => forallb lens_ok_b ls && (0 <=? sumZ (map tail_level ls))
  | KModeMagAt t m _ | KModeActiveAt t m _ | KModeCut t m _ | KModeMaxAfter t m _ => mode_wf m && mode_dur_guard t m
  | KModeShift d m _ => mode_wf m && dur_guard d (msegs m)
  | KModeSum ms _ => forallb mode_wf ms && (0 <=? sumZ (map (fun m => tail_level (msegs m)) ms)) && sum_small ms
  | KCutCompare a b _ => cut_valid a && cut_valid b
  | KCutPeriod p _ => period_wf p
  | KPeriodCtor _ a b _ =>
      match a with Some t => ts_valid t | None => true end && match b with Some t => ts_valid t | None => true end
  | KMaxMagnitude l _ | KSumMagnitude l _ => segs_wf l
  | KMinAt t ms _ => forallb (fun m => mode_wf m && mode_dur_guard t m) ms
  | KOwnShift _ _ _ _ _ _ | KOwnSum _ _ _ | KOwnModeCut _ _ _ _ | KOwnModeShift _ _ _ _ | KOwnModeSum _ _ _ => true
  | KGoCompare _ _ _ | KGoNew _ _ _ | KGoMode _ _ _ | KGoModeShift _ _ _ | KGoModeSum _ _ => false
  end.

Definition agrees0 (c : c18case) : bool :=
  match c with
  | KCompare a b obs => obs =? compare_ascending a b
  | KIntersect p q obs => Bool.eqb obs (periods_intersect p q)
  | KConnected p q obs => Bool.eqb obs (periods_connected p q)
  | KActiveAt d l obs => zz_eqb obs (active_at_w d l)
  | KMagAt d l obs => zb_eqb obs (magnitude_at_w d l)
  | KDuration l obs => zb_eqb obs (duration_w l)
  | KMax l obs => obs =? max_index l
  | KMaxAfter d l obs => obs =? max_after_w d l
  | KCutSeg d s obs => cut3_eqb seg_eqb obs (cut_seg d s)
  | KShift d l obs => segs_eqb obs (shift_w d l)
  | KSum ls obs => segs_eqb obs (sum_w ls)
  | KModeMagAt t m obs => zb_eqb obs (mode_magnitude_at_w t m)
  | KModeActiveAt t m obs => zz_eqb obs (mode_active_at_w t m)
  | KModeCut t m obs => cut3_eqb mode_eqb obs (mode_cut_w t m)
  | KModeShift d m obs => mode_eqb obs (mode_shift_w d m)
  | KModeSum ms obs => option_eqb mode_eqb obs (mode_sum_w ms)
  | KCutCompare a b obs => obs =? cut_compare a b
  | KCutPeriod p obs => cut_eqb (fst obs) (fst (cut_period p)) && cut_eqb (snd obs) (snd (cut_period p))
  | KPeriodCtor k a b obs => option_eqb period_eqb obs (period_ctor k a b)
  | KMaxMagnitude l obs => obs =? max_magnitude l
  | KSumMagnitude l obs => obs =? sum_magnitude l
  | KModeMaxAfter t m obs => obs =? mode_max_segment_after_w t m
  | KMinAt t ms obs => min_at_ok t ms obs
  | KOwnShift pre post d l mut obs =>
      let '(h0, s) := arg_heap pre post l in
      let '(r, h) := shift_own d s h0 in
      Bool.eqb mut (negb (heap_kept h0 h)) && view_eqb obs (view_slice h0 h r)
  | KOwnSum args mut obs =>
      let '(h0, ss) := args_heap args in
      let '(r, h) := sum_own no_growth ss h0 in
      Bool.eqb mut (negb (heap_kept h0 h)) && view_eqb obs (view_slice h0 h r)
  | KOwnModeCut arg t mut obs =>
      let '(h0, ms) := margs_heap [arg] in
      let '(b, a, o, h) := mode_cut_own no_growth t 0%nat h0 in
      Bool.eqb mut (negb (heap_kept h0 h)) &&
      cut3_eqb mres_eqb obs (option_map (view_mode h0 h) b, option_map (view_mode h0 h) a, o)
  | KOwnModeShift arg d mut obs =>
      let '(h0, ms) := margs_heap [arg] in
      let '(r, h) := mode_shift_own no_growth d 0%nat h0 in
      Bool.eqb mut (negb (heap_kept h0 h)) && option_eqb mres_eqb obs (Some (view_mode h0 h r))
  | KOwnModeSum args mut obs =>
      let '(h0, ms) := margs_heap args in
      let '(r, h) := mode_sum_own no_growth ms h0 in
      Bool.eqb mut (negb (heap_kept h0 h)) && option_eqb mres_eqb obs (option_map (view_mode h0 h) r)
  | KGoCompare _ _ _ | KGoNew _ _ _ | KGoMode _ _ _ | KGoModeShift _ _ _ | KGoModeSum _ _ => false
  end.

(* ---- fourth wave: the kinds observed through Go's time.Time ---- *)
(* compared with the functions of GoTimeMode.v for EVERY int64 of seconds and int32 of nanos *)
Definition agrees (c : c18case) : bool :=
  match c with
  | KGoCompare a b obs =>
      let '(c, s, bf, af) := obs in
      let A := ts_as_time a in let B := ts_as_time b in
      (c =? go_compare A B) && (s =? go_sub A B) && Bool.eqb bf (go_before A B) && Bool.eqb af (go_after A B)
  | KGoNew a d obs => ts_eqb obs (ts_new (go_add (ts_as_time a) d))
  | KGoMode t m obs =>
      let '(ac, mg, mx, ct) := obs in
      zz_eqb ac (mode_active_at_g t m) && zb_eqb mg (mode_magnitude_at_g t m)
      && (mx =? mode_max_segment_after_g t m) && cut3_eqb mode_eqb ct (mode_cut_g t m)
  | KGoModeShift d m obs => mode_eqb obs (mode_shift_g d m)
  | KGoModeSum ms obs => option_eqb mode_eqb obs (mode_sum_g ms)
  | _ => agrees0 c
  end.
(* judged inside the band where seconds + 62135596800 fits an int64 (all valid Timestamps and far beyond): there the
   observations must have the meaning on denoted instants that the other kinds are judged by *)
Definition C18_guard (c : c18case) : bool :=
  match c with
  | KGoCompare a b _ => ts_valid a && ts_valid b && in_band a && in_band b
  | KGoNew a d _ => ts_valid a && in_band a && in64 d && shift_in_band a d
  | KGoMode t m _ => in64 t && start_in_band m && (mode_wf m && mode_dur_guard t m)
  | KGoModeShift d m _ => in64 d && start_in_band m && mode_shift_in_band d m && (mode_wf m && dur_guard d (msegs m))
  | KGoModeSum _ _ => false
  | _ => C18_guard0 c
  end.
Definition C18_ok (c : c18case) : bool :=
  match c with
  | KGoCompare a b obs =>
      let '(c, s, bf, af) := obs in
      (c =? compare_ref a b) && (s =? sat64 (ts_val a - ts_val b))
      && Bool.eqb bf (ts_val a <? ts_val b) && Bool.eqb af (ts_val b <? ts_val a)
  | KGoNew a d obs => ts_eqb obs (ts_of (ts_val a + d))
  | KGoMode t m obs =>
      let '(ac, mg, mx, ct) := obs in
      C18_ok0 (KModeActiveAt t m ac) && C18_ok0 (KModeMagAt t m mg)
      && C18_ok0 (KModeMaxAfter t m mx) && C18_ok0 (KModeCut t m ct)
  | KGoModeShift d m obs => C18_ok0 (KModeShift d m obs)
  | KGoModeSum _ _ => true
  | _ => C18_ok0 c
  end.

(* Inputs outside the guard are reported under class 1 ("outside the stated guard": invalid
   timestamps, inverted periods, negative lengths or magnitudes) only if the predicate fails
   there; they are generated rarely and only to watch the model's fidelity. *)
Definition judge (c : c18case) : Z :=
  let ok := if C18_guard c then C18_ok c else true in
  verdict (agrees c) ok None.
