(* Correspondence cases for C18: each case carries an input and what the Go implementation
   returned.  [judge] compares the observation with the model (agree) and evaluates the property
   predicate C18_ok on the observation with oracles that do not go through the model's
   algorithms (arithmetic on denoted integers, pointwise sampling of step functions). *)
From SC Require Import Base.Prelude Timeline.Timestamp Timeline.Segment Timeline.Mode.

Inductive c18case :=
| KCompare (a b : ts) (obs : Z)
| KIntersect (p q : option period) (obs : bool)
| KConnected (p q : option period) (obs : bool)
| KActiveAt (d : Z) (l : list seg) (obs : Z * Z)
| KMagAt (d : Z) (l : list seg) (obs : Z * bool)
| KDuration (l : list seg) (obs : Z * bool)
| KMax (l : list seg) (obs : Z)
| KMaxAfter (d : Z) (l : list seg) (obs : Z)
| KCutSeg (d : Z) (s : seg) (obs : option seg * option seg * bool)
| KShift (d : Z) (l : list seg) (obs : list seg)
| KSum (ls : list (list seg)) (obs : list seg)
| KModeMagAt (t : Z) (m : mode) (obs : Z * bool)
| KModeActiveAt (t : Z) (m : mode) (obs : Z * Z)
| KModeCut (t : Z) (m : mode) (obs : option mode * option mode * bool)
| KModeShift (d : Z) (m : mode) (obs : mode)
| KModeSum (ms : list mode) (obs : option mode).

Definition zz_eqb (a b : Z * Z) := (fst a =? fst b) && (snd a =? snd b).
Definition zb_eqb (a b : Z * bool) := (fst a =? fst b) && Bool.eqb (snd a) (snd b).
Definition segs_eqb := list_eqb seg_eqb.
Definition cut3_eqb {A} (e : A -> A -> bool) (a b : option A * option A * bool) :=
  let '(a1, a2, a3) := a in let '(b1, b2, b3) := b in
  option_eqb e a1 b1 && option_eqb e a2 b2 && Bool.eqb a3 b3.

(* ---- oracles ---- *)
Definition periods_ok (p q : option period) : bool :=
  match p, q with Some p, Some q => period_wf p && period_wf q | _, _ => true end.

Definition pointwise (pts : list Z) (f g : Z -> Z) : bool := forallb (fun t => f t =? g t) pts.

Definition prefix_len (i : Z) (l : list seg) : Z :=
  sumZ (map (fun s => match len s with Some n => n | None => 0 end) (firstn (Z.to_nat i) l)).

(* ActiveAt's contract, for d >= 0 and well-formed lists: elapsed is the total length of the
   first `index` segments, none of them infinite, d lies in [elapsed, elapsed+len(index)) *)
Definition active_ok (d : Z) (l : list seg) (obs : Z * Z) : bool :=
  let '(el, i) := obs in
  if d <? 0 then (el =? d) && (i =? 0)
  else
    (0 <=? i) && (i <=? zlen l) && (el =? prefix_len i l) && (el <=? d)
    && forallb (fun s => match len s with Some _ => true | None => false end) (firstn (Z.to_nat i) l)
    && (if i <? zlen l
        then match len (nth (Z.to_nat i) l (mkSeg 0 None)) with Some n => d <? el + n | None => true end
        else true).

Definition mode_wf (m : mode) : bool :=
  segs_wf (msegs m) && match mstart m with Some s => ts_valid s | None => true end.

Definition C18_ok (c : c18case) : bool :=
  match c with
  | KCompare a b obs => obs =? compare_ref a b
  | KIntersect p q obs => Bool.eqb obs (intersect_ref p q)
  | KConnected p q obs => Bool.eqb obs (connected_ref p q)
  | KActiveAt d l obs => active_ok d l obs
  | KMagAt d l obs =>
      match level d l with Some m => zb_eqb obs (m, true) | None => zb_eqb obs (0, false) end
  | KDuration l obs =>
      let fin := forallb (fun s => match len s with Some _ => true | None => false end) l in
      if fin then zb_eqb obs (prefix_len (zlen l) l, false)
      else snd obs
  | KMax l obs =>
      (* no counted segment has a larger magnitude than the reported one, none earlier has an equal one *)
      if obs <? zlen l then
        (0 <=? obs) && counts (nth (Z.to_nat obs) l (mkSeg 0 None))
        && forallb (fun s => negb (counts s) || (mag s <=? nth_mag obs l)) l
        && forallb (fun s => negb (counts s) || (mag s <? nth_mag obs l)) (firstn (Z.to_nat obs) l)
      else forallb (fun s => negb (counts s)) l
  | KMaxAfter d l obs => true   (* defined through ActiveAt and Max; compared with the model only *)
  | KCutSeg d s obs =>
      let '(b, a, outside) := obs in
      if (0 <? d) && (match len s with Some n => d <? n | None => true end) then
        (* a proper cut: before ++ after is the same step function and before has length d *)
        match b, a with
        | Some b, Some a =>
            (option_eqb Z.eqb (len b) (Some d)) && negb outside &&
            pointwise (sample_points [[s]; [b; a]] [d]) (val [s]) (val [b; a])
        | _, _ => false
        end
      else true
  | KShift d l obs =>
      pointwise (sample_points [l; obs] [d; - d]) (val obs) (fun t => if t <? 0 then 0 else val l (t - d))
  | KSum ls obs =>
      pointwise (sample_points (obs :: ls) []) (val obs) (fun t => sumZ (map (fun l => val l t) ls))
  | KModeMagAt t m obs =>
      match level (t - t_or_st t m) (msegs m) with Some x => zb_eqb obs (x, true) | None => zb_eqb obs (0, false) end
  | KModeActiveAt t m obs => active_ok (t - t_or_st t m) (msegs m) obs
  | KModeCut t m obs =>
      let '(b, a, outside) := obs in
      match mstart m, b, a with
      | Some s, Some b, Some a =>
          if outside then true else
          let pts := map (fun x => x + ts_val s) (sample_points [msegs m; msegs b; msegs a] [t - ts_val s]) in
          forallb (fun x => if x <? t then mode_val b x =? mode_val m x else mode_val a x =? mode_val m x) pts
          && option_eqb ts_eqb (mstart a) (Some (ts_of t))
      | _, _, _ => true
      end
  | KModeShift d m obs =>
      match mstart m, mstart obs with
      | Some s, Some s' =>
          pointwise (map (fun x => x + ts_val s) (sample_points [msegs m; msegs obs] [d; -d]))
                    (mode_val obs) (fun x => mode_val m (x - d))
      | None, None =>
          pointwise (sample_points [msegs m; msegs obs] [d; - d]) (val (msegs obs))
                    (fun t => if t <? 0 then 0 else val (msegs m) (t - d))
      | _, _ => false
      end
  | KModeSum ms obs =>
      match ms, obs with
      | [], None => true
      | _ :: _, Some r =>
          match starts ms with
          | [] =>
              negb (match mstart r with Some _ => true | None => false end) &&
              pointwise (sample_points (msegs r :: map msegs ms) []) (val (msegs r))
                        (fun t => sumZ (map (fun m => val (msegs m) t) ms))
          | s0 :: rest =>
              let earliest := minZ rest s0 in
              let latest := maxZ rest s0 in
              let st m := match mstart m with Some s => ts_val s | None => latest end in
              option_eqb ts_eqb (mstart r) (Some (ts_of earliest)) &&
              forallb (fun x =>
                         if x <? earliest then true
                         else val (msegs r) (x - earliest) =? sumZ (map (fun m => val (msegs m) (x - st m)) ms))
                      (flat_map (fun m => map (fun x => x + st m) (sample_points [msegs m; msegs r] [earliest - st m])) ms)
          end
      | _, _ => false
      end
  end.

(* the guard under which the theorems of Props/C18.v are stated *)
Definition C18_guard (c : c18case) : bool :=
  match c with
  | KCompare a b _ => ts_valid a && ts_valid b
  | KIntersect p q _ | KConnected p q _ => periods_ok p q
  | KActiveAt _ l _ | KMagAt _ l _ | KDuration l _ | KMax l _ | KMaxAfter _ l _ | KShift _ l _ => segs_wf l
  | KCutSeg _ s _ => seg_wf s
  | KSum ls _ => forallb segs_wf ls && forallb segs_nonneg ls
  | KModeMagAt _ m _ | KModeActiveAt _ m _ | KModeCut _ m _ | KModeShift _ m _ => mode_wf m
  | KModeSum ms _ => forallb mode_wf ms && forallb (fun m => segs_nonneg (msegs m)) ms
  end.

Definition agrees (c : c18case) : bool :=
  match c with
  | KCompare a b obs => obs =? compare_ascending a b
  | KIntersect p q obs => Bool.eqb obs (periods_intersect p q)
  | KConnected p q obs => Bool.eqb obs (periods_connected p q)
  | KActiveAt d l obs => zz_eqb obs (active_at d l)
  | KMagAt d l obs => zb_eqb obs (magnitude_at d l)
  | KDuration l obs => zb_eqb obs (duration l)
  | KMax l obs => obs =? max_index l
  | KMaxAfter d l obs => obs =? max_after d l
  | KCutSeg d s obs => cut3_eqb seg_eqb obs (cut_seg d s)
  | KShift d l obs => segs_eqb obs (shift d l)
  | KSum ls obs => segs_eqb obs (sum ls)
  | KModeMagAt t m obs => zb_eqb obs (mode_magnitude_at t m)
  | KModeActiveAt t m obs => zz_eqb obs (mode_active_at t m)
  | KModeCut t m obs => cut3_eqb mode_eqb obs (mode_cut t m)
  | KModeShift d m obs => mode_eqb obs (mode_shift d m)
  | KModeSum ms obs => option_eqb mode_eqb obs (mode_sum ms)
  end.

(* Inputs outside the guard are reported under class 1 ("outside the stated guard": invalid
   timestamps, inverted periods, negative lengths or magnitudes) only if the predicate fails
   there; they are generated rarely and only to watch the model's fidelity. *)
Definition judge (c : c18case) : Z :=
  let ok := if C18_guard c then C18_ok c else true in
  verdict (agrees c) ok None.
