(* The property predicate the check evaluates (C18_ok) is implied by the theorems: on every input
   inside the guard, an observation that equals the model's output satisfies C18_ok.  Hence
   verdict 2 is impossible and a non-zero verdict always involves a disagreement with the model
   or an observation that breaks the property. *)
From SC Require Import Base.Prelude Timeline.Timestamp Timeline.Segment Timeline.Mode Timeline.Own Timeline.Wrap
  Timeline.C18Judge Timeline.TimestampProofs Timeline.SegmentProofs Timeline.ShiftSumProofs Timeline.ModeProofs
  Timeline.OwnProofs Timeline.WrapProofs Timeline.MoreProofs Timeline.GoTimeMode Timeline.GoTimeModeProofs.
From SC Require Import Cmp.Cmp Cmp.Tolerance Cmp.GoTime.

Local Arguments Z.add : simpl never.
Local Arguments Z.sub : simpl never.
Local Arguments Z.ltb : simpl never.
Local Arguments Z.leb : simpl never.
Local Arguments Z.eqb : simpl never.

(* ---- boolean equalities reflect equality ---- *)
Lemma option_eqb_eq {A} (e : A -> A -> bool) (He : forall x y, e x y = true -> x = y) a b :
  option_eqb e a b = true -> a = b.
Proof. destruct a, b; simpl; intros H; try discriminate; [f_equal; apply He; exact H|reflexivity]. Qed.

Lemma list_eqb_eq {A} (e : A -> A -> bool) (He : forall x y, e x y = true -> x = y) a : forall b,
  list_eqb e a b = true -> a = b.
Proof.
  induction a as [|x a IH]; intros [|y b]; simpl; intros H; try discriminate; [reflexivity|].
  apply andb_prop in H. destruct H as [H1 H2]. f_equal; [apply He; exact H1|apply IH; exact H2].
Qed.

Lemma seg_eqb_eq a b : seg_eqb a b = true -> a = b.
Proof.
  destruct a as [ma la], b as [mb lb]. unfold seg_eqb. simpl. intros H.
  apply andb_prop in H. destruct H as [H1 H2]. apply Z.eqb_eq in H1.
  apply (option_eqb_eq Z.eqb) in H2; [subst; reflexivity|]. intros x y. apply Z.eqb_eq.
Qed.
Lemma segs_eqb_eq a b : segs_eqb a b = true -> a = b.
Proof. apply list_eqb_eq. exact seg_eqb_eq. Qed.
Lemma ts_eqb_eq a b : ts_eqb a b = true -> a = b.
Proof.
  destruct a, b. unfold ts_eqb. simpl. intros H. apply andb_prop in H. destruct H as [H1 H2].
  apply Z.eqb_eq in H1. apply Z.eqb_eq in H2. subst. reflexivity.
Qed.
Lemma mode_eqb_eq a b : mode_eqb a b = true -> a = b.
Proof.
  destruct a as [sa la], b as [sb lb]. unfold mode_eqb. simpl. intros H.
  apply andb_prop in H. destruct H as [H1 H2].
  apply (option_eqb_eq ts_eqb ts_eqb_eq) in H1. apply segs_eqb_eq in H2. subst. reflexivity.
Qed.
Lemma zz_eqb_eq a b : zz_eqb a b = true -> a = b.
Proof.
  destruct a, b. unfold zz_eqb. simpl. intros H. apply andb_prop in H. destruct H as [H1 H2].
  apply Z.eqb_eq in H1. apply Z.eqb_eq in H2. subst. reflexivity.
Qed.
Lemma zb_eqb_eq a b : zb_eqb a b = true -> a = b.
Proof.
  destruct a, b. unfold zb_eqb. simpl. intros H. apply andb_prop in H. destruct H as [H1 H2].
  apply Z.eqb_eq in H1. apply Bool.eqb_prop in H2. subst. reflexivity.
Qed.
Lemma zb_eqb_refl a : zb_eqb a a = true.
Proof. destruct a. unfold zb_eqb. simpl. rewrite Z.eqb_refl, Bool.eqb_reflx. reflexivity. Qed.
Lemma cut3_eqb_eq {A} (e : A -> A -> bool) (He : forall x y, e x y = true -> x = y) a b :
  cut3_eqb e a b = true -> a = b.
Proof.
  destruct a as [[a1 a2] a3], b as [[b1 b2] b3]. unfold cut3_eqb. intros H.
  apply andb_prop in H. destruct H as [H H3]. apply andb_prop in H. destruct H as [H1 H2].
  apply (option_eqb_eq e He) in H1. apply (option_eqb_eq e He) in H2. apply Bool.eqb_prop in H3.
  subst. reflexivity.
Qed.

Lemma pointwise_intro pts f g : (forall t, f t = g t) -> pointwise pts f g = true.
Proof.
  intros H. unfold pointwise. apply forallb_forall. intros t _. rewrite H. apply Z.eqb_refl.
Qed.

Lemma prefix_len_same i l : prefix_len i l = prefix_len' i l.
Proof. reflexivity. Qed.

Lemma firstn_zlen {A} (l : list A) : firstn (Z.to_nat (zlen l)) l = l.
Proof. unfold zlen. rewrite Nat2Z.id. apply firstn_all. Qed.

(* ---- ActiveAt ---- *)
Lemma active_ok_model d l : active_ok d l (active_at d l) = true.
Proof.
  unfold active_ok. destruct (active_at d l) as [el i] eqn:E.
  destruct (Z.ltb_spec d 0) as [Hd|Hd].
  - unfold active_at in E. destruct (Z.ltb_spec d 0); [|lia]. inversion E. subst.
    rewrite !Z.eqb_refl. reflexivity.
  - pose proof (active_at_contract d l Hd) as C. rewrite E in C.
    destruct C as ((H0 & H1) & H2 & H3 & H4 & H5).
    rewrite prefix_len_same.
    repeat (apply andb_true_intro; split); try (apply Z.leb_le; lia); try (apply Z.eqb_eq; exact H2); try exact H4.
    destruct (Z.ltb_spec i (zlen l)) as [Hi|Hi]; [|reflexivity].
    specialize (H5 Hi). destruct (len (nth (Z.to_nat i) l (mkSeg 0 None))); [apply Z.ltb_lt; exact H5|reflexivity].
Qed.

(* ---- the soundness theorem, one kind of case at a time ---- *)
Lemma sound_periods p q : periods_ok p q = true ->
  periods_intersect p q = intersect_ref p q /\ periods_connected p q = connected_ref p q.
Proof.
  destruct p as [p|], q as [q|]; simpl; intros H; try (split; reflexivity).
  apply andb_prop in H. destruct H as [Hp Hq].
  split; [apply intersect_is_ref|apply connected_is_ref]; assumption.
Qed.

Lemma mode_wf_segs m : mode_wf m = true -> segs_wf (msegs m) = true.
Proof. unfold mode_wf. intros H. apply andb_prop in H. tauto. Qed.

Lemma cut_eqb_eq a b : cut_eqb a b = true -> a = b.
Proof. destruct a, b; simpl; intros H; try discriminate; try reflexivity; f_equal; apply ts_eqb_eq; exact H. Qed.
Lemma period_eqb_eq p q : period_eqb p q = true -> p = q.
Proof.
  destruct p as [ps pe], q as [qs qe]. unfold period_eqb. simpl. intros H. apply andb_prop in H. destruct H as [H1 H2].
  apply (option_eqb_eq ts_eqb ts_eqb_eq) in H1. apply (option_eqb_eq ts_eqb ts_eqb_eq) in H2. subst. reflexivity.
Qed.
Lemma optZ_eqb_refl o : optZ_eqb o o = true.
Proof. destruct o; simpl; [apply Z.eqb_refl|reflexivity]. Qed.

Lemma guard2 (a b : bool) : a && b = true -> a = true /\ b = true.
Proof. apply andb_prop. Qed.

(* the ownership cases: the model never reports a mutation *)
Lemma own_sound (mut : bool) h0 h (rest : bool) :
  heap_ext h0 h -> Bool.eqb mut (negb (heap_kept h0 h)) && rest = true -> negb mut = true.
Proof.
  intros E A. apply andb_prop in A. destruct A as [A _]. apply Bool.eqb_prop in A. subst mut.
  rewrite (heap_ext_kept h0 h E). reflexivity.
Qed.

Theorem judge_sound0 c : C18_guard0 c = true -> agrees0 c = true -> C18_ok0 c = true.
Proof.
  destruct c; unfold C18_guard0, agrees0, C18_ok0; intros G A; try discriminate G.
  - (* KCompare *)
    apply andb_prop in G. destruct G as [Ga Gb]. apply Z.eqb_eq in A. subst obs.
    rewrite compare_ascending_is_ref by assumption. apply Z.eqb_refl.
  - (* KIntersect *)
    apply Bool.eqb_prop in A. subst obs. destruct (sound_periods p q G) as [H _]. rewrite H. apply Bool.eqb_reflx.
  - (* KConnected *)
    apply Bool.eqb_prop in A. subst obs. destruct (sound_periods p q G) as [_ H]. rewrite H. apply Bool.eqb_reflx.
  - (* KActiveAt *)
    destruct (dur_guard_spec d l G) as (L & _). rewrite (active_at_w_eq d l L) in A.
    apply zz_eqb_eq in A. subst obs. apply active_ok_model.
  - (* KMagAt *)
    destruct (dur_guard_spec d l G) as (L & _). rewrite (magnitude_at_w_eq d l L) in A.
    apply zb_eqb_eq in A. subst obs. rewrite magnitude_at_is_level.
    destruct (level d l); simpl; apply zb_eqb_refl.
  - (* KDuration *)
    destruct (dur_guard_spec 0 l G) as (L & _). rewrite (duration_w_eq l L) in A.
    apply zb_eqb_eq in A. subst obs. unfold duration. rewrite duration_from_spec.
    destruct (forallb (fun s => match len s with Some _ => true | None => false end) l).
    + unfold prefix_len. rewrite firstn_zlen. replace (0 + sumZ (map fin_len l)) with (sumZ (map fin_len l)) by lia.
      apply zb_eqb_refl.
    + reflexivity.
  - (* KMax *)
    apply Z.eqb_eq in A. subst obs. apply max_ok_model.
  - (* KMaxAfter *)
    destruct (dur_guard_spec d l G) as (L & _). rewrite (max_after_w_eq d l L) in A.
    apply Z.eqb_eq in A. subst obs. apply max_after_contract.
  - (* KCutSeg *)
    apply (cut3_eqb_eq seg_eqb seg_eqb_eq) in A. subst obs.
    destruct (Z.ltb_spec 0 d) as [Hd|Hd]; cbv beta iota delta [andb]; [|destruct (cut_seg d s) as [[? ?] ?]; reflexivity].
    destruct (match len s with Some n => d <? n | None => true end) eqn:Hn; [|destruct (cut_seg d s) as [[? ?] ?]; reflexivity].
    assert (Hn' : match len s with Some n => d < n | None => True end).
    { destruct (len s); [apply Z.ltb_lt; exact Hn|exact I]. }
    destruct (cut_seg_preserves d s Hd Hn') as (b & a & E & Lb & V). rewrite E. cbv beta iota. rewrite Lb.
    apply andb_true_intro. split; [apply andb_true_intro; split; [unfold option_eqb; apply Z.eqb_refl|reflexivity]|].
    apply pointwise_intro. intros t. symmetry. apply V.
  - (* KShift *)
    rewrite (shift_w_eq d l G) in A. destruct (dur_guard_spec d l G) as ([Hwf _] & _).
    apply segs_eqb_eq in A. subst obs. apply pointwise_intro. intros t. apply shift_is_translation. exact Hwf.
  - (* KSum *)
    apply andb_prop in G. destruct G as [G1 G2]. apply Z.leb_le in G2. rewrite (sum_w_eq ls G1) in A.
    apply segs_eqb_eq in A. subst obs.
    assert (Hwf : forallb segs_wf ls = true).
    { apply forallb_forall. intros l Hl. rewrite forallb_forall in G1. apply (lens_ok_b_spec l (G1 l Hl)). }
    apply pointwise_intro. intros t. apply sum_is_pointwise_tail; assumption.
  - (* KModeMagAt *)
    apply guard2 in G. destruct G as [Gw Gd]. rewrite (mode_magnitude_at_w_eq t m Gd) in A.
    apply zb_eqb_eq in A. subst obs. rewrite mode_magnitude_at_is_level.
    destruct (level (t - t_or_st t m) (msegs m)); simpl; apply zb_eqb_refl.
  - (* KModeActiveAt *)
    apply guard2 in G. destruct G as [Gw Gd]. rewrite (mode_active_at_w_eq t m Gd) in A.
    apply zz_eqb_eq in A. subst obs. apply active_ok_model.
  - (* KModeCut *)
    apply guard2 in G. destruct G as [G Gd]. rewrite (mode_cut_w_eq t m Gd) in A.
    apply (cut3_eqb_eq mode_eqb mode_eqb_eq) in A. subst obs.
    destruct (mode_cut t m) as [[b a] outside] eqn:E.
    destruct (mstart m) as [s|] eqn:Hs; [|reflexivity].
    destruct b as [b|]; [|reflexivity]. destruct a as [a|]; [|reflexivity].
    destruct outside; [reflexivity|].
    destruct (mode_cut_preserves t m s Hs (mode_wf_segs m G) b a E) as (Ha & Hb & Hbefore & Hafter).
    apply andb_true_intro. split.
    + apply forallb_forall. intros x _.
      destruct (Z.ltb_spec x t); [rewrite Hbefore by lia|rewrite Hafter by lia]; apply Z.eqb_refl.
    + rewrite Ha. simpl. unfold ts_eqb. rewrite !Z.eqb_refl. reflexivity.
  - (* KModeShift *)
    apply guard2 in G. destruct G as [G Gd]. rewrite (mode_shift_w_eq d m Gd) in A.
    apply mode_eqb_eq in A. subst obs.
    destruct (mstart m) as [s|] eqn:Hs.
    + assert (E : exists s', mstart (mode_shift d m) = Some s').
      { unfold mode_shift. destruct (d =? 0); [exists s; exact Hs|rewrite Hs; simpl; eauto]. }
      destruct E as [s' E]. rewrite E.
      apply pointwise_intro. intros x. apply (mode_shift_with_start d m s x Hs).
    + destruct (mode_shift_without_start d m 0 Hs (mode_wf_segs m G)) as [E _]. rewrite E.
      apply pointwise_intro. intros x.
      destruct (mode_shift_without_start d m x Hs (mode_wf_segs m G)) as [_ V]. exact V.
  - (* KModeSum *)
    apply guard2 in G. destruct G as [G Gs]. rewrite (mode_sum_w_eq ms Gs) in A.
    apply andb_prop in G. destruct G as [G1 G2]. apply Z.leb_le in G2. fold (modes_tail ms) in G2.
    apply (option_eqb_eq mode_eqb mode_eqb_eq) in A. subst obs.
    destruct ms as [|m0 ms']; [reflexivity|].
    assert (Hwf : forallb (fun m => segs_wf (msegs m)) (m0 :: ms') = true).
    { apply forallb_forall. intros m Hm. rewrite forallb_forall in G1. apply mode_wf_segs. apply G1. exact Hm. }
    assert (Hne : m0 :: ms' <> []) by discriminate.
    destruct (starts (m0 :: ms')) as [|s0 rest] eqn:Hst.
    + destruct (mode_sum_no_start_tail (m0 :: ms') 0 Hne Hst Hwf G2) as (r & E & Hr & _). rewrite E. rewrite Hr. simpl negb.
      apply pointwise_intro. intros x.
      destruct (mode_sum_no_start_tail (m0 :: ms') x Hne Hst Hwf G2) as (r' & E' & _ & V). rewrite E in E'. inversion E'. subst r'. exact V.
    + destruct (mode_sum_is_pointwise_tail (m0 :: ms') s0 rest Hne Hst Hwf G2) as (r & E & Hr & V). rewrite E. rewrite Hr.
      apply andb_true_intro. split.
      * simpl. unfold ts_eqb. rewrite !Z.eqb_refl. reflexivity.
      * apply forallb_forall. intros x _.
        destruct (Z.ltb_spec x (minZ rest s0)); [reflexivity|].
        specialize (V x ltac:(lia)). unfold mode_val in V. rewrite Hr in V. rewrite ts_val_ts_of in V.
        rewrite V. apply Z.eqb_refl.
  - (* KCutCompare *)
    apply guard2 in G. destruct G as [Ga Gb]. apply Z.eqb_eq in A. subst obs.
    rewrite (cut_compare_is_ref a b Ga Gb). apply Z.eqb_refl.
  - (* KCutPeriod *)
    destruct obs as [lo hi]. simpl fst in A. simpl snd in A. apply guard2 in A. destruct A as [A1 A2].
    apply cut_eqb_eq in A1. apply cut_eqb_eq in A2. subst lo hi.
    destruct (cut_period_ranks p) as [R1 R2]. unfold end_rank in R1, R2. rewrite R1, R2.
    apply andb_true_intro. split; apply Z.eqb_eq; apply lex3_zero; reflexivity.
  - (* KPeriodCtor *)
    apply (option_eqb_eq period_eqb period_eqb_eq) in A. subst obs. unfold period_ctor.
    destruct (k =? 0); [reflexivity|]. destruct (k =? 1).
    { unfold period_lo, period_hi. simpl. rewrite !optZ_eqb_refl. reflexivity. }
    destruct (k =? 2); unfold period_lo, period_hi; simpl; rewrite !optZ_eqb_refl; reflexivity.
  - (* KMaxMagnitude *)
    apply Z.eqb_eq in A. subst obs. rewrite max_magnitude_is_max. apply Z.eqb_refl.
  - (* KSumMagnitude *)
    exact A.
  - (* KModeMaxAfter *)
    apply guard2 in G. destruct G as [Gw Gd]. rewrite (mode_max_segment_after_w_eq t m Gd) in A.
    apply Z.eqb_eq in A. subst obs. unfold mode_max_segment_after. apply max_after_contract.
  - (* KMinAt *) exact A.
  - (* KOwnShift *)
    destruct (arg_heap pre post l) as [h0 s]. pose proof (shift_never_writes_args d s h0) as E.
    destruct (shift_own d s h0) as [r h]. exact (own_sound _ _ _ _ E A).
  - (* KOwnSum *)
    destruct (args_heap args) as [h0 ss]. pose proof (sum_never_writes_args no_growth ss h0) as E.
    destruct (sum_own no_growth ss h0) as [r h]. exact (own_sound _ _ _ _ E A).
  - (* KOwnModeCut *)
    destruct (margs_heap [arg]) as [h0 ms]. pose proof (mode_cut_never_writes_args no_growth t 0%nat h0) as E.
    destruct (mode_cut_own no_growth t 0%nat h0) as [[[b a] o] h]. exact (own_sound _ _ _ _ E A).
  - (* KOwnModeShift *)
    destruct (margs_heap [arg]) as [h0 ms]. pose proof (mode_shift_never_writes_args no_growth d 0%nat h0) as E.
    destruct (mode_shift_own no_growth d 0%nat h0) as [r h]. exact (own_sound _ _ _ _ E A).
  - (* KOwnModeSum *)
    destruct (margs_heap args) as [h0 ms]. pose proof (mode_sum_never_writes_args no_growth ms h0) as E.
    destruct (mode_sum_own no_growth ms h0) as [r h]. exact (own_sound _ _ _ _ E A).
Qed.

Lemma ts_eqb_refl a : ts_eqb a a = true.
Proof. unfold ts_eqb. rewrite !Z.eqb_refl. reflexivity. Qed.

Lemma and4 (a b c d : bool) : a && b && c && d = true -> a = true /\ b = true /\ c = true /\ d = true.
Proof. intros H. apply andb_prop in H. destruct H as [H Hd]. apply andb_prop in H. destruct H as [H Hc].
  apply andb_prop in H. tauto. Qed.

(* with the kinds observed through Go's time.Time: inside the band the Go-representation model is the instant
   model (GoTimeModeProofs), so the same oracles apply *)
Theorem judge_sound c : C18_guard c = true -> agrees c = true -> C18_ok c = true.
Proof.
  destruct c; try exact (judge_sound0 _); unfold C18_guard, agrees, C18_ok; intros G A.
  - (* KGoCompare *)
    destruct obs as [[[c s] bf] af]. apply and4 in G. destruct G as (Va & Vb & Ba & Bb).
    apply and4 in A. destruct A as (Ac & As & Abf & Aaf).
    apply Z.eqb_eq in Ac. apply Z.eqb_eq in As. apply Bool.eqb_prop in Abf. apply Bool.eqb_prop in Aaf.
    pose proof (ts_as_time_wf a) as Wa. pose proof (ts_as_time_wf b) as Wb.
    assert (Ec : c = compare_ref a b).
    { rewrite Ac. change (go_compare (ts_as_time a) (ts_as_time b)) with (compare_via_as_time a b).
      rewrite (proj2 (compare_via_as_time_exact a b Va Vb)) by (rewrite Ba, Bb; reflexivity).
      apply compare_ascending_is_ref; assumption. }
    rewrite (go_sub_tval _ _ Wa Wb) in As. rewrite (go_before_tval _ _ Wa Wb) in Abf.
    rewrite (go_after_tval _ _ Wa Wb) in Aaf.
    rewrite (tval_as_time_in_band a Va Ba), (tval_as_time_in_band b Vb Bb) in *.
    subst c s bf af. rewrite Ec, !Z.eqb_refl, !Bool.eqb_reflx. reflexivity.
  - (* KGoNew *)
    apply and4 in G. destruct G as (Va & Ba & Hd & SB). apply ts_eqb_eq in A. subst obs.
    rewrite (go_add_in_band a d Va Ba Hd SB). apply ts_eqb_refl.
  - (* KGoMode *)
    destruct obs as [[[ac mg] mx] ct]. apply andb_prop in G. destruct G as [G G0]. apply andb_prop in G.
    destruct G as [Ht B]. destruct (mode_reads_g_in_band t m Ht B) as (E1 & E2 & E3).
    rewrite E1, E2, E3, (mode_cut_g_in_band t m Ht B) in A. apply and4 in A. destruct A as (A1 & A2 & A3 & A4).
    rewrite (judge_sound0 (KModeActiveAt t m ac) G0 A1), (judge_sound0 (KModeMagAt t m mg) G0 A2),
      (judge_sound0 (KModeMaxAfter t m mx) G0 A3), (judge_sound0 (KModeCut t m ct) G0 A4). reflexivity.
  - (* KGoModeShift *)
    apply and4 in G. destruct G as (Hd & B & SB & G0). rewrite (mode_shift_g_in_band d m Hd B SB) in A.
    exact (judge_sound0 (KModeShift d m obs) G0 A).
  - (* KGoModeSum *) reflexivity.
Qed.

(* consequently the check's verdict on the model's own output is always 0 *)
Corollary judge_on_model c : C18_guard c = true -> agrees c = true -> judge c = 0.
Proof.
  intros G A. unfold judge. rewrite G, A. rewrite (judge_sound c G A). reflexivity.
Qed.
