(* Go's time.Time under the mode operations (GoTimeMode.v):
   - inside the band where seconds + 62135596800 fits an int64 (every valid Timestamp and 292e9 years around it)
     AsTime is exact, Sub is the saturating difference, Before / After compare the denoted instants, New is the
     inverse of AsTime; so the operations over Go's representation ARE the functions of Wrap.v;
   - CompareAscending written as AsTime().Compare() is the chronological order exactly on pairs of timestamps on
     the same side of the band limit, and the REVERSE order on every pair that straddles it. *)
From SC Require Import Base.Prelude Cmp.Cmp Cmp.Tolerance Cmp.GoTime Cmp.ToleranceProofs Cmp.GoTimeProofs.
From SC Require Import Timeline.Timestamp Timeline.Segment Timeline.Mode Timeline.Wrap Timeline.GoTimeMode.

Local Arguments Z.add : simpl never.
Local Arguments Z.sub : simpl never.
Local Arguments Z.mul : simpl never.
Local Arguments Z.quot : simpl never.
Local Arguments Z.rem : simpl never.
Local Arguments wrap64 : simpl never.

Lemma get_secs s : get_int "seconds" (ts_fields s) = secs s.
Proof. reflexivity. Qed.
Lemma get_nanos s : get_int "nanos" (ts_fields s) = nanos s.
Proof. reflexivity. Qed.

Lemma ts_valid_spec s : ts_valid s = true ->
  -9223372036854775808 <= secs s <= 9223372036854775807 /\ 0 <= nanos s < 1000000000.
Proof.
  unfold ts_valid. intros H. apply andb_prop in H. destruct H as [H H3]. apply andb_prop in H. destruct H as [H1 H2].
  apply in64_iff in H1. apply Z.leb_le in H2. apply Z.ltb_lt in H3. lia.
Qed.

(* ---------- AsTime ---------- *)
Lemma ts_as_time_norm s : 0 <= nanos s < 1000000000 ->
  ts_as_time s = (wrap64 (secs s + unix_to_internal), nanos s).
Proof.
  intros Hn. unfold ts_as_time, as_time. rewrite get_secs, get_nanos.
  destruct (Z.ltb_spec (nanos s) 0); [lia|]. unfold giga. destruct (Z.leb_spec 1000000000 (nanos s)); [lia|].
  reflexivity.
Qed.

Lemma ts_as_time_wf s : wf_time (ts_as_time s).
Proof. apply as_time_wf. Qed.

Lemma ts_as_time_in_band s : ts_valid s = true -> in_band s = true ->
  ts_as_time s = (secs s + unix_to_internal, nanos s).
Proof.
  intros V B. apply ts_valid_spec in V. destruct V as [Vs Vn]. rewrite ts_as_time_norm by exact Vn.
  unfold in_band, max64, unix_to_internal in *. apply Z.leb_le in B.
  rewrite ToleranceProofs.wrap64_id by lia. reflexivity.
Qed.

(* past the band the stored seconds are 2^64 too small *)
Lemma ts_as_time_out_of_band s : ts_valid s = true -> in_band s = false ->
  ts_as_time s = (secs s + unix_to_internal - 18446744073709551616, nanos s).
Proof.
  intros V B. apply ts_valid_spec in V. destruct V as [Vs Vn]. rewrite ts_as_time_norm by exact Vn.
  unfold in_band, max64, unix_to_internal in *. apply Z.leb_gt in B.
  destruct (wrap64_ex (secs s + 62135596800)) as (k & E & R). f_equal. lia.
Qed.

Lemma tval_as_time_in_band s : ts_valid s = true -> in_band s = true -> tval (ts_as_time s) = ts_val s.
Proof.
  intros V B. rewrite (ts_as_time_in_band s V B). unfold tval, ts_val, giga, unix_to_internal. cbn [fst snd]. lia.
Qed.

(* time.Unix(0, n) denotes n *)
Lemma time_of_nanos_spec t : in64 t = true ->
  wf_time (time_of_nanos t) /\ tval (time_of_nanos t) = t.
Proof.
  intros Ht. split; [apply as_time_wf|]. apply in64_iff in Ht.
  unfold time_of_nanos, ts_as_time, as_time. rewrite get_secs, get_nanos. cbn [secs nanos].
  unfold tval, giga, unix_to_internal.
  destruct ((t <? 0) || (1000000000 <=? t)) eqn:Out.
  - pose proof (Z.quot_rem' t 1000000000) as QR.
    assert (RB : Z.abs (Z.rem t 1000000000) < 1000000000) by (apply Z.rem_bound_abs; lia).
    cbv zeta. set (q := Z.quot t 1000000000) in *. set (r := Z.rem t 1000000000) in *.
    replace (t - q * 1000000000) with r by lia.
    rewrite (ToleranceProofs.wrap64_id (0 + q)) by lia.
    destruct (Z.ltb_spec r 0); cbn [fst snd].
    + rewrite (ToleranceProofs.wrap64_id (0 + q - 1)) by lia.
      rewrite (ToleranceProofs.wrap64_id (0 + q - 1 + 62135596800)) by lia. lia.
    + rewrite (ToleranceProofs.wrap64_id (0 + q + 62135596800)) by lia. lia.
  - apply orb_false_iff in Out. destruct Out as [O1 O2]. apply Z.ltb_ge in O1. apply Z.leb_gt in O2.
    cbn [fst snd]. rewrite (ToleranceProofs.wrap64_id (0 + 62135596800)) by lia. lia.
Qed.

(* ---------- Sub, Before, After, New on denoted instants ---------- *)
Lemma time_diff_tval T U : time_diff T U = tval T - tval U.
Proof. unfold time_diff, tval, giga. lia. Qed.

Lemma go_sub_tval T U : wf_time T -> wf_time U -> go_sub T U = sat64 (tval T - tval U).
Proof.
  intros WT WU. rewrite go_sub_is_time_sub by assumption. rewrite <- time_diff_tval.
  unfold sat64, min64, max64.
  destruct (time_sub_cases T U WT WU) as [[R S]|[[R S]|[R S]]]; unfold min_dur, max_dur in *; rewrite S.
  - destruct (Z.ltb_spec (time_diff T U) (-9223372036854775808)); [lia|].
    destruct (Z.ltb_spec 9223372036854775807 (time_diff T U)); [lia|reflexivity].
  - destruct (Z.ltb_spec (time_diff T U) (-9223372036854775808)); [lia|].
    destruct (Z.ltb_spec 9223372036854775807 (time_diff T U)); [reflexivity|lia].
  - destruct (Z.ltb_spec (time_diff T U) (-9223372036854775808)); [reflexivity|lia].
Qed.

Lemma go_before_tval T U : wf_time T -> wf_time U -> go_before T U = (tval T <? tval U).
Proof.
  intros WT WU. rewrite go_before_is_time_before. pose proof (time_before_iff T U WT WU) as B.
  rewrite time_diff_tval in B. destruct (time_before T U), (Z.ltb_spec (tval T) (tval U)); try reflexivity.
  - assert (tval T - tval U < 0) by (apply B; reflexivity). lia.
  - assert (true = false -> False) by discriminate. assert (false = true) by (apply B; lia). discriminate.
Qed.

Lemma go_after_is_before T U : go_after T U = go_before U T.
Proof. unfold go_after, go_before. rewrite (Z.eqb_sym (fst T) (fst U)). reflexivity. Qed.

Lemma go_after_tval T U : wf_time T -> wf_time U -> go_after T U = (tval U <? tval T).
Proof. intros WT WU. rewrite go_after_is_before. apply go_before_tval; assumption. Qed.

(* timestamppb.New is the inverse of AsTime while Unix() does not wrap *)
Lemma ts_new_tval T : wf_time T -> in64 (fst T - unix_to_internal) = true -> ts_new T = ts_of (tval T).
Proof.
  intros [_ Hn] HI. apply in64_iff in HI. unfold ts_new, ts_of, tval, giga in *.
  rewrite ToleranceProofs.wrap64_id by exact HI. f_equal.
  - apply Z.div_unique with (r := snd T); lia.
  - apply Z.mod_unique with (q := fst T - unix_to_internal); lia.
Qed.

Lemma time_of_nanos_unix t : in64 t = true -> in64 (fst (time_of_nanos t) - unix_to_internal) = true.
Proof.
  intros Ht. destruct (time_of_nanos_spec t Ht) as [[_ Hn] E]. apply in64_iff in Ht. apply in64_iff.
  unfold tval, giga in *. lia.
Qed.

Lemma ts_new_time_of_nanos t : in64 t = true -> ts_new (time_of_nanos t) = ts_of t.
Proof.
  intros Ht. destruct (time_of_nanos_spec t Ht) as [W E].
  rewrite (ts_new_tval _ W (time_of_nanos_unix t Ht)), E. reflexivity.
Qed.

(* ---------- the reading operations ---------- *)
Lemma t_or_st_g_spec t m : in64 t = true -> start_in_band m = true ->
  wf_time (t_or_st_g (time_of_nanos t) m) /\ tval (t_or_st_g (time_of_nanos t) m) = t_or_st t m.
Proof.
  intros Ht B. unfold t_or_st_g, t_or_st, start_in_band in *. destruct (mstart m) as [s|].
  - apply andb_prop in B. destruct B as [V B]. split; [apply ts_as_time_wf | apply tval_as_time_in_band; assumption].
  - apply time_of_nanos_spec. exact Ht.
Qed.

Theorem mode_d_g_in_band : forall t m, in64 t = true -> start_in_band m = true -> mode_d_g t m = mode_d t m.
Proof.
  intros t m Ht B. unfold mode_d_g, mode_d. destruct (time_of_nanos_spec t Ht) as [WT ET].
  destruct (t_or_st_g_spec t m Ht B) as [WS ES]. rewrite (go_sub_tval _ _ WT WS), ET, ES. reflexivity.
Qed.

Theorem mode_reads_g_in_band : forall t m, in64 t = true -> start_in_band m = true ->
  mode_active_at_g t m = mode_active_at_w t m /\
  mode_magnitude_at_g t m = mode_magnitude_at_w t m /\
  mode_max_segment_after_g t m = mode_max_segment_after_w t m.
Proof.
  intros t m Ht B. unfold mode_active_at_g, mode_magnitude_at_g, mode_max_segment_after_g,
    mode_active_at_w, mode_magnitude_at_w, mode_max_segment_after_w.
  rewrite (mode_d_g_in_band t m Ht B). repeat split.
Qed.

(* a start time past the band: Sub saturates the WRONG way (the mode lies in the far future, t.Sub(start) should be
   the most negative Duration; Go answers the most positive one, and the mode looks long finished) *)
Theorem mode_d_g_out_of_band_refuted :
  exists t m, in64 t = true /\ (match mstart m with Some s => ts_valid s | None => false end) = true /\
              mode_d t m = min64 /\ mode_d_g t m = max64.
Proof. exists 0, (mkMode (Some (mkTs 9223372036854775807 0)) []). vm_compute. repeat split. Qed.

(* ---------- Cut ---------- *)
Theorem mode_cut_g_in_band : forall t m, in64 t = true -> start_in_band m = true -> mode_cut_g t m = mode_cut_w t m.
Proof.
  intros t m Ht B. unfold mode_cut_g, mode_cut_w. destruct (msegs m) as [|s0 r0] eqn:Em; [reflexivity|].
  destruct (time_of_nanos_spec t Ht) as [WT ET]. destruct (t_or_st_g_spec t m Ht B) as [WS ES].
  cbv zeta. rewrite (go_after_tval _ _ WT WS), (go_before_tval _ _ WT WS), (go_sub_tval _ _ WT WS), ET, ES.
  rewrite (ts_new_time_of_nanos t Ht). rewrite <- Z.leb_antisym. reflexivity.
Qed.

(* ---------- Shift ---------- *)

Lemma go_add_in_band s d : ts_valid s = true -> in_band s = true -> in64 d = true -> shift_in_band s d = true ->
  ts_new (go_add (ts_as_time s) d) = ts_of (ts_val s + d).
Proof.
  intros V B Hd SB. pose proof (ts_as_time_wf s) as W.
  destruct (go_add_spec (ts_as_time s) d W Hd) as (q & n & E & Rn & Rq & EA). rewrite EA.
  rewrite (ts_as_time_in_band s V B) in *. cbn [fst snd] in *.
  apply ts_valid_spec in V. destruct V as [Vs Vn].
  unfold shift_in_band in SB. apply andb_prop in SB. destruct SB as [S1 S2]. apply Z.leb_le in S1. apply Z.leb_le in S2.
  assert (Q : (ts_val s + d) / giga = secs s + q).
  { symmetry. apply Z.div_unique with (r := n); unfold ts_val, giga in *; lia. }
  assert (M : (ts_val s + d) mod giga = n).
  { symmetry. apply Z.mod_unique with (q := secs s + q); unfold ts_val, giga in *; lia. }
  rewrite Q in S1, S2. unfold in_band in B. apply Z.leb_le in B. unfold min64, max64, unix_to_internal in *.
  destruct (go_add_sec_spec (secs s + 62135596800) q ltac:(lia) ltac:(lia)) as [[R S]|[[R S]|[R S]]]; try lia.
  rewrite S. unfold ts_new, ts_of. cbn [fst snd]. unfold unix_to_internal. unfold giga in *. rewrite Q, M.
  rewrite ToleranceProofs.wrap64_id by lia. f_equal. lia.
Qed.

Theorem mode_shift_g_in_band : forall d m, in64 d = true -> start_in_band m = true ->
  mode_shift_in_band d m = true ->
  mode_shift_g d m = mode_shift_w d m.
Proof.
  intros d m Hd B SB. unfold mode_shift_g, mode_shift_w, start_in_band, mode_shift_in_band in *.
  destruct (d =? 0); [reflexivity|]. destruct (mstart m) as [s|]; [|reflexivity].
  apply andb_prop in B. destruct B as [V B]. rewrite (go_add_in_band s d V B Hd SB). reflexivity.
Qed.

(* ---------- CompareAscending through AsTime ---------- *)
Theorem compare_via_as_time_exact : forall a b, ts_valid a = true -> ts_valid b = true ->
  (compare_via_as_time a b = compare_ascending a b <-> in_band a = in_band b).
Proof.
  intros a b Va Vb. unfold compare_via_as_time, go_compare, compare_ascending.
  pose proof (ts_valid_spec a Va) as [Sa Na]. pose proof (ts_valid_spec b Vb) as [Sb Nb].
  destruct (in_band a) eqn:Ba, (in_band b) eqn:Bb.
  - rewrite (ts_as_time_in_band a Va Ba), (ts_as_time_in_band b Vb Bb). cbn [fst snd].
    split; [reflexivity|intros _].
    destruct (Z.eqb_spec (secs a + unix_to_internal) (secs b + unix_to_internal)).
    + destruct (Z.ltb_spec (secs a) (secs b)); [lia|]. destruct (Z.ltb_spec (secs b) (secs a)); [lia|]. reflexivity.
    + destruct (Z.ltb_spec (secs a + unix_to_internal) (secs b + unix_to_internal)),
        (Z.ltb_spec (secs a) (secs b)); try lia; try reflexivity.
      destruct (Z.ltb_spec (secs b + unix_to_internal) (secs a + unix_to_internal)),
        (Z.ltb_spec (secs b) (secs a)); try lia; reflexivity.
  - rewrite (ts_as_time_in_band a Va Ba), (ts_as_time_out_of_band b Vb Bb). cbn [fst snd].
    unfold in_band, max64, unix_to_internal in *. apply Z.leb_le in Ba. apply Z.leb_gt in Bb.
    split; [|discriminate]. intros H. exfalso.
    destruct (Z.eqb_spec (secs a + 62135596800) (secs b + 62135596800 - 18446744073709551616)); [lia|].
    destruct (Z.ltb_spec (secs a + 62135596800) (secs b + 62135596800 - 18446744073709551616)); [lia|].
    destruct (Z.ltb_spec (secs b + 62135596800 - 18446744073709551616) (secs a + 62135596800)); [|lia].
    destruct (Z.ltb_spec (secs a) (secs b)); [discriminate|lia].
  - rewrite (ts_as_time_out_of_band a Va Ba), (ts_as_time_in_band b Vb Bb). cbn [fst snd].
    unfold in_band, max64, unix_to_internal in *. apply Z.leb_gt in Ba. apply Z.leb_le in Bb.
    split; [|discriminate]. intros H. exfalso.
    destruct (Z.eqb_spec (secs a + 62135596800 - 18446744073709551616) (secs b + 62135596800)); [lia|].
    destruct (Z.ltb_spec (secs a + 62135596800 - 18446744073709551616) (secs b + 62135596800)); [|lia].
    destruct (Z.ltb_spec (secs a) (secs b)); [lia|].
    destruct (Z.ltb_spec (secs b) (secs a)); [discriminate|lia].
  - rewrite (ts_as_time_out_of_band a Va Ba), (ts_as_time_out_of_band b Vb Bb). cbn [fst snd].
    split; [reflexivity|intros _].
    destruct (Z.eqb_spec (secs a + unix_to_internal - 18446744073709551616) (secs b + unix_to_internal - 18446744073709551616)).
    + destruct (Z.ltb_spec (secs a) (secs b)); [lia|]. destruct (Z.ltb_spec (secs b) (secs a)); [lia|]. reflexivity.
    + destruct (Z.ltb_spec (secs a + unix_to_internal - 18446744073709551616) (secs b + unix_to_internal - 18446744073709551616)),
        (Z.ltb_spec (secs a) (secs b)); try lia; try reflexivity.
      destruct (Z.ltb_spec (secs b + unix_to_internal - 18446744073709551616) (secs a + unix_to_internal - 18446744073709551616)),
        (Z.ltb_spec (secs b) (secs a)); try lia; reflexivity.
Qed.

(* ... and on a straddling pair it is the reverse of the chronological order *)
Theorem compare_via_as_time_reversed : forall a b, ts_valid a = true -> ts_valid b = true ->
  in_band a = true -> in_band b = false ->
  compare_ascending a b = -1 /\ compare_via_as_time a b = 1 /\ compare_via_as_time b a = -1.
Proof.
  intros a b Va Vb Ba Bb. unfold compare_via_as_time, go_compare, compare_ascending.
  pose proof (ts_valid_spec a Va) as [Sa Na]. pose proof (ts_valid_spec b Vb) as [Sb Nb].
  rewrite (ts_as_time_in_band a Va Ba), (ts_as_time_out_of_band b Vb Bb). cbn [fst snd].
  unfold in_band, max64, unix_to_internal in *. apply Z.leb_le in Ba. apply Z.leb_gt in Bb.
  destruct (Z.ltb_spec (secs a) (secs b)); [|lia].
  destruct (Z.eqb_spec (secs a + 62135596800) (secs b + 62135596800 - 18446744073709551616)); [lia|].
  destruct (Z.eqb_spec (secs b + 62135596800 - 18446744073709551616) (secs a + 62135596800)); [lia|].
  destruct (Z.ltb_spec (secs a + 62135596800) (secs b + 62135596800 - 18446744073709551616)); [lia|].
  destruct (Z.ltb_spec (secs b + 62135596800 - 18446744073709551616) (secs a + 62135596800)); [|lia].
  repeat split.
Qed.

Example compare_via_as_time_nonvacuous :
  let a := mkTs 0 0 in let b := mkTs 9223372036854775807 0 in
  ts_valid a = true /\ ts_valid b = true /\ in_band a = true /\ in_band b = false.
Proof. vm_compute. repeat split. Qed.
