(* Ownership-aware model of the list- and mode-returning operations of segmentpb / modepb:
   segmentpb.Shift, segmentpb.Cut, segmentpb.Sum, modepb.Cut, modepb.Shift, modepb.Sum.

   Go memory as far as these functions touch it:
     - cells   : the *ElectricMode_Segment objects (address -> segment value); assigning a field
                 of a segment (x.Length = ..., x.Magnitude += ...) is [set_cell];
     - arrays  : the backing arrays of []*ElectricMode_Segment (address -> pointers); a slice is
                 (array, offset, len, cap); s[i] = p is [set_slot]; append writes IN PLACE into
                 the backing array when len < cap (this is what makes `append(head[:i], x)` on an
                 argument's sub-slice a mutation of the argument) and allocates otherwise;
     - mcells  : the *ElectricMode objects (address -> start time, Segments slice).
   Every function takes the heap and returns the heap; allocation appends at the end, so a
   location is "fresh" iff its address is >= the size of the heap the function was entered with.
   The growth policy of append / proto.Clone (how much spare capacity a new array gets) is a
   parameter g : nat -> nat of every function: the theorems hold for every g.

   Two local-variable shortcuts, both sound because nothing in between writes the location:
   `before.Segments` / `after.Segments` of modepb.Cut are the slices proto.Clone just created
   (not re-read from the clone), and `result[len(result)-1]` of segmentpb.Sum is the pointer most
   recently appended.  No proofs here. *)
From SC Require Import Base.Prelude Timeline.Timestamp Timeline.Segment Timeline.Mode.

Record slice := mkSlice { sarr : nat; soff : nat; slen : nat; scap : nat }.
Record heap := mkHeap { cells : list seg; arrays : list (list nat); mcells : list (option ts * slice) }.

Definition nil_slice : slice := mkSlice 0 0 0 0.
Definition dseg : seg := mkSeg 0 None.

Fixpoint upd {A} (n : nat) (v : A) (l : list A) : list A :=
  match l, n with
  | [], _ => []
  | _ :: r, O => v :: r
  | x :: r, S k => x :: upd k v r
  end.

Definition cell (h : heap) (p : nat) : seg := nth p (cells h) dseg.
Definition arr (h : heap) (a : nat) : list nat := nth a (arrays h) [].
Definition mcell (h : heap) (m : nat) : option ts * slice := nth m (mcells h) (None, nil_slice).
Definition slice_ptrs (h : heap) (s : slice) : list nat := firstn (slen s) (skipn (soff s) (arr h (sarr s))).
Definition read_slice (h : heap) (s : slice) : list seg := map (cell h) (slice_ptrs h s).
Definition read_mode (h : heap) (m : nat) : mode := mkMode (fst (mcell h m)) (read_slice h (snd (mcell h m))).

(* ---- primitives ---- *)
Definition new_cell (v : seg) (h : heap) : nat * heap :=
  (List.length (cells h), mkHeap (cells h ++ [v]) (arrays h) (mcells h)).
Definition set_cell (p : nat) (v : seg) (h : heap) : heap :=
  mkHeap (upd p v (cells h)) (arrays h) (mcells h).
(* make + fill: a new array holding ps followed by `extra` unused slots *)
Definition new_array (ps : list nat) (extra : nat) (h : heap) : slice * heap :=
  (mkSlice (List.length (arrays h)) 0 (List.length ps) (List.length ps + extra),
   mkHeap (cells h) (arrays h ++ [ps ++ repeat 0%nat extra]) (mcells h)).
(* s[i] = p *)
Definition set_slot (s : slice) (i : nat) (p : nat) (h : heap) : heap :=
  mkHeap (cells h) (upd (sarr s) (upd (soff s + i) p (arr h (sarr s))) (arrays h)) (mcells h).
(* s[i:j] *)
Definition sub (s : slice) (i j : nat) : slice := mkSlice (sarr s) (soff s + i) (j - i) (scap s - i).
(* append(s, p) *)
Definition append (g : nat -> nat) (s : slice) (p : nat) (h : heap) : slice * heap :=
  if (slen s <? scap s)%nat
  then (mkSlice (sarr s) (soff s) (S (slen s)) (scap s), set_slot s (slen s) p h)
  else new_array (slice_ptrs h s ++ [p]) (g (slen s)) h.
Definition new_mcell (v : option ts * slice) (h : heap) : nat * heap :=
  (List.length (mcells h), mkHeap (cells h) (arrays h) (mcells h ++ [v])).
Definition set_mcell (m : nat) (v : option ts * slice) (h : heap) : heap :=
  mkHeap (cells h) (arrays h) (upd m v (mcells h)).

(* proto.Clone of a mode: new segment objects, a new array, a new mode object *)
Definition clone_cells (ps : list nat) (h : heap) : list nat * heap :=
  (seq (List.length (cells h)) (List.length ps),
   mkHeap (cells h ++ map (cell h) ps) (arrays h) (mcells h)).
Definition clone_mode (g : nat -> nat) (m : nat) (h : heap) : nat * slice * heap :=
  let '(st, s) := mcell h m in
  let '(ps', h1) := clone_cells (slice_ptrs h s) h in
  let '(s', h2) := new_array ps' (g (slen s)) h1 in
  let '(m', h3) := new_mcell (st, s') h2 in
  (m', s', h3).

(* ---- segmentpb.Cut: (before, after, outside); new segment objects only for proper cuts ---- *)
Definition cut_own (d : Z) (p : nat) (h : heap) : option nat * option nat * bool * heap :=
  let s := cell h p in
  if d <=? 0 then (None, Some p, d <? 0, h)
  else match len s with
       | None => let '(b, h1) := new_cell (mkSeg (mag s) (Some d)) h in (Some b, Some p, false, h1)
       | Some l =>
           if l <=? d then (Some p, None, true, h)
           else let '(b, h1) := new_cell (mkSeg (mag s) (Some d)) h in
                let '(a, h2) := new_cell (mkSeg (mag s) (Some (l - d))) h1 in
                (Some b, Some a, false, h2)
       end.

(* ---- segmentpb.Shift ---- *)
Fixpoint shift_neg_own (d cur : Z) (s : slice) (i : nat) (ps : list nat) (h : heap) : slice * heap :=
  match ps with
  | [] => (nil_slice, h)                       (* return nil *)
  | p :: r =>
      match len (cell h p) with
      | None => (sub s i (slen s), h)           (* return segments[i:] : aliases the argument *)
      | Some n =>
          if d <? cur + n then
            let '(_, a, _, h1) := cut_own (d - cur) p h in
            match a with
            | Some pa => new_array (pa :: r) 0 h1
            | None => new_array r 0 h1          (* not reachable: d - cur < n *)
            end
          else shift_neg_own d (cur + n) s (S i) r h
      end
  end.

Definition shift_own (d : Z) (s : slice) (h : heap) : slice * heap :=
  if d =? 0 then (s, h)
  else match slice_ptrs h s with
       | [] => (s, h)
       | p0 :: rest =>
           if 0 <? d then
             let first := cell h p0 in
             if mag first =? 0 then
               match len first with
               | None => (s, h)
               | Some n =>
                   let '(p, h1) := new_cell first h in                       (* proto.Clone(first) *)
                   let h2 := set_cell p (mkSeg (mag first) (Some (n + d))) h1 in   (* first.Length = ... *)
                   new_array (p :: rest) 0 h2
               end
             else let '(p, h1) := new_cell (mkSeg 0 (Some d)) h in new_array (p :: p0 :: rest) 0 h1
           else shift_neg_own (- d) 0 s 0 (p0 :: rest) h
       end.

(* ---- segmentpb.Sum ---- *)
(* `if len(result) == 0 { result = append(result, &Segment{}) }` *)
Definition sum_ensure (g : nat -> nat) (res : slice) (lastp : nat) (h : heap) : slice * nat * heap :=
  if (slen res =? 0)%nat
  then let '(p, h') := new_cell (mkSeg 0 None) h in
       let '(res', h'') := append g res p h' in (res', p, h'')
  else (res, lastp, h).

Fixpoint sum_loop_own (g : nat -> nat) (cuts : list (Z * Z)) (res : slice) (lastp : nat) (last : Z) (h : heap)
  : slice * nat * heap :=
  match cuts with
  | [] => (res, lastp, h)
  | (at_, delta) :: r =>
      let length := at_ - last in
      let '(res1, lastp1, h1) := sum_ensure g res lastp h in
      let cur := cell h1 lastp1 in
      if length =? 0 then
        sum_loop_own g r res1 lastp1 last (set_cell lastp1 (mkSeg (mag cur + delta) (len cur)) h1)
      else
        let h2 := set_cell lastp1 (mkSeg (mag cur) (Some length)) h1 in
        let '(p, h3) := new_cell (mkSeg (mag cur + delta) None) h2 in
        let '(res2, h4) := append g res1 p h3 in
        sum_loop_own g r res2 p at_ h4
  end.

Definition sum_own (g : nat -> nat) (ss : list slice) (h : heap) : slice * heap :=
  let cuts := calc_cuts (map (read_slice h) ss) in
  let '(res, lastp, h1) := sum_loop_own g cuts nil_slice 0%nat 0 h in
  if (0 <? slen res)%nat then
    let lst := cell h1 lastp in
    match len lst with
    | None => if mag lst <=? 0 then (sub res 0 (slen res - 1), h1) else (res, h1)
    | Some _ => (res, h1)
    end
  else (res, h1).

(* ---- modepb.Cut: (before, after, outside) as mode addresses ---- *)
Definition mode_cut_own (g : nat -> nat) (t : Z) (m : nat) (h : heap) : option nat * option nat * bool * heap :=
  let '(st, s) := mcell h m in
  let ps := slice_ptrs h s in
  match ps with
  | [] => (Some m, Some m, true, h)
  | _ =>
    let stv := match st with None => t | Some x => ts_val x end in
    if t <=? stv then (None, Some m, t <? stv, h)
    else
      let d := t - stv in
      let '(elapsed, index) := active_at d (read_slice h s) in
      if index =? zlen ps then (Some m, None, true, h)
      else
        let i := Z.to_nat index in
        let '(mb, bs, h1) := clone_mode g m h in
        let '(ma, as_, h2) := clone_mode g m h1 in
        let h3 := set_mcell ma (Some (ts_of t), as_) h2 in          (* after.StartTime = New(t) *)
        let '(sb, sa, _, h4) := cut_own (d - elapsed) (nth i ps 0%nat) h3 in
        let h5 := match sb with
                  | None => set_mcell mb (st, sub bs 0 i) h4
                  | Some pb => let '(s', h') := append g (sub bs 0 i) pb h4 in set_mcell mb (st, s') h'
                  end in
        let h6 := match sa with
                  | None => set_mcell ma (Some (ts_of t), sub as_ (S i) (slen as_)) h5
                  | Some pa => set_mcell ma (Some (ts_of t), sub as_ i (slen as_)) (set_slot as_ i pa h5)
                  end in
        (Some mb, Some ma, false, h6)
  end.

(* ---- modepb.Shift ---- *)
Definition mode_shift_own (g : nat -> nat) (d : Z) (m : nat) (h : heap) : nat * heap :=
  if d =? 0 then (m, h)
  else
    let '(m', s', h1) := clone_mode g m h in
    match fst (mcell h m) with
    | None => let '(r, h2) := shift_own d s' h1 in (m', set_mcell m' (None, r) h2)
    | Some st => (m', set_mcell m' (Some (ts_of (ts_val st + d)), s') h1)
    end.

(* ---- modepb.Sum ---- *)
Fixpoint shift_all (ds : list (Z * slice)) (h : heap) : list slice * heap :=
  match ds with
  | [] => ([], h)
  | (d, s) :: r =>
      let '(s', h1) := shift_own d s h in
      let '(rs, h2) := shift_all r h1 in (s' :: rs, h2)
  end.

Definition mode_sum_own (g : nat -> nat) (ms : list nat) (h : heap) : option nat * heap :=
  match ms with
  | [] => (None, h)
  | _ =>
    let vals := map (mcell h) ms in
    match flat_map (fun v => match fst v with Some s => [ts_val s] | None => [] end) vals with
    | [] =>
        let '(r, h1) := sum_own g (map snd vals) h in
        let '(m', h2) := new_mcell (None, r) h1 in (Some m', h2)
    | s0 :: rest =>
        let earliest := minZ rest s0 in
        let latest := maxZ rest s0 in
        let ds := map (fun v => ((match fst v with Some s => ts_val s | None => latest end) - earliest, snd v)) vals in
        let '(slices, h1) := shift_all ds h in
        let '(r, h2) := sum_own g slices h1 in
        let '(m', h3) := new_mcell (Some (ts_of earliest), r) h2 in (Some m', h3)
    end
  end.

(* ---- what "never modifies its arguments" means: every location that existed on entry holds
        the same value on exit (the old heap is a prefix of the new one) ---- *)
Definition ext {A} (l l' : list A) : Prop := exists k, l' = l ++ k.
Definition heap_ext (h h' : heap) : Prop :=
  ext (cells h) (cells h') /\ ext (arrays h) (arrays h') /\ ext (mcells h) (mcells h').

(* a slice whose pointers can be read: it lies inside an existing array *)
Definition slice_ok (h : heap) (s : slice) : Prop :=
  (sarr s < List.length (arrays h))%nat /\
  Forall (fun p => (p < List.length (cells h))%nat) (slice_ptrs h s).

(* ---- provenance of results, as the harness observes it (pointer identity) ---- *)
Inductive prov := PArg (i : nat) | PFresh.
Inductive sprov := SEmpty | SArg (off : nat) | SFresh.
Definition prov_eqb (a b : prov) : bool :=
  match a, b with PArg i, PArg j => Nat.eqb i j | PFresh, PFresh => true | _, _ => false end.
Definition sprov_eqb (a b : sprov) : bool :=
  match a, b with SEmpty, SEmpty => true | SArg i, SArg j => Nat.eqb i j | SFresh, SFresh => true | _, _ => false end.

(* the heap the harness builds for one argument list: one backing array of pre + |l| + post
   segment objects (sentinels around the argument), the argument slice in the middle *)
Definition sentinel : seg := mkSeg 77 (Some 77).
Definition arg_heap (pre post : nat) (l : list seg) : heap * slice :=
  let cs := repeat sentinel pre ++ l ++ repeat sentinel post in
  (mkHeap cs [seq 0 (List.length cs)] [], mkSlice 0 pre (List.length l) (List.length l + post)).

Definition prov_of (h0 : heap) (p : nat) : prov := if (p <? List.length (cells h0))%nat then PArg p else PFresh.
Definition sprov_of (h0 : heap) (s : slice) : sprov :=
  if (slen s =? 0)%nat then SEmpty else if (sarr s <? List.length (arrays h0))%nat then SArg (soff s) else SFresh.
Definition view_slice (h0 h : heap) (s : slice) : sprov * list (prov * seg) :=
  (sprov_of h0 s, map (fun p => (prov_of h0 p, cell h p)) (slice_ptrs h s)).

(* true iff some location of h0 holds a different value in h *)
Definition cells_kept (h0 h : heap) : bool :=
  list_eqb seg_eqb (firstn (List.length (cells h0)) (cells h)) (cells h0).
Definition arrays_kept (h0 h : heap) : bool :=
  list_eqb (list_eqb Nat.eqb) (firstn (List.length (arrays h0)) (arrays h)) (arrays h0).
Definition slice_eqb (a b : slice) : bool :=
  Nat.eqb (sarr a) (sarr b) && Nat.eqb (soff a) (soff b) && Nat.eqb (slen a) (slen b) && Nat.eqb (scap a) (scap b).
Definition mcells_kept (h0 h : heap) : bool :=
  list_eqb (fun a b => option_eqb ts_eqb (fst a) (fst b) && slice_eqb (snd a) (snd b))
           (firstn (List.length (mcells h0)) (mcells h)) (mcells h0).
Definition heap_kept (h0 h : heap) : bool := cells_kept h0 h && arrays_kept h0 h && mcells_kept h0 h.
