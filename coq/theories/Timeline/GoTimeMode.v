(* modepb with Go's time.Time made explicit.

   Mode.v / Wrap.v read a time.Time as the integer count of nanoseconds it denotes, AsTime / timestamppb.New as
   exact conversions and Time.Sub as a saturating subtraction.  That reading is only right while
   seconds + 62135596800 fits an int64: time.Unix (hence Timestamp.AsTime) stores the seconds since year 1 in
   an int64, so the top 62135596800 values of Timestamp.Seconds wrap negative.  Here the same functions are
   written over Go's representation (t.ext, t.nsec()) with the algorithms of $GOROOT/src/time/time.go (Cmp/GoTime.v:
   Sub, Add, Before; Compare, After and Unix below), for every int64 of seconds and every int32 of nanos.
   These are the definitions the correspondence compares the mode operations with.
   GoTimeModeProofs.v: inside the band they are the functions of Wrap.v; outside they are not.  No proofs here. *)
From SC Require Import Base.Prelude Cmp.Cmp Cmp.Tolerance Cmp.GoTime.
From SC Require Import Timeline.Timestamp Timeline.Segment Timeline.Mode Timeline.Wrap.

Definition unix_to_internal : Z := 62135596800.

(* timestamppb.Timestamp.AsTime() = time.Unix(x.GetSeconds(), int64(x.GetNanos())).UTC() *)
Definition ts_fields (t : ts) : list (string * cval) :=
  [("seconds"%string, CS (CInt (secs t))); ("nanos"%string, CS (CInt (nanos t)))].
Definition ts_as_time (t : ts) : Z * Z := as_time (ts_fields t).
(* time.Unix(0, n): how the harness builds the time.Time argument from an int64 of nanoseconds *)
Definition time_of_nanos (n : Z) : Z * Z := ts_as_time (mkTs 0 n).

(* func (t Time) Compare(u Time) int, hasMonotonic clear:
     tc, uc = t.sec(), u.sec(); if tc == uc { tc, uc = int64(t.nsec()), int64(u.nsec()) }
     switch { case tc < uc: return -1; case tc > uc: return +1 }; return 0 *)
Definition go_compare (t u : Z * Z) : Z :=
  let '(tc, uc) := if fst t =? fst u then (snd t, snd u) else (fst t, fst u) in
  if tc <? uc then -1 else if uc <? tc then 1 else 0.
(* func (t Time) After(u Time) bool:  ts > us || ts == us && t.nsec() > u.nsec() *)
Definition go_after (t u : Z * Z) : bool :=
  (fst u <? fst t) || ((fst t =? fst u) && (snd u <? snd t)).
(* timestamppb.New(t) = &Timestamp{Seconds: t.Unix(), Nanos: int32(t.Nanosecond())};
   Unix() = t.sec() + internalToUnix, an int64 addition *)
Definition ts_new (t : Z * Z) : ts := mkTs (wrap64 (fst t - unix_to_internal)) (snd t).

(* CompareAscending written with the standard library: t1.AsTime().Compare(t2.AsTime()).  NOT what
   timestamp.go does; GoTimeModeProofs.v shows exactly where the two differ. *)
Definition compare_via_as_time (a b : ts) : Z := go_compare (ts_as_time a) (ts_as_time b).

(* common.go tOrST *)
Definition t_or_st_g (T : Z * Z) (m : mode) : Z * Z :=
  match mstart m with None => T | Some s => ts_as_time s end.
(* t.Sub(tOrST(t, mode)) *)
Definition mode_d_g (t : Z) (m : mode) : Z :=
  let T := time_of_nanos t in go_sub T (t_or_st_g T m).

Definition mode_active_at_g (t : Z) (m : mode) : Z * Z := active_at_w (mode_d_g t m) (msegs m).
Definition mode_magnitude_at_g (t : Z) (m : mode) : Z * bool := magnitude_at_w (mode_d_g t m) (msegs m).
Definition mode_max_segment_after_g (t : Z) (m : mode) : Z := max_after_w (mode_d_g t m) (msegs m).

(* cut.go Cut *)
Definition mode_cut_g (t : Z) (m : mode) : option mode * option mode * bool :=
  match msegs m with
  | [] => (Some m, Some m, true)
  | _ =>
    let T := time_of_nanos t in
    let st := t_or_st_g T m in
    if negb (go_after T st) then (None, Some m, go_before T st)
    else
      let d := go_sub T st in
      let '(elapsed, index) := active_at_w d (msegs m) in
      if index =? zlen (msegs m) then (Some m, None, true)
      else
        let i := Z.to_nat index in
        let s := nth i (msegs m) (mkSeg 0 None) in
        let '(sb, sa, _) := cut_seg (sub64 d elapsed) s in
        let before := firstn i (msegs m) ++ match sb with Some x => [x] | None => [] end in
        let after := match sa with Some x => [x] | None => [] end ++ skipn (S i) (msegs m) in
        (Some (mkMode (mstart m) before), Some (mkMode (Some (ts_new T)) after), false)
  end.

(* shift.go Shift *)
Definition mode_shift_g (d : Z) (m : mode) : mode :=
  if d =? 0 then m
  else match mstart m with
       | None => mkMode None (shift_w d (msegs m))
       | Some s => mkMode (Some (ts_new (go_add (ts_as_time s) d))) (msegs m)
       end.

(* sum.go Sum: the loop that tracks earliest / latest (stCount == 1 is "acc = None") *)
Definition sum_starts_g (ms : list mode) : option ((Z * Z) * (Z * Z)) :=
  fold_left (fun acc m =>
               match mstart m with
               | None => acc
               | Some s =>
                   let st := ts_as_time s in
                   match acc with
                   | None => Some (st, st)
                   | Some (e, l) => Some (if go_before st e then st else e, if go_after st l then st else l)
                   end
               end) ms None.
Definition mode_sum_g (ms : list mode) : option mode :=
  match ms with
  | [] => None
  | _ =>
    match sum_starts_g ms with
    | None => Some (mkMode None (sum (map msegs ms)))
    | Some (earliest, latest) =>
        let slices := map (fun m =>
                             let st := match mstart m with Some s => ts_as_time s | None => latest end in
                             shift_w (go_sub st earliest) (msegs m)) ms in
        Some (mkMode (Some (ts_new earliest)) (sum slices))
    end
  end.

(* ---- vocabulary of the statements ---- *)
(* what a Go time denotes: nanoseconds since 1970 *)
Definition tval (T : Z * Z) : Z := (fst T - unix_to_internal) * giga + snd T.
(* seconds + 62135596800 fits an int64: AsTime is exact *)
Definition in_band (s : ts) : bool := secs s <=? max64 - unix_to_internal.
Definition start_in_band (m : mode) : bool :=
  match mstart m with Some s => ts_valid s && in_band s | None => true end.
(* the shifted start time is again a Timestamp whose seconds are in the band *)
Definition shift_in_band (s : ts) (d : Z) : bool :=
  (min64 <=? (ts_val s + d) / giga) && ((ts_val s + d) / giga <=? max64 - unix_to_internal).
Definition mode_shift_in_band (d : Z) (m : mode) : bool :=
  match mstart m with Some s => shift_in_band s d | None => true end.
