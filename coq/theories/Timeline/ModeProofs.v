(* Mode operations reduce to segment operations by translating with the start time (Mode.v). *)
From SC Require Import Base.Prelude Timeline.Timestamp Timeline.Segment Timeline.Mode
  Timeline.SegmentProofs Timeline.ShiftSumProofs.

Local Arguments Z.add : simpl never.
Local Arguments Z.sub : simpl never.
Local Arguments Z.ltb : simpl never.
Local Arguments Z.leb : simpl never.
Local Arguments Z.eqb : simpl never.
Local Arguments Z.div : simpl never.
Local Arguments Z.modulo : simpl never.

Lemma ts_val_ts_of z : ts_val (ts_of z) = z.
Proof. unfold ts_val, ts_of. simpl. pose proof (Z.div_mod z 1000000000). lia. Qed.

Lemma ts_of_valid z : -9223372036854775808 * 1000000000 <= z < 9223372036854775807 * 1000000000 ->
  ts_valid (ts_of z) = true.
Proof.
  intros H. unfold ts_valid, ts_of, in64. simpl.
  pose proof (Z.mod_pos_bound z 1000000000 ltac:(lia)).
  pose proof (Z.div_mod z 1000000000 ltac:(lia)).
  assert (-9223372036854775808 <= z / 1000000000 <= 9223372036854775807) by nia.
  repeat (apply andb_true_intro; split); try apply Z.leb_le; try apply Z.ltb_lt; lia.
Qed.

(* ---- MagnitudeAt / ActiveAt ---- *)
Theorem mode_magnitude_at_is_level t m :
  mode_magnitude_at t m = of_level (level (t - t_or_st t m) (msegs m)).
Proof. apply magnitude_at_is_level. Qed.

(* ---- Shift ---- *)
Theorem mode_shift_with_start d m s x :
  mstart m = Some s ->
  mode_val (mode_shift d m) x = mode_val m (x - d).
Proof.
  intros Hs. unfold mode_shift. destruct (Z.eqb_spec d 0) as [->|Hd].
  - f_equal. lia.
  - rewrite Hs. unfold mode_val. simpl. rewrite Hs. rewrite ts_val_ts_of. f_equal. lia.
Qed.

Theorem mode_shift_without_start d m t :
  mstart m = None -> segs_wf (msegs m) = true ->
  mstart (mode_shift d m) = None /\
  val (msegs (mode_shift d m)) t = if t <? 0 then 0 else val (msegs m) (t - d).
Proof.
  intros Hs Hwf. unfold mode_shift. destruct (Z.eqb_spec d 0) as [->|Hd].
  - split; [exact Hs|]. destruct (Z.ltb_spec t 0); [apply val_neg; lia|f_equal; lia].
  - rewrite Hs. simpl. split; [reflexivity|]. apply shift_is_translation. exact Hwf.
Qed.

(* ---- Cut ---- *)
Definition opt_list {A} (o : option A) : list A := match o with Some x => [x] | None => [] end.

Lemma nth_succ {A} k (s : A) r d : 0 <= k -> nth (Z.to_nat (k + 1)) (s :: r) d = nth (Z.to_nat k) r d.
Proof. intros H. replace (Z.to_nat (k + 1)) with (S (Z.to_nat k)) by lia. reflexivity. Qed.

Lemma cut_seg_inf m d : 0 < d ->
  cut_seg d (mkSeg m None) = (Some (mkSeg m (Some d)), Some (mkSeg m None), false).
Proof. intros H. unfold cut_seg. destruct (Z.leb_spec d 0); [lia|reflexivity]. Qed.

(* the part of the list before d *)
Lemma before_val l : forall d cur i0 y,
  segs_wf l = true -> 0 <= y -> y + cur < d ->
  let '(el, j) := active_from d cur i0 l in
  j - i0 < zlen l ->
  val (firstn (Z.to_nat (j - i0)) l ++
       opt_list (fst (fst (cut_seg (d - el) (nth (Z.to_nat (j - i0)) l (mkSeg 0 None)))))) y = val l y.
Proof.
  induction l as [|[m [n|]] r IH]; intros d cur i0 y Hwf Hy Hd; simpl active_from.
  - rewrite zlen_nil. lia.
  - apply segs_wf_cons in Hwf. destruct Hwf as [Hs Hr]. apply seg_wf_fin in Hs.
    destruct (Z.ltb_spec d (cur + n)) as [E|E].
    + intros _. replace (i0 - i0) with 0 by lia. simpl firstn. simpl nth.
      rewrite cut_seg_fin by lia. simpl. rewrite !val_cons_fin by lia.
      destruct (Z.ltb_spec y (d - cur)), (Z.ltb_spec y n); try lia; try reflexivity.
    + specialize (IH d (cur + n) (i0 + 1) (y - n)).
      destruct (active_from d (cur + n) (i0 + 1) r) as [el j] eqn:Ea.
      pose proof (active_from_spec r d (cur + n) (i0 + 1)) as Hsp. rewrite Ea in Hsp.
      destruct Hsp as (Hj & _).
      rewrite zlen_cons. intros Hlt.
      replace (j - i0) with ((j - (i0 + 1)) + 1) by lia.
      rewrite nth_succ by lia.
      replace (Z.to_nat (j - (i0 + 1) + 1)) with (S (Z.to_nat (j - (i0 + 1)))) by lia.
      simpl firstn. rewrite <- app_comm_cons.
      rewrite !val_cons_fin by lia.
      destruct (Z.ltb_spec y n); [reflexivity|].
      apply IH; try assumption; lia.
  - intros _. replace (i0 - i0) with 0 by lia. simpl firstn. simpl nth.
    rewrite cut_seg_inf by lia. simpl. rewrite val_cons_fin by lia. rewrite val_cons_inf by lia.
    destruct (Z.ltb_spec y (d - cur)); [reflexivity|lia].
Qed.

(* the part from d on is what Shift by -d keeps *)
Lemma after_is_shift_neg l : forall d cur i0,
  segs_wf l = true -> cur <= d ->
  let '(el, j) := active_from d cur i0 l in
  j - i0 < zlen l ->
  opt_list (snd (fst (cut_seg (d - el) (nth (Z.to_nat (j - i0)) l (mkSeg 0 None))))) ++
  skipn (S (Z.to_nat (j - i0))) l = shift_neg d cur l.
Proof.
  induction l as [|[m [n|]] r IH]; intros d cur i0 Hwf Hd; simpl active_from; simpl shift_neg.
  - rewrite zlen_nil. lia.
  - apply segs_wf_cons in Hwf. destruct Hwf as [Hs Hr]. apply seg_wf_fin in Hs.
    destruct (Z.ltb_spec d (cur + n)) as [E|E].
    + intros _. replace (i0 - i0) with 0 by lia. simpl nth. simpl skipn.
      destruct (Z.leb_spec (d - cur) 0).
      * rewrite cut_seg_nonpos by lia. reflexivity.
      * rewrite cut_seg_fin by lia. reflexivity.
    + specialize (IH d (cur + n) (i0 + 1) Hr ltac:(lia)).
      destruct (active_from d (cur + n) (i0 + 1) r) as [el j] eqn:Ea.
      pose proof (active_from_spec r d (cur + n) (i0 + 1)) as Hsp. rewrite Ea in Hsp.
      destruct Hsp as (Hj & _).
      rewrite zlen_cons. intros Hlt.
      replace (j - i0) with ((j - (i0 + 1)) + 1) by lia.
      rewrite nth_succ by lia.
      replace (Z.to_nat (j - (i0 + 1) + 1)) with (S (Z.to_nat (j - (i0 + 1)))) by lia.
      apply IH. lia.
  - intros _. replace (i0 - i0) with 0 by lia. simpl nth. simpl skipn.
    destruct (Z.leb_spec (d - cur) 0).
    + rewrite cut_seg_nonpos by lia. reflexivity.
    + rewrite cut_seg_inf by lia. reflexivity.
Qed.

(* Cut splits a started mode at t without changing the power function on either side *)
Theorem mode_cut_preserves t m s :
  mstart m = Some s -> segs_wf (msegs m) = true ->
  forall b a, mode_cut t m = (Some b, Some a, false) ->
  mstart a = Some (ts_of t) /\ mstart b = Some s /\
  (forall x, x < t -> mode_val b x = mode_val m x) /\
  (forall x, t <= x -> mode_val a x = mode_val m x).
Proof.
  intros Hs Hwf b a. unfold mode_cut, t_or_st. rewrite Hs.
  destruct (msegs m) as [|s0 r0] eqn:Hm; [intros Hx; inversion Hx|]. rewrite <- Hm in *. clear Hm s0 r0.
  destruct (Z.leb_spec t (ts_val s)) as [E|E]; [intros Hx; inversion Hx|].
  pose proof (before_val (msegs m) (t - ts_val s) 0 0) as HB.
  pose proof (after_is_shift_neg (msegs m) (t - ts_val s) 0 0 Hwf ltac:(lia)) as HA.
  unfold active_at. destruct (Z.ltb_spec (t - ts_val s) 0); [lia|].
  destruct (active_from (t - ts_val s) 0 0 (msegs m)) as [el j] eqn:Ea.
  pose proof (active_from_spec (msegs m) (t - ts_val s) 0 0) as Hsp. rewrite Ea in Hsp.
  destruct Hsp as (Hj & _).
  destruct (Z.eqb_spec j (zlen (msegs m))) as [E2|E2]; [intros Hx; inversion Hx|].
  replace (j - 0) with j in * by lia.
  destruct (cut_seg (t - ts_val s - el) (nth (Z.to_nat j) (msegs m) (mkSeg 0 None))) as [[sb sa] o] eqn:Ec.
  intros Hx. inversion Hx. subst b a. clear Hx. simpl mstart.
  split; [reflexivity|]. split; [first [reflexivity|exact Hs]|]. split.
  - intros x Hx. unfold mode_val. cbn [mstart msegs]. rewrite ?Hs.
    destruct (Z.ltb_spec (x - ts_val s) 0) as [Hn|Hn]; [rewrite !val_neg by lia; reflexivity|].
    specialize (HB (x - ts_val s) Hwf Hn ltac:(lia) ltac:(lia)).
    cbn [fst snd] in HB. unfold opt_list in HB. exact HB.
  - intros x Hx. unfold mode_val. cbn [mstart msegs]. rewrite ?Hs. rewrite ts_val_ts_of.
    specialize (HA ltac:(lia)). cbn [fst snd] in HA. unfold opt_list in HA.
    change (match msegs m with [] => [] | _ :: l => skipn (Z.to_nat j) l end) with (skipn (S (Z.to_nat j)) (msegs m)).
    rewrite HA.
    rewrite shift_neg_val by (try assumption; lia). f_equal. lia.
Qed.

(* ---- Sum ---- *)
Lemma shift_neg_wf l : forall e cur, segs_wf l = true -> cur <= e -> segs_wf (shift_neg e cur l) = true.
Proof.
  induction l as [|[m [n|]] r IH]; intros e cur Hwf Hc; simpl shift_neg; auto.
  apply segs_wf_cons in Hwf. destruct Hwf as [Hs Hr]. pose proof (seg_wf_fin _ _ Hs) as Hn.
  destruct (Z.ltb_spec e (cur + n)).
  - destruct (Z.leb_spec (e - cur) 0).
    + rewrite cut_seg_nonpos by lia. unfold segs_wf. simpl. rewrite Hs. exact Hr.
    + rewrite cut_seg_fin by lia. unfold segs_wf. simpl. unfold seg_wf. simpl.
      destruct (Z.leb_spec 0 (n - (e - cur))); [exact Hr|lia].
  - apply IH; [exact Hr|lia].
Qed.

Lemma shift_wf d l : segs_wf l = true -> segs_wf (shift d l) = true.
Proof.
  intros Hwf. unfold shift. destruct (d =? 0); [exact Hwf|].
  destruct l as [|[m [n|]] r]; [reflexivity| |].
  - destruct (Z.ltb_spec 0 d).
    + apply segs_wf_cons in Hwf. destruct Hwf as [Hs Hr]. pose proof (seg_wf_fin _ _ Hs) as Hn.
      simpl mag. simpl len. destruct (m =? 0); unfold segs_wf; simpl; unfold seg_wf; simpl.
      * destruct (Z.leb_spec 0 (n + d)); [exact Hr|lia].
      * destruct (Z.leb_spec 0 d); [|lia]. destruct (Z.leb_spec 0 n); [exact Hr|lia].
    + apply shift_neg_wf; [exact Hwf|lia].
  - destruct (Z.ltb_spec 0 d).
    + simpl mag. simpl len. destruct (m =? 0); [exact Hwf|].
      unfold segs_wf; simpl; unfold seg_wf; simpl.
      destruct (Z.leb_spec 0 d); [|lia]. apply segs_wf_cons in Hwf. destruct Hwf as [_ Hr]. exact Hr.
    + apply shift_neg_wf; [exact Hwf|lia].
Qed.

Lemma segs_nonneg_cons s r : segs_nonneg (s :: r) = true -> 0 <= mag s /\ segs_nonneg r = true.
Proof. unfold segs_nonneg. simpl. intros H. apply andb_prop in H. destruct H as [H1 H2]. apply Z.leb_le in H1. auto. Qed.

Lemma shift_neg_nonneg l : forall e cur, segs_nonneg l = true -> segs_nonneg (shift_neg e cur l) = true.
Proof.
  induction l as [|[m [n|]] r IH]; intros e cur Hnn; simpl shift_neg; auto.
  pose proof (segs_nonneg_cons _ _ Hnn) as [Hm Hr]. simpl in Hm.
  destruct (e <? cur + n).
  - unfold cut_seg. destruct (e - cur <=? 0); simpl.
    + exact Hnn.
    + destruct (n <=? e - cur); [exact Hr|].
      unfold segs_nonneg. simpl. destruct (Z.leb_spec 0 m); [exact Hr|lia].
  - apply IH. exact Hr.
Qed.

Lemma shift_nonneg d l : segs_nonneg l = true -> segs_nonneg (shift d l) = true.
Proof.
  intros Hnn. unfold shift. destruct (d =? 0); [exact Hnn|].
  destruct l as [|s r]; [reflexivity|].
  pose proof (segs_nonneg_cons _ _ Hnn) as [Hm Hr].
  destruct (0 <? d).
  - destruct (mag s =? 0) eqn:E.
    + destruct (len s); [|exact Hnn]. unfold segs_nonneg. simpl.
      destruct (Z.leb_spec 0 (mag s)); [exact Hr|lia].
    + unfold segs_nonneg. simpl. exact Hnn.
  - apply shift_neg_nonneg. exact Hnn.
Qed.

Definition mode_st (latest : Z) (m : mode) : Z :=
  match mstart m with Some s => ts_val s | None => latest end.

(* Sum of modes, at least one with a start time: pointwise addition in absolute time, modes
   without a start time taken to start at the latest start *)
Theorem mode_sum_is_pointwise ms s0 rest :
  ms <> [] -> starts ms = s0 :: rest ->
  forallb (fun m => segs_wf (msegs m)) ms = true ->
  forallb (fun m => segs_nonneg (msegs m)) ms = true ->
  exists r, mode_sum ms = Some r /\
    mstart r = Some (ts_of (minZ rest s0)) /\
    forall x, minZ rest s0 <= x ->
      mode_val r x = sumZ (map (fun m => val (msegs m) (x - mode_st (maxZ rest s0) m)) ms).
Proof.
  intros Hne Hst Hwf Hnn. unfold mode_sum. destruct ms as [|m0 ms']; [contradiction|].
  rewrite Hst. eexists. split; [reflexivity|]. split; [reflexivity|].
  intros x Hx. unfold mode_val. cbn [mstart msegs]. rewrite ts_val_ts_of.
  rewrite sum_is_pointwise.
  - rewrite map_map. f_equal. apply map_ext_in. intros m Hm.
    rewrite shift_is_translation.
    + destruct (Z.ltb_spec (x - minZ rest s0) 0); [lia|]. unfold mode_st. f_equal.
      destruct (mstart m); lia.
    + rewrite forallb_forall in Hwf. apply Hwf. exact Hm.
  - rewrite forallb_forall. intros l Hl. apply in_map_iff in Hl. destruct Hl as (m & <- & Hm).
    apply shift_wf. rewrite forallb_forall in Hwf. apply Hwf. exact Hm.
  - rewrite forallb_forall. intros l Hl. apply in_map_iff in Hl. destruct Hl as (m & <- & Hm).
    apply shift_nonneg. rewrite forallb_forall in Hnn. apply Hnn. exact Hm.
Qed.

Theorem mode_sum_no_start ms t :
  ms <> [] -> starts ms = [] ->
  forallb (fun m => segs_wf (msegs m)) ms = true ->
  forallb (fun m => segs_nonneg (msegs m)) ms = true ->
  exists r, mode_sum ms = Some r /\ mstart r = None /\
            val (msegs r) t = sumZ (map (fun m => val (msegs m) t) ms).
Proof.
  intros Hne Hst Hwf Hnn. unfold mode_sum. destruct ms as [|m0 ms']; [contradiction|].
  rewrite Hst. eexists. split; [reflexivity|]. split; [reflexivity|]. cbn [msegs].
  rewrite sum_is_pointwise.
  - rewrite map_map. reflexivity.
  - rewrite forallb_forall. intros l Hl. apply in_map_iff in Hl. destruct Hl as (m & <- & Hm).
    rewrite forallb_forall in Hwf. apply Hwf. exact Hm.
  - rewrite forallb_forall. intros l Hl. apply in_map_iff in Hl. destruct Hl as (m & <- & Hm).
    rewrite forallb_forall in Hnn. apply Hnn. exact Hm.
Qed.
