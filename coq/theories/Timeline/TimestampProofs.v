(* Proofs about pkg/time's model (Timestamp.v). *)
From SC Require Import Base.Prelude Timeline.Timestamp.

Lemma ts_valid_spec t : ts_valid t = true ->
  -9223372036854775808 <= secs t <= 9223372036854775807 /\ 0 <= nanos t < 1000000000.
Proof.
  unfold ts_valid, in64. intros H.
  repeat (apply andb_prop in H; destruct H as [H ?]). lia.
Qed.

(* ---- CompareAscending ---- *)

Lemma compare_ascending_is_ref a b :
  ts_valid a = true -> ts_valid b = true -> compare_ascending a b = compare_ref a b.
Proof.
  intros Ha Hb. apply ts_valid_spec in Ha. apply ts_valid_spec in Hb.
  unfold compare_ascending, compare_ref, ts_val.
  destruct (secs a <? secs b) eqn:E1.
  { apply Z.ltb_lt in E1. destruct (Z.compare_spec (secs a * 1000000000 + nanos a) (secs b * 1000000000 + nanos b)); lia. }
  apply Z.ltb_ge in E1.
  destruct (secs b <? secs a) eqn:E2.
  { apply Z.ltb_lt in E2. destruct (Z.compare_spec (secs a * 1000000000 + nanos a) (secs b * 1000000000 + nanos b)); lia. }
  apply Z.ltb_ge in E2.
  destruct (nanos a <? nanos b) eqn:E3.
  { apply Z.ltb_lt in E3. destruct (Z.compare_spec (secs a * 1000000000 + nanos a) (secs b * 1000000000 + nanos b)); lia. }
  apply Z.ltb_ge in E3.
  destruct (nanos b <? nanos a) eqn:E4.
  { apply Z.ltb_lt in E4. destruct (Z.compare_spec (secs a * 1000000000 + nanos a) (secs b * 1000000000 + nanos b)); lia. }
  apply Z.ltb_ge in E4.
  destruct (Z.compare_spec (secs a * 1000000000 + nanos a) (secs b * 1000000000 + nanos b)); lia.
Qed.

Lemma compare_ref_cases a b :
  (compare_ref a b = -1 /\ ts_val a < ts_val b) \/
  (compare_ref a b = 0 /\ ts_val a = ts_val b) \/
  (compare_ref a b = 1 /\ ts_val a > ts_val b).
Proof. unfold compare_ref. destruct (Z.compare_spec (ts_val a) (ts_val b)); lia. Qed.

Lemma ts_val_inj a b : ts_valid a = true -> ts_valid b = true -> ts_val a = ts_val b -> a = b.
Proof.
  intros Ha Hb. apply ts_valid_spec in Ha. apply ts_valid_spec in Hb.
  destruct a as [sa na], b as [sb nb]; unfold ts_val; simpl in *. intros H.
  assert (sa = sb) by lia. subst. f_equal. lia.
Qed.

(* the documented contract: -1 / 0 / 1 according to chronological order *)
Lemma compare_ascending_contract a b :
  ts_valid a = true -> ts_valid b = true ->
  (compare_ascending a b = -1 <-> ts_val a < ts_val b) /\
  (compare_ascending a b = 0 <-> a = b) /\
  (compare_ascending a b = 1 <-> ts_val a > ts_val b) /\
  (compare_ascending a b = -1 \/ compare_ascending a b = 0 \/ compare_ascending a b = 1).
Proof.
  intros Ha Hb. rewrite (compare_ascending_is_ref a b Ha Hb).
  pose proof (compare_ref_cases a b) as C.
  repeat split; try lia.
  - intros H0. apply ts_val_inj; auto. lia.
  - intros ->. destruct C as [[? ?]|[[? ?]|[? ?]]]; lia.
Qed.

Lemma compare_ascending_antisym a b :
  ts_valid a = true -> ts_valid b = true -> compare_ascending a b = - compare_ascending b a.
Proof.
  intros Ha Hb. rewrite !compare_ascending_is_ref by assumption.
  pose proof (compare_ref_cases a b). pose proof (compare_ref_cases b a). lia.
Qed.

Lemma compare_ascending_trans a b c :
  ts_valid a = true -> ts_valid b = true -> ts_valid c = true ->
  compare_ascending a b <= 0 -> compare_ascending b c <= 0 -> compare_ascending a c <= 0.
Proof.
  intros Ha Hb Hc. rewrite !compare_ascending_is_ref by assumption.
  pose proof (compare_ref_cases a b). pose proof (compare_ref_cases b c).
  pose proof (compare_ref_cases a c). lia.
Qed.

(* the pinned commit's version violates the contract on valid inputs *)
Lemma compare_ascending_v0_not_sign :
  exists a b, ts_valid a = true /\ ts_valid b = true /\
              compare_ascending_v0 a b <> -1 /\ compare_ascending_v0 a b <> 0 /\ compare_ascending_v0 a b <> 1.
Proof. exists (mkTs 5 0), (mkTs 2 0). vm_compute. repeat split; discriminate. Qed.

Lemma compare_ascending_v0_wrong_order :
  exists a b, ts_valid a = true /\ ts_valid b = true /\ ts_val a > ts_val b /\ compare_ascending_v0 a b < 0.
Proof.
  exists (mkTs 4611686018427387904 0), (mkTs (-4611686018427387904) 0).
  vm_compute. repeat split; reflexivity.
Qed.

(* ---- cuts and periods ---- *)

Definition cut_key (c : cut) : option (Z * bool) :=   (* value and above-flag; None for the two infinite cuts *)
  match c with Below t => Some (ts_val t, false) | Above t => Some (ts_val t, true) | _ => None end.

Lemma below_below s e : ts_valid s = true -> ts_valid e = true ->
  cut_compare (Below s) (Below e) = compare_ref s e.
Proof.
  intros Hs He. simpl. unfold compare_value_cuts. rewrite compare_ascending_is_ref by assumption.
  destruct (compare_ref s e =? 0) eqn:E; simpl.
  - apply Z.eqb_eq in E. lia.
  - reflexivity.
Qed.

Lemma period_wf_spec p : period_wf p = true ->
  (match pstart p with Some t => ts_valid t = true | None => True end) /\
  (match pend p with Some t => ts_valid t = true | None => True end) /\
  lo_le_hi (period_lo p) (period_hi p) = true.
Proof.
  unfold period_wf. intros H. apply andb_prop in H. destruct H as [H H3].
  apply andb_prop in H. destruct H as [H1 H2].
  repeat split; auto.
  - destruct (pstart p); auto.
  - destruct (pend p); auto.
Qed.

Lemma connected_is_ref p q :
  period_wf p = true -> period_wf q = true ->
  periods_connected (Some p) (Some q) = connected_ref (Some p) (Some q).
Proof.
  intros Hp Hq. apply period_wf_spec in Hp. apply period_wf_spec in Hq.
  destruct Hp as (Hp1 & Hp2 & _). destruct Hq as (Hq1 & Hq2 & _).
  destruct p as [[ps|] [pe|]], q as [[qs|] [qe|]];
    unfold periods_connected, connected_ref, cut_period, period_lo, period_hi, lo_le_hi; simpl in *;
    try reflexivity;
    unfold compare_value_cuts;
    repeat match goal with
    | |- context [compare_ascending ?a ?b] =>
        rewrite (compare_ascending_is_ref a b) by assumption;
        let H := fresh "C" in pose proof (compare_ref_cases a b) as H;
        generalize dependent (compare_ref a b); intros
    end;
    repeat match goal with |- context [?x =? 0] => destruct (Z.eqb_spec x 0); simpl end;
    repeat match goal with |- context [?x <=? ?y] => destruct (Z.leb_spec x y); simpl end;
    try reflexivity; try lia.
Qed.

Lemma intersect_v0_is_ltlt p q :
  period_wf p = true -> period_wf q = true ->
  periods_intersect_v0 (Some p) (Some q) =
  lo_lt_hi (period_lo p) (period_hi q) && lo_lt_hi (period_lo q) (period_hi p).
Proof.
  intros Hp Hq. apply period_wf_spec in Hp. apply period_wf_spec in Hq.
  destruct Hp as (Hp1 & Hp2 & _). destruct Hq as (Hq1 & Hq2 & _).
  destruct p as [[ps|] [pe|]], q as [[qs|] [qe|]];
    unfold periods_intersect_v0, cut_period, period_lo, period_hi, lo_lt_hi; simpl in *;
    try reflexivity;
    unfold compare_value_cuts;
    repeat match goal with
    | |- context [compare_ascending ?a ?b] =>
        rewrite (compare_ascending_is_ref a b) by assumption;
        let H := fresh "C" in pose proof (compare_ref_cases a b) as H;
        generalize dependent (compare_ref a b); intros
    end;
    repeat match goal with |- context [?x =? 0] => destruct (Z.eqb_spec x 0); simpl end;
    repeat match goal with |- context [?x <? ?y] => destruct (Z.ltb_spec x y); simpl end;
    try reflexivity; try lia.
Qed.

Lemma intersect_is_ref p q :
  period_wf p = true -> period_wf q = true ->
  periods_intersect (Some p) (Some q) = intersect_ref (Some p) (Some q).
Proof.
  intros Hp Hq. apply period_wf_spec in Hp. apply period_wf_spec in Hq.
  destruct Hp as (Hp1 & Hp2 & _). destruct Hq as (Hq1 & Hq2 & _).
  destruct p as [[ps|] [pe|]], q as [[qs|] [qe|]];
    unfold periods_intersect, intersect_ref, cut_period, period_lo, period_hi, lo_lt_hi; simpl in *;
    try reflexivity;
    unfold compare_value_cuts;
    repeat match goal with
    | |- context [compare_ascending ?a ?b] =>
        rewrite (compare_ascending_is_ref a b) by assumption;
        let H := fresh "C" in pose proof (compare_ref_cases a b) as H;
        generalize dependent (compare_ref a b); intros
    end;
    repeat match goal with |- context [?x =? 0] => destruct (Z.eqb_spec x 0); simpl end;
    repeat match goal with |- context [?x <? ?y] => destruct (Z.ltb_spec x y); simpl end;
    try reflexivity; try lia.
Qed.

Lemma intersect_v0_empty_period_refuted :
  exists p q, period_wf p = true /\ period_wf q = true /\
              periods_intersect_v0 (Some p) (Some q) = true /\ ~ exists x, in_period p x /\ in_period q x.
Proof.
  exists (mkPeriod (Some (mkTs 4 0)) (Some (mkTs 4 0))), (mkPeriod (Some (mkTs 0 0)) (Some (mkTs 10 0))).
  repeat split; try reflexivity.
  intros [x [[H1 H2] _]]. unfold period_lo, period_hi, ts_val in H1, H2; simpl in H1, H2. lia.
Qed.

Lemma intersect_sym p q : periods_intersect p q = periods_intersect q p.
Proof.
  destruct p as [p|], q as [q|]; simpl; try reflexivity.
  destruct (cut_period p), (cut_period q).
  repeat match goal with |- context [cut_compare ?a ?b <? 0] => generalize (cut_compare a b <? 0); intro end.
  repeat match goal with b : bool |- _ => destruct b end; reflexivity.
Qed.

(* meaning of the arithmetic oracles in terms of points *)
Lemma connected_ref_meaning p q :
  lo_le_hi (period_lo p) (period_hi p) = true -> lo_le_hi (period_lo q) (period_hi q) = true ->
  (connected_ref (Some p) (Some q) = true <-> exists x, in_closure p x /\ in_closure q x).
Proof.
  unfold connected_ref, in_closure, lo_le_hi.
  destruct (period_lo p) as [pl|], (period_hi p) as [ph|], (period_lo q) as [ql|], (period_hi q) as [qh|];
    intros Hp Hq; rewrite ?andb_true_iff, ?Z.leb_le in *; split;
    try (intros [x Hx]; lia).
  all: intros H.
  all: try (exists (Z.max pl ql); lia).
  all: try (exists pl; lia).
  all: try (exists ql; lia).
  all: try (exists ph; lia).
  all: try (exists qh; lia).
  all: try (exists (Z.min ph qh); lia).
  all: try (exists 0; lia).
Qed.

Lemma intersect_ref_meaning p q :
  (intersect_ref (Some p) (Some q) = true <-> exists x, in_period p x /\ in_period q x).
Proof.
  unfold intersect_ref, in_period, lo_lt_hi.
  destruct (period_lo p) as [pl|], (period_hi p) as [ph|], (period_lo q) as [ql|], (period_hi q) as [qh|];
    rewrite ?andb_true_iff, ?Z.ltb_lt in *; split;
    try (intros [x Hx]; lia).
  all: intros H.
  all: try (exists (Z.max pl ql); lia).
  all: try (exists pl; lia).
  all: try (exists ql; lia).
  all: try (exists (ph - 1); lia).
  all: try (exists (qh - 1); lia).
  all: try (exists (Z.min ph qh - 1); lia).
  all: try (exists 0; lia).
Qed.

Lemma connected_sym p q : periods_connected p q = periods_connected q p.
Proof.
  destruct p as [p|], q as [q|]; simpl; try reflexivity.
  destruct (cut_period p), (cut_period q). apply andb_comm.
Qed.
