(* modepb.Sum over Go's time.Time (GoTimeMode.mode_sum_g: the loop that tracks earliest / latest with Before / After on
   the (ext, nsec) representation, st.Sub(earliest), timestamppb.New(earliest)) IS the function of Wrap.v
   (mode_sum_w: minimum / maximum of the denoted instants, saturating difference, ts_of) whenever every start time is
   a valid Timestamp inside the band where seconds + 62135596800 fits an int64.  For every list of modes (induction
   over the loop, invariant: the tracked pair denotes the running minimum / maximum and is itself in the band).
   Outside the band it is not (refuted by a straddling pair). *)
From SC Require Import Base.Prelude Cmp.Cmp Cmp.Tolerance Cmp.GoTime Cmp.ToleranceProofs Cmp.GoTimeProofs.
From SC Require Import Timeline.Timestamp Timeline.Segment Timeline.Mode Timeline.Wrap Timeline.GoTimeMode
  Timeline.GoTimeModeProofs.

Local Arguments Z.add : simpl never.
Local Arguments Z.sub : simpl never.
Local Arguments Z.mul : simpl never.
Local Arguments wrap64 : simpl never.

(* a Go time whose Unix() does not wrap: timestamppb.New is exact on it *)
Definition good_time (T : Z * Z) : Prop := wf_time T /\ in64 (fst T - unix_to_internal) = true.

Lemma as_time_good s : ts_valid s = true -> in_band s = true -> good_time (ts_as_time s).
Proof.
  intros V B. split; [apply ts_as_time_wf|]. rewrite (ts_as_time_in_band s V B). cbn [fst].
  apply ts_valid_spec in V. destruct V as [Vs _]. apply in64_iff. unfold unix_to_internal. lia.
Qed.

(* one iteration of the loop in sum.go *)
Definition sum_step (acc : option ((Z * Z) * (Z * Z))) (m : mode) : option ((Z * Z) * (Z * Z)) :=
  match mstart m with
  | None => acc
  | Some s =>
      let st := ts_as_time s in
      match acc with
      | None => Some (st, st)
      | Some (e, l) => Some (if go_before st e then st else e, if go_after st l then st else l)
      end
  end.

Lemma sum_starts_g_fold ms : sum_starts_g ms = fold_left sum_step ms None.
Proof. reflexivity. Qed.

Lemma sum_step_none acc m : mstart m = None -> sum_step acc m = acc.
Proof. intros E. unfold sum_step. rewrite E. reflexivity. Qed.
Lemma sum_step_first m s : mstart m = Some s -> sum_step None m = Some (ts_as_time s, ts_as_time s).
Proof. intros E. unfold sum_step. rewrite E. reflexivity. Qed.
Lemma sum_step_next m s e l : mstart m = Some s ->
  sum_step (Some (e, l)) m =
  Some (if go_before (ts_as_time s) e then ts_as_time s else e, if go_after (ts_as_time s) l then ts_as_time s else l).
Proof. intros E. unfold sum_step. rewrite E. reflexivity. Qed.

Lemma starts_cons_none m ms : mstart m = None -> starts (m :: ms) = starts ms.
Proof. intros E. unfold starts. simpl. rewrite E. reflexivity. Qed.
Lemma starts_cons_some m ms s : mstart m = Some s -> starts (m :: ms) = ts_val s :: starts ms.
Proof. intros E. unfold starts. simpl. rewrite E. reflexivity. Qed.

(* the invariant of the loop once a first start time has been seen *)
Lemma sum_fold_some : forall ms E L, forallb start_in_band ms = true -> good_time E -> good_time L ->
  exists E' L', fold_left sum_step ms (Some (E, L)) = Some (E', L') /\ good_time E' /\ good_time L' /\
                tval E' = fold_left Z.min (starts ms) (tval E) /\ tval L' = fold_left Z.max (starts ms) (tval L).
Proof.
  induction ms as [|m ms IH]; intros E L B GE GL.
  - exists E, L. split; [reflexivity|]. split; [exact GE|]. split; [exact GL|]. split; reflexivity.
  - simpl in B. apply andb_prop in B. destruct B as [Bm B].
    destruct (mstart m) as [s|] eqn:Es.
    + unfold start_in_band in Bm. rewrite Es in Bm. apply andb_prop in Bm. destruct Bm as [V Bs].
      pose proof (as_time_good s V Bs) as GS. pose proof (tval_as_time_in_band s V Bs) as TS.
      rewrite (starts_cons_some m ms s Es). cbn [fold_left]. rewrite (sum_step_next m s E L Es).
      destruct GE as [WE IE], GL as [WL IL], GS as [WS IS].
      rewrite (go_before_tval _ _ WS WE), (go_after_tval _ _ WS WL), TS.
      set (E1 := if ts_val s <? tval E then ts_as_time s else E).
      set (L1 := if tval L <? ts_val s then ts_as_time s else L).
      assert (GE1 : good_time E1) by (unfold E1; destruct (ts_val s <? tval E); split; assumption).
      assert (GL1 : good_time L1) by (unfold L1; destruct (tval L <? ts_val s); split; assumption).
      assert (TE1 : tval E1 = Z.min (tval E) (ts_val s)).
      { unfold E1. destruct (Z.ltb_spec (ts_val s) (tval E)); [rewrite TS|]; lia. }
      assert (TL1 : tval L1 = Z.max (tval L) (ts_val s)).
      { unfold L1. destruct (Z.ltb_spec (tval L) (ts_val s)); [rewrite TS|]; lia. }
      destruct (IH E1 L1 B GE1 GL1) as (E' & L' & F & GE' & GL' & TE' & TL').
      exists E', L'. rewrite TE', TL', TE1, TL1. split; [exact F|]. split; [exact GE'|]. split; [exact GL'|]. split; reflexivity.
    + rewrite (starts_cons_none m ms Es). cbn [fold_left]. rewrite (sum_step_none _ m Es).
      apply IH; assumption.
Qed.

Lemma fold_min_lr l a : fold_left Z.min l a = fold_right Z.min a l.
Proof. apply fold_symmetric; intros; [apply Z.min_assoc | apply Z.min_comm]. Qed.
Lemma fold_max_lr l a : fold_left Z.max l a = fold_right Z.max a l.
Proof. apply fold_symmetric; intros; [apply Z.max_assoc | apply Z.max_comm]. Qed.

(* what the loop leaves in (earliest, latest) *)
Theorem sum_starts_g_in_band : forall ms, forallb start_in_band ms = true ->
  match starts ms with
  | [] => sum_starts_g ms = None
  | s0 :: rest => exists E L, sum_starts_g ms = Some (E, L) /\ good_time E /\ good_time L /\
                              tval E = minZ rest s0 /\ tval L = maxZ rest s0
  end.
Proof.
  intros ms. rewrite sum_starts_g_fold. induction ms as [|m ms IH]; intros B; [reflexivity|].
  simpl in B. apply andb_prop in B. destruct B as [Bm B].
  destruct (mstart m) as [s|] eqn:Es.
  - rewrite (starts_cons_some m ms s Es). cbn [fold_left]. rewrite (sum_step_first m s Es).
    unfold start_in_band in Bm. rewrite Es in Bm. apply andb_prop in Bm. destruct Bm as [V Bs].
    pose proof (as_time_good s V Bs) as GS. pose proof (tval_as_time_in_band s V Bs) as TS.
    destruct (sum_fold_some ms _ _ B GS GS) as (E' & L' & F & GE' & GL' & TE' & TL').
    exists E', L'. rewrite TS in TE', TL'. rewrite fold_min_lr in TE'. rewrite fold_max_lr in TL'.
    split; [exact F|]. split; [exact GE'|]. split; [exact GL'|]. split; assumption.
  - rewrite (starts_cons_none m ms Es). cbn [fold_left]. rewrite (sum_step_none _ m Es). apply IH. exact B.
Qed.

Theorem mode_sum_g_in_band : forall ms, forallb start_in_band ms = true -> mode_sum_g ms = mode_sum_w ms.
Proof.
  intros ms B. destruct ms as [|m0 r]; [reflexivity|].
  unfold mode_sum_g, mode_sum_w. cbv beta iota. remember (m0 :: r) as ms eqn:Ems. clear Ems m0 r.
  pose proof (sum_starts_g_in_band ms B) as H. destruct (starts ms) as [|s0 rest].
  - rewrite H. reflexivity.
  - destruct H as (E & L & F & [WE IE] & [WL IL] & TE & TL). rewrite F. cbv zeta.
    rewrite (ts_new_tval E WE IE), TE. f_equal. f_equal. f_equal.
    apply map_ext_in. intros m Hm. rewrite forallb_forall in B. specialize (B m Hm).
    unfold start_in_band in B. destruct (mstart m) as [s|].
    + apply andb_prop in B. destruct B as [V Bs].
      rewrite (go_sub_tval _ _ (ts_as_time_wf s) WE), (tval_as_time_in_band s V Bs), TE. reflexivity.
    + rewrite (go_sub_tval _ _ WL WE), TL, TE. reflexivity.
Qed.

(* a pair of valid start times that straddles the band limit: Go sees the later one (year 292e9) as the earlier,
   the result starts there and the mode that really starts first is shifted by a saturated distance *)
Theorem mode_sum_g_out_of_band_refuted :
  exists ms, forallb (fun m => match mstart m with Some s => ts_valid s | None => false end) ms = true /\
             forallb start_in_band ms = false /\
             option_eqb mode_eqb (mode_sum_g ms) (mode_sum_w ms) = false.
Proof.
  exists [mkMode (Some (mkTs 0 0)) [mkSeg 1 None]; mkMode (Some (mkTs 9223372036854775807 0)) [mkSeg 2 None]].
  vm_compute. repeat split.
Qed.

Example mode_sum_g_in_band_nonvacuous :
  let ms := [mkMode (Some (mkTs 5 7)) [mkSeg 3 (Some 5); mkSeg 1 None]; mkMode None [mkSeg 2 (Some 4)];
             mkMode (Some (mkTs 5 2)) [mkSeg 4 (Some 9)]] in
  forallb start_in_band ms = true /\
  mode_sum_g ms = Some (mkMode (Some (mkTs 5 2)) [mkSeg 4 (Some 5); mkSeg 9 (Some 4); mkSeg 3 (Some 1); mkSeg 1 None]).
Proof. vm_compute. repeat split. Qed.
