(* modepb.Sum with EVERY piece of machine arithmetic made explicit: mode_sum_w (Wrap.v, what KModeSum compares the code
   with) keeps the saturating st.Sub(earliest) and the int64 Shift but calls the integer Sum; mode_sum_ww below also
   calls the int64 Sum (sum_w: running offsets and lengths wrap).  Inside the guard of KModeSum (sum_small, plus the
   total length of every list representable — needed only when no mode has a start time) the two are equal: a list
   shifted by d is at most |d| longer, so the shifted lists are again inside the range where sum_w = sum. *)
From SC Require Import Base.Prelude Timeline.Timestamp Timeline.Segment Timeline.Mode Timeline.Wrap
  Timeline.SegmentProofs Timeline.ShiftSumProofs Timeline.ModeProofs Timeline.WrapProofs.

Local Arguments Z.add : simpl never.
Local Arguments Z.sub : simpl never.

Definition mode_sum_ww (ms : list mode) : option mode :=
  match ms with
  | [] => None
  | _ =>
    match starts ms with
    | [] => Some (mkMode None (sum_w (map msegs ms)))
    | s0 :: rest =>
        let earliest := minZ rest s0 in
        let latest := maxZ rest s0 in
        let slices := map (fun m =>
                             let st := match mstart m with Some s => ts_val s | None => latest end in
                             shift_w (sat64 (st - earliest)) (msegs m)) ms in
        Some (mkMode (Some (ts_of earliest)) (sum_w slices))
    end
  end.

Lemma total_len_nil : total_len [] = 0.
Proof. reflexivity. Qed.

Lemma total_len_shift_neg l : forall e cur, segs_wf l = true -> cur <= e ->
  total_len (shift_neg e cur l) <= total_len l.
Proof.
  induction l as [|[m [n|]] r IH]; intros e cur Hwf Hc; simpl shift_neg; try lia.
  apply segs_wf_cons in Hwf. destruct Hwf as [Hs Hr]. pose proof (seg_wf_fin _ _ Hs) as Hn.
  destruct (Z.ltb_spec e (cur + n)).
  - destruct (Z.leb_spec (e - cur) 0).
    + rewrite cut_seg_nonpos by lia. cbv beta iota. apply Z.le_refl.
    + rewrite cut_seg_fin by lia. cbv beta iota. rewrite !total_len_cons. unfold fin_len_z. simpl len. cbv beta iota. lia.
  - specialize (IH e (cur + n) Hr ltac:(lia)). rewrite total_len_cons. unfold fin_len_z at 1. simpl len. cbv beta iota. lia.
Qed.

(* a shifted list is at most |d| longer *)
Lemma total_len_shift d l : segs_wf l = true -> total_len (shift d l) <= Z.abs d + total_len l.
Proof.
  intros Hwf. unfold shift. destruct (d =? 0); [lia|].
  destruct l as [|[m [n|]] r]; [rewrite total_len_nil; lia| |].
  - destruct (Z.ltb_spec 0 d).
    + simpl mag. simpl len. destruct (m =? 0); rewrite !total_len_cons; unfold fin_len_z; simpl len; cbv beta iota; lia.
    + pose proof (total_len_shift_neg _ (- d) 0 Hwf ltac:(lia)). lia.
  - destruct (Z.ltb_spec 0 d).
    + simpl mag. simpl len. destruct (m =? 0); [lia|]. rewrite (total_len_cons (mkSeg 0 (Some d))). unfold fin_len_z at 1. simpl len. cbv beta iota. lia.
    + pose proof (total_len_shift_neg _ (- d) 0 Hwf ltac:(lia)). lia.
Qed.

Lemma shift_lens_ok d l : dur_guard d l = true -> lens_ok_b (shift d l) = true.
Proof.
  intros G. destruct (dur_guard_spec d l G) as ([Hwf Hl] & Hd & Hb). unfold lens_ok_b.
  rewrite (shift_wf d l Hwf). apply Z.leb_le. pose proof (total_len_shift d l Hwf). lia.
Qed.

Theorem mode_sum_ww_eq ms : forallb (fun m => lens_ok_b (msegs m)) ms = true -> sum_small ms = true ->
  mode_sum_ww ms = mode_sum_w ms.
Proof.
  unfold sum_small, mode_sum_ww, mode_sum_w. intros L G. destruct ms as [|m0 ms']; [reflexivity|].
  destruct (starts (m0 :: ms')) as [|s0 rest].
  - f_equal. f_equal. apply sum_w_eq. apply forallb_forall. intros x Hx. apply in_map_iff in Hx.
    destruct Hx as (m & Ex & Hm). subst x. rewrite forallb_forall in L. apply (L m Hm).
  - cbv zeta. f_equal. f_equal. apply sum_w_eq. apply forallb_forall. intros x Hx. apply in_map_iff in Hx.
    destruct Hx as (m & Ex & Hm). subst x. rewrite forallb_forall in G. specialize (G m Hm).
    destruct (dur_guard_spec _ _ G) as (_ & Hd & _).
    rewrite sat64_id by (unfold min64, max64 in *; lia). rewrite (shift_w_eq _ _ G). apply shift_lens_ok. exact G.
Qed.

(* beyond the guard it is false: a list longer than MaxInt64, the running offset of the inner int64 Sum wraps *)
Theorem mode_sum_ww_overflow_refuted :
  exists ms, forallb (fun m => segs_wf (msegs m)) ms = true /\ sum_small ms = true /\
             forallb (fun m => lens_ok_b (msegs m)) ms = false /\
             option_eqb mode_eqb (mode_sum_ww ms) (mode_sum_w ms) = false.
Proof.
  exists [mkMode None [mkSeg 1 (Some max64); mkSeg 2 (Some 5); mkSeg 3 None]]. vm_compute. repeat split.
Qed.

Example mode_sum_ww_nonvacuous :
  let ms := [mkMode (Some (mkTs 5 7)) [mkSeg 3 (Some 5); mkSeg 1 None]; mkMode None [mkSeg 2 (Some 4)];
             mkMode (Some (mkTs 5 2)) [mkSeg 4 (Some 9223372036854775000)]] in
  forallb (fun m => lens_ok_b (msegs m)) ms = true /\ sum_small ms = true /\
  mode_sum_ww ms = Some (mkMode (Some (mkTs 5 2))
    [mkSeg 4 (Some 5); mkSeg 9 (Some 4); mkSeg 7 (Some 1); mkSeg 5 (Some 9223372036854774990); mkSeg 1 None]).
Proof. vm_compute. repeat split. Qed.
