(* Inside the range guard the machine-arithmetic model (Wrap.v) and the integer model
   (Segment.v / Mode.v) are the same functions; and what goes wrong outside it. *)
From SC Require Import Base.Prelude Timeline.Timestamp Timeline.Segment Timeline.Mode Timeline.Wrap
  Timeline.SegmentProofs Timeline.ShiftSumProofs.

Local Arguments Z.add : simpl never.
Local Arguments Z.sub : simpl never.
Local Arguments Z.opp : simpl never.

Lemma wrap64_id z : min64 <= z <= max64 -> wrap64 z = z.
Proof.
  unfold min64, max64, wrap64. intros H. rewrite Z.mod_small by lia. lia.
Qed.
Lemma add64_id a b : min64 <= a + b <= max64 -> add64 a b = a + b.
Proof. apply wrap64_id. Qed.
Lemma sub64_id a b : min64 <= a - b <= max64 -> sub64 a b = a - b.
Proof. apply wrap64_id. Qed.
Lemma sat64_id z : min64 <= z <= max64 -> sat64 z = z.
Proof.
  unfold sat64. intros H. destruct (Z.ltb_spec z min64); [lia|]. destruct (Z.ltb_spec max64 z); [lia|reflexivity].
Qed.

Lemma total_len_cons s r : total_len (s :: r) = fin_len_z s + total_len r.
Proof. reflexivity. Qed.
Lemma total_len_nonneg l : segs_wf l = true -> 0 <= total_len l.
Proof.
  induction l as [|s r IH]; intros H; [unfold total_len; simpl; lia|].
  apply segs_wf_cons in H. destruct H as [Hs Hr]. rewrite total_len_cons. specialize (IH Hr).
  unfold fin_len_z. unfold seg_wf in Hs. destruct (len s); [apply Z.leb_le in Hs; lia|lia].
Qed.

(* one step of the common pattern: a finite head segment inside the budget *)
Lemma head_budget s r n cur : segs_wf (s :: r) = true -> len s = Some n ->
  0 <= cur -> cur + total_len (s :: r) <= max64 ->
  0 <= n /\ segs_wf r = true /\ 0 <= cur + n /\ cur + n + total_len r <= max64 /\ add64 cur n = cur + n.
Proof.
  intros Hwf Ls Hc Hb. apply segs_wf_cons in Hwf. destruct Hwf as [Hs Hr].
  rewrite total_len_cons in Hb. unfold fin_len_z in Hb. rewrite Ls in Hb.
  unfold seg_wf in Hs. rewrite Ls in Hs. apply Z.leb_le in Hs.
  pose proof (total_len_nonneg r Hr).
  repeat split; try assumption; try lia. apply add64_id. unfold min64. lia.
Qed.

Lemma active_from_w_eq l : forall d cur i, segs_wf l = true -> 0 <= cur -> cur + total_len l <= max64 ->
  active_from_w d cur i l = active_from d cur i l.
Proof.
  induction l as [|s r IH]; intros d cur i Hwf Hc Hb; simpl; [reflexivity|].
  destruct (len s) as [n|] eqn:Ls; [|reflexivity].
  destruct (head_budget s r n cur Hwf Ls Hc Hb) as (Hn & Hr & H1 & H2 & E). rewrite E.
  destruct (d <? cur + n); [reflexivity|]. apply IH; assumption.
Qed.

Definition lens_ok (l : list seg) : Prop := segs_wf l = true /\ total_len l <= max64.

Lemma active_at_w_eq d l : lens_ok l -> active_at_w d l = active_at d l.
Proof.
  intros [Hwf Hb]. unfold active_at_w, active_at. destruct (d <? 0); [reflexivity|].
  apply active_from_w_eq; [assumption|lia|lia].
Qed.
Lemma magnitude_at_w_eq d l : lens_ok l -> magnitude_at_w d l = magnitude_at d l.
Proof. intros H. unfold magnitude_at_w, magnitude_at. rewrite active_at_w_eq by exact H. reflexivity. Qed.
Lemma max_after_w_eq d l : lens_ok l -> max_after_w d l = max_after d l.
Proof. intros H. unfold max_after_w, max_after. rewrite active_at_w_eq by exact H. reflexivity. Qed.

Lemma duration_from_w_eq l : forall tot, segs_wf l = true -> 0 <= tot -> tot + total_len l <= max64 ->
  duration_from_w tot l = duration_from tot l.
Proof.
  induction l as [|s r IH]; intros tot Hwf Hc Hb; simpl; [reflexivity|].
  destruct (len s) as [n|] eqn:Ls; [|reflexivity].
  destruct (head_budget s r n tot Hwf Ls Hc Hb) as (Hn & Hr & H1 & H2 & E). rewrite E.
  apply IH; assumption.
Qed.
Lemma duration_w_eq l : lens_ok l -> duration_w l = duration l.
Proof. intros [Hwf Hb]. apply duration_from_w_eq; [assumption|lia|lia]. Qed.

Lemma shift_neg_w_eq l : forall d cur, segs_wf l = true -> 0 <= cur -> cur <= d -> d <= max64 ->
  cur + total_len l <= max64 -> shift_neg_w d cur l = shift_neg d cur l.
Proof.
  induction l as [|s r IH]; intros d cur Hwf Hc Hd Hm Hb; simpl; [reflexivity|].
  destruct (len s) as [n|] eqn:Ls; [|reflexivity].
  destruct (head_budget s r n cur Hwf Ls Hc Hb) as (Hn & Hr & H1 & H2 & E). rewrite E.
  rewrite sub64_id by (unfold min64; lia).
  destruct (Z.ltb_spec d (cur + n)); [reflexivity|]. apply IH; try assumption; lia.
Qed.

Lemma dur_guard_spec d l : dur_guard d l = true ->
  lens_ok l /\ - max64 <= d <= max64 /\ Z.abs d + total_len l <= max64.
Proof.
  unfold dur_guard. intros H.
  apply andb_prop in H. destruct H as [H H5]. apply andb_prop in H. destruct H as [H H4].
  apply andb_prop in H. destruct H as [H H3]. apply andb_prop in H. destruct H as [H1 H2].
  apply Z.leb_le in H2, H3, H4, H5. repeat split; assumption.
Qed.

Theorem shift_w_eq d l : dur_guard d l = true -> shift_w d l = shift d l.
Proof.
  intros G. destruct (dur_guard_spec d l G) as ([Hwf Hb] & Hd & Ha).
  unfold shift_w, shift. destruct (d =? 0); [reflexivity|].
  destruct l as [|first rest]; [reflexivity|].
  destruct (Z.ltb_spec 0 d) as [Hp|Hp].
  - destruct (mag first =? 0); [|reflexivity].
    destruct (len first) as [n|] eqn:Ls; [|reflexivity].
    destruct (head_budget first rest n 0 Hwf Ls ltac:(lia) ltac:(lia)) as (Hn & Hr & _ & _ & _).
    rewrite total_len_cons in Ha. unfold fin_len_z in Ha. rewrite Ls in Ha.
    pose proof (total_len_nonneg rest Hr).
    rewrite add64_id by (unfold min64; lia). reflexivity.
  - unfold neg64. rewrite wrap64_id by (unfold min64, max64 in *; lia).
    apply shift_neg_w_eq; try assumption; lia.
Qed.

(* ---- Sum ---- *)
Definition in_range (c : Z * Z) : Prop := 0 <= fst c <= max64.

Lemma cuts_of_w_eq l : forall cur, segs_wf l = true -> 0 <= cur -> cur + total_len l <= max64 ->
  cuts_of_w cur l = cuts_of cur l /\ Forall in_range (cuts_of cur l).
Proof.
  induction l as [|s r IH]; intros cur Hwf Hc Hb; simpl; [split; [reflexivity|constructor]|].
  destruct (len s) as [n|] eqn:Ls.
  - destruct (head_budget s r n cur Hwf Ls Hc Hb) as (Hn & Hr & H1 & H2 & E). rewrite E.
    destruct (IH (cur + n) Hr H1 H2) as [I1 I2]. rewrite I1. split; [reflexivity|].
    pose proof (total_len_nonneg r Hr).
    destruct (mag s =? 0); simpl; [exact I2|].
    constructor; [unfold in_range; simpl; lia|]. constructor; [unfold in_range; simpl; lia|exact I2].
  - split; [reflexivity|]. apply segs_wf_cons in Hwf. destruct Hwf as [_ Hr].
    pose proof (total_len_nonneg r Hr). rewrite total_len_cons in Hb. unfold fin_len_z in Hb. rewrite Ls in Hb.
    destruct (mag s =? 0); constructor; [unfold in_range; simpl; lia|constructor].
Qed.

Lemma lens_ok_b_spec l : lens_ok_b l = true -> lens_ok l.
Proof. unfold lens_ok_b. intros H. apply andb_prop in H. destruct H as [H1 H2]. apply Z.leb_le in H2. split; assumption. Qed.

Lemma flat_cuts_w_eq ls : forallb lens_ok_b ls = true ->
  flat_map (cuts_of_w 0) ls = flat_map (cuts_of 0) ls /\ Forall in_range (flat_map (cuts_of 0) ls).
Proof.
  induction ls as [|l ls IH]; simpl; intros H; [split; [reflexivity|constructor]|].
  apply andb_prop in H. destruct H as [Hl Hls]. destruct (lens_ok_b_spec l Hl) as [Hwf Hb].
  destruct (cuts_of_w_eq l 0 Hwf ltac:(lia) ltac:(lia)) as [E F]. destruct (IH Hls) as [E' F'].
  rewrite E, E'. split; [reflexivity|]. apply Forall_app. split; assumption.
Qed.

Lemma insert_cut_forall (P : Z * Z -> Prop) c l : P c -> Forall P l -> Forall P (insert_cut c l).
Proof.
  intros Hc. induction l as [|x l IH]; intros H; simpl; [constructor; [exact Hc|constructor]|].
  inversion H; subst. destruct (fst c <? fst x); constructor; auto.
Qed.
Lemma sort_cuts_forall (P : Z * Z -> Prop) l : Forall P l -> Forall P (sort_cuts l).
Proof.
  intros H. unfold sort_cuts. apply Forall_rev in H. induction (rev l) as [|x k IH]; simpl; [constructor|].
  inversion H; subst. apply insert_cut_forall; auto.
Qed.

Lemma sum_loop_w_eq cuts : forall done open last, Forall in_range cuts -> 0 <= last <= max64 ->
  sum_loop_w cuts done open last = sum_loop cuts done open last.
Proof.
  induction cuts as [|[a dl] r IH]; intros done open last F Hl; simpl; [reflexivity|].
  inversion F as [|? ? Fa Fr]; subst. unfold in_range in Fa. simpl in Fa.
  rewrite sub64_id by (unfold min64, max64 in *; lia).
  destruct (a - last =? 0); apply IH; assumption || lia.
Qed.

Theorem sum_w_eq ls : forallb lens_ok_b ls = true -> sum_w ls = sum ls.
Proof.
  intros H. destruct (flat_cuts_w_eq ls H) as [E F]. unfold sum_w, sum, calc_cuts_w, calc_cuts. rewrite E.
  rewrite sum_loop_w_eq; [reflexivity|apply sort_cuts_forall; exact F|unfold max64; lia].
Qed.

(* beyond the guard the pointwise law is false of the code: the offset of the second segment wraps *)
Lemma sum_overflow_refuted :
  exists ls t, forallb segs_wf ls = true /\ forallb segs_nonneg ls = true /\ 0 <= t /\
               val (sum_w ls) t <> sumZ (map (fun l => val l t) ls).
Proof.
  exists [[mkSeg 1 (Some max64); mkSeg 2 (Some 5); mkSeg 3 None]], 2.
  split; [reflexivity|]. split; [reflexivity|]. split; [lia|]. vm_compute. intros H; inversion H.
Qed.

(* ---- modes ---- *)
Lemma mode_dur_guard_spec t m : mode_dur_guard t m = true ->
  lens_ok (msegs m) /\ mode_d t m = t - t_or_st t m.
Proof.
  intros G. destruct (dur_guard_spec _ _ G) as (H1 & H2 & _). split; [exact H1|].
  unfold mode_d. apply sat64_id. unfold min64, max64 in *. lia.
Qed.

Lemma mode_active_at_w_eq t m : mode_dur_guard t m = true -> mode_active_at_w t m = mode_active_at t m.
Proof.
  intros G. destruct (mode_dur_guard_spec t m G) as [H1 H2].
  unfold mode_active_at_w, mode_active_at. rewrite H2. apply active_at_w_eq. exact H1.
Qed.
Lemma mode_magnitude_at_w_eq t m : mode_dur_guard t m = true -> mode_magnitude_at_w t m = mode_magnitude_at t m.
Proof.
  intros G. destruct (mode_dur_guard_spec t m G) as [H1 H2].
  unfold mode_magnitude_at_w, mode_magnitude_at. rewrite H2. apply magnitude_at_w_eq. exact H1.
Qed.
Lemma mode_max_segment_after_w_eq t m : mode_dur_guard t m = true ->
  mode_max_segment_after_w t m = mode_max_segment_after t m.
Proof.
  intros G. destruct (mode_dur_guard_spec t m G) as [H1 H2].
  unfold mode_max_segment_after_w, mode_max_segment_after. rewrite H2. apply max_after_w_eq. exact H1.
Qed.

Lemma prefix_len_nonneg l : forall n, segs_wf l = true -> 0 <= sumZ (map fin_len (firstn n l)).
Proof.
  induction l as [|s r IH]; intros n Hwf; destruct n; simpl; try lia.
  apply segs_wf_cons in Hwf. destruct Hwf as [Hs Hr]. specialize (IH n Hr).
  unfold fin_len in *. unfold seg_wf in Hs. destruct (len s); [apply Z.leb_le in Hs; lia|lia].
Qed.

Lemma mode_cut_w_eq t m : mode_dur_guard t m = true -> mode_cut_w t m = mode_cut t m.
Proof.
  intros G. destruct (mode_dur_guard_spec t m G) as [H1 H2]. unfold mode_d in H2.
  destruct (dur_guard_spec _ _ G) as (_ & Hd & _).
  unfold mode_cut_w, mode_cut. rewrite H2. rewrite active_at_w_eq by exact H1.
  destruct (msegs m) as [|s0 r0] eqn:Em; [reflexivity|]. rewrite <- Em.
  destruct (Z.leb_spec t (t_or_st t m)) as [Hle|Hgt]; [reflexivity|].
  assert (Hnn : 0 <= t - t_or_st t m) by lia.
  pose proof (active_at_contract (t - t_or_st t m) (msegs m) Hnn) as C.
  destruct (active_at (t - t_or_st t m) (msegs m)) as [elapsed index].
  destruct C as (_ & Hpre & Hel & _).
  assert (0 <= elapsed).
  { rewrite Hpre. unfold prefix_len'. apply prefix_len_nonneg. rewrite Em. apply H1. }
  rewrite sub64_id by (unfold min64, max64 in *; lia). reflexivity.
Qed.

Lemma mode_shift_w_eq d m : dur_guard d (msegs m) = true -> mode_shift_w d m = mode_shift d m.
Proof.
  intros G. unfold mode_shift_w, mode_shift. destruct (d =? 0); [reflexivity|].
  destruct (mstart m); [reflexivity|]. rewrite shift_w_eq by exact G. reflexivity.
Qed.

Lemma mode_sum_w_eq ms : sum_small ms = true -> mode_sum_w ms = mode_sum ms.
Proof.
  unfold sum_small, mode_sum_w, mode_sum. intros G. destruct ms as [|m0 ms']; [reflexivity|].
  destruct (starts (m0 :: ms')) as [|s0 rest]; [reflexivity|].
  f_equal. f_equal. f_equal. apply map_ext_in. intros m Hm.
  rewrite forallb_forall in G. specialize (G m Hm).
  destruct (dur_guard_spec _ _ G) as (_ & Hd & _).
  rewrite sat64_id by (unfold min64, max64 in *; lia). apply shift_w_eq. exact G.
Qed.

(* ---- outside the guard the translation law is false of the code: MinInt64 cannot be negated ---- *)
Lemma shift_min64_refuted :
  exists l t, segs_wf l = true /\ val (shift_w min64 l) t <> (if t <? 0 then 0 else val l (t - min64)).
Proof. exists [mkSeg 5 (Some 3)], 1. split; [reflexivity|]. vm_compute. intros H; inversion H. Qed.

(* ... and ActiveAt loses its place once the running offset wraps *)
Lemma active_at_overflow_refuted :
  exists d l, segs_wf l = true /\ 0 <= d /\ snd (active_at_w d l) <> snd (active_at d l).
Proof.
  exists max64, [mkSeg 1 (Some max64); mkSeg 2 (Some 5); mkSeg 3 (Some 9)].
  split; [reflexivity|]. split; [unfold max64; lia|]. vm_compute. intros H; inversion H.
Qed.

(* the old modepb.Sum: a mode starting at 0001-01-01T00:00:00Z followed by a later one *)
Lemma mode_sum_v0_refuted :
  exists ms x, forallb (fun m => segs_wf (msegs m)) ms = true /\ forallb (fun m => segs_nonneg (msegs m)) ms = true /\
    sum_small ms = true /\
    match mode_sum_v0 ms, mode_sum ms with
    | Some r0, Some r => mode_val r0 x <> mode_val r x /\ mstart r0 <> mstart r
    | _, _ => False
    end.
Proof.
  exists [mkMode (Some (mkTs (-62135596800) 0)) [mkSeg 6 (Some 4); mkSeg 2 None];
          mkMode (Some (mkTs (-62135596800) 5)) [mkSeg 0 (Some 4)]], (zero_time + 1).
  vm_compute. repeat split; intros H; inversion H.
Qed.
