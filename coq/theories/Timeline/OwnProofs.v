(* Proofs about the ownership-aware model (Own.v): none of the list- or mode-returning
   operations writes a location that existed when it was entered — for every heap, every
   capacity / offset of the argument slices (spare capacity, sub-slices, arguments sharing a
   backing array) and every growth policy of append. *)
From SC Require Import Base.Prelude Timeline.Timestamp Timeline.Segment Timeline.Mode Timeline.Own.

Local Open Scope nat_scope.

Lemma ext_refl {A} (l : list A) : ext l l.
Proof. exists []. rewrite app_nil_r. reflexivity. Qed.
Lemma ext_trans {A} (a b c : list A) : ext a b -> ext b c -> ext a c.
Proof. intros [k ->] [k' ->]. exists (k ++ k'). rewrite app_assoc. reflexivity. Qed.
Lemma ext_app {A} (l l' k : list A) : ext l l' -> ext l (l' ++ k).
Proof. intros [k' ->]. exists (k' ++ k). rewrite app_assoc. reflexivity. Qed.
Lemma ext_length {A} (l l' : list A) : ext l l' -> List.length l <= List.length l'.
Proof. intros [k ->]. rewrite app_length. lia. Qed.
Lemma ext_nth {A} (l l' : list A) n d : ext l l' -> n < List.length l -> nth n l' d = nth n l d.
Proof. intros [k ->] H. apply app_nth1. exact H. Qed.

Lemma upd_app_ge {A} (v : A) l : forall n k, List.length l <= n -> upd n v (l ++ k) = l ++ upd (n - List.length l) v k.
Proof.
  induction l as [|x l IH]; intros n k H; simpl.
  - rewrite Nat.sub_0_r. reflexivity.
  - destruct n as [|n]; simpl in H; [lia|]. simpl. rewrite IH by lia. reflexivity.
Qed.
Lemma ext_upd {A} (l l' : list A) n v : ext l l' -> List.length l <= n -> ext l (upd n v l').
Proof. intros [k ->] H. rewrite upd_app_ge by exact H. exists (upd (n - List.length l) v k). reflexivity. Qed.

Lemma heap_ext_refl h : heap_ext h h.
Proof. repeat split; apply ext_refl. Qed.
Lemma heap_ext_trans a b c : heap_ext a b -> heap_ext b c -> heap_ext a c.
Proof. intros (A1 & A2 & A3) (B1 & B2 & B3). repeat split; eapply ext_trans; eassumption. Qed.

(* ---- primitives, relative to a base heap h0 ---- *)
Lemma new_cell_ext h0 v h : heap_ext h0 h ->
  heap_ext h0 (snd (new_cell v h)) /\ List.length (cells h0) <= fst (new_cell v h).
Proof.
  intros (H1 & H2 & H3). split; [repeat split; simpl; try assumption; apply ext_app; exact H1|].
  simpl. apply ext_length. exact H1.
Qed.
Lemma set_cell_ext h0 p v h : heap_ext h0 h -> List.length (cells h0) <= p -> heap_ext h0 (set_cell p v h).
Proof. intros (H1 & H2 & H3) Hp. repeat split; simpl; try assumption. apply ext_upd; assumption. Qed.
Lemma new_array_ext h0 ps e h : heap_ext h0 h ->
  heap_ext h0 (snd (new_array ps e h)) /\ List.length (arrays h0) <= sarr (fst (new_array ps e h)).
Proof.
  intros (H1 & H2 & H3). split; [repeat split; simpl; try assumption; apply ext_app; exact H2|].
  simpl. apply ext_length. exact H2.
Qed.
Lemma set_slot_ext h0 s i p h : heap_ext h0 h -> List.length (arrays h0) <= sarr s -> heap_ext h0 (set_slot s i p h).
Proof. intros (H1 & H2 & H3) Hp. repeat split; simpl; try assumption. apply ext_upd; assumption. Qed.
Lemma new_mcell_ext h0 v h : heap_ext h0 h ->
  heap_ext h0 (snd (new_mcell v h)) /\ List.length (mcells h0) <= fst (new_mcell v h).
Proof.
  intros (H1 & H2 & H3). split; [repeat split; simpl; try assumption; apply ext_app; exact H3|].
  simpl. apply ext_length. exact H3.
Qed.
Lemma set_mcell_ext h0 m v h : heap_ext h0 h -> List.length (mcells h0) <= m -> heap_ext h0 (set_mcell m v h).
Proof. intros (H1 & H2 & H3) Hp. repeat split; simpl; try assumption. apply ext_upd; assumption. Qed.

(* a slice that append may write in place only into memory allocated after h0 *)
Definition fresh_or_full (h0 : heap) (s : slice) : Prop := scap s <= slen s \/ List.length (arrays h0) <= sarr s.

Lemma append_ext h0 g s p h : heap_ext h0 h -> fresh_or_full h0 s ->
  heap_ext h0 (snd (append g s p h)) /\ List.length (arrays h0) <= sarr (fst (append g s p h)) /\
  slen (fst (append g s p h)) <> 0.
Proof.
  intros H Hs. unfold append. destruct (Nat.ltb_spec (slen s) (scap s)) as [L|L].
  - destruct Hs as [Hs|Hs]; [lia|]. simpl. split; [apply set_slot_ext; assumption|]. split; [exact Hs|lia].
  - destruct (new_array_ext h0 (slice_ptrs h s ++ [p]) (g (slen s)) h H) as [E1 E2].
    split; [exact E1|]. split; [exact E2|]. simpl. rewrite app_length. simpl. lia.
Qed.

Lemma sub_fresh h0 s i j : List.length (arrays h0) <= sarr s -> fresh_or_full h0 (sub s i j).
Proof. intros H. right. exact H. Qed.

(* ---- segmentpb.Cut ---- *)
Lemma cut_own_ext h0 d p h : heap_ext h0 h ->
  heap_ext h0 (snd (cut_own d p h)).
Proof.
  intros H. unfold cut_own. destruct (d <=? 0)%Z; [exact H|].
  destruct (len (cell h p)) as [l|].
  - destruct (l <=? d)%Z; [exact H|].
    destruct (new_cell_ext h0 (mkSeg (mag (cell h p)) (Some d)) h H) as [E1 _].
    destruct (new_cell (mkSeg (mag (cell h p)) (Some d)) h) as [b h1]. simpl in E1.
    destruct (new_cell_ext h0 (mkSeg (mag (cell h p)) (Some (l - d)%Z)) h1 E1) as [E2 _].
    destruct (new_cell (mkSeg (mag (cell h p)) (Some (l - d)%Z)) h1) as [a h2]. exact E2.
  - destruct (new_cell_ext h0 (mkSeg (mag (cell h p)) (Some d)) h H) as [E1 _].
    destruct (new_cell (mkSeg (mag (cell h p)) (Some d)) h) as [b h1]. exact E1.
Qed.

(* ---- segmentpb.Shift ---- *)
Lemma shift_neg_own_ext h0 d s ps : forall cur i h, heap_ext h0 h ->
  heap_ext h0 (snd (shift_neg_own d cur s i ps h)).
Proof.
  induction ps as [|p r IH]; intros cur i h H; simpl; [exact H|].
  destruct (len (cell h p)) as [n|]; [|exact H].
  destruct (d <? cur + n)%Z; [|apply IH; exact H].
  pose proof (cut_own_ext h0 (d - cur)%Z p h H) as E.
  destruct (cut_own (d - cur)%Z p h) as [[[b a] o] h1]. simpl in E.
  destruct a as [pa|]; apply new_array_ext; exact E.
Qed.

Lemma shift_own_ext h0 d s h : heap_ext h0 h -> heap_ext h0 (snd (shift_own d s h)).
Proof.
  intros H. unfold shift_own. destruct (d =? 0)%Z; [exact H|].
  destruct (slice_ptrs h s) as [|p0 rest]; [exact H|].
  destruct (0 <? d)%Z; [|apply shift_neg_own_ext; exact H].
  destruct (mag (cell h p0) =? 0)%Z.
  - destruct (len (cell h p0)) as [n|]; [|exact H].
    destruct (new_cell_ext h0 (cell h p0) h H) as [E1 E2].
    destruct (new_cell (cell h p0) h) as [p h1]. simpl in E1, E2.
    apply new_array_ext. apply set_cell_ext; assumption.
  - destruct (new_cell_ext h0 (mkSeg 0 (Some d)) h H) as [E1 E2].
    destruct (new_cell (mkSeg 0 (Some d)) h) as [p h1]. simpl in E1.
    apply new_array_ext. exact E1.
Qed.

(* ---- segmentpb.Sum ---- *)
Lemma sum_loop_own_ext h0 g cuts : forall res lastp last h,
  heap_ext h0 h -> fresh_or_full h0 res -> (slen res <> 0 -> List.length (cells h0) <= lastp) ->
  heap_ext h0 (snd (sum_loop_own g cuts res lastp last h)).
Proof.
  induction cuts as [|[a dl] r IH]; intros res lastp last h H Hres Hlast; cbn [sum_loop_own]; [exact H|].
  assert (Hstep : heap_ext h0 (snd (sum_ensure g res lastp h)) /\ fresh_or_full h0 (fst (fst (sum_ensure g res lastp h))) /\
            List.length (cells h0) <= snd (fst (sum_ensure g res lastp h)) /\ slen (fst (fst (sum_ensure g res lastp h))) <> 0).
  { unfold sum_ensure. destruct (Nat.eqb_spec (slen res) 0) as [Z|Z].
    - destruct (new_cell_ext h0 (mkSeg 0 None) h H) as [E1 E2].
      destruct (new_cell (mkSeg 0 None) h) as [p h']. simpl in E1, E2.
      destruct (append_ext h0 g res p h' E1 Hres) as (A1 & A2 & A3).
      destruct (append g res p h') as [res' h'']. simpl in *.
      split; [exact A1|]. split; [right; exact A2|]. split; [exact E2|exact A3].
    - simpl. split; [exact H|]. split; [exact Hres|]. split; [apply Hlast; exact Z|exact Z]. }
  destruct (sum_ensure g res lastp h) as [[res1 lastp1] h1].
  simpl in Hstep. destruct Hstep as (S1 & S2 & S3 & S4).
  destruct ((a - last =? 0)%Z).
  - apply IH; [apply set_cell_ext; assumption|exact S2|intros _; exact S3].
  - assert (E2 : heap_ext h0 (set_cell lastp1 (mkSeg (mag (cell h1 lastp1)) (Some (a - last)%Z)) h1))
      by (apply set_cell_ext; assumption).
    destruct (new_cell_ext h0 (mkSeg (mag (cell h1 lastp1) + dl)%Z None) _ E2) as [E3 E4].
    destruct (new_cell (mkSeg (mag (cell h1 lastp1) + dl)%Z None)
                       (set_cell lastp1 (mkSeg (mag (cell h1 lastp1)) (Some (a - last)%Z)) h1)) as [p h3].
    simpl in E3, E4.
    destruct (append_ext h0 g res1 p h3 E3 S2) as (A1 & A2 & A3).
    destruct (append g res1 p h3) as [res2 h4]. simpl in *.
    apply IH; [exact A1|right; exact A2|intros _; exact E4].
Qed.

Lemma sum_own_ext h0 g ss h : heap_ext h0 h -> heap_ext h0 (snd (sum_own g ss h)).
Proof.
  intros H. unfold sum_own.
  pose proof (sum_loop_own_ext h0 g (calc_cuts (map (read_slice h) ss)) nil_slice 0 0%Z h H) as E.
  destruct (sum_loop_own g (calc_cuts (map (read_slice h) ss)) nil_slice 0 0%Z h) as [[res lastp] h1].
  simpl in E.
  assert (E' : heap_ext h0 h1).
  { apply E; [left; simpl; lia|simpl; intros C; exfalso; apply C; reflexivity]. }
  destruct (0 <? slen res); [|exact E'].
  destruct (len (cell h1 lastp)); [exact E'|].
  destruct (mag (cell h1 lastp) <=? 0)%Z; exact E'.
Qed.

(* ---- proto.Clone of a mode ---- *)
Lemma clone_mode_ext h0 g m h : heap_ext h0 h ->
  heap_ext h0 (snd (clone_mode g m h)) /\
  List.length (arrays h0) <= sarr (snd (fst (clone_mode g m h))) /\
  List.length (mcells h0) <= fst (fst (clone_mode g m h)).
Proof.
  intros (H1 & H2 & H3). unfold clone_mode. destruct (mcell h m) as [st s]. simpl.
  repeat split; simpl.
  - apply ext_app. exact H1.
  - apply ext_app. exact H2.
  - apply ext_app. exact H3.
  - apply ext_length. exact H2.
  - apply ext_length. exact H3.
Qed.

(* ---- modepb.Cut ---- *)
Lemma mode_cut_own_ext h0 g t m h : heap_ext h0 h -> heap_ext h0 (snd (mode_cut_own g t m h)).
Proof.
  intros H. unfold mode_cut_own. destruct (mcell h m) as [st s] eqn:Em.
  destruct (slice_ptrs h s) as [|p0 ps0] eqn:Eps; [exact H|].
  destruct (t <=? match st with Some x => ts_val x | None => t end)%Z; [exact H|].
  destruct (active_at (t - match st with Some x => ts_val x | None => t end) (read_slice h s)) as [elapsed index].
  destruct (index =? zlen (p0 :: ps0))%Z; [exact H|].
  destruct (clone_mode_ext h0 g m h H) as (B1 & B2 & B3).
  destruct (clone_mode g m h) as [[mb bs] h1]. simpl in B1, B2, B3.
  destruct (clone_mode_ext h0 g m h1 B1) as (A1 & A2 & A3).
  destruct (clone_mode g m h1) as [[ma as_] h2]. simpl in A1, A2, A3.
  assert (E3 : heap_ext h0 (set_mcell ma (Some (ts_of t), as_) h2)) by (apply set_mcell_ext; assumption).
  pose proof (cut_own_ext h0 (t - match st with Some x => ts_val x | None => t end - elapsed)%Z
                (nth (Z.to_nat index) (p0 :: ps0) 0) _ E3) as E4.
  destruct (cut_own (t - match st with Some x => ts_val x | None => t end - elapsed)%Z
                    (nth (Z.to_nat index) (p0 :: ps0) 0)
                    (set_mcell ma (Some (ts_of t), as_) h2)) as [[[sb sa] o] h4].
  simpl in E4. simpl.
  assert (E5 : heap_ext h0 match sb with
                           | Some pb => let '(s', h') := append g (sub bs 0 (Z.to_nat index)) pb h4 in set_mcell mb (st, s') h'
                           | None => set_mcell mb (st, sub bs 0 (Z.to_nat index)) h4
                           end).
  { destruct sb as [pb|]; [|apply set_mcell_ext; assumption].
    destruct (append_ext h0 g (sub bs 0 (Z.to_nat index)) pb h4 E4 (sub_fresh h0 bs 0 _ B2)) as (X1 & _ & _).
    destruct (append g (sub bs 0 (Z.to_nat index)) pb h4) as [s' h']. simpl in X1.
    apply set_mcell_ext; assumption. }
  destruct sa as [pa|]; apply set_mcell_ext; try assumption.
  apply set_slot_ext; assumption.
Qed.

(* ---- modepb.Shift ---- *)
Lemma mode_shift_own_ext h0 g d m h : heap_ext h0 h -> heap_ext h0 (snd (mode_shift_own g d m h)).
Proof.
  intros H. unfold mode_shift_own. destruct (d =? 0)%Z; [exact H|].
  destruct (clone_mode_ext h0 g m h H) as (B1 & B2 & B3).
  destruct (clone_mode g m h) as [[m' s'] h1]. simpl in B1, B2, B3.
  destruct (fst (mcell h m)) as [st|].
  - simpl. apply set_mcell_ext; assumption.
  - pose proof (shift_own_ext h0 d s' h1 B1) as E.
    destruct (shift_own d s' h1) as [r h2]. simpl in *. apply set_mcell_ext; assumption.
Qed.

(* ---- modepb.Sum ---- *)
Lemma shift_all_ext h0 ds : forall h, heap_ext h0 h -> heap_ext h0 (snd (shift_all ds h)).
Proof.
  induction ds as [|[d s] r IH]; intros h H; simpl; [exact H|].
  pose proof (shift_own_ext h0 d s h H) as E. destruct (shift_own d s h) as [s' h1]. simpl in E.
  specialize (IH h1 E). destruct (shift_all r h1) as [rs h2]. exact IH.
Qed.

Lemma mode_sum_own_ext h0 g ms h : heap_ext h0 h -> heap_ext h0 (snd (mode_sum_own g ms h)).
Proof.
  intros H. unfold mode_sum_own. destruct ms as [|m0 ms]; [exact H|].
  set (vals := map (mcell h) (m0 :: ms)).
  destruct (flat_map (fun v => match fst v with Some s => [ts_val s] | None => [] end) vals) as [|s0 rest].
  - pose proof (sum_own_ext h0 g (map snd vals) h H) as E.
    destruct (sum_own g (map snd vals) h) as [r h1]. simpl in E.
    apply (new_mcell_ext h0 (None, r) h1 E).
  - set (ds := map _ vals).
    pose proof (shift_all_ext h0 ds h H) as E. destruct (shift_all ds h) as [slices h1]. simpl in E.
    pose proof (sum_own_ext h0 g slices h1 E) as E'. destruct (sum_own g slices h1) as [r h2]. simpl in E'.
    apply (new_mcell_ext h0 (Some (ts_of (minZ rest s0)), r) h2 E').
Qed.

(* ---- the statements used by Props/C18.v: entered with heap h, every location of h is intact ---- *)
Theorem shift_never_writes_args d s h : heap_ext h (snd (shift_own d s h)).
Proof. apply shift_own_ext. apply heap_ext_refl. Qed.
Theorem seg_cut_never_writes_args d p h : heap_ext h (snd (cut_own d p h)).
Proof. apply cut_own_ext. apply heap_ext_refl. Qed.
Theorem sum_never_writes_args g ss h : heap_ext h (snd (sum_own g ss h)).
Proof. apply sum_own_ext. apply heap_ext_refl. Qed.
Theorem mode_cut_never_writes_args g t m h : heap_ext h (snd (mode_cut_own g t m h)).
Proof. apply mode_cut_own_ext. apply heap_ext_refl. Qed.
Theorem mode_shift_never_writes_args g d m h : heap_ext h (snd (mode_shift_own g d m h)).
Proof. apply mode_shift_own_ext. apply heap_ext_refl. Qed.
Theorem mode_sum_never_writes_args g ms h : heap_ext h (snd (mode_sum_own g ms h)).
Proof. apply mode_sum_own_ext. apply heap_ext_refl. Qed.

(* what heap_ext gives a caller: anything readable before reads the same afterwards *)
Lemma ext_cell h h' p : heap_ext h h' -> p < List.length (cells h) -> cell h' p = cell h p.
Proof. intros (H & _ & _) Hp. apply ext_nth; assumption. Qed.
Lemma ext_arr h h' a : heap_ext h h' -> a < List.length (arrays h) -> arr h' a = arr h a.
Proof. intros (_ & H & _) Hp. apply ext_nth; assumption. Qed.

Theorem ext_read_slice h h' s : heap_ext h h' -> slice_ok h s -> read_slice h' s = read_slice h s.
Proof.
  intros H [Ha Hp]. unfold read_slice, slice_ptrs in *. rewrite (ext_arr h h' _ H Ha).
  apply map_ext_in. intros p Hin. apply ext_cell; [exact H|].
  rewrite Forall_forall in Hp. apply Hp. exact Hin.
Qed.

Theorem ext_read_mode h h' m : heap_ext h h' -> m < List.length (mcells h) -> slice_ok h (snd (mcell h m)) ->
  read_mode h' m = read_mode h m.
Proof.
  intros H Hm Hs. unfold read_mode. destruct H as (H1 & H2 & H3).
  assert (E : mcell h' m = mcell h m) by (apply ext_nth; assumption).
  rewrite E. rewrite (ext_read_slice h h' _ (conj H1 (conj H2 H3)) Hs). reflexivity.
Qed.

(* the executable form the judge evaluates *)
Lemma list_eqb_refl {A} (e : A -> A -> bool) (He : forall x, e x x = true) l : list_eqb e l l = true.
Proof. induction l as [|x l IH]; simpl; [reflexivity|]. rewrite He, IH. reflexivity. Qed.
Lemma firstn_ext {A} (l l' : list A) : ext l l' -> firstn (List.length l) l' = l.
Proof. intros [k ->]. rewrite firstn_app, Nat.sub_diag, firstn_all. simpl. apply app_nil_r. Qed.
Lemma seg_eqb_refl s : seg_eqb s s = true.
Proof.
  unfold seg_eqb. rewrite Z.eqb_refl. destruct (len s); simpl; [apply Z.eqb_refl|reflexivity].
Qed.
Lemma ts_eqb_refl t : ts_eqb t t = true.
Proof. unfold ts_eqb. rewrite !Z.eqb_refl. reflexivity. Qed.

Theorem heap_ext_kept h h' : heap_ext h h' -> heap_kept h h' = true.
Proof.
  intros (H1 & H2 & H3). unfold heap_kept, cells_kept, arrays_kept, mcells_kept.
  rewrite (firstn_ext _ _ H1), (firstn_ext _ _ H2), (firstn_ext _ _ H3).
  rewrite (list_eqb_refl _ seg_eqb_refl).
  rewrite (list_eqb_refl _ (fun l => list_eqb_refl _ Nat.eqb_refl l)).
  rewrite list_eqb_refl; [reflexivity|].
  intros [st s]. simpl. unfold slice_eqb. rewrite !Nat.eqb_refl.
  destruct st as [t|]; simpl; [rewrite ts_eqb_refl|]; reflexivity.
Qed.

(* ---- the heap model of Shift computes the lists of the value model (Segment.shift) ---- *)
Lemma skipn_add {A} : forall a b (l : list A), skipn (a + b) l = skipn b (skipn a l).
Proof.
  induction a as [|a IH]; intros b l; simpl; [reflexivity|].
  destruct l; [rewrite skipn_nil; reflexivity|apply IH].
Qed.
Lemma skipn_S_tl {A} : forall i (l : list A), skipn (S i) l = tl (skipn i l).
Proof.
  induction i as [|i IH]; intros l; destruct l as [|x l]; try reflexivity.
  change (skipn (S (S i)) (x :: l)) with (skipn (S i) l). rewrite IH. reflexivity.
Qed.
Lemma slice_ptrs_sub h s i : slice_ptrs h (sub s i (slen s)) = skipn i (slice_ptrs h s).
Proof. unfold slice_ptrs, sub. simpl. rewrite skipn_firstn_comm, skipn_add. reflexivity. Qed.

Lemma nth_upd_same {A} (v d : A) : forall n l, n < List.length l -> nth n (upd n v l) d = v.
Proof. induction n as [|n IH]; intros [|x l] H; simpl in *; try lia; [reflexivity|apply IH; lia]. Qed.
Lemma nth_upd_other {A} (v d : A) : forall n m l, n <> m -> nth m (upd n v l) d = nth m l d.
Proof.
  induction n as [|n IH]; intros m [|x l] H; simpl; try reflexivity.
  - destruct m; [lia|reflexivity].
  - destruct m; [reflexivity|apply IH; lia].
Qed.

Lemma cell_new_old v h p : p < List.length (cells h) -> cell (snd (new_cell v h)) p = cell h p.
Proof. intros H. unfold cell. simpl. apply app_nth1. exact H. Qed.
Lemma cell_new_new v h : cell (snd (new_cell v h)) (List.length (cells h)) = v.
Proof. unfold cell. simpl. rewrite app_nth2 by lia. rewrite Nat.sub_diag. reflexivity. Qed.

Lemma read_new_array ps e h :
  read_slice (snd (new_array ps e h)) (fst (new_array ps e h)) = map (cell h) ps.
Proof.
  unfold read_slice, slice_ptrs, arr. simpl.
  rewrite app_nth2 by lia. rewrite Nat.sub_diag. simpl.
  rewrite firstn_app, Nat.sub_diag, firstn_all. simpl. rewrite app_nil_r. reflexivity.
Qed.

Lemma map_cell_ext h h' ps : heap_ext h h' -> Forall (fun p => p < List.length (cells h)) ps ->
  map (cell h') ps = map (cell h) ps.
Proof.
  intros E F. apply map_ext_in. intros p Hp. apply ext_cell; [exact E|]. rewrite Forall_forall in F. apply F. exact Hp.
Qed.

Lemma cut_own_refines d p h : p < List.length (cells h) ->
  heap_ext h (snd (cut_own d p h)) /\
  (option_map (cell (snd (cut_own d p h))) (fst (fst (fst (cut_own d p h)))),
   option_map (cell (snd (cut_own d p h))) (snd (fst (fst (cut_own d p h)))),
   snd (fst (cut_own d p h))) = cut_seg d (cell h p).
Proof.
  intros Hp. split; [apply seg_cut_never_writes_args|].
  unfold cut_own, cut_seg. destruct (d <=? 0)%Z; [reflexivity|].
  destruct (len (cell h p)) as [l|].
  - destruct (l <=? d)%Z; [reflexivity|]. unfold cell. simpl.
    rewrite (app_nth1 (cells h ++ _) _ dseg) by (rewrite app_length; simpl; lia).
    rewrite (app_nth2 (cells h) _ dseg) by lia. rewrite Nat.sub_diag.
    rewrite (app_nth2 (cells h ++ _) _ dseg) by lia. rewrite Nat.sub_diag. reflexivity.
  - unfold cell. simpl. rewrite (app_nth2 (cells h) _ dseg) by lia. rewrite Nat.sub_diag.
    rewrite (app_nth1 (cells h) _ dseg Hp). reflexivity.
Qed.

Lemma shift_neg_own_refines d s : forall ps cur i h,
  Forall (fun p => p < List.length (cells h)) ps -> ps = skipn i (slice_ptrs h s) ->
  read_slice (snd (shift_neg_own d cur s i ps h)) (fst (shift_neg_own d cur s i ps h)) =
  shift_neg d cur (map (cell h) ps).
Proof.
  induction ps as [|p r IH]; intros cur i h F Hps; simpl.
  - reflexivity.
  - inversion F as [|? ? Fp Fr]; subst.
    destruct (len (cell h p)) as [n|] eqn:Ln.
    + destruct (d <? cur + n)%Z.
      * destruct (cut_own_refines (d - cur)%Z p h Fp) as [E C].
        destruct (cut_own (d - cur)%Z p h) as [[[b a] o] h1]. simpl in E, C. rewrite <- C.
        destruct a as [pa|]; simpl; rewrite <- (map_cell_ext h h1 r E Fr);
        [exact (read_new_array (pa :: r) 0 h1)|exact (read_new_array r 0 h1)].
      * apply IH; [exact Fr|]. rewrite skipn_S_tl, <- Hps. reflexivity.
    + simpl. unfold read_slice. rewrite slice_ptrs_sub, <- Hps. reflexivity.
Qed.

Theorem shift_own_refines d s h : slice_ok h s ->
  read_slice (snd (shift_own d s h)) (fst (shift_own d s h)) = shift d (read_slice h s).
Proof.
  intros [_ F]. unfold shift_own, shift. destruct (d =? 0)%Z; [reflexivity|].
  unfold read_slice at 2. destruct (slice_ptrs h s) as [|p0 rest] eqn:Eps.
  - simpl. unfold read_slice. rewrite Eps. reflexivity.
  - inversion F as [|? ? F0 Fr]; subst. simpl map.
    destruct (0 <? d)%Z.
    + destruct (mag (cell h p0) =? 0)%Z.
      * destruct (len (cell h p0)) as [n|] eqn:Ln.
        -- set (pnew := List.length (cells h)).
           set (h2 := set_cell pnew (mkSeg (mag (cell h p0)) (Some (n + d)%Z)) (snd (new_cell (cell h p0) h))).
           change (read_slice (snd (new_array (pnew :: rest) 0 h2)) (fst (new_array (pnew :: rest) 0 h2)) =
                   mkSeg (mag (cell h p0)) (Some (n + d)%Z) :: map (cell h) rest).
           rewrite read_new_array. simpl map. f_equal.
           ++ unfold h2, pnew, cell at 1. simpl. rewrite nth_upd_same by (rewrite app_length; simpl; lia). reflexivity.
           ++ apply map_ext_in. intros q Hq. rewrite Forall_forall in Fr. specialize (Fr q Hq).
              unfold h2, pnew, cell. simpl. rewrite nth_upd_other by lia. apply app_nth1. exact Fr.
        -- simpl. unfold read_slice. rewrite Eps. reflexivity.
      * replace (read_slice h s) with (cell h p0 :: map (cell h) rest) by (unfold read_slice; rewrite Eps; reflexivity).
        set (pnew := List.length (cells h)). set (h1 := snd (new_cell (mkSeg 0 (Some d)) h)).
        change (read_slice (snd (new_array (pnew :: p0 :: rest) 0 h1)) (fst (new_array (pnew :: p0 :: rest) 0 h1)) =
                mkSeg 0 (Some d) :: cell h p0 :: map (cell h) rest).
        rewrite read_new_array. simpl map. unfold h1, pnew. f_equal; [apply cell_new_new|].
        f_equal; [apply cell_new_old; exact F0|].
        apply map_ext_in. intros q Hq. rewrite Forall_forall in Fr. apply cell_new_old. apply Fr. exact Hq.
    + replace (read_slice h s) with (map (cell h) (p0 :: rest)) by (unfold read_slice; rewrite Eps; reflexivity).
      apply (shift_neg_own_refines (- d)%Z s (p0 :: rest) 0%Z 0 h F). rewrite Eps. reflexivity.
Qed.
