(* The heap model of segmentpb.Sum (Own.sum_own: `result` grows by append under ANY growth policy, the last element is
   rewritten in place through the pointer appended last) computes the list of the value model (Segment.sum), for every
   heap, every argument slices and every growth policy.  Invariant of the loop (sum_res_inv): `result` lies inside an
   existing array (or has capacity 0), its pointers are  ps ++ [lastp]  with every pointer of ps below lastp (so the
   in-place writes through lastp never touch a finished segment), the finished segments read as rev done and the open
   one as (m, infinite). *)
From SC Require Import Base.Prelude Timeline.Timestamp Timeline.Segment Timeline.Mode Timeline.Own Timeline.OwnProofs
  Timeline.OwnRefine.
Local Open Scope nat_scope.

Definition slice_in (h : heap) (s : slice) : Prop :=
  slen s <= scap s /\
  (scap s = 0 \/ (sarr s < List.length (arrays h) /\ soff s + scap s <= List.length (arr h (sarr s)))).

Lemma slice_ptrs_length h s : slice_in h s -> List.length (slice_ptrs h s) = slen s.
Proof.
  intros [L [Z|[_ B]]]; unfold slice_ptrs; rewrite firstn_length, skipn_length; lia.
Qed.

Lemma skipn_upd_add {A} (v : A) : forall o i l, skipn o (upd (o + i) v l) = upd i v (skipn o l).
Proof.
  induction o as [|o IH]; intros i l; [reflexivity|].
  destruct l as [|x l]; [destruct i; reflexivity|]. simpl. apply IH.
Qed.

Lemma slice_ptrs_arrays h h' s : arrays h' = arrays h -> slice_ptrs h' s = slice_ptrs h s.
Proof. intros E. unfold slice_ptrs, arr. rewrite E. reflexivity. Qed.
Lemma slice_in_arrays h h' s : arrays h' = arrays h -> slice_in h s -> slice_in h' s.
Proof. intros E [L D]. split; [exact L|]. unfold arr in *. rewrite E. exact D. Qed.

(* append(s, p) under any growth policy: the pointers of the result are those of s followed by p; no segment object
   is touched; the result can be appended to again *)
Lemma append_spec g s p h : slice_in h s ->
  slice_in (snd (append g s p h)) (fst (append g s p h)) /\
  slice_ptrs (snd (append g s p h)) (fst (append g s p h)) = slice_ptrs h s ++ [p] /\
  cells (snd (append g s p h)) = cells h.
Proof.
  intros I. pose proof (slice_ptrs_length h s I) as PL. destruct I as [L D]. unfold append.
  destruct (Nat.ltb_spec (slen s) (scap s)) as [C|C].
  - destruct D as [D|[DA DB]]; [lia|]. cbn [fst snd].
    assert (EA : arr (set_slot s (slen s) p h) (sarr s) = upd (soff s + slen s) p (arr h (sarr s))).
    { unfold arr, set_slot. cbn [arrays]. apply nth_upd_same. exact DA. }
    split; [|split; [|reflexivity]].
    + split; cbn [slen scap sarr soff]; [lia|]. right. rewrite EA. rewrite upd_length.
      unfold set_slot. cbn [arrays]. rewrite upd_length. split; assumption.
    + unfold slice_ptrs at 1. cbn [slen scap sarr soff]. rewrite EA. rewrite skipn_upd_add.
      rewrite firstn_upd_last by (rewrite skipn_length; lia). reflexivity.
  - assert (E : slen s = scap s) by lia.
    set (ps := slice_ptrs h s ++ [p]).
    split; [|split; [|reflexivity]].
    + unfold new_array. cbn [fst snd]. split; cbn [slen scap sarr soff arrays]; [lia|]. right.
      unfold arr. cbn [arrays]. rewrite app_length. cbn [List.length]. split; [lia|].
      rewrite arr_app_new. rewrite app_length, repeat_length. lia.
    + unfold new_array, slice_ptrs. cbn [fst snd slen scap sarr soff]. unfold arr. cbn [arrays].
      rewrite arr_app_new. cbn [skipn]. rewrite firstn_app, Nat.sub_diag, firstn_all. cbn [firstn]. apply app_nil_r.
Qed.

Lemma cell_cells h h' p : cells h' = cells h -> cell h' p = cell h p.
Proof. intros E. unfold cell. rewrite E. reflexivity. Qed.

Definition sum_res_inv (h : heap) (res : slice) (lastp : nat) (done : list seg) (open : option Z) : Prop :=
  slice_in h res /\
  match open with
  | None => slen res = 0 /\ done = []
  | Some m => exists ps, slice_ptrs h res = ps ++ [lastp] /\ lastp < List.length (cells h) /\
                         Forall (fun p => p < lastp) ps /\ map (cell h) ps = rev done /\ cell h lastp = mkSeg m None
  end.

Lemma inv_some_len h res lastp done m : sum_res_inv h res lastp done (Some m) -> slen res <> 0.
Proof.
  intros [I (ps & P & _)]. pose proof (slice_ptrs_length h res I) as PL. rewrite P, app_length in PL. simpl in PL. lia.
Qed.

Lemma sum_ensure_spec g res lastp h done open : sum_res_inv h res lastp done open ->
  sum_res_inv (snd (sum_ensure g res lastp h)) (fst (fst (sum_ensure g res lastp h))) (snd (fst (sum_ensure g res lastp h)))
              done (Some (match open with None => 0%Z | Some m => m end)).
Proof.
  intros Inv. unfold sum_ensure. destruct open as [m|].
  - pose proof (inv_some_len _ _ _ _ _ Inv) as NZ. apply Nat.eqb_neq in NZ. rewrite NZ. exact Inv.
  - destruct Inv as [I [Z Dn]]. subst done. rewrite Z. cbn [Nat.eqb]. unfold new_cell.
    set (h' := mkHeap (cells h ++ [mkSeg 0 None]) (arrays h) (mcells h)).
    assert (I' : slice_in h' res) by (apply (slice_in_arrays h h' res eq_refl I)).
    destruct (append_spec g res (List.length (cells h)) h' I') as (IA & PA & CA).
    destruct (append g res (List.length (cells h)) h') as [res' h''] eqn:EA. cbn [fst snd] in *.
    split; [exact IA|]. exists []. rewrite PA. unfold slice_ptrs. rewrite Z. cbn [firstn app].
    split; [reflexivity|]. rewrite CA. unfold h'. cbn [cells]. rewrite app_length. cbn [List.length].
    split; [lia|]. split; [constructor|]. split.
    + reflexivity.
    + unfold cell. rewrite CA. unfold h'. cbn [cells]. rewrite app_nth2 by lia. rewrite Nat.sub_diag. reflexivity.
Qed.

Lemma cell_set_same p v h : p < List.length (cells h) -> cell (set_cell p v h) p = v.
Proof. intros H. unfold cell, set_cell. cbn [cells]. apply nth_upd_same. exact H. Qed.
Lemma cell_set_other p q v h : p <> q -> cell (set_cell p v h) q = cell h q.
Proof. intros H. unfold cell, set_cell. cbn [cells]. apply nth_upd_other. exact H. Qed.
Lemma map_cell_set_below p v h ps : Forall (fun q => q < p) ps -> map (cell (set_cell p v h)) ps = map (cell h) ps.
Proof.
  intros F. apply map_ext_in. intros q Hq. rewrite Forall_forall in F. specialize (F q Hq).
  apply cell_set_other. lia.
Qed.

Lemma sum_loop_own_refines g : forall cuts res lastp last h done open,
  sum_res_inv h res lastp done open ->
  sum_res_inv (snd (sum_loop_own g cuts res lastp last h))
              (fst (fst (sum_loop_own g cuts res lastp last h))) (snd (fst (sum_loop_own g cuts res lastp last h)))
              (fst (sum_loop cuts done open last)) (snd (sum_loop cuts done open last)).
Proof.
  induction cuts as [|[at_ delta] r IH]; intros res lastp last h done open Inv; [exact Inv|].
  cbn [sum_loop_own sum_loop].
  pose proof (sum_ensure_spec g res lastp h done open Inv) as Inv1.
  destruct (sum_ensure g res lastp h) as [[res1 lastp1] h1]. cbn [fst snd] in Inv1.
  set (m := match open with None => 0%Z | Some m => m end) in *.
  destruct Inv1 as [I1 (ps & P1 & B1 & F1 & M1 & C1)].
  rewrite C1. cbn [mag len].
  destruct (at_ - last =? 0)%Z.
  - set (h2 := set_cell lastp1 (mkSeg (m + delta) None) h1).
    apply IH. split; [apply (slice_in_arrays h1 h2 res1 eq_refl I1)|].
    exists ps. rewrite (slice_ptrs_arrays h1 h2 res1 eq_refl).
    split; [exact P1|]. split; [unfold h2, set_cell; cbn [cells]; rewrite upd_length; exact B1|].
    split; [exact F1|]. split; [unfold h2; rewrite (map_cell_set_below _ _ _ _ F1); exact M1|].
    unfold h2. apply cell_set_same. exact B1.
  - set (h2 := set_cell lastp1 (mkSeg m (Some (at_ - last)%Z)) h1).
    unfold new_cell.
    set (p := List.length (cells h2)).
    set (h3 := mkHeap (cells h2 ++ [mkSeg (m + delta) None]) (arrays h2) (mcells h2)).
    assert (I3 : slice_in h3 res1) by (apply (slice_in_arrays h1 h3 res1 eq_refl I1)).
    destruct (append_spec g res1 p h3 I3) as (IA & PA & CA).
    destruct (append g res1 p h3) as [res2 h4]. cbn [fst snd] in IA, PA, CA.
    apply IH. split; [exact IA|].
    assert (Lp : p = List.length (cells h1)) by (unfold p, h2, set_cell; cbn [cells]; apply upd_length).
    exists (ps ++ [lastp1]). rewrite PA. rewrite (slice_ptrs_arrays h1 h3 res1 eq_refl), P1.
    split; [reflexivity|]. rewrite CA. unfold h3 at 1. cbn [cells]. rewrite app_length. cbn [List.length]. fold p.
    split; [lia|].
    split; [apply Forall_app; split; [eapply Forall_impl; [|exact F1]; cbn beta; intros; lia | constructor; [lia|constructor]]|].
    assert (Old : forall q, q < p -> cell h4 q = cell h2 q).
    { intros q Hq. unfold cell. rewrite CA. unfold h3. cbn [cells]. apply app_nth1. exact Hq. }
    split.
    + rewrite map_app. cbn [map rev]. f_equal.
      * rewrite <- M1. rewrite <- (map_cell_set_below lastp1 (mkSeg m (Some (at_ - last)%Z)) h1 ps F1). fold h2.
        apply map_ext_in. intros q Hq. apply Old. rewrite Forall_forall in F1. specialize (F1 q Hq). lia.
      * rewrite Old by lia. unfold h2. rewrite cell_set_same by exact B1. reflexivity.
    + unfold cell. rewrite CA. unfold h3. cbn [cells]. rewrite app_nth2 by (fold p; lia). fold p. rewrite Nat.sub_diag. reflexivity.
Qed.

Theorem sum_own_refines g ss h :
  read_slice (snd (sum_own g ss h)) (fst (sum_own g ss h)) = sum (map (read_slice h) ss).
Proof.
  unfold sum_own, sum. set (cuts := calc_cuts (map (read_slice h) ss)).
  assert (Inv0 : sum_res_inv h nil_slice 0 [] None).
  { split; [split; [cbn; lia|left; reflexivity]|split; reflexivity]. }
  pose proof (sum_loop_own_refines g cuts nil_slice 0 0%Z h [] None Inv0) as Inv.
  destruct (sum_loop_own g cuts nil_slice 0 0%Z h) as [[res lastp] h1].
  destruct (sum_loop cuts [] None 0%Z) as [done open]. cbn [fst snd] in Inv. cbv beta iota zeta.
  destruct open as [m|].
  - pose proof (inv_some_len _ _ _ _ _ Inv) as NZ. destruct Inv as [I (ps & P & B & F & M & C)].
    destruct (Nat.ltb_spec 0 (slen res)); [|lia]. rewrite C. cbn [len mag].
    pose proof (slice_ptrs_length h1 res I) as PL. rewrite P, app_length in PL. cbn [List.length] in PL.
    destruct (m <=? 0)%Z; cbn [fst snd].
    + unfold read_slice. replace (slice_ptrs h1 (sub res 0 (slen res - 1))) with ps; [exact M|].
      unfold slice_ptrs, sub. cbn [slen sarr soff]. rewrite Nat.add_0_r, Nat.sub_0_r.
      replace (firstn (slen res - 1) (skipn (soff res) (arr h1 (sarr res))))
        with (firstn (slen res - 1) (firstn (slen res) (skipn (soff res) (arr h1 (sarr res)))))
        by (rewrite firstn_firstn; f_equal; lia).
      change (firstn (slen res) (skipn (soff res) (arr h1 (sarr res)))) with (slice_ptrs h1 res). rewrite P.
      replace (slen res - 1) with (List.length ps + 0) by lia. rewrite firstn_app_2. cbn [firstn]. symmetry. apply app_nil_r.
    + unfold read_slice. rewrite P, map_app, M. cbn [map]. rewrite C. reflexivity.
  - destruct Inv as [I [Z _]]. rewrite Z. cbn [Nat.ltb Nat.leb fst snd]. unfold read_slice, slice_ptrs. rewrite Z. reflexivity.
Qed.
