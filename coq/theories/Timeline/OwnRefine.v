(* The heap model of modepb.Cut computes the modes of the value model (Mode.mode_cut): reading the
   two result modes out of the final heap gives exactly (before, after, outside) of mode_cut applied
   to the argument mode read out of the entry heap — through both proto.Clone's, the in-place
   append into the first clone's array and the slot assignment in the second clone's array. *)
From SC Require Import Base.Prelude Timeline.Timestamp Timeline.Segment Timeline.Mode Timeline.Own Timeline.OwnProofs.
Local Open Scope nat_scope.

(* reading primitives *)
Lemma arr_app_old h a x : a < List.length (arrays h) -> nth a (arrays h ++ x) [] = arr h a.
Proof. intros H. apply app_nth1. exact H. Qed.
Lemma arr_app_new (l : list (list nat)) x : nth (List.length l) (l ++ [x]) [] = x.
Proof. rewrite app_nth2 by lia. rewrite Nat.sub_diag. reflexivity. Qed.

Lemma cut_own_arrays d p h : arrays (snd (cut_own d p h)) = arrays h /\ mcells (snd (cut_own d p h)) = mcells h.
Proof.
  unfold cut_own. destruct (d <=? 0)%Z; [split; reflexivity|].
  destruct (len (cell h p)) as [l|]; [destruct (l <=? d)%Z|]; split; reflexivity.
Qed.

Lemma firstn_seq k : forall a n, k <= n -> firstn k (seq a n) = seq a k.
Proof.
  induction k as [|k IH]; intros a n H; [reflexivity|]. destruct n; [lia|]. simpl. f_equal. apply IH. lia.
Qed.
Lemma skipn_seq k : forall a n, skipn k (seq a n) = seq (a + k) (n - k).
Proof.
  induction k as [|k IH]; intros a n; simpl; [rewrite Nat.add_0_r, Nat.sub_0_r; reflexivity|].
  destruct n; [reflexivity|]. simpl. rewrite IH. f_equal. lia.
Qed.
Lemma firstn_upd_last {A} (v : A) : forall i l, i < List.length l -> firstn (S i) (upd i v l) = firstn i l ++ [v].
Proof.
  induction i as [|i IH]; intros [|x l] H; simpl in *; try lia; [reflexivity|]. f_equal. apply IH. lia.
Qed.
Lemma firstn_upd_ge {A} (v : A) : forall i k l, k <= i -> firstn k (upd i v l) = firstn k l.
Proof.
  induction i as [|i IH]; intros k [|x l] H; simpl; try reflexivity.
  - destruct k; [reflexivity|lia].
  - destruct k; [reflexivity|]. simpl. f_equal. apply IH. lia.
Qed.
Lemma skipn_upd_lt {A} (v : A) : forall i k l, i < k -> skipn k (upd i v l) = skipn k l.
Proof.
  induction i as [|i IH]; intros k [|x l] H; simpl; try reflexivity.
  - destruct k; [lia|reflexivity].
  - destruct k; [lia|]. simpl. apply IH. lia.
Qed.
Lemma skipn_upd_at {A} (v : A) : forall i l, i < List.length l -> skipn i (upd i v l) = v :: skipn (S i) l.
Proof.
  induction i as [|i IH]; intros [|x l] H; simpl in *; try lia; [reflexivity|]. apply IH. lia.
Qed.

(* cells of the clone of a list of old pointers read like the originals *)
Lemma map_cell_seq (cs : list seg) (vs : list seg) d0 :
  map (fun p => nth p (cs ++ vs) d0) (seq (List.length cs) (List.length vs)) = vs.
Proof.
  revert cs. induction vs as [|v vs IH]; intros cs; [reflexivity|]. simpl. f_equal.
  - rewrite app_nth2 by lia. rewrite Nat.sub_diag. reflexivity.
  - specialize (IH (cs ++ [v])). rewrite app_length in IH. simpl in IH.
    replace (S (List.length cs)) with (List.length cs + 1) by lia.
    rewrite <- app_assoc in IH. simpl in IH. exact IH.
Qed.

Lemma clone_mode_spec g m h :
  let st := fst (mcell h m) in let s := snd (mcell h m) in
  let ps := slice_ptrs h s in
  let s' := mkSlice (List.length (arrays h)) 0 (List.length ps) (List.length ps + g (slen s)) in
  clone_mode g m h =
  (List.length (mcells h), s',
   mkHeap (cells h ++ map (cell h) ps)
          (arrays h ++ [seq (List.length (cells h)) (List.length ps) ++ repeat 0 (g (slen s))])
          (mcells h ++ [(st, s')])).
Proof.
  unfold clone_mode. destruct (mcell h m) as [st s]. simpl. rewrite seq_length. reflexivity.
Qed.

(* a slice whose array is old reads the same pointers after the heap grew *)
Lemma slice_ptrs_ext h h' s : heap_ext h h' -> sarr s < List.length (arrays h) -> slice_ptrs h' s = slice_ptrs h s.
Proof. intros E H. unfold slice_ptrs. rewrite (ext_arr h h' _ E H). reflexivity. Qed.

From SC Require Import Timeline.SegmentProofs.

Lemma upd_length {A} (v : A) : forall n l, List.length (upd n v l) = List.length l.
Proof. induction n as [|n IH]; intros [|x l]; simpl; try reflexivity. rewrite IH. reflexivity. Qed.
Lemma ptrs_prefix a n k e : k <= n -> firstn k (seq a n ++ repeat 0 e) = seq a k.
Proof.
  intros H. rewrite firstn_app, seq_length. replace (k - n) with 0 by lia. simpl. rewrite app_nil_r. apply firstn_seq. exact H.
Qed.
Lemma ptrs_suffix a n k e : k <= n -> firstn (n - k) (skipn k (seq a n ++ repeat 0 e)) = seq (a + k) (n - k).
Proof.
  intros H. rewrite skipn_app, seq_length. replace (k - n) with 0 by lia. simpl skipn at 2. rewrite skipn_seq.
  rewrite firstn_app, seq_length, Nat.sub_diag. simpl. rewrite app_nil_r. rewrite <- (seq_length (n - k) (a + k)) at 1. apply firstn_all.
Qed.
Lemma map_seq_firstn {B} (f : nat -> B) a n k L : map f (seq a n) = L -> k <= n -> map f (seq a k) = firstn k L.
Proof. intros E H. rewrite <- E, firstn_map, (firstn_seq k a n H). reflexivity. Qed.
Lemma map_seq_skipn {B} (f : nat -> B) a n k L : map f (seq a n) = L -> map f (seq (a + k) (n - k)) = skipn k L.
Proof. intros E. rewrite <- E, skipn_map, skipn_seq. reflexivity. Qed.

Lemma read_mode_congr h h' m : mcell h' m = mcell h m ->
  arr h' (sarr (snd (mcell h m))) = arr h (sarr (snd (mcell h m))) -> cells h' = cells h ->
  read_mode h' m = read_mode h m.
Proof.
  intros E A C. unfold read_mode, read_slice, slice_ptrs, cell. rewrite E, A, C. reflexivity.
Qed.

Theorem mode_cut_own_refines g t m h b a o h' :
  m < List.length (mcells h) -> slice_ok h (snd (mcell h m)) ->
  mode_cut_own g t m h = (b, a, o, h') ->
  (option_map (read_mode h') b, option_map (read_mode h') a, o) = mode_cut t (read_mode h m).
Proof.
  intros Hm [Hs F] R.
  pose proof (clone_mode_spec g m h) as CB. cbv zeta in CB.
  unfold mode_cut_own in R.
  destruct (mcell h m) as [st s] eqn:Em. simpl fst in *. simpl snd in *.
  unfold read_slice in R.
  assert (RM : read_mode h m = mkMode st (map (cell h) (slice_ptrs h s))).
  { unfold read_mode. rewrite Em. reflexivity. }
  rewrite RM. unfold mode_cut, t_or_st. cbn [msegs mstart].
  destruct (slice_ptrs h s) as [|p0 ps0] eqn:Eps.
  - inversion R; subst. simpl. rewrite RM. reflexivity.
  - set (ps := p0 :: ps0) in *. set (L := map (cell h) ps) in *.
    set (stv := match st with Some x => ts_val x | None => t end) in *.
    assert (HL : L = cell h p0 :: map (cell h) ps0) by reflexivity.
    rewrite HL at 1. cbv iota.
    destruct (Z.leb_spec t stv) as [Hle|Hgt].
    { inversion R; subst. simpl. rewrite RM. reflexivity. }
    pose proof (active_at_contract (t - stv) L ltac:(lia)) as C.
    destruct (active_at (t - stv) L) as [elapsed index].
    destruct C as ((I0 & I1) & _).
    assert (ZL : zlen L = zlen ps) by (unfold zlen, L; rewrite map_length; reflexivity).
    rewrite ZL in *.
    destruct (Z.eqb_spec index (zlen ps)) as [Ei|Ei].
    { inversion R; subst. simpl. rewrite RM. reflexivity. }
    set (i := Z.to_nat index) in *.
    assert (Hi : i < List.length ps) by (unfold zlen in *; lia).
    (* the two clones *)
    rewrite CB in R.
    set (n := List.length ps) in *.
    set (bs := mkSlice (List.length (arrays h)) 0 n (n + g (slen s))) in *.
    set (h1 := mkHeap (cells h ++ L) (arrays h ++ [seq (List.length (cells h)) n ++ repeat 0 (g (slen s))]) (mcells h ++ [(st, bs)])) in *.
    assert (E1 : heap_ext h h1) by (repeat split; simpl; eexists; reflexivity).
    pose proof (clone_mode_spec g m h1) as CA. cbv zeta in CA.
    assert (Em1 : mcell h1 m = (st, s)).
    { unfold mcell. simpl. rewrite app_nth1 by exact Hm. exact Em. }
    rewrite Em1 in CA. simpl fst in CA. simpl snd in CA.
    rewrite (slice_ptrs_ext h h1 s E1 Hs), Eps in CA. fold ps in CA. fold n in CA.
    assert (EL : map (cell h1) ps = L).
    { apply map_ext_in. intros p Hp. apply ext_cell; [exact E1|]. rewrite Forall_forall in F. apply F. exact Hp. }
    rewrite EL in CA. rewrite CA in R.
    set (as_ := mkSlice (List.length (arrays h1)) 0 n (n + g (slen s))) in *.
    set (h2 := mkHeap (cells h1 ++ L) (arrays h1 ++ [seq (List.length (cells h1)) n ++ repeat 0 (g (slen s))]) (mcells h1 ++ [(st, as_)])) in *.
    set (mb := List.length (mcells h)) in *. set (ma := List.length (mcells h1)) in *.
    set (h3 := set_mcell ma (Some (ts_of t), as_) h2) in *.
    set (pi := nth i ps 0) in *. set (dd := (t - stv - elapsed)%Z) in *.
    assert (Hpi0 : pi < List.length (cells h)).
    { rewrite Forall_forall in F. apply F. apply nth_In. exact Hi. }
    assert (Hpi : pi < List.length (cells h3)).
    { unfold h3, h2, h1. simpl. rewrite !app_length. lia. }
    destruct (cut_own_refines dd pi h3 Hpi) as [E34 CQ].
    destruct (cut_own_arrays dd pi h3) as [A34 M34].
    destruct (cut_own dd pi h3) as [[[sb sa] o4] h4] eqn:EC. cbn [fst snd] in E34, CQ, A34, M34.
    assert (Cpi : cell h3 pi = nth i L dseg).
    { rewrite (nth_indep L dseg (cell h 0)) by (unfold L; rewrite map_length; exact Hi).
      unfold L. rewrite map_nth. fold pi.
      unfold cell, h3, h2, h1. cbn [cells set_mcell]. rewrite <- app_assoc. apply app_nth1. exact Hpi0. }
    rewrite Cpi in CQ. change (mkSeg 0 None) with dseg. rewrite <- CQ. cbv iota beta.
    inversion R; subst b a o h'. clear R.
    (* facts about h4 *)
    assert (LL : List.length L = n) by (unfold L; apply map_length).
    assert (LA1 : List.length (arrays h1) = S (List.length (arrays h))).
    { unfold h1. cbn [arrays]. rewrite app_length. cbn [List.length]. lia. }
    assert (LM1 : ma = S mb).
    { unfold ma, mb, h1. cbn [mcells]. rewrite app_length. cbn [List.length]. lia. }
    assert (LC1 : List.length (cells h1) = List.length (cells h) + n).
    { unfold h1. cbn [cells]. rewrite app_length. lia. }
    assert (LC3 : List.length (cells h3) = List.length (cells h) + n + n).
    { unfold h3, h2. cbn [cells set_mcell]. rewrite app_length. lia. }
    assert (C3 : cells h3 = (cells h ++ L) ++ L) by reflexivity.
    assert (C4 : forall p, p < List.length (cells h) -> cell h4 p = cell h p).
    { intros p Hp. rewrite (ext_cell h3 h4 p E34) by lia.
      unfold cell. rewrite C3. rewrite <- app_assoc. apply app_nth1. exact Hp. }
    assert (A3 : arrays h3 = arrays h1 ++ [seq (List.length (cells h1)) n ++ repeat 0 (g (slen s))]) by reflexivity.
    assert (A1 : arrays h1 = arrays h ++ [seq (List.length (cells h)) n ++ repeat 0 (g (slen s))]) by reflexivity.
    assert (AB : arr h4 (List.length (arrays h)) = seq (List.length (cells h)) n ++ repeat 0 (g (slen s))).
    { unfold arr. rewrite A34, A3. rewrite app_nth1 by (rewrite LA1; lia). rewrite A1. apply arr_app_new. }
    assert (AA : arr h4 (List.length (arrays h1)) = seq (List.length (cells h1)) n ++ repeat 0 (g (slen s))).
    { unfold arr. rewrite A34, A3. apply arr_app_new. }
    (* old cells read through the clones *)
    assert (RB : map (cell h4) (seq (List.length (cells h)) n) = L).
    { transitivity (map (fun p => nth p (cells h ++ L) dseg) (seq (List.length (cells h)) n)).
      - apply map_ext_in. intros p Hp. apply in_seq in Hp.
        rewrite (ext_cell h3 h4 p E34) by lia.
        unfold cell. rewrite C3. apply app_nth1. rewrite app_length. lia.
      - rewrite <- LL. apply map_cell_seq. }
    assert (RA : map (cell h4) (seq (List.length (cells h1)) n) = L).
    { transitivity (map (fun p => nth p (cells h1 ++ L) dseg) (seq (List.length (cells h1)) n)).
      - apply map_ext_in. intros p Hp. apply in_seq in Hp.
        rewrite (ext_cell h3 h4 p E34) by lia. reflexivity.
      - rewrite <- LL. apply map_cell_seq. }
    assert (M3 : mcells h3 = upd ma (Some (ts_of t), as_) (mcells h1 ++ [(st, as_)])) by reflexivity.
    assert (M1 : mcells h1 = mcells h ++ [(st, bs)]) by reflexivity.
    clearbody h3 h2 h1.
    set (h5 := match sb with
               | Some pb => let '(s', h') := append g (sub bs 0 i) pb h4 in set_mcell mb (st, s') h'
               | None => set_mcell mb (st, sub bs 0 i) h4
               end).
    set (sB := match sb with Some _ => mkSlice (List.length (arrays h)) 0 (S i) (n + g (slen s)) | None => sub bs 0 i end).
    assert (LM4 : List.length (mcells h4) = S (S mb)).
    { rewrite M34, M3, upd_length, app_length, M1, app_length. cbn [List.length]. unfold mb. lia. }
    assert (LA4 : List.length (arrays h4) = S (S (List.length (arrays h)))).
    { rewrite A34, A3, app_length. cbn [List.length]. lia. }
    assert (LA5 : List.length (arrays h5) = List.length (arrays h4)).
    { unfold h5. destruct sb as [pb|]; [|reflexivity]. unfold append. cbn [sub slen scap sarr soff bs].
      destruct (Nat.ltb_spec (i - 0) (n + g (slen s) - 0)) as [_|Hc]; [|lia].
      unfold set_mcell, set_slot. cbn [arrays]. apply upd_length. }
    assert (H5 : cells h5 = cells h4 /\ mcells h5 = upd mb (st, sB) (mcells h4) /\
                 arr h5 (List.length (arrays h1)) = arr h4 (List.length (arrays h1)) /\
                 arr h5 (List.length (arrays h)) =
                   match sb with Some pb => upd i pb (arr h4 (List.length (arrays h))) | None => arr h4 (List.length (arrays h)) end).
    { unfold h5, sB. destruct sb as [pb|].
      - unfold append. cbn [sub slen scap sarr soff bs].
        destruct (Nat.ltb_spec (i - 0) (n + g (slen s) - 0)) as [_|Hc]; [|lia].
        unfold set_mcell, set_slot, arr. cbn [cells mcells arrays sarr soff slen scap sub bs].
        replace (i - 0) with i by lia. 
        split; [reflexivity|]. split; [reflexivity|]. split.
        + apply nth_upd_other. lia.
        + rewrite nth_upd_same by lia. reflexivity.
      - cbn [set_mcell cells mcells]. repeat split; reflexivity. }
    destruct H5 as (C5 & M5 & A5a & A5b).
    (* before *)
    assert (RMB5 : read_mode h5 mb = mkMode st (firstn i L ++ match option_map (cell h4) sb with Some x => [x] | None => [] end)).
    { unfold read_mode, mcell. rewrite M5. rewrite nth_upd_same by lia. cbn [fst snd].
      f_equal. unfold read_slice, slice_ptrs, sB. 
      replace (cell h5) with (cell h4) by (unfold cell; rewrite C5; reflexivity).
      destruct sb as [pb|]; cbn [sarr soff slen sub bs option_map]; rewrite A5b, AB.
      - cbn [skipn]. rewrite firstn_upd_last by (rewrite app_length, seq_length; lia).
        rewrite map_app. rewrite (ptrs_prefix _ n i) by lia. rewrite (map_seq_firstn _ _ n i L RB) by lia. reflexivity.
      - replace (i - 0) with i by lia. change (0 + 0) with 0. cbn [skipn]. rewrite (ptrs_prefix _ n i) by lia.
        rewrite (map_seq_firstn _ _ n i L RB) by lia. rewrite app_nil_r. reflexivity. }
    set (T := Some (ts_of t)) in *.
    set (h6 := match sa with
               | Some pa => set_mcell ma (T, sub as_ i n) (set_slot as_ i pa h5)
               | None => set_mcell ma (T, sub as_ (S i) n) h5
               end).
    assert (LM5 : List.length (mcells h5) = S (S mb)) by (rewrite M5, upd_length; exact LM4).
    assert (H6 : cells h6 = cells h5 /\ mcell h6 mb = mcell h5 mb /\
                 arr h6 (List.length (arrays h)) = arr h5 (List.length (arrays h)) /\
                 mcell h6 ma = (T, match sa with Some _ => sub as_ i n | None => sub as_ (S i) n end) /\
                 arr h6 (List.length (arrays h1)) =
                   match sa with Some pa => upd i pa (arr h5 (List.length (arrays h1))) | None => arr h5 (List.length (arrays h1)) end).
    { unfold h6. destruct sa as [pa|]; unfold set_mcell, set_slot, mcell, arr, as_; cbn [cells mcells arrays sarr soff slen].
      - split; [reflexivity|]. split; [apply nth_upd_other; lia|]. split; [apply nth_upd_other; lia|].
        split; [rewrite nth_upd_same by lia; reflexivity|]. rewrite nth_upd_same by lia. reflexivity.
      - split; [reflexivity|]. split; [apply nth_upd_other; lia|]. split; [reflexivity|].
        split; [rewrite nth_upd_same by lia; reflexivity|reflexivity]. }
    destruct H6 as (C6 & M6b & A6b & M6a & A6a).
    assert (RB6 : read_mode h6 mb = mkMode st (firstn i L ++ match option_map (cell h4) sb with Some x => [x] | None => [] end)).
    { rewrite <- RMB5. apply read_mode_congr; [exact M6b| |exact C6].
      assert (MC5 : mcell h5 mb = (st, sB)) by (unfold mcell; rewrite M5, nth_upd_same by lia; reflexivity).
      rewrite MC5. cbn [snd]. replace (sarr sB) with (List.length (arrays h)) by (unfold sB; destruct sb; reflexivity).
      exact A6b. }
    assert (RA6 : read_mode h6 ma = mkMode T (match option_map (cell h4) sa with Some x => [x] | None => [] end ++ skipn (S i) L)).
    { unfold read_mode. rewrite M6a. cbn [fst snd]. f_equal. unfold read_slice, slice_ptrs.
      replace (cell h6) with (cell h4) by (unfold cell; rewrite C6, C5; reflexivity).
      destruct sa as [pa|]; unfold as_; cbn [sarr soff slen sub option_map]; rewrite A6a, A5a, AA.
      - change (0 + i) with i. rewrite skipn_upd_at by (rewrite app_length, seq_length; lia).
        replace (n - i) with (S (n - S i)) by lia. cbn [firstn map app]. f_equal.
        rewrite (ptrs_suffix _ n (S i)) by lia. apply (map_seq_skipn _ _ n (S i) L RA).
      - change (0 + S i) with (S i). rewrite (ptrs_suffix _ n (S i)) by lia. cbn [app].
        apply (map_seq_skipn _ _ n (S i) L RA). }
    cbn [option_map]. rewrite RB6, RA6. reflexivity.
Qed.

(* ---- modepb.Shift on the heap computes Mode.mode_shift ---- *)
(* reading the clone of a mode: the same start time and the same segments *)
Lemma clone_mode_reads g m h :
  m < List.length (mcells h) -> slice_ok h (snd (mcell h m)) ->
  let s' := snd (fst (clone_mode g m h)) in let h1 := snd (clone_mode g m h) in
  read_slice h1 s' = read_slice h (snd (mcell h m)) /\ slice_ok h1 s' /\ heap_ext h h1 /\
  fst (fst (clone_mode g m h)) = List.length (mcells h) /\
  List.length (mcells h1) = S (List.length (mcells h)).
Proof.
  intros Hm [Hs F]. cbv zeta. rewrite clone_mode_spec. cbn [fst snd].
  set (s := snd (mcell h m)) in *. set (ps := slice_ptrs h s) in *.
  split; [|split; [|split; [|split]]].
  - unfold read_slice at 1, slice_ptrs. cbn [sarr soff slen arr arrays]. unfold arr. cbn [arrays].
    rewrite arr_app_new. cbn [skipn]. rewrite (ptrs_prefix _ _ (List.length ps)) by lia.
    unfold cell. cbn [cells]. unfold read_slice. fold ps.
    replace (List.length ps) with (List.length (map (cell h) ps)) by apply map_length.
    apply map_cell_seq.
  - split.
    + cbn [sarr arrays]. rewrite app_length. cbn [List.length]. lia.
    + unfold slice_ptrs. cbn [sarr soff slen]. unfold arr. cbn [arrays]. rewrite arr_app_new. cbn [skipn].
      rewrite (ptrs_prefix _ _ (List.length ps)) by lia. apply Forall_forall. intros p Hp. apply in_seq in Hp.
      cbn [cells]. rewrite app_length, map_length. lia.
  - repeat split; cbn [cells arrays mcells]; eexists; reflexivity.
  - reflexivity.
  - cbn [mcells]. rewrite app_length. cbn [List.length]. lia.
Qed.

Theorem mode_shift_own_refines g d m h :
  m < List.length (mcells h) -> slice_ok h (snd (mcell h m)) ->
  read_mode (snd (mode_shift_own g d m h)) (fst (mode_shift_own g d m h)) = mode_shift d (read_mode h m).
Proof.
  intros Hm Hok. unfold mode_shift_own, mode_shift. destruct (d =? 0)%Z eqn:Ed; [reflexivity|].
  destruct (clone_mode_reads g m h Hm Hok) as (R1 & Ok1 & E1 & Hm' & LM1).
  destruct (clone_mode g m h) as [[m' s'] h1]. cbn [fst snd] in *. subst m'.
  unfold read_mode at 2. cbn [mstart msegs].
  destruct (fst (mcell h m)) as [st|].
  - cbn [fst snd]. unfold read_mode, mcell, set_mcell. cbn [mcells cells arrays].
    rewrite nth_upd_same by lia. cbn [fst snd]. f_equal.
    unfold read_slice, slice_ptrs, arr, cell in *. cbn [arrays cells]. exact R1.
  - pose proof (shift_own_refines d s' h1 Ok1) as SR.
    destruct (shift_own d s' h1) as [r h2] eqn:ES. cbn [fst snd] in *.
    pose proof (shift_never_writes_args d s' h1) as E2. rewrite ES in E2. cbn [snd] in E2.
    assert (LM2 : List.length (mcells h) < List.length (mcells h2)).
    { destruct E2 as (_ & _ & [k Ek]). rewrite Ek, app_length. lia. }
    unfold read_mode, mcell, set_mcell. cbn [mcells cells arrays].
    rewrite nth_upd_same by exact LM2. cbn [fst snd]. f_equal.
    unfold read_slice, slice_ptrs, arr, cell in *. cbn [arrays cells]. rewrite SR, R1. reflexivity.
Qed.
