(* Model of pkg/time: timestamp.go, cut.go, period.go.  No proofs here. *)
From SC Require Import Base.Prelude.

(* timestamppb.Timestamp: seconds is an int64, nanos an int32 *)
Record ts := mkTs { secs : Z; nanos : Z }.

Definition ts_eqb (a b : ts) : bool := (secs a =? secs b) && (nanos a =? nanos b).

(* The validity guard of the protobuf well-known type (and of this development):
   0 <= nanos < 10^9, seconds within int64. *)
Definition ts_valid (t : ts) : bool :=
  in64 (secs t) && (0 <=? nanos t) && (nanos t <? 1000000000).

(* What a timestamp denotes: an integer count of nanoseconds. *)
Definition ts_val (t : ts) : Z := secs t * 1000000000 + nanos t.

(* timestamp.go CompareAscending as it stood at the pinned commit: the int64 difference of the
   seconds (wrapping), else the int32 difference of the nanos (wrapping), converted to int. *)
Definition compare_ascending_v0 (a b : ts) : Z :=
  let s := wrap64 (secs a - secs b) in
  if s =? 0 then wrap32 (nanos a - nanos b) else s.

(* timestamp.go CompareAscending after "fix: CompareAscending returns -1, 0 or 1". *)
Definition compare_ascending (a b : ts) : Z :=
  if secs a <? secs b then -1
  else if secs b <? secs a then 1
  else if nanos a <? nanos b then -1
  else if nanos b <? nanos a then 1
  else 0.

(* cut.go *)
Inductive cut := BelowAll | Below (t : ts) | Above (t : ts) | AboveAll.

Definition compare_value_cuts (this_t : ts) (this_above : bool) (that : cut) : Z :=
  match that with
  | BelowAll => 1
  | AboveAll => -1
  | Below t | Above t =>
      let that_above := match that with Above _ => true | _ => false end in
      let r := compare_ascending this_t t in
      if negb (r =? 0) then r
      else if Bool.eqb this_above that_above then 0
      else if this_above then 1 else -1
  end.

Definition cut_compare (this that : cut) : Z :=
  match this with
  | BelowAll => match that with BelowAll => 0 | _ => -1 end
  | AboveAll => match that with AboveAll => 0 | _ => 1 end
  | Below t => compare_value_cuts t false that
  | Above t => compare_value_cuts t true that
  end.

(* types/time.Period *)
Record period := mkPeriod { pstart : option ts; pend : option ts }.

Definition cut_period (p : period) : cut * cut :=
  match pstart p, pend p with
  | None, None => (BelowAll, AboveAll)
  | None, Some e => (BelowAll, Below e)
  | Some s, None => (Below s, AboveAll)
  | Some s, Some e => (Below s, Below e)
  end.

(* period.go; a nil *Period is None *)
Definition periods_connected (p1 p2 : option period) : bool :=
  match p1, p2 with
  | Some p1, Some p2 =>
      let '(l1, u1) := cut_period p1 in
      let '(l2, u2) := cut_period p2 in
      (cut_compare l1 u2 <=? 0) && (cut_compare l2 u1 <=? 0)
  | _, _ => false
  end.

(* period.go PeriodsIntersect at the pinned commit *)
Definition periods_intersect_v0 (p1 p2 : option period) : bool :=
  match p1, p2 with
  | Some p1, Some p2 =>
      let '(l1, u1) := cut_period p1 in
      let '(l2, u2) := cut_period p2 in
      (cut_compare l1 u2 <? 0) && (cut_compare l2 u1 <? 0)
  | _, _ => false
  end.

(* period.go PeriodsIntersect after "fix: PeriodsIntersect is false when either period is empty" *)
Definition periods_intersect (p1 p2 : option period) : bool :=
  match p1, p2 with
  | Some p1, Some p2 =>
      let '(l1, u1) := cut_period p1 in
      let '(l2, u2) := cut_period p2 in
      (cut_compare l1 u1 <? 0) && (cut_compare l2 u2 <? 0) &&
      (cut_compare l1 u2 <? 0) && (cut_compare l2 u1 <? 0)
  | _, _ => false
  end.

(* ---------- reference meaning (independent of cuts) ---------- *)

(* extended integers for the ends of a period *)
Definition lo_le (a b : option Z) : bool :=   (* a, b lower ends; None = -infinity *)
  match a, b with None, _ => true | Some _, None => false | Some x, Some y => x <=? y end.

Definition period_lo (p : period) : option Z := option_map ts_val (pstart p).
Definition period_hi (p : period) : option Z := option_map ts_val (pend p).

(* lower end l (None = -inf) strictly below upper end u (None = +inf) *)
Definition lo_lt_hi (l u : option Z) : bool :=
  match l, u with Some x, Some y => x <? y | _, _ => true end.
Definition lo_le_hi (l u : option Z) : bool :=
  match l, u with Some x, Some y => x <=? y | _, _ => true end.

(* x lies in the half-open interval [lo, hi) *)
Definition in_period (p : period) (x : Z) : Prop :=
  (match period_lo p with Some l => l <= x | None => True end) /\
  (match period_hi p with Some h => x < h | None => True end).
(* x lies in the closure [lo, hi] *)
Definition in_closure (p : period) (x : Z) : Prop :=
  (match period_lo p with Some l => l <= x | None => True end) /\
  (match period_hi p with Some h => x <= h | None => True end).

Definition period_wf (p : period) : bool :=
  match pstart p with Some t => ts_valid t | None => true end &&
  match pend p with Some t => ts_valid t | None => true end &&
  lo_le_hi (period_lo p) (period_hi p).

(* arithmetic oracles used by the correspondence (brute force on the denoted integers) *)
Definition intersect_ref (p1 p2 : option period) : bool :=
  match p1, p2 with
  | Some p, Some q =>
      lo_lt_hi (period_lo p) (period_hi q) && lo_lt_hi (period_lo q) (period_hi p)
      && lo_lt_hi (period_lo p) (period_hi p) && lo_lt_hi (period_lo q) (period_hi q)
  | _, _ => false
  end.
Definition connected_ref (p1 p2 : option period) : bool :=
  match p1, p2 with
  | Some p, Some q =>
      lo_le_hi (period_lo p) (period_hi q) && lo_le_hi (period_lo q) (period_hi p)
  | _, _ => false
  end.
Definition compare_ref (a b : ts) : Z :=
  match ts_val a ?= ts_val b with Lt => -1 | Eq => 0 | Gt => 1 end.
