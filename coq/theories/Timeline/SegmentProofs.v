(* Proofs about the segment model (Segment.v): a segment list read as a step function. *)
From SC Require Import Base.Prelude Timeline.Segment.

Local Arguments Z.add : simpl never.
Local Arguments Z.sub : simpl never.
Local Arguments Z.ltb : simpl never.
Local Arguments Z.leb : simpl never.

Lemma zlen_cons {A} (x : A) l : zlen (x :: l) = zlen l + 1.
Proof. unfold zlen. simpl List.length. lia. Qed.
Lemma zlen_nil {A} : zlen (@nil A) = 0.
Proof. reflexivity. Qed.
Lemma zlen_nonneg {A} (l : list A) : 0 <= zlen l.
Proof. unfold zlen. lia. Qed.

Lemma nth_mag_0 s r : nth_mag 0 (s :: r) = mag s.
Proof. reflexivity. Qed.
Lemma nth_mag_succ k s r : 0 <= k -> nth_mag (k + 1) (s :: r) = nth_mag k r.
Proof.
  intros Hk. unfold nth_mag. replace (Z.to_nat (k + 1)) with (S (Z.to_nat k)) by lia. reflexivity.
Qed.

Definition fin_len (s : seg) : Z := match len s with Some n => n | None => 0 end.
Definition prefix_len' (i : Z) (l : list seg) : Z := sumZ (map fin_len (firstn (Z.to_nat i) l)).

Lemma prefix_len_0 l : prefix_len' 0 l = 0.
Proof. reflexivity. Qed.
Lemma prefix_len_succ k s r : 0 <= k -> prefix_len' (k + 1) (s :: r) = fin_len s + prefix_len' k r.
Proof.
  intros Hk. unfold prefix_len'. replace (Z.to_nat (k + 1)) with (S (Z.to_nat k)) by lia. reflexivity.
Qed.

(* ---- ActiveAt / MagnitudeAt ---- *)

(* what ActiveAt's loop computes, relative to the level function *)
Lemma active_from_spec l : forall d cur i,
  let '(c, j) := active_from d cur i l in
  i <= j <= i + zlen l /\
  c = cur + prefix_len' (j - i) l /\
  forallb (fun s => match len s with Some _ => true | None => false end) (firstn (Z.to_nat (j - i)) l) = true /\
  (if j - i <? zlen l
   then level_at (d - cur) l = Some (nth_mag (j - i) l) /\
        match len (nth (Z.to_nat (j - i)) l (mkSeg 0 None)) with Some n => d < c + n | None => True end
   else level_at (d - cur) l = None) /\
  (cur <= d -> c <= d).
Proof.
  induction l as [|s r IH]; intros d cur i; simpl active_from.
  - rewrite zlen_nil. replace (i - i) with 0 by lia. simpl. repeat split; try lia. unfold prefix_len'. simpl. lia.
  - destruct (len s) as [n|] eqn:Ls.
    + destruct (d <? cur + n) eqn:E.
      * apply Z.ltb_lt in E. rewrite zlen_cons. replace (i - i) with 0 by lia.
        pose proof (zlen_nonneg r).
        repeat split; try lia.
        -- unfold prefix_len'. simpl. lia.
        -- destruct (0 <? zlen r + 1) eqn:E2; [|apply Z.ltb_ge in E2; lia].
           simpl. rewrite Ls. destruct (d - cur <? n) eqn:E3; [|apply Z.ltb_ge in E3; lia].
           split; [reflexivity|lia].
      * apply Z.ltb_ge in E.
        specialize (IH d (cur + n) (i + 1)).
        destruct (active_from d (cur + n) (i + 1) r) as [c j].
        destruct IH as (Hj & Hc & Hf & Hl & Hd).
        rewrite zlen_cons. pose proof (zlen_nonneg r).
        replace (j - i) with ((j - (i + 1)) + 1) by lia.
        assert (0 <= j - (i + 1)) by lia.
        rewrite prefix_len_succ by lia.
        replace (Z.to_nat (j - (i + 1) + 1)) with (S (Z.to_nat (j - (i + 1)))) by lia.
        repeat split; try lia.
        -- unfold fin_len. rewrite Ls. lia.
        -- simpl. rewrite Ls. exact Hf.
        -- destruct (j - (i + 1) <? zlen r) eqn:E2.
           ++ apply Z.ltb_lt in E2.
              destruct (j - (i + 1) + 1 <? zlen r + 1) eqn:E3; [|apply Z.ltb_ge in E3; lia].
              rewrite nth_mag_succ by lia. simpl level_at. rewrite Ls.
              destruct (d - cur <? n) eqn:E4; [apply Z.ltb_lt in E4; lia|].
              replace (d - cur - n) with (d - (cur + n)) by lia.
              simpl nth. exact Hl.
           ++ apply Z.ltb_ge in E2.
              destruct (j - (i + 1) + 1 <? zlen r + 1) eqn:E3; [apply Z.ltb_lt in E3; lia|].
              simpl level_at. rewrite Ls.
              destruct (d - cur <? n) eqn:E4; [apply Z.ltb_lt in E4; lia|].
              replace (d - cur - n) with (d - (cur + n)) by lia. exact Hl.
    + rewrite zlen_cons. replace (i - i) with 0 by lia. pose proof (zlen_nonneg r).
      repeat split; try lia.
      * unfold prefix_len'. simpl. lia.
      * destruct (0 <? zlen r + 1) eqn:E2; [|apply Z.ltb_ge in E2; lia].
        simpl. rewrite Ls. split; [reflexivity|exact I].
Qed.

Definition of_level (o : option Z) : Z * bool := match o with Some m => (m, true) | None => (0, false) end.

Theorem magnitude_at_is_level d l : magnitude_at d l = of_level (level d l).
Proof.
  unfold magnitude_at, level, active_at.
  destruct (d <? 0) eqn:E; [reflexivity|].
  pose proof (active_from_spec l d 0 0) as H.
  destruct (active_from d 0 0 l) as [c j].
  destruct H as (Hj & _ & _ & Hl & _).
  replace (j - 0) with j in Hl by lia. replace (d - 0) with d in Hl by lia.
  destruct (j <? zlen l) eqn:E2.
  - apply Z.ltb_lt in E2. destruct (zlen l <=? j) eqn:E3; [apply Z.leb_le in E3; lia|].
    destruct Hl as [Hl _]. rewrite Hl. reflexivity.
  - apply Z.ltb_ge in E2. destruct (zlen l <=? j) eqn:E3; [|apply Z.leb_gt in E3; lia].
    rewrite Hl. reflexivity.
Qed.

(* ActiveAt's contract *)
Theorem active_at_contract d l : 0 <= d ->
  let '(el, i) := active_at d l in
  0 <= i <= zlen l /\ el = prefix_len' i l /\ el <= d /\
  forallb (fun s => match len s with Some _ => true | None => false end) (firstn (Z.to_nat i) l) = true /\
  (i < zlen l -> match len (nth (Z.to_nat i) l (mkSeg 0 None)) with Some n => d < el + n | None => True end).
Proof.
  intros Hd. unfold active_at. destruct (d <? 0) eqn:E; [apply Z.ltb_lt in E; lia|].
  pose proof (active_from_spec l d 0 0) as H.
  destruct (active_from d 0 0 l) as [c j].
  destruct H as (Hj & Hc & Hf & Hl & Hle).
  replace (j - 0) with j in * by lia.
  repeat split; try lia; auto.
  intros Hlt. destruct (j <? zlen l) eqn:E2; [|apply Z.ltb_ge in E2; lia].
  destruct Hl as [_ Hl]. exact Hl.
Qed.

(* ---- Duration ---- *)
Lemma duration_from_spec l : forall tot,
  duration_from tot l =
  if forallb (fun s => match len s with Some _ => true | None => false end) l
  then (tot + sumZ (map fin_len l), false)
  else (fst (duration_from tot l), true).
Proof.
  induction l as [|s r IH]; intros tot; simpl.
  - f_equal. lia.
  - unfold fin_len at 1. destruct (len s) as [n|]; simpl.
    + rewrite IH. destruct (forallb _ r); simpl; [f_equal; lia|reflexivity].
    + reflexivity.
Qed.

(* ---- Max ---- *)
Lemma max_from_spec l : forall i found mx idx,
  let '(f, j) := max_from i found mx idx l in
  (f = false -> found = false /\ forallb (fun s => negb (counts s)) l = true) /\
  (f = true ->
   exists m, (* final maximum *)
     (found = true -> mx <= m) /\
     forallb (fun s => negb (counts s) || (mag s <=? m)) l = true /\
     ((j = idx /\ found = true /\ m = mx /\ forallb (fun s => negb (counts s) || (mag s <=? mx)) l = true) \/
      (i <= j < i + zlen l /\ nth_mag (j - i) l = m /\ counts (nth (Z.to_nat (j - i)) l (mkSeg 0 None)) = true /\
       (found = true -> mx < m) /\
       forallb (fun s => negb (counts s) || (mag s <? m)) (firstn (Z.to_nat (j - i)) l) = true))).
Proof.
  induction l as [|s r IH]; intros i found mx idx; simpl max_from.
  - split.
    + intros ->. auto.
    + intros ->. exists mx. split; [lia|]. split; [reflexivity|]. left. auto.
  - destruct (counts s) eqn:Cs; simpl negb; cbv iota.
    + destruct found; simpl negb; cbv iota.
      * destruct (mx <? mag s) eqn:E.
        -- apply Z.ltb_lt in E.
           specialize (IH (i + 1) true (mag s) i).
           destruct (max_from (i + 1) true (mag s) i r) as [f j].
           destruct IH as [IH0 IH1]. split.
           ++ intros ->. destruct (IH0 eq_refl) as [? _]. discriminate.
           ++ intros ->. destruct (IH1 eq_refl) as (m & Hm & Hall & Hcase).
              specialize (Hm eq_refl).
              exists m. split; [lia|]. split.
              { simpl. rewrite Cs. simpl. destruct (Z.leb_spec (mag s) m); [exact Hall|lia]. }
              right. rewrite zlen_cons. pose proof (zlen_nonneg r).
              destruct Hcase as [(Hj & _ & Hmm & Hall2)|(Hj & Hn & Hc & Hlt & Hpre)].
              ** subst j m. replace (i - i) with 0 by lia. repeat split; try lia; auto.
              ** replace (j - i) with ((j - (i + 1)) + 1) by lia.
                 rewrite nth_mag_succ by lia.
                 replace (Z.to_nat (j - (i + 1) + 1)) with (S (Z.to_nat (j - (i + 1)))) by lia.
                 specialize (Hlt eq_refl).
                 repeat split; try lia; auto.
                 simpl. rewrite Cs. simpl. destruct (Z.ltb_spec (mag s) m); [exact Hpre|lia].
        -- apply Z.ltb_ge in E.
           specialize (IH (i + 1) true mx idx).
           destruct (max_from (i + 1) true mx idx r) as [f j].
           destruct IH as [IH0 IH1]. split.
           ++ intros ->. destruct (IH0 eq_refl) as [? _]. discriminate.
           ++ intros ->. destruct (IH1 eq_refl) as (m & Hm & Hall & Hcase).
              specialize (Hm eq_refl).
              exists m. split; [intros _; lia|]. split.
              { simpl. rewrite Cs. simpl. destruct (Z.leb_spec (mag s) m); [exact Hall|lia]. }
              rewrite zlen_cons. pose proof (zlen_nonneg r).
              destruct Hcase as [(Hj & _ & Hmm & Hall2)|(Hj & Hn & Hc & Hlt & Hpre)].
              ** left. subst m. repeat split; auto.
                 simpl. rewrite Cs. simpl. destruct (Z.leb_spec (mag s) mx); [exact Hall2|lia].
              ** right. replace (j - i) with ((j - (i + 1)) + 1) by lia.
                 rewrite nth_mag_succ by lia.
                 replace (Z.to_nat (j - (i + 1) + 1)) with (S (Z.to_nat (j - (i + 1)))) by lia.
                 specialize (Hlt eq_refl).
                 repeat split; try lia; auto.
                 simpl. rewrite Cs. simpl. destruct (Z.ltb_spec (mag s) m); [exact Hpre|lia].
      * specialize (IH (i + 1) true (mag s) i).
        destruct (max_from (i + 1) true (mag s) i r) as [f j].
        destruct IH as [IH0 IH1]. split.
        -- intros ->. destruct (IH0 eq_refl) as [? _]. discriminate.
        -- intros ->. destruct (IH1 eq_refl) as (m & Hm & Hall & Hcase).
           specialize (Hm eq_refl).
           exists m. split; [intros; discriminate|]. split.
           { simpl. rewrite Cs. simpl. destruct (Z.leb_spec (mag s) m); [exact Hall|lia]. }
           right. rewrite zlen_cons. pose proof (zlen_nonneg r).
           destruct Hcase as [(Hj & _ & Hmm & Hall2)|(Hj & Hn & Hc & Hlt & Hpre)].
           ** subst j m. replace (i - i) with 0 by lia. repeat split; try lia; auto; try (intros; discriminate).
           ** replace (j - i) with ((j - (i + 1)) + 1) by lia.
              rewrite nth_mag_succ by lia.
              replace (Z.to_nat (j - (i + 1) + 1)) with (S (Z.to_nat (j - (i + 1)))) by lia.
              specialize (Hlt eq_refl).
              repeat split; try lia; auto; try (intros; discriminate).
              simpl. rewrite Cs. simpl. destruct (Z.ltb_spec (mag s) m); [exact Hpre|lia].
    + specialize (IH (i + 1) found mx idx).
      destruct (max_from (i + 1) found mx idx r) as [f j].
      destruct IH as [IH0 IH1]. split.
      * intros ->. destruct (IH0 eq_refl) as [? Hr]. split; auto. simpl. rewrite Cs. exact Hr.
      * intros ->. destruct (IH1 eq_refl) as (m & Hm & Hall & Hcase).
        exists m. split; [exact Hm|]. split.
        { simpl. rewrite Cs. simpl. exact Hall. }
        rewrite zlen_cons. pose proof (zlen_nonneg r).
        destruct Hcase as [(Hj & Hf & Hmm & Hall2)|(Hj & Hn & Hc & Hlt & Hpre)].
        -- left. repeat split; auto. simpl. rewrite Cs. simpl. exact Hall2.
        -- right. replace (j - i) with ((j - (i + 1)) + 1) by lia.
           rewrite nth_mag_succ by lia.
           replace (Z.to_nat (j - (i + 1) + 1)) with (S (Z.to_nat (j - (i + 1)))) by lia.
           repeat split; try lia; auto.
           simpl. rewrite Cs. simpl. exact Hpre.
Qed.

(* Max's contract: the index of the first counted segment of largest magnitude, len(segments) if none counts *)
Theorem max_index_contract l :
  let i := max_index l in
  if i <? zlen l then
    0 <= i /\ counts (nth (Z.to_nat i) l (mkSeg 0 None)) = true /\
    forallb (fun s => negb (counts s) || (mag s <=? nth_mag i l)) l = true /\
    forallb (fun s => negb (counts s) || (mag s <? nth_mag i l)) (firstn (Z.to_nat i) l) = true
  else forallb (fun s => negb (counts s)) l = true.
Proof.
  unfold max_index. pose proof (max_from_spec l 0 false 0 0) as H.
  destruct (max_from 0 false 0 0 l) as [f j]. destruct H as [H0 H1].
  destruct f.
  - destruct (H1 eq_refl) as (m & _ & Hall & [(_ & Hf & _)|(Hj & Hn & Hc & _ & Hpre)]); [discriminate|].
    replace (j - 0) with j in * by lia.
    destruct (j <? zlen l) eqn:E; [|apply Z.ltb_ge in E; lia].
    rewrite Hn. repeat split; auto; lia.
  - destruct (H0 eq_refl) as [_ Hall].
    destruct (zlen l <? zlen l) eqn:E; [apply Z.ltb_lt in E; lia|]. exact Hall.
Qed.

(* ---- val / level basics ---- *)
Lemma val_neg l t : t < 0 -> val l t = 0.
Proof. intros H. unfold val, level. destruct (t <? 0) eqn:E; [reflexivity|apply Z.ltb_ge in E; lia]. Qed.

Lemma val_nil t : val [] t = 0.
Proof. unfold val, level. destruct (t <? 0); reflexivity. Qed.

Lemma val_cons_inf m r t : 0 <= t -> val (mkSeg m None :: r) t = m.
Proof. intros H. unfold val, level. destruct (t <? 0) eqn:E; [apply Z.ltb_lt in E; lia|]. reflexivity. Qed.

Lemma val_cons_fin m n r t : 0 <= t -> 0 <= n ->
  val (mkSeg m (Some n) :: r) t = if t <? n then m else val r (t - n).
Proof.
  intros H Hn. unfold val, level. destruct (t <? 0) eqn:E; [apply Z.ltb_lt in E; lia|].
  simpl. destruct (t <? n) eqn:E2; [reflexivity|].
  apply Z.ltb_ge in E2. destruct (t - n <? 0) eqn:E3; [apply Z.ltb_lt in E3; lia|]. reflexivity.
Qed.

(* ---- Cut ---- *)
Theorem cut_seg_preserves d s : 0 < d -> (match len s with Some n => d < n | None => True end) ->
  exists b a, cut_seg d s = (Some b, Some a, false) /\ len b = Some d /\
              forall t, val [b; a] t = val [s] t.
Proof.
  intros Hd Hn. unfold cut_seg. destruct (d <=? 0) eqn:E; [apply Z.leb_le in E; lia|].
  destruct s as [m [n|]]; simpl in *.
  - destruct (n <=? d) eqn:E2; [apply Z.leb_le in E2; lia|].
    eexists _, _. split; [reflexivity|]. split; [reflexivity|].
    intros t. destruct (Z.ltb_spec t 0) as [Ht|Ht]; [rewrite !val_neg by lia; reflexivity|].
    rewrite (val_cons_fin m d _ t) by lia. rewrite (val_cons_fin m n [] t) by lia. rewrite val_nil.
    destruct (Z.ltb_spec t d), (Z.ltb_spec t n); try lia; try reflexivity.
    + rewrite val_cons_fin by lia. destruct (Z.ltb_spec (t - d) (n - d)); [reflexivity|lia].
    + rewrite val_cons_fin by lia. destruct (Z.ltb_spec (t - d) (n - d)); [lia|]. apply val_nil.
  - eexists _, _. split; [reflexivity|]. split; [reflexivity|].
    intros t. destruct (Z.ltb_spec t 0) as [Ht|Ht]; [rewrite !val_neg by lia; reflexivity|].
    rewrite val_cons_fin by lia. rewrite (val_cons_inf m [] t) by lia.
    destruct (Z.ltb_spec t d); [reflexivity|]. rewrite val_cons_inf by lia. reflexivity.
Qed.
