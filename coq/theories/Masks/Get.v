(* Model of /repo/pkg/masks/get.go: ResponseFilter.Validate, Filter, FilterClone — the code as it is
   after the two fix commits (read paths are cut at fields with nothing to select inside, then
   normalized, before fmutils sees them), the pinned code as [_v0], and the independent reference
   projection [project].  No proofs here. *)
From SC Require Import Base.Prelude Msg.Msg Msg.Schema Msg.Path Msg.FmUtils.

Inductive outcome := Ok (v : value) | Panic.

Definition outcome_eqb (a b : outcome) : bool :=
  match a, b with
  | Ok x, Ok y => value_eqb x y
  | Panic, Panic => true
  | _, _ => false
  end.

(* a *fieldmaskpb.FieldMask: nil, or its paths *)
Definition mask := option (list path).

Definition code_ok : Z := 0.
Definition code_invalid_argument : Z := 3.
Definition code_internal : Z := 13.

(* ResponseFilter.Validate: gRPC code *)
Definition validate (sch : schema) (ty : string) (m : mask) : Z :=
  match m with
  | None => code_ok
  | Some ps => if fm_valid sch ty ps then code_ok else code_invalid_argument
  end.

(* pinned code: fmutils.Filter(clone, paths) *)
Definition filter_clone_v0 (m : mask) (v : value) : outcome :=
  match m with
  | None => Ok v                                  (* same message *)
  | Some [] => Ok (VM [])                         (* proto.Reset(clone) *)
  | Some ps =>
      match nm_filter (nested_of_paths ps) v with Some r => Ok r | None => Panic end
  end.

(* selectablePath: walk the descriptor along the path (empty segments are skipped, as fmutils
   does); an unknown name leaves the path alone; a field that is a map or has no message type ends
   the path there *)
Fixpoint cut_path (sch : schema) (ty : string) (p : path) : path :=
  match p with
  | [] => []
  | s :: r =>
      if String.eqb s "" then s :: cut_path sch ty r
      else
        match lookup_field sch ty s with
        | None => p
        | Some f =>
            match msg_type_of f with
            | None => [s]
            | Some ty' => s :: cut_path sch ty' r
            end
        end
  end.

Definition read_paths (sch : schema) (ty : string) (ps : list path) : list path :=
  normalize_paths (map (cut_path sch ty) ps).

(* current code; Filter (in place) computes the same tree *)
Definition filter_clone (sch : schema) (ty : string) (m : mask) (v : value) : outcome :=
  match m with
  | None => Ok v
  | Some [] => Ok (VM [])
  | Some ps =>
      match nm_filter (nested_of_paths (read_paths sch ty ps)) v with Some r => Ok r | None => Panic end
  end.

(* ---- the reference projection, defined on the set of paths, not on nested masks ----
   A node is selected as a whole as soon as one path ends at it (so a parent path wins over its
   children); a field is visited when some path goes through it, with the remainders of exactly those
   paths; a path through a repeated field applies to every element; below a node with no fields
   (scalar, map) there is nothing to choose from and the node is kept whole. *)
Fixpoint project (ps : list path) (v : value) {struct v} : value :=
  if ends_here ps then v else
  match v with
  | VM fields =>
      VM (flat_map (fun kx => let '(k, x) := kx in
                              match deriv k ps with
                              | [] => []
                              | ps' => [(k, project ps' x)]
                              end) fields)
  | VL l => VL (map (project ps) l)
  | _ => v
  end.

Definition project_mask (m : mask) (v : value) : value :=
  match m with
  | None => v
  | Some [] => VM []
  | Some ps => project ps v
  end.
