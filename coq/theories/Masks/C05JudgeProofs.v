(* The judge's right-to-left reading of an option list (Masks/C05Judge.v spec_*_opts) is what the in-order
   fold of the library / the model computes (Masks/Options.v). *)
From SC Require Import Base.Prelude Msg.Msg Msg.Schema Msg.Path Msg.PathProofs Msg.PathAlgebra Msg.FmUtils Msg.ProtoOps
  Masks.Get Masks.Update Masks.UpdateProofs Masks.Options Masks.OptionsProofs Masks.C05Judge Gen.Schema.

Lemma upd_fold : forall opts r0,
  w_update (fold_left apply_wopt opts r0) =
  if existsb is_update_opt opts then spec_um_opts opts
  else match w_update r0 with None => None | Some ps => Some (ps ++ flat_map more_update_paths opts) end.
Proof.
  induction opts as [|o r IH]; intros r0; simpl.
  - destruct (w_update r0); [rewrite app_nil_r|]; reflexivity.
  - rewrite IH. destruct (existsb is_update_opt r) eqn:Er.
    + rewrite orb_true_r. reflexivity.
    + rewrite orb_false_r.
      destruct o as [m|m|m| |m|]; simpl; try reflexivity; try (destruct m; reflexivity).
      all: destruct (w_update r0) as [ps|] eqn:E0; simpl; rewrite ?E0; try rewrite app_assoc; reflexivity.
Qed.

Theorem spec_um_opts_is_fold : forall opts, spec_um_opts opts = w_update (compute_wreq opts).
Proof.
  intros opts. unfold compute_wreq. rewrite upd_fold. simpl.
  destruct (existsb is_update_opt opts) eqn:E; auto.
  induction opts as [|o r IH]; simpl in *; auto.
  apply orb_false_iff in E. destruct E as [Eo Er]. rewrite Er. destruct o; simpl in *; try discriminate; auto.
Qed.

Lemma rst_fold : forall opts r0,
  w_reset (fold_left apply_wopt opts r0) =
  if existsb is_reset_opt opts then spec_rm_opts opts else w_reset r0.
Proof.
  induction opts as [|o r IH]; intros r0; simpl; auto.
  rewrite IH. destruct (existsb is_reset_opt r) eqn:Er.
  - rewrite orb_true_r. reflexivity.
  - rewrite orb_false_r. destruct o; simpl; try reflexivity.
    destruct (w_update r0); reflexivity.
Qed.

Theorem spec_rm_opts_is_fold : forall opts, spec_rm_opts opts = w_reset (compute_wreq opts).
Proof.
  intros opts. unfold compute_wreq. rewrite rst_fold. simpl.
  destruct (existsb is_reset_opt opts) eqn:E; auto.
  induction opts as [|o r IH]; simpl in *; auto.
  apply orb_false_iff in E. destruct E as [Eo Er]. rewrite Er. destruct o; simpl in *; try discriminate; auto.
Qed.

(* the writable paths: nil together, and otherwise the same selection *)
Theorem spec_weff_opts_is_fold : forall resw opts,
  (spec_weff_opts resw opts = None <-> wreq_writable resw (compute_wreq opts) = None) /\
  (forall l l', spec_weff_opts resw opts = Some l -> wreq_writable resw (compute_wreq opts) = Some l' ->
     forall p, covers l p <-> covers l' p).
Proof.
  intros resw opts. unfold spec_weff_opts, wreq_writable. rewrite all_writable_of_opts.
  destruct (existsb is_allw_opt opts); [split; [tauto|discriminate]|].
  destruct resw as [w|]; [|split; [tauto|discriminate]].
  split; [split; discriminate|].
  intros l l' H1 H2 p. inversion H1. inversion H2. subst.
  rewrite covers_app, union_covers_iff.
  rewrite (proj2 (proj2 (more_writable_of_opts opts)) p). tauto.
Qed.

(* so the code the judge expects for an option list is the code Validate answers on the model's request
   record, whenever the generator's validity tags are right about the masks in force *)
Theorem expected_code_opts_sound : forall ty resw opts mtag rtag,
  ((mtag =? 0) = valid_or the_schema ty (spec_um_opts opts)) ->
  ((rtag =? 0) = valid_or the_schema ty (spec_rm_opts opts)) ->
  expected_code (spec_um_opts opts) (spec_weff_opts resw opts) mtag rtag (spec_rm_opts opts) =
  validate_update the_schema ty (w_update (compute_wreq opts)) (wreq_writable resw (compute_wreq opts))
                  (w_reset (compute_wreq opts)).
Proof.
  intros ty resw opts mtag rtag Hm Hr.
  rewrite <- spec_um_opts_is_fold, <- spec_rm_opts_is_fold.
  destruct (spec_weff_opts_is_fold resw opts) as [Hn Hc].
  unfold expected_code, validate_update.
  destruct (spec_um_opts opts) as [ps|] eqn:Eu.
  - simpl in Hm. rewrite Hm. destruct (fm_valid the_schema ty ps); simpl; [|reflexivity].
    destruct (spec_weff_opts resw opts) as [l|] eqn:El;
      destruct (wreq_writable resw (compute_wreq opts)) as [l'|] eqn:El'.
    + assert (forallb (fun p => existsb (fun w => is_prefix w p) l) ps =
              forallb (fun p => within_any p l') ps) as ->.
      { clear -Hc. specialize (Hc l l' eq_refl eq_refl).
        induction ps as [|p ps IH]; simpl; auto. rewrite IH. f_equal.
        change (existsb (fun w => is_prefix w p) l) with (within_any p l).
        destruct (within_any p l) eqn:E1, (within_any p l') eqn:E2; auto.
        - apply within_any_covers in E1. apply Hc in E1. apply within_any_covers in E1. congruence.
        - apply within_any_covers in E2. apply Hc in E2. apply within_any_covers in E2. congruence. }
      rewrite Hr. reflexivity.
    + destruct Hn as [_ Hn]. specialize (Hn eq_refl). discriminate.
    + destruct Hn as [Hn _]. specialize (Hn eq_refl). discriminate.
    + rewrite Hr. reflexivity.
  - rewrite Hr. reflexivity.
Qed.
